"""C16: class statement / lookup / binding forms beyond the generated class DAGs (special methods found
through the MRO, functions stored on instances, late class attributes, bound methods kept across rebinding,
__getattr__ fallback ...).  Not used: super(), property, __call__ on instances, __eq__/__bool__ dispatch
(absent in gpython: limitations, not lookup defects)."""
FORMS = [
 "class A:\n    def f(self): return 'A.f'\nclass B(A):\n    def f(self): return 'B.f>' + A.f(self)\nclass C(B):\n    pass\nprint(C().f(), B.f(C()), A.f(B()))",
 "class K:\n    def m(self): return 'method'\ndef free(*a): return ('free', len(a))\nk = K()\nk.m = free\nK.n = free\nprint(k.m(), k.n(), K.n(1, 2))",
 "class K:\n    def m(self, v): return (self.tag, v)\na = K(); a.tag = 'a'\nb = K(); b.tag = 'b'\nbm = a.m\nprint(bm(1), K.m(b, 2), [g(3) for g in (a.m, b.m)])",
 "class K:\n    tag = 'cls'\n    def m(self): return self.tag\nk = K()\nbm = k.m\nk.tag = 'inst'\nprint(bm(), K.m(k))\ndel k.tag\nprint(bm())",
 "class A:\n    @classmethod\n    def who(cls): return cls.name\n    name = 'A'\nclass B(A):\n    name = 'B'\nprint(A.who(), B.who(), B().who(), A().who())",
 "class A:\n    @staticmethod\n    def s(x): return ('s', x)\n    def call(self): return self.s(1), A.s(2)\nclass B(A):\n    pass\nprint(B().call(), B.s(3))",
 "class G:\n    y = 'class y'\n    def __getattr__(self, name): return 'dyn ' + name\ng = G()\ng.z = 'inst z'\nprint(g.y, g.z, g.w)",
 "class A:\n    def __getattr__(self, name): return 'A dyn ' + name\nclass B(A):\n    b = 1\nprint(B().b, B().q)",
 'class K:\n    v = [1]\na = K(); b = K()\na.v = [2]\nb.v.append(3)\nprint(a.v, b.v, K.v)',
 'class K:\n    count = 0\n    def bump(self): self.count += 1\na = K(); b = K()\na.bump(); a.bump(); b.bump()\nprint(a.count, b.count, K.count)',
 "class A:\n    def f(self): return 'A'\n    def g(self): return 'g' + self.f()\nclass B(A):\n    def f(self): return 'B'\nclass C(B):\n    pass\nclass D(C):\n    def f(self): return 'D'\nprint(A().g(), B().g(), C().g(), D().g())",
 "class X:\n    a = 'X'\nclass Y:\n    a = 'Y'\n    b = 'Yb'\nclass Z(X, Y):\n    pass\nclass W(Y, X):\n    pass\nprint(Z.a, Z.b, W.a, W().a, Z().b)",
 "class O1:\n    def f(self): return 'O1'\nclass O2:\n    def f(self): return 'O2'\nclass M1(O1, O2): pass\nclass M2(O2, O1): pass\ntry:\n    class Bad(M1, M2): pass\n    print('accepted')\nexcept TypeError:\n    print('TypeError')\nprint(M1().f(), M2().f())",
 "class A:\n    pass\nclass B(A):\n    pass\nb = B()\nA.late = 'late'\nprint(b.late, B.late)\nB.late = 'b late'\nprint(b.late, A.late)\ndel B.late\nprint(b.late)",
 'class A:\n    def f(self): return 1\nclass B(A):\n    pass\nb = B()\nbound = b.f\nA.f = lambda self: 2\nprint(b.f(), bound())',
 "class C:\n    def __init__(self): self.who = 'C'\nclass D(C):\n    def __init__(self):\n        C.__init__(self)\n        self.who += 'D'\nclass E(D):\n    pass\nprint(E().who)",
 "def outside(self): return ('outside', self.t)\nclass K:\n    t = 9\n    m = outside\nprint(K().m(), K.m(K()))",
 "class K:\n    def a(self): return self.b()\n    def b(self): return 'K.b'\nclass L(K):\n    def b(self): return 'L.b'\nm = K.a\nprint(m(L()), m(K()), L().a())",
 "class A:\n    v = 'A'\n    def show(self): return self.v\nclass B(A):\n    v = 'B'\nclass C(A):\n    pass\nx = C()\nprint(A().show(), B().show(), x.show())\nC.v = 'C now'\nprint(x.show())",
 "class A:\n    def __str__(self): return 'str A'\n    def __repr__(self): return 'repr A'\nclass B(A):\n    def __repr__(self): return 'repr B'\nprint(str(B()), repr(B()), [A(), B()])",
 'class It:\n    def __iter__(self): return iter([1, 2])\nclass Sub(It):\n    pass\nprint(list(Sub()), [v for v in Sub()])',
 'class L:\n    def __len__(self): return 3\n    def __getitem__(self, i): return i * 2\nclass M(L):\n    def __len__(self): return 1\nprint(len(L()), len(M()), M()[4], bool(M()))',
 'class C:\n    def __contains__(self, v): return v == 3\nclass D(C):\n    pass\nprint(3 in D(), 4 in D())',
]
