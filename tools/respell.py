"""Re-spell a Python source text: same token sequence (modulo literal spellings), different layout.
The result is not guaranteed to parse (the check compares gpython with CPython on whatever comes out)."""
import io, tokenize, token, random, re

def respell_number(rnd, s):
    try:
        if re.fullmatch(r"[0-9]+", s):
            v = int(s); k = rnd.random()
            if k < 0.15: return hex(v) if rnd.random() < 0.5 else hex(v).upper().replace("0X", "0X")
            if k < 0.25: return oct(v) if rnd.random() < 0.5 else oct(v).replace("0o", "0O")
            if k < 0.35: return bin(v) if rnd.random() < 0.5 else bin(v).replace("0b", "0B")
            if k < 0.4 and v == 0: return "0" * rnd.randint(1, 4)
            if k < 0.45: return "%d.0" % v if False else s
            return s
        if re.fullmatch(r"[0-9]*\.[0-9]*", s) and s != ".":
            v = float(s); k = rnd.random()
            if k < 0.2: return "%re0" % v if "e" not in repr(v) else repr(v)
            if k < 0.3 and s.endswith(".0"): return s[:-1]
            if k < 0.4 and s.startswith("0."): return s[1:]
            if k < 0.5: return s + "E+0"
            return s
    except (ValueError, OverflowError): pass
    return s

def respell_string(rnd, s):
    m = re.fullmatch(r"([bBrRuU]*)('''|\"\"\"|'|\")(.*)\2", s, re.S)
    if not m or "r" in m.group(1).lower(): return s
    prefix, q, body = m.groups()
    try: val = eval(s)
    except Exception: return s
    isbytes = isinstance(val, bytes)
    chars = list(val)
    def one(c):
        o = c if isbytes else ord(c)
        ch = bytes([o]).decode("latin-1") if isbytes else c
        k = rnd.random()
        if o < 256 and k < 0.15: return "\\x%02x" % o
        if o < 512 and k < 0.25: return "\\%03o" % o
        if o < 8 and k < 0.3 : return "\\%o" % o + ("" if False else "")
        if not isbytes and o < 65536 and k < 0.4: return "\\u%04x" % o
        if not isbytes and k < 0.45: return "\\U%08x" % o
        named = {7: "\\a", 8: "\\b", 9: "\\t", 10: "\\n", 11: "\\v", 12: "\\f", 13: "\\r", 92: "\\\\", 39: "\\'", 34: '\\"'}
        if o in named: return named[o]
        if o < 32 or o == 127 or (isbytes and o > 126): return "\\x%02x" % o
        return ch
    parts = []
    cuts = sorted(rnd.sample(range(len(chars) + 1), min(len(chars) + 1, rnd.choice([0, 0, 1, 2])))) if chars else []
    segs = []; last = 0
    for c in cuts + [len(chars)]:
        segs.append(chars[last:c]); last = c
    out = []
    for seg in segs:
        quote = rnd.choice(["'", '"', "'''", '"""'])
        text = "".join(one(c) for c in seg)
        # an octal escape of 1-2 digits must not be followed by a digit: we only emit 3-digit ones except \0..\7 at the very end
        text = re.sub(r"\\([0-7])(?=[0-7])", lambda m_: "\\00" + m_.group(1), text)
        pre = rnd.choice(["b", "B"]) if isbytes else rnd.choice(["", "", "", "u" if False else ""])
        out.append(pre + quote + text + quote)
    return rnd.choice([" ", "  ", ""]).join(out) if len(out) > 1 else out[0]

def respell(rnd, src):
    try:
        toks = list(tokenize.generate_tokens(io.StringIO(src).readline))
    except (tokenize.TokenError, IndentationError, SyntaxError):
        return src
    out = []; depth = 0; indents = [""]; at_line_start = True; prev = None
    unit = rnd.choice([" ", "  ", "   ", "    ", "    ", "\t", "        "])
    for t in toks:
        tt, s = t.type, t.string
        if tt == token.ENCODING or tt == token.ENDMARKER: continue
        if tt == token.INDENT:
            indents.append(indents[-1] + (unit if rnd.random() < 0.9 else rnd.choice([" ", "  ", "\t"]))); continue
        if tt == token.DEDENT:
            if len(indents) > 1: indents.pop()
            continue
        if tt == token.NEWLINE:
            if rnd.random() < 0.1: out.append(rnd.choice(["  ", " # c", "# x = ("]))
            out.append("\n")
            if rnd.random() < 0.08: out.append(rnd.choice(["\n", "   \n", "# comment\n", "\t\n", "        # deep\n"]))
            at_line_start = True; prev = None; continue
        if tt == tokenize.NL or tt == tokenize.COMMENT:
            continue
        if at_line_start:
            out.append(indents[-1]); at_line_start = False
        elif prev is not None:
            tight = (prev in "([{" or s in ")]},:;" or prev in ",;" or s in "([" and prev not in ("",)) 
            k = rnd.random()
            need = (prev[-1].isalnum() or prev[-1] == "_" or prev[-1] in "'\"") and (s[0].isalnum() or s[0] == "_" or s[0] in "'\"")
            opmerge = (not prev[-1].isalnum()) and (not s[0].isalnum()) and prev[-1] not in "([{)]}'\"_," and s[0] not in "([{)]},'\"_"
            if depth > 0 and k < 0.06: out.append(rnd.choice(["\n", "\n    ", "\n\t", " # c\n  "]))
            elif depth == 0 and k < 0.05 and prev not in (":",): out.append(" \\\n" + rnd.choice(["", "  ", "\t"]))
            elif (need or opmerge or prev[-1] == "." or s[0] == "." and prev[-1].isdigit()) : out.append(rnd.choice([" ", " ", "  ", "\t"]))
            elif k < 0.5: out.append("")
            else: out.append(rnd.choice([" ", "  "]))
        if tt == token.NUMBER: s2 = respell_number(rnd, s)
        elif tt == token.STRING: s2 = respell_string(rnd, s)
        else: s2 = s
        if tt == token.OP:
            if s in "([{": depth += 1
            elif s in ")]}":
                depth = max(0, depth - 1)
                if prev not in ("(", "[", "{", ",") and rnd.random() < 0.1 and s != ")": out.append(",")   # trailing comma in displays
        out.append(s2); prev = s
        if tt == token.OP and s == ";" : prev = ";"
    return "".join(out)
