#!/usr/bin/env python3
"""confirm_seed.py <seed-dir>: in a scratch worktree of /repo HEAD, confirm that the seeded change
builds, passes the existing tests, and that its demonstration fails with it and passes without it.
Writes the outcome into meta.json["confirmed"]."""
import json, os, shutil, subprocess, sys, tempfile, time
ENV = dict(os.environ, GOFLAGS="-mod=mod", GOPROXY="off", GOSUMDB="off", GOTOOLCHAIN="local")
def sh(cmd, cwd, timeout=900):
    p = subprocess.run(cmd, cwd=cwd, env=ENV, shell=True, stdout=subprocess.PIPE, stderr=subprocess.STDOUT, text=True, timeout=timeout)
    return p.returncode, p.stdout
def demo(meta, sd, wt):
    d = meta["demo"]; ok = True; log = ""
    if d["kind"] == "py":
        rc, out = sh("go build -o %s/gp_seed ." % wt, wt); log += out
        for prog, exp in d["progs"]:
            shutil.copy(os.path.join(sd, prog), os.path.join(wt, "_seed_" + os.path.basename(prog)))
            rc, out = sh("timeout 60 ./gp_seed _seed_%s" % os.path.basename(prog), wt)
            if exp:
                want = open(os.path.join(sd, exp)).read()
                good = rc == 0 and out.strip() == want.strip()
            else:
                good = rc == 0
            ok = ok and good; log += "[%s rc=%d good=%s]\n%s\n" % (prog, rc, good, out[-600:])
            os.remove(os.path.join(wt, "_seed_" + os.path.basename(prog)))
        os.remove(os.path.join(wt, "gp_seed"))
    elif d["kind"] == "pydir":
        rc, out = sh("go build -o %s/gp_seed ." % wt, wt); log += out
        dd = os.path.join(wt, "_seed_dir"); shutil.copytree(os.path.join(sd, d["dir"]), dd)
        rc, out = sh("timeout 60 ../gp_seed %s" % d["prog"], dd)
        want = open(os.path.join(sd, d["dir"], d["expected"])).read()
        ok = rc == 0 and out.strip() == want.strip(); log += "[rc=%d]\n%s\n" % (rc, out[-600:])
        shutil.rmtree(dd); os.remove(os.path.join(wt, "gp_seed"))
    elif d["kind"] == "gomain":
        # a Go main program with its own module (replace directive rewritten to the scratch worktree); exit 0 = pass
        dd = tempfile.mkdtemp(prefix="seedmain-", dir="/tmp")
        for f in os.listdir(os.path.join(sd, d["dir"])): shutil.copy(os.path.join(sd, d["dir"], f), dd)
        gm = open(os.path.join(dd, "go.mod")).read().split("replace ")[0] + "replace github.com/go-python/gpython => %s\n" % wt
        open(os.path.join(dd, "go.mod"), "w").write(gm); shutil.copy(os.path.join(wt, "go.sum"), dd)
        rc, out = sh("timeout 300 go run .", dd)
        ok = rc == 0; log += "[rc=%d]\n%s\n" % (rc, out[-900:])
        shutil.rmtree(dd)
    else:
        dst = os.path.join(wt, d["pkg"], os.path.basename(d["file"]))
        shutil.copy(os.path.join(sd, d["file"]), dst)
        rc, out = sh("go test -vet=off -count=1 -run '%s' %s" % (d["run"], d["pkg"]), wt)
        ok = rc == 0; log += out[-1500:]
        os.remove(dst)
    return ok, log
def main():
    sd = os.path.abspath(sys.argv[1]); meta = json.load(open(os.path.join(sd, "meta.json")))
    wt = tempfile.mkdtemp(prefix="seedchk-", dir="/tmp"); os.rmdir(wt)
    subprocess.run(["git", "-C", "/repo", "worktree", "add", "--detach", wt, "HEAD"], check=True, stdout=subprocess.DEVNULL, stderr=subprocess.DEVNULL)
    res = {}
    try:
        ok0, log0 = demo(meta, sd, wt); res["demo_passes_without_change"] = ok0
        rc, out = sh("git apply %s" % os.path.join(sd, "patch.diff"), wt); res["patch_applies"] = rc == 0
        if rc == 0:
            rc, out = sh("go build ./... && go test -vet=off -count=1 ./... 2>&1 | grep -v 'no test files'", wt, timeout=1800)
            res["build_and_tests_pass_with_change"] = rc == 0 and "FAIL" not in out
            ok1, log1 = demo(meta, sd, wt); res["demo_fails_with_change"] = not ok1
            res["demo_output_with_change"] = log1[-800:]
        res["repo_head"] = subprocess.run(["git", "-C", "/repo", "rev-parse", "--short", "HEAD"], stdout=subprocess.PIPE, text=True).stdout.strip()
        res["at"] = time.strftime("%Y-%m-%dT%H:%M:%SZ", time.gmtime())
    finally:
        subprocess.run(["git", "-C", "/repo", "worktree", "remove", "--force", wt])
    meta["confirmed"] = res
    json.dump(meta, open(os.path.join(sd, "meta.json"), "w"), indent=1)
    print(os.path.basename(sd), {k: v for k, v in res.items() if k != "demo_output_with_change"})
main()
