#!/usr/bin/env python3
"""Rewrite the audited tables of Props/C10.v (unchecked assertions / indexing / panics per function)
and Props/C11.v (explicit panic sites per function and payload type) from the CURRENT regenerated
inventory.  Run by hand after reviewing a change to /repo (a deliberate act of the auditor): never
called by a check."""
import os, re, sys, collections
sys.path.insert(0, os.path.dirname(os.path.abspath(__file__)))
import vlib, regen
print(vlib.go_build()); print(regen.regen_inventories()[0])
inv = open(os.path.join(vlib.COQ, "Gen", "Inventories.v")).read()
def block(name):
    b = inv[inv.index("Definition " + name):]
    return b[:b.index("\n].")]
# C10
rows = re.findall(r'\("([^"]*)", "([^"]*)", (\d+), (\d+), (\d+), (\d+)\)', block("risky_counts"))
aud = ";\n".join('  ("%s", "%s", %s%%nat, %s%%nat, %s%%nat, %s%%nat)' % r for r in rows)
p = os.path.join(vlib.COQ, "Props", "C10.v"); s = open(p).read()
i = s.index("Definition audited_risky"); j = s.index("\n].", i)
s = s[:i] + "Definition audited_risky : list (string * string * nat * nat * nat * nat) := [\n" + aud + s[j:]
open(p, "w").write(s); print("C10:", len(rows), "functions")
# C11
rows = re.findall(r'\("([^"]*)", "([^"]*)", "([^"]*)", "([^"]*)"\)', block("panic_sites"))
cnt = collections.Counter((a, b, d) for a, b, c, d in rows)
aud = ";\n".join('  ("%s", "%s", "%s", %d%%nat)' % (a, b, d, v) for (a, b, d), v in sorted(cnt.items()))
p = os.path.join(vlib.COQ, "Props", "C11.v"); s = open(p).read()
i = s.index("Definition audited_panics"); j = s.index("\n].", i)
s = s[:i] + "Definition audited_panics : list (string * string * string * nat) := [\n" + aud + s[j:]
open(p, "w").write(s); print("C11:", len(cnt), "site groups")
