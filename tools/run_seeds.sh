#!/bin/sh
# run_seeds.sh <seed-dir>...: apply each seeded change to /repo, run its property's quick check, undo it.
# Never run while another check is using /repo.  Evidence written during these runs is from a changed
# tree: finish with tools/refresh_evidence.sh.
cd /verif
for d in "$@"; do
  d=$(realpath "$d"); id=$(basename "$d" | cut -c1-3)
  if [ -n "$(git -C /repo status --porcelain)" ]; then echo "/repo not clean"; exit 2; fi
  git -C /repo apply "$d/patch.diff" || { echo "SEED $d: patch does not apply"; continue; }
  s=$(date +%s)
  out=$(timeout 3000 python3 tools/check.py "$id" --tier quick 2>&1 | grep -v "^KNOWN\|conda" | tail -3)
  git -C /repo checkout -- .
  echo "SEED $(basename $d) [$(( $(date +%s) - s ))s]: $out"
done
