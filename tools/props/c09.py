"""C09: lifecycle.  P: Props/C09.v over the regenerated Gen/Lifecycle.v.  T: model traces replayed
on the real code through the yield hooks."""
import itertools, json, os, random
import vlib

KINDS = {"R": "KRun", "M": "KMod", "S": "KRes", "C": "KClose", "W": "KWait"}
THEOREMS = ["C09_program_is_expected", "C09_safe", "C09_refuse_after_close", "C09_no_deadlock", "C09_close_returns_closed"]

def cfg_term(c):
    return "[" + "; ".join(KINDS[k] for k in c) + "]"

def configs(tier):
    ex = [c for n in (1, 2) for c in map("".join, itertools.combinations_with_replacement("RMSCW", n))]
    ex3 = ["RRC", "RCC", "CCC", "RCW", "CCW", "RSC", "RRR", "SCC", "RWW", "CWW"]
    rnd = ["MRC", "MCC", "MMC", "MCW", "MSC", "RRCC", "RMCC", "RCCW", "RRCW", "MCCW"]
    if tier == "thorough":
        ex3 = [c for c in map("".join, itertools.combinations_with_replacement("RSCW", 3))]
        rnd += ["RRRCC", "RMSCW", "MMCC", "RRCCW", "MRCCW", "SSCC"]
    return ex + ex3, rnd

def model_traces(res, prog, tier, seed):
    ex, rnd = configs(tier)
    nwalk = 150 if tier == "quick" else 3000
    out = {}
    text = "From Coq Require Import List NArith. Import ListNotations.\nFrom GP Require Import Model.Lifecycle.\n"
    text += "From GP Require %s.\n" % prog.rsplit(".", 1)[0] if prog.startswith("Gen") else ""
    for c in ex:
        text += 'Goal True. idtac "@@%s". Abort.\n' % c
        text += "Eval vm_compute in map (observed %s %s) (traces (fuel_of %s %s) (init %s %s)).\n" % (
            prog, cfg_term(c), prog, cfg_term(c), prog, cfg_term(c))
    for j, c in enumerate(rnd):
        text += 'Goal True. idtac "@@%s". Abort.\n' % c
        text += "Eval vm_compute in map (observed %s %s) (walks %d (fuel_of %s %s) %d%%N (init %s %s)).\n" % (
            prog, cfg_term(c), nwalk, prog, cfg_term(c), seed * 1000003 + j * 7919 + 17, prog, cfg_term(c))
    rc, o = vlib.coqc_run("C09_traces", text, timeout=1500)
    if rc != 0:
        return None, o
    blocks = o.split("@@")[1:]
    for b in blocks:
        name, _, rest = b.partition("\n")
        val = vlib.parse_coq_value(rest)
        if val is None:
            return None, "cannot parse model output for " + name + ": " + rest[:500]
        seen = set(); lst = []
        for tr, ob in val:
            k = tuple(tr)
            if k in seen:
                continue
            seen.add(k); lst.append((list(tr), ob))
        out[name.strip()] = lst
    return out, ""

def run_impl(cases):
    """cases: list of (cfg, trace) -> list of observation dicts (parallel)"""
    import concurrent.futures
    chunks = [cases[i::16] for i in range(16)]
    def work(ch):
        if not ch:
            return []
        inp = "".join("%s;%s\n" % (c, t if isinstance(t, str) else " ".join(map(str, t))) for c, t in ch)
        rc, out = vlib.run_tool("impl", ["c09"], input=inp, timeout=1500)
        obs = []
        for line in out.splitlines():
            if line.startswith("{"):
                obs.append(json.loads(line))
        if len(obs) != len(ch):
            obs.append(dict(case="?", disagree="impl worker died: rc=%s tail=%s" % (rc, out[-800:]),
                            finished=[], refused=[], cb=-1, done=False, panic="worker", violations=[]))
        return list(zip(ch, obs))
    res = []
    with concurrent.futures.ThreadPoolExecutor(16) as ex:
        for r in ex.map(work, chunks):
            res += r
    return res

def compare(cfg, tr, model_obs, o):
    """returns (kind, text) or None.  kind: 'violation' (impl breaks the property) / 'tie'"""
    if o.get("panic"):
        return ("violation", "Go panic: " + o["panic"])
    if o.get("violations"):
        return ("violation", "; ".join(o["violations"]))
    if o.get("disagree"):
        d = o["disagree"]
        return ("violation" if "deadlock" in d or "did not reach" in d else "tie", d)
    if model_obs is None:
        return ("tie", "model cannot run its own trace")
    (threads, cb, done, panic) = model_obs
    fin = [bool(t[0]) for t in threads]; ref = [t[1] > 0 for t in threads]
    if fin != o["finished"] or ref != o["refused"] or cb != o["cb"] or bool(done) != o["done"] or panic:
        return ("tie", "model predicts finished=%s refused=%s cb=%s done=%s panic=%s, implementation shows finished=%s refused=%s cb=%s done=%s"
                % (fin, ref, cb, done, panic, o["finished"], o["refused"], o["cb"], o["done"]))
    return None

def stress(n, seed=1):
    """implementation-driven random schedule exploration through the yield hooks (search only:
    a blocked goroutine is recognised by a short timeout); only panics/violations are meaningful"""
    cases = []
    for cfg in ["RC", "RCC", "RRC", "MC", "SC", "RCW", "RCCW", "MCC"]:
        cases += [(cfg, "explore %d" % (seed * 100000 + i)) for i in range(n)]
    return run_impl(cases)

def check(res):
    tier, seed = res.tier, res.seed
    res.trusted = vlib.COMMON_TRUST + [
        "go/cmd/extract lifecycle: understands exactly the statements pushBusy/popBusy/Close and the three entry-point prologues use; anything else is Unsupported (tie broken)",
        "sync.WaitGroup, sync.Once, sync.Mutex and channels behave as documented (modelled, not verified)",
        "a critical section of ctx.mu is one atomic action (sound because every access to the flags it reads is under the same mutex; the extractor checks this)",
        "execution bodies are single terminating steps; a Close issued from inside an execution of the same context is outside the model"]
    res.assumptions = ["GOARCH=amd64", "model-driven scheduling through the verif yield hooks is faithful: the code between two yield points of one goroutine performs exactly the shared accesses of one model action"]
    rc, out = vlib.run_tool("extract", ["-repo", vlib.REPO, "-out", os.path.join(vlib.COQ, "Gen"), "-what", "lifecycle"])
    extracted = rc == 0
    res.oblige("extract: stdlib.go lifecycle is inside the extractor's subset", extracted, out.strip()[-1500:])
    built, mlog = vlib.coq_make()
    p_ok = extracted and "Props/C09.vo" in built
    assum = None
    if p_ok:
        assum, alog = vlib.print_assumptions("C09", ["Props.C09"], THEOREMS)
        p_ok = assum is not None
    for t in THEOREMS:
        res.oblige("theorem " + t, p_ok, (assum or {}).get(t, "") if p_ok else "Props/C09.v does not compile on the regenerated Gen/Lifecycle.v")
    if assum:
        res.trusted.append("Print Assumptions: " + "; ".join("%s: %s" % kv for kv in assum.items()))

    prog = "Gen.Lifecycle.prog" if extracted and "Gen/Lifecycle.vo" in built else None
    n_cases = 0; n_nontrivial = 0; samples = []; dist = {}
    tie_problem = None; counterexample = None
    if prog:
        traces, err = model_traces(res, prog, tier, seed)
        if traces is None:
            tie_problem = "model trace generation failed: " + err[-1500:]
        else:
            cases = []; expect = {}
            for cfg, lst in traces.items():
                dist[cfg] = len(lst)
                for tr, ob in lst:
                    cases.append((cfg, tr)); expect[(cfg, tuple(tr))] = ob
            n_cases = len(cases)
            distinct = set()
            for (cfg, tr), o in run_impl(cases):
                ob = expect.get((cfg, tuple(tr)))
                if "C" in cfg and any(k in cfg for k in "RMS"):
                    distinct.add((cfg, tuple(tr)))
                c = compare(cfg, tr, ob, o)
                if len(samples) < 3 and c is None and len(tr) > 8:
                    samples.append(dict(config=cfg, trace=tr, model=ob, impl={k: o[k] for k in ("finished", "refused", "cb", "done")}))
                if c and c[0] == "violation" and not counterexample:
                    counterexample = (cfg, tr, ob, o, c[1])
                elif c and not tie_problem:
                    tie_problem = "config %s trace %s: %s" % (cfg, tr, c[1])
            n_nontrivial = len(distinct)
    res.oblige("correspondence: every model trace replays on the implementation with the predicted observations",
               prog is not None and not tie_problem and not counterexample, tie_problem or "")
    res.coverage.update(evaluations=n_cases, distinct_nontrivial=n_nontrivial,
        rule="maximal interleavings of the lifecycle model (exhaustive for the small configurations, seeded random walks for the others), each replayed on the real context through the yield hooks; non-trivial = a trace that interleaves at least one Close with at least one execution request; distinct by (configuration, trace)",
        samples=samples, traces_validated_against_impl=n_cases, distribution=dict(traces_per_configuration=dist),
        modelled_not_verified=["sync primitives", "py.Compile/vm.EvalCode as the opaque body"])

    if counterexample:
        cfg, tr, ob, o, why = counterexample
        res.violation("counterexample", why, dict(input=dict(config=cfg, trace=tr), expected=ob, observed=o,
                      how_to_rerun="python3 tools/check.py C09 --replay <this file>"))
        return
    if p_ok and not tie_problem:
        return
    # P or T broken: search for a failing input
    found = None
    if prog:
        ex, rnd = configs("quick")
        text = "From Coq Require Import List. Import ListNotations.\nFrom GP Require Import Model.Lifecycle.\nFrom GP Require Gen.Lifecycle.\n"
        cands = [c for c in ex if len(c) <= 3] + ["MC", "MCC", "RMC"]
        for c in cands:
            text += 'Goal True. idtac "@@%s". Abort.\nEval vm_compute in search %s (fuel_of %s %s) (init %s %s) [].\n' % (c, prog, prog, cfg_term(c), prog, cfg_term(c))
        rc, o = vlib.coqc_run("C09_search", text, timeout=1500)
        model_cex = []
        if rc == 0:
            for b in o.split("@@")[1:]:
                name, _, rest = b.partition("\n")
                if "None" in rest.split(":")[0]:
                    continue
                v = vlib.parse_coq_value(rest)
                if v is not None:
                    model_cex.append((name.strip(), list(v)))
        # certify by the kernel and replay on the implementation
        for cfg, tr in model_cex[:8]:
            w = ("From Coq Require Import List. Import ListNotations.\nFrom GP Require Import Model.Lifecycle.\nFrom GP Require Gen.Lifecycle.\n"
                 "Example witness : match run (init %s %s) %s with Some st => violates %s st | None => false end = true.\nProof. vm_compute. reflexivity. Qed.\n"
                 % (prog, cfg_term(cfg), "[" + "; ".join(map(str, tr)) + "]", prog))
            rc, _ = vlib.coqc_run("Witness_C09", w)
            if rc != 0:
                continue
            for (_, _), ob in run_impl([(cfg, tr)]):
                bad = ob.get("panic") or ob.get("violations") or ("deadlock" in (ob.get("disagree") or "")) or ("did not reach" in (ob.get("disagree") or ""))
                if bad and not found:
                    found = dict(input=dict(config=cfg, trace=tr), observed=ob,
                                 expected="no panic, no early Done, callbacks once with no execution inside, refusal after Close",
                                 model="kernel-certified violating trace of the regenerated program (Run/Witness_C09.v)")
            if found:
                break
        if not found and model_cex:
            res.notes.append("model has violating traces %s but the yield-hook replay did not reproduce them" % model_cex[:3])
    if not found:
        for (cfg, tr), ob in stress(60 if tier == "quick" else 2000, res.seed):
            if ob.get("panic") or ob.get("violations"):
                sched = [int(x) for x in ob.get("case", "").split("]")[-1].split()]
                found = dict(input=dict(config=cfg, trace=sched, found_by=tr), observed=ob,
                             expected="no panic / no early Done / no early Close return / callbacks once with nothing inside")
                break
    what = ("theorems of Props/C09.v (" + ", ".join(THEOREMS) + ")") if not p_ok else "correspondence model-trace replay"
    detail = dict(theorem_or_correspondence=what, extractor=out.strip()[-1500:],
                  coqc_error=[l for l in mlog.splitlines() if "Error" in l or "C09" in l][-20:], tie=tie_problem)
    if found:
        found.update(detail)
        res.violation("counterexample", "lifecycle violates C09 on a concrete schedule", found)
    else:
        res.violation("proof-broken" if not p_ok else "tie-broken", "C09 no longer shown: " + what, detail, no_input=True)

def replay(path):
    d = json.load(open(path))
    inp = d.get("input") or {}
    err = vlib.go_build()
    if err:
        print(err); return 2
    tr = inp.get("trace")
    if not isinstance(tr, list):
        tr = []
    for (_, _), ob in run_impl([(inp.get("config", "RC"), tr)]):
        print(json.dumps(ob, indent=1))
        bad = ob.get("panic") or ob.get("violations") or ob.get("disagree")
        return 1 if bad else 0
    return 2
