"""C16: MRO and attribute lookup.  P: Props/C16.v (C3 merge model: accepted => consistent
linearisation, inconsistent => rejected; lookup = first definition).  T: class-DAG programs run on
the implementation, compared inside Coq with the model's MRO (pairwise order probes) and with
CPython."""
import itertools, json, os, random
import vlib, pydiff
import forms_c16

THEOREMS = ["C16_linearization", "C16_reject", "C16_lookup"]

def c3(defs):
    """reference C3 (None if rejected) -> list of mros, or index of first rejected class"""
    mros = []
    for n, bs in enumerate(defs):
        if len(set(bs)) != len(bs): return n
        seqs = [list(mros[b]) for b in bs] + [list(bs)]
        res = [n]
        while any(seqs):
            for s in seqs:
                if not s: continue
                c = s[0]
                if not any(c in t[1:] for t in seqs): break
            else:
                return n
            res.append(c)
            for s in seqs:
                if s and s[0] == c: del s[0]
        mros.append(res)
    return mros

def all_dags(n):
    def rec(i, defs):
        if i == n:
            yield list(defs); return
        choices = [()]
        for k in (1, 2, 3):
            choices += list(itertools.permutations(range(i), k))
        for ch in choices:
            yield from rec(i + 1, defs + [list(ch)])
    return rec(0, [])

def gen_dags(tier, seed):
    rnd = random.Random(seed)
    out = []
    for n in (1, 2, 3, 4):
        out += list(all_dags(n))
    def rand_dag(n):
        return [sorted(rnd.sample(range(i), min(i, rnd.choice([0, 1, 1, 2, 2, 3]))), key=lambda _: rnd.random()) for i in range(n)]
    out += [rand_dag(5) for _ in range(400 if tier == "quick" else 6000)]
    out += [rand_dag(6) for _ in range(150 if tier == "quick" else 4000)]
    keep = []; seen = set()
    for d in out:
        r = c3(d[:-1]) if len(d) > 1 else []
        if isinstance(r, int): continue          # only the last class may be inconsistent
        k = json.dumps(d)
        if k in seen: continue
        seen.add(k); keep.append(d)
    return keep

PRE = '''def show(f):
    try:
        print(f())
    except AttributeError: print('AttributeError')
    except TypeError: print('TypeError')
    except NameError: print('NameError')
'''

def program(defs, rnd):
    n = len(defs)
    lines = [PRE]; meta = []
    for i, bs in enumerate(defs):
        hdr = "class C%d(%s):" % (i, ", ".join("C%d" % b for b in bs)) if bs else "class C%d:" % i
        body = ["    tag = %d" % i]
        for a in range(n):
            for b in range(a + 1, n):
                if i in (a, b): body.append("    p_%d_%d = %d" % (a, b, i))
        body += ["    def f(self): return ('f', %d, self.tag)" % i,
                 "    @classmethod\n    def c(cls): return ('c', %d, cls.tag)" % i,
                 "    @staticmethod\n    def s(): return ('s', %d)" % i] if rnd.random() < 0.6 or i == 0 else []
        if i == n - 1:
            lines.append("try:\n" + "\n".join("    " + l.replace("\n", "\n    ") for l in [hdr] + body) + "\n    print('ACCEPT')\nexcept TypeError:\n    print('REJECT')")
            meta.append(dict(kind="accept", cls=i))
        else:
            lines.append("\n".join([hdr] + body))
    r = c3(defs)
    valid = n if not isinstance(r, int) else n - 1
    for k in range(valid):
        for a in range(n):
            for b in range(a + 1, n):
                lines.append("show(lambda: C%d.p_%d_%d)" % (k, a, b)); meta.append(dict(kind="cls_lookup", cls=k, a=a, b=b))
                lines.append("show(lambda: C%d().p_%d_%d)" % (k, a, b)); meta.append(dict(kind="inst_lookup", cls=k, a=a, b=b))
        for q in ("C%d().f()", "C%d.c()", "C%d().c()", "C%d.s()", "C%d().s()"):
            lines.append("show(lambda: %s)" % (q % k)); meta.append(dict(kind="binding", cls=k, q=q))
        lines.append("show(lambda: [isinstance(C%d(), K) for K in (%s,)])" % (k, ", ".join("C%d" % j for j in range(valid))))
        meta.append(dict(kind="isinstance", cls=k))
    # writes and deletes are local to the object they are applied to
    k = valid - 1
    lines.append("o = C%d(); o2 = C%d()\no.tag = 'inst'\nshow(lambda: (o.tag, o2.tag, C%d.tag))" % (k, k, k)); meta.append(dict(kind="inst_write", cls=k))
    lines.append("del o.tag\nshow(lambda: (o.tag, o2.tag))"); meta.append(dict(kind="inst_delete", cls=k))
    lines.append("C0.extra = 'c0'\nshow(lambda: [K.extra for K in (%s,)])" % ", ".join("C%d" % j for j in range(valid))); meta.append(dict(kind="class_write", cls=0))
    lines.append("C%d.extra = 'ck'\nshow(lambda: ([K.extra for K in (%s,)], o.extra))" % (k, ", ".join("C%d" % j for j in range(valid)))); meta.append(dict(kind="class_shadow", cls=k))
    if k != 0:
        lines.append("del C%d.extra\nshow(lambda: (C%d.extra if %s else 'nobase', C0.extra))" % (k, k, "True")); meta.append(dict(kind="class_delete", cls=k))
    return "\n".join(lines) + "\n", meta

def coq_cases(name, items):
    """items: (defs, accepted:bool|None, [(K,a,b,observed int or -1)])"""
    rows = []
    for defs, acc, qs in items:
        d = "[" + "; ".join("[" + "; ".join(map(str, bs)) + "]" for bs in defs) + "]"
        q = "[" + "; ".join("(%d, %d, %d, %d)" % t for t in qs) + "]"
        rows.append("(%s, %s, %s)" % (d, "true" if acc else "false", q))
    text = ("From Coq Require Import List Bool Arith. Import ListNotations.\nFrom GP Require Import Model.Mro.\n"
      "Definition first_of (m : list nat) (a b : nat) : nat := match find (fun c => Nat.eqb c a || Nat.eqb c b) m with Some c => c | None => 999 end.\n"
      "Definition ok1 (c : list (list nat) * bool * list (nat * nat * nat * nat)) : bool := let '(defs, acc, qs) := c in\n"
      "  match build_mros defs 0 [] with\n  | inl ms => acc && forallb (fun q => let '(k, a, b, o) := q in Nat.eqb (first_of (nth k ms []) a b) o) qs\n"
      "  | inr n => negb acc && Nat.eqb n (length defs - 1) && match build_mros (removelast defs) 0 [] with inl ms => forallb (fun q => let '(k, a, b, o) := q in Nat.eqb (first_of (nth k ms []) a b) o) qs | inr _ => false end\n  end.\n"
      "Definition cases := [\n" + ";\n".join(rows) + "].\n"
      "Fixpoint bad (i : nat) (l : list (list (list nat) * bool * list (nat * nat * nat * nat))) : list nat := match l with [] => [] | c :: r => if ok1 c then bad (S i) r else i :: bad (S i) r end.\n"
      "Definition M := Eval vm_compute in bad 0 cases.\nPrint M.\n")
    rc, out = vlib.coqc_run(name, text, timeout=400)
    if rc != 0: return None, out[-1500:]
    v = vlib.parse_coq_value("M " + out[out.find("M ="):].replace("M =", " =", 1)) if "M =" in out else None
    return v, out[-300:]

def check(res):
    tier, seed = res.tier, res.seed
    rnd = random.Random(seed)
    res.trusted = vlib.COMMON_TRUST + [
        "Model/Mro.v is hand-written from pmerge/mro_implementation/GetAttrString; tied to the code only by the correspondence (pairwise MRO order probes over generated class DAGs)",
        "descriptor binding (function/classmethod/staticmethod), isinstance and write locality are compared with CPython (validated oracle, testing)"]
    res.assumptions = ["CPython 3.11 agrees with Python 3.4 on class creation, C3 and attribute lookup for the generated programs"]
    built, mlog = vlib.coq_make()
    p_ok = "Props/C16.vo" in built
    assum = None
    if p_ok:
        assum, _ = vlib.print_assumptions("C16", ["Props.C16"], THEOREMS)
        p_ok = assum is not None
    for t in THEOREMS:
        res.oblige("theorem " + t, p_ok, (assum or {}).get(t, "") if p_ok else "Props/C16.v does not compile")
    if assum: res.trusted.append("Print Assumptions: " + "; ".join("%s: %s" % kv for kv in assum.items()))
    dags = gen_dags(tier, seed)
    progs = []; metas = []
    for d in dags:
        p, m = program(d, rnd); progs.append(p); metas.append(m)
    impl = pydiff.run_impl(progs); ref = pydiff.run_ref(progs)
    mism = []; items = []; nlines = 0; nontrivial = 0; dist = {}
    for d, m, a, b in zip(dags, metas, impl, ref):
        la = a.get("out", "").splitlines(); lb = b.get("out", "").splitlines()
        crashed = a.get("panic") or a.get("crash")
        if any(len(bs) >= 2 for bs in d): nontrivial += 1
        acc = None; qs = []
        for k, case in enumerate(m):
            nlines += 1; dist[case["kind"]] = dist.get(case["kind"], 0) + 1
            got = la[k] if k < len(la) else ("<GO PANIC %s>" % crashed if crashed else "<missing:%s %s>" % (a.get("err"), a.get("msg")))
            exp = lb[k] if k < len(lb) else "<missing>"
            if case["kind"] == "accept": acc = (got == "ACCEPT")
            if case["kind"] == "cls_lookup" and got.isdigit(): qs.append((case["cls"], case["a"], case["b"], int(got)))
            if case["kind"] == "cls_lookup" and got == "AttributeError": qs.append((case["cls"], case["a"], case["b"], 999))
            if got != exp:
                mism.append((dict(defs=d, **case), got, exp)); break
        items.append((d, True if acc is None else acc, qs))
    # class statement / lookup / binding forms beyond the DAG programs
    fa = pydiff.run_impl(forms_c16.FORMS); fb = pydiff.run_ref(forms_c16.FORMS)
    for f, x, y in zip(forms_c16.FORMS, fa, fb):
        nlines += 1; dist["form"] = dist.get("form", 0) + 1
        gx = "<GO PANIC %s>" % (x.get("panic") or x.get("crash")) if (x.get("panic") or x.get("crash")) else (x.get("out", ""), x.get("err", ""))
        if gx != (y.get("out", ""), y.get("err", "")): mism.append((dict(kind="form", source=f), str(gx)[:300], str((y.get("out", ""), y.get("err", "")))[:300]))
    tie_bad = []; tie_err = None
    if "Model/Mro.vo" in built:
        shards = [items[i::8] for i in range(8)]
        import concurrent.futures
        with concurrent.futures.ThreadPoolExecutor(8) as ex:
            for sh, (v, log) in zip(shards, ex.map(lambda a: coq_cases("C16_cases_%d" % a[0], a[1]), list(enumerate(shards)))):
                if v is None: tie_err = log
                else: tie_bad += [sh[i] for i in v]
    else:
        tie_err = "Model/Mro.v did not compile"
    res.oblige("correspondence: MRO order and acceptance of the model = implementation on %d class DAGs (vm_compute)" % len(items),
               tie_err is None and not tie_bad, tie_err or str([t[0] for t in tie_bad[:3]]))
    res.coverage.update(evaluations=nlines, distinct_nontrivial=nontrivial, programs=len(progs),
        rule="all class DAGs with <= 4 classes and <= 3 ordered bases each (only the last class may be inconsistent), seeded samples with 5 and 6 classes; every pair of classes defines a probe attribute so that each lookup reveals the relative MRO order; plus binding of functions/classmethods/staticmethods through classes and instances, isinstance, and locality of writes/deletes; %d fixed forms (special methods inherited along the MRO, functions stored on instances, late class attributes, bound methods kept across rebinding, __getattr__ fallback, explicit base-class calls); non-trivial = a DAG with multiple inheritance; distinct by DAG" % len(forms_c16.FORMS),
        samples=[dict(defs=dags[len(dags) // 2], first_lines=impl[len(dags) // 2].get("out", "").splitlines()[:4])],
        distribution=dict(dags=len(dags), lines_by_kind=dist), oracle_disagreements=len(mism),
        modelled_not_verified=["descriptor binding", "isinstance", "__getattr__/__getattribute__ hooks", "metaclasses"])
    if mism:
        case, got, exp = mism[0]
        res.violation("counterexample", "attribute lookup / MRO differs from Python",
                      dict(input=case, expected=exp, observed=got, others=[dict(input=c, observed=g, expected=e) for c, g, e in mism[1:6]]))
        return
    if not p_ok or tie_bad or tie_err:
        what = "theorems of Props/C16.v" if not p_ok else "correspondence MRO model vs implementation"
        res.violation("proof-broken" if not p_ok else "tie-broken", "C16 no longer shown: " + what,
                      dict(theorem_or_correspondence=what, coqc_error=[l for l in mlog.splitlines() if "rror" in l][-10:],
                           first_disagreements=[t[0] for t in tie_bad[:5]], tie_error=tie_err), no_input=True)

def replay(path):
    d = json.load(open(path)); print(json.dumps(d, indent=1)[:3000]); return 1
