"""C14: strings as code-point sequences; repr round trip.  P: Props/C14.v (len/pos/slice over UTF-8).
T: slices computed by the implementation = the model's str_slice (vm_compute).  Oracle: CPython on
every operation over strings from a mixed-width alphabet; eval(repr(x)) == x inside gpython."""
import itertools, json, os, random, concurrent.futures
import vlib, pydiff

THEOREMS = ["C14_len_counts_code_points", "C14_pos_is_prefix_width", "C14_slice_by_code_points", "C14_repr_eval_roundtrip",
            "C14_find_by_code_points", "C14_find_is_least_occurrence", "C14_find_none_means_absent", "C14_startswith_by_code_points", "C14_contains_by_code_points", "C14_count_by_code_points", "C14_endswith_by_code_points"]
ALPHA = ["a", "b", " ", "'", '"', "\\", "\n", "\x00", "\x7f", "é", "€", "\U0001F600", "ß"]

def lit(s):
    return '"' + "".join("\\U%08x" % ord(c) if ord(c) > 0xFFFF else "\\u%04x" % ord(c) for c in s) + '"'

PRE = '''def o(x):
    if isinstance(x, str): return ('s', [ord(c) for c in x])
    if isinstance(x, list): return [o(e) for e in x]
    if isinstance(x, tuple): return tuple([o(e) for e in x])
    return x
def t(f):
    try:
        print(o(f()))
    except IndexError: print('IndexError')
    except ValueError: print('ValueError')
    except TypeError: print('TypeError')
    except OverflowError: print('OverflowError')
'''

def strings(tier, seed):
    rnd = random.Random(seed)
    out = [""] + ALPHA + ["".join(p) for p in itertools.product(ALPHA, repeat=2)]
    n3 = 150 if tier == "quick" else 2000
    out += ["".join(rnd.choice(ALPHA) for _ in range(3)) for _ in range(n3)]
    out += ["".join(rnd.choice(ALPHA) for _ in range(rnd.randint(4, 9))) for _ in range(n3)]
    return out

def program(s, rnd):
    L = [PRE, "s = " + lit(s)]; meta = []
    def add(code, **m): L.append(code); meta.append(m)
    n = len(s)
    add("t(lambda: len(s))", op="len")
    add("t(lambda: [c for c in s])", op="iter")
    for i in range(-n - 1, n + 2): add("t(lambda: s[%d])" % i, op="getitem", i=i)
    for _ in range(6):
        a, b, c = (rnd.choice([None, rnd.randint(-n - 1, n + 1)]) for _ in range(3))
        if c == 0: c = None
        add("t(lambda: s[%s:%s:%s])" % tuple("" if v is None else v for v in (a, b, c)), op="slice", a=a, b=b, c=c)
    subs = [rnd.choice(ALPHA), s[:1], s[-1:], s[1:3], rnd.choice(ALPHA) + rnd.choice(ALPHA), ""]
    for sub in subs:
        q = lit(sub)
        add("t(lambda: %s in s)" % q, op="in", sub=sub)
        add("t(lambda: s.find(%s))" % q, op="find", sub=sub)
        b = rnd.randint(-n - 1, n + 2); e = rnd.randint(-n - 1, n + 2)
        add("t(lambda: s.find(%s, %d))" % (q, b), op="find2", sub=sub, beg=b)
        add("t(lambda: s.find(%s, %d, %d))" % (q, b, e), op="find3", sub=sub, beg=b, end=e)
        add("t(lambda: s.count(%s))" % q, op="count", sub=sub)
        add("t(lambda: (s.startswith(%s), s.endswith(%s)))" % (q, q), op="startsends", sub=sub)
        add("t(lambda: (s.startswith(%s, %d), s.startswith(%s, %d, %d), s.endswith(%s, %d), s.endswith(%s, %d, %d), s.count(%s, %d, %d), s.startswith((%s, 'zz'), %d), s.endswith(('zz', %s), None, %d)))" % (q, b, q, b, e, q, b, q, b, e, q, b, e, q, b, q, e), op="startsends_bounds", sub=sub, beg=b, end=e)
        if sub:
            add("t(lambda: s.split(%s))" % q, op="split", sub=sub)
            add("t(lambda: s.replace(%s, 'Z'))" % q, op="replace", sub=sub)
            add("t(lambda: %s.join([s, s]))" % q, op="join", sub=sub)
    add("t(lambda: s.split())", op="splitws")
    add("t(lambda: (s.split(None, -1), s.split(None, 0), s.split(None, 1), s.split(maxsplit=-1), s.split(%s, -1), s.split(%s, 0), s.split(%s, 1), s.split(%s, -7)))" % ((lit(subs[0]),) * 4), op="split_maxsplit")
    add("t(lambda: s.split(''))", op="split_empty_sep")
    add("t(lambda: (s.strip(), s.lstrip(), s.rstrip()))", op="strip")
    add("t(lambda: s.strip(%s))" % lit(s[:1] + "a"), op="stripchars")
    other = lit(subs[0] + s[1:])
    add("t(lambda: (s == %s, s != %s, s < %s, s <= %s, s > %s, s >= %s))" % ((other,) * 6), op="compare")
    add("t(lambda: (s * 2, 2 * s, s * 0, s * -1, s + s))", op="repeat_concat")
    add("t(lambda: [chr(ord(c)) == c for c in s])", op="ordchr")
    add("t(lambda: eval(repr(s)) == s)", op="repr_roundtrip")
    add("t(lambda: repr(s))", op="repr")
    add("t(lambda: ascii(s))", op="ascii")
    add("t(lambda: eval(ascii(s)) == s)", op="ascii_roundtrip")
    add("t(lambda: ascii([s, (s,)]))", op="ascii_nested")
    add("t(lambda: eval(repr((s, [s, 1, 2.5], (s,), -7, 2**70))) == (s, [s, 1, 2.5], (s,), -7, 2**70))", op="repr_nested")
    return "\n".join(L) + "\n", meta

# ---------------- repr text and its way back through lexer + decoder vs Model/Repr.v, Model/Escape.v
REPR_ALPHA = [0, 7, 9, 10, 13, 27, 31, 32, 34, 39, 48, 65, 92, 97, 110, 120, 126, 127, 128, 133, 160, 173, 233, 255, 256, 0x3b1, 0x2028, 0xd7ff, 0xe000, 0xfffd, 0xffff, 0x10000, 0x1f600, 0xe0001, 0x10ffff]
RESTS = [[], [32, 43, 32, 39, 120, 39], [91, 48, 58, 49, 93], [44, 32, 49], [32, 61, 61, 32, 34, 34]]
def repr_cases(tier, seed):
    rnd = random.Random(seed + 1414)
    strs = [[]] + [[c] for c in REPR_ALPHA] + [[a, b] for a in REPR_ALPHA for b in (34, 39, 92, 233, 173, 10, 97)]
    for _ in range(400 if tier == "quick" else 20000):
        strs.append([rnd.choice(REPR_ALPHA) for _ in range(rnd.randint(2, 7))])
    for _ in range(100 if tier == "quick" else 5000):
        strs.append([rnd.choice([rnd.randint(0, 0x2ff), rnd.randint(0x2000, 0x2100), rnd.randint(0xe000, 0x10ffff)]) for _ in range(rnd.randint(1, 5))])
    out = []
    for i, cps in enumerate(strs):
        cps = [c for c in cps if not 0xd800 <= c <= 0xdfff]
        rest = RESTS[i % len(RESTS)] if i % 3 else []
        out.append((cps, rest))
    out.append(([], [39]))      # '' directly followed by ' opens a triple-quoted string: rejected by both
    return out

def run_repr(cases):
    inp = "".join((" ".join(map(str, cps)) or "-") + (" | " + " ".join(map(str, rest)) if rest else "") + "\n" for cps, rest in cases)
    rc, out = vlib.run_tool("impl", ["c14repr"], input=inp)
    lines = [l for l in out.split("\n") if l and not l.startswith("WARNING")]
    return (lines + ["WORKER-DIED"] * len(cases))[:len(cases)]

def coq_repr(name, cases, obs):
    nl = lambda l: "[" + "; ".join(str(x) for x in l) + "]"
    rows = []; keep = []
    for k, ((cps, rest), o) in enumerate(zip(cases, obs)):
        try:
            r, p, v = [x.strip() for x in o.split(" ; ")]
            rtext = [int(x) for x in r.split()[1:]]
            pr = [c for c, b in zip(cps, p.split()[1:]) if b == "1"]
            val = "None" if v.startswith("E:") else "(Some %s)" % nl([int(x) for x in v.split()[1:]])
        except Exception:
            rtext, pr, val = [0], [], "None"
        rows.append("(%s, %s, %s, %s, %s)" % (nl(cps), nl(pr), nl(rest), nl(rtext), val)); keep.append(k)
    text = ("From Coq Require Import List NArith Bool. Import ListNotations.\nFrom GP Require Import Model.Escape Model.Repr.\nOpen Scope N_scope.\n"
      "Definition leq (a b : list N) := if list_eq_dec N.eq_dec a b then true else false.\n"
      "Definition ok (c : list N * list N * list N * list N * option (list N)) : bool := let '(s, pr, rest, rtext, v) := c in\n"
      "  leq (repr_str (fun x => existsb (N.eqb x) pr) s) rtext &&\n"
      "  match eval_literal (rtext ++ rest), v with Some (a, r), Some b => leq a b && leq r rest | None, None => true | _, _ => false end.\n"
      "Definition cases : list (list N * list N * list N * list N * option (list N)) := [\n" + ";\n".join(rows) + "].\n"
      "Fixpoint bad (i : nat) (l : list (list N * list N * list N * list N * option (list N))) : list nat := match l with [] => [] | c :: r => if ok c then bad (S i) r else i :: bad (S i) r end.\n"
      "Definition M := Eval vm_compute in bad 0 cases.\nPrint M.\n")
    rc, out = vlib.coqc_run(name, text, timeout=900)
    if rc != 0: return None, out[-1500:]
    v = vlib.parse_coq_value("M " + out[out.find("M ="):].replace("M =", " =", 1)) if "M =" in out else None
    return v, out[-300:]

def coq_slices(name, rows):
    text = ("From Coq Require Import List Bool Arith NArith. Import ListNotations.\nFrom GP Require Import Model.Utf8.\n"
      "Definition leqN (a b : list N) : bool := if list_eq_dec N.eq_dec a b then true else false.\n"
      "Definition cases : list (list N * nat * nat * list N) := [\n" + ";\n".join(rows) + "].\n"
      "Fixpoint bad (i : nat) (l : list (list N * nat * nat * list N)) : list nat := match l with [] => [] | (cps, a, b, o) :: r => if leqN (str_slice (encode cps) a b (length cps)) o then bad (S i) r else i :: bad (S i) r end.\n"
      "Definition M := Eval vm_compute in bad 0 cases.\nPrint M.\n")
    rc, out = vlib.coqc_run(name, text, timeout=400)
    if rc != 0: return None, out[-1200:]
    v = vlib.parse_coq_value("M " + out[out.find("M ="):].replace("M =", " =", 1)) if "M =" in out else None
    return v, out[-300:]

def coq_search(name, rows):
    """rows: (kind, cps, sub, beg, end, observed) with kind 0 = find, 1 = count, 2 = startswith, 3 = endswith; the implementation's
    answer must equal the byte-level model (Model/StrSearch.v) AND, for find/startswith, Python's rule over code points"""
    text = ("From Coq Require Import List Bool Arith NArith ZArith. Import ListNotations.\nFrom GP Require Import Model.Utf8 Model.StrSearch.\n"
      "Definition cases : list (nat * list N * list N * Z * Z * Z) := [\n" + ";\n".join(rows) + "].\n"
      "Definition b2z (b : bool) : Z := if b then 1%Z else 0%Z.\n"
      "Definition ok (c : nat * list N * list N * Z * Z * Z) : bool := let '(k, s, sub, b, e, o) := c in\n"
      "  match k with O => Z.eqb (find_model (encode s) (encode sub) b e) o && Z.eqb (cp_find s sub b e) o\n"
      "  | 1%nat => Z.eqb (count_model (encode s) (encode sub) b e) o && Z.eqb (cp_count s sub b e) o\n"
      "  | 2%nat => Z.eqb (b2z (startswith_model (encode s) (encode sub) b e)) o && Z.eqb (b2z (cp_startswith s sub b e)) o\n"
      "  | _ => Z.eqb (b2z (endswith_model (encode s) (encode sub) b e)) o && Z.eqb (b2z (cp_endswith s sub b e)) o end.\n"
      "Fixpoint bad (i : nat) (l : list (nat * list N * list N * Z * Z * Z)) : list nat := match l with [] => [] | c :: r => if ok c then bad (S i) r else i :: bad (S i) r end.\n"
      "Definition M := Eval vm_compute in bad 0 cases.\nPrint M.\n")
    rc, out = vlib.coqc_run(name, text, timeout=600)
    if rc != 0: return None, out[-1200:]
    v = vlib.parse_coq_value("M " + out[out.find("M ="):].replace("M =", " =", 1)) if "M =" in out else None
    return v, out[-300:]

def check(res):
    tier, seed = res.tier, res.seed
    rnd = random.Random(seed)
    res.trusted = vlib.COMMON_TRUST + [
        "Model/Utf8.v models len/pos/slice over byte lists for valid UTF-8; tied to the implementation by comparing s[a:b] for generated strings with the model inside Coq",
        "Model/StrSearch.v models find/Count/window+HasPrefix/Contains of py/string.go over byte lists, with Go's strings.Index/HasPrefix/Count as list functions; tied by comparing s.find/count/startswith/endswith (with start/end) of the implementation with the model AND with the code-point rule inside Coq",
        "split/join/strip/replace/compare/repeat/ord/chr/eval (and find/count/startswith/endswith once more) are compared with CPython (validated oracle, testing); Go's unicode tables (IsSpace, IsPrint, case mapping) are trusted"]
    res.assumptions = ["CPython 3.11 agrees with Python 3.4 on str operations for the alphabet used (repr of non-printable characters included)"]
    built, mlog = vlib.coq_make()
    p_ok = "Props/C14.vo" in built
    assum = None
    if p_ok:
        assum, _ = vlib.print_assumptions("C14", ["Props.C14"], THEOREMS)
        p_ok = assum is not None
    for t in THEOREMS:
        res.oblige("theorem " + t, p_ok, (assum or {}).get(t, "") if p_ok else "Props/C14.v does not compile")
    if assum: res.trusted.append("Print Assumptions: " + "; ".join("%s: %s" % kv for kv in assum.items()))
    ss = strings(tier, seed)
    progs = []; metas = []
    for s in ss:
        p, m = program(s, rnd); progs.append(p); metas.append(m)
    impl = pydiff.run_impl(progs); ref = pydiff.run_ref(progs)
    findings = vlib.load_findings("C14")
    mism = []; rows = []; rowmeta = []; srows = []; srowmeta = []; n = 0; nontrivial = 0; known = {}
    # chr / ord over every code point up to U+0900 and around every encoding-length and plane boundary
    sweep = ("pts = list(range(0, 0x900)) + [0xd7fe, 0xd7ff, 0xe000, 0xe001, 0xfffd, 0xfffe, 0xffff, 0x10000, 0x10001, 0x1f600, 0xfffff, 0x100000, 0x10fffe, 0x10ffff]\n"
             "bad = []\nfor i in pts:\n    c = chr(i)\n    ok = len(c) == 1 and ord(c) == i and c == eval(repr(c)) and c == eval(ascii(c)) and (c + 'x')[0] == c and ('x' + c)[1] == c and c in (c + c) and (c + c).find(c) == 0 and (c * 3).count(c) == 3 and len(c * 3) == 3\n"
             "    if not ok:\n        bad.append(i)\nprint(bad)\n"
             "print([i for i in pts if chr(i).strip() == ''], [i for i in pts if len(('a' + chr(i) + 'b').split()) == 2], [i for i in pts if (chr(i) + 'a' + chr(i)).lstrip() == 'a' + chr(i)])\n"
             "for j in (-1, -70, 0x110000, 0x110001, 0x7fffffff):\n    try:\n        chr(j)\n        print('accepted', j)\n    except ValueError:\n        print('ValueError')\n    except OverflowError:\n        print('OverflowError')\n"
             "for t in ('', 'ab', b'', b'ab'):\n    try:\n        print(ord(t))\n    except TypeError:\n        print('TypeError')\n"
             "print([ord(c) for c in '\\x7f\\x80\\xff\\u0100\\u07ff\\u0800\\uffff\\U00010000\\U0010ffff'], ord(b'\\x80'), [ord(chr(i)) for i in (127, 128, 129, 255, 256)])\n")
    sa = pydiff.run_impl([sweep])[0]; sb = pydiff.run_ref([sweep])[0]
    n += 1
    if (sa.get("out", ""), sa.get("err", "")) != (sb.get("out", ""), sb.get("err", "")) or sa.get("panic") or sa.get("crash"):
        mism.append((dict(op="chr_ord_sweep", program=sweep), str((sa.get("out", ""), sa.get("err", ""), sa.get("panic") or sa.get("crash") or ""))[:400], str((sb.get("out", ""), sb.get("err", "")))[:400]))
    for s, m, a, b in zip(ss, metas, impl, ref):
        la = a.get("out", "").splitlines(); lb = b.get("out", "").splitlines()
        multibyte = any(ord(c) > 127 for c in s)
        for k, case in enumerate(m):
            n += 1
            if multibyte: nontrivial += 1
            got = la[k] if k < len(la) else "<missing %s %s>" % (a.get("err"), a.get("panic") or a.get("crash") or a.get("msg"))
            exp = lb[k] if k < len(lb) else "<missing>"
            if got != exp:
                mism.append((dict(string=[hex(ord(c)) for c in s], **{kk: (vv if (kk == 'op' or not isinstance(vv, str)) else [hex(ord(c)) for c in vv]) for kk, vv in case.items()}), got, exp))
            if case["op"] == "slice" and case["c"] in (None, 1) and got.startswith("('s', ["):
                a0, b0 = case["a"], case["b"]; L = len(s)
                st, sp, _ = slice(a0, b0, 1).indices(L)
                try:
                    obs = "".join(chr(x) for x in eval(got)[1]).encode("utf8", "surrogatepass")
                except Exception:
                    continue
                rows.append("([%s]%%N, %d%%nat, %d%%nat, [%s]%%N)" % ("; ".join(str(ord(c)) for c in s), st, sp, "; ".join(str(x) for x in obs)))
                rowmeta.append((s, case, got))
            if case["op"] in ("find", "find2", "find3", "count", "startsends_bounds"):
                cp = lambda x: "[%s]%%N" % "; ".join(str(ord(c)) for c in x)
                zz = lambda v: "(%d)%%Z" % v
                def srow(kind, beg, end, obs):
                    srows.append("(%d%%nat, %s, %s, %s, %s, %s)" % (kind, cp(s), cp(case["sub"]), zz(beg), zz(end), zz(obs)))
                    srowmeta.append((s, case, got))
                try:
                    val = eval(got, {"__builtins__": {}}, {})
                    if case["op"] == "startsends_bounds":
                        if isinstance(val, tuple) and len(val) == 7 and all(isinstance(x, (bool, int)) for x in val):
                            srow(2, case["beg"], len(s), int(val[0])); srow(2, case["beg"], case["end"], int(val[1])); srow(3, case["beg"], len(s), int(val[2])); srow(3, case["beg"], case["end"], int(val[3])); srow(1, case["beg"], case["end"], int(val[4]))
                    elif isinstance(val, int):
                        srow(1 if case["op"] == "count" else 0, case.get("beg", 0), case.get("end", len(s)), val)
                except Exception:
                    pass
            if k >= len(la): break
    tie_bad = []; tie_err = None
    shards = [list(range(len(rows)))[i::8] for i in range(8)]
    with concurrent.futures.ThreadPoolExecutor(8) as ex:
        for sh, (v, log) in zip(shards, ex.map(lambda a: coq_slices("C14_cases_%d" % a[0], [rows[i] for i in a[1]]), list(enumerate(shards)))):
            if v is None: tie_err = log
            else: tie_bad += [rowmeta[sh[i]] for i in v]
    res.oblige("correspondence: s[a:b] of the implementation = str_slice of the model on %d cases (vm_compute)" % len(rows), tie_err is None and not tie_bad, tie_err or str(tie_bad[:3]))
    # --- tie: find / count / startswith with windows vs Model/StrSearch.v (bytes) and the code-point rule
    s_bad = []; s_err = None
    sshards = [list(range(len(srows)))[i::12] for i in range(12)]
    with concurrent.futures.ThreadPoolExecutor(12) as ex:
        for sh, (v, log) in zip(sshards, ex.map(lambda a: coq_search("C14_search_%d" % a[0], [srows[i] for i in a[1]]), list(enumerate(sshards)))):
            if v is None: s_err = log
            else: s_bad += [srowmeta[sh[i]] for i in v]
    res.oblige("correspondence: find/count/startswith/endswith (with windows) of the implementation = Model/StrSearch.v over the UTF-8 bytes and = the code-point rule, on %d cases (vm_compute)" % len(srows), s_err is None and not s_bad and len(srows) > 1000, s_err or str(s_bad[:3]))
    # --- tie: repr text and its evaluation vs Model/Repr.v + Model/Escape.v
    rcases = repr_cases(tier, seed); robs = run_repr(rcases)
    repr_bad = []; repr_err = None
    if "Model/Repr.vo" in built:
        rsh = [list(range(len(rcases)))[i:i + 3000] for i in range(0, len(rcases), 3000)]
        with concurrent.futures.ThreadPoolExecutor(8) as ex:
            for sh, (v, log) in zip(rsh, ex.map(lambda a: coq_repr("C14_repr_%d" % a[0], [rcases[i] for i in a[1]], [robs[i] for i in a[1]]), list(enumerate(rsh)))):
                if v is None: repr_err = log
                else: repr_bad += [(rcases[sh[i]], robs[sh[i]]) for i in v]
    else:
        repr_err = "Model/Repr.v did not compile"
    res.oblige("correspondence: repr(str) text = Model/Repr.v (with the measured strconv.IsPrint) and parse(repr text + rest) = lexer scan + DecodeEscape model on %d strings (vm_compute)" % len(rcases),
               repr_err is None and not repr_bad, repr_err or str(repr_bad[:3]))
    res.coverage.update(evaluations=n, distinct_nontrivial=nontrivial, programs=len(progs),
        rule="all strings of length <= 2 and seeded strings of length 3..9 over an alphabet of 1-, 2-, 3- and 4-byte characters, both quotes, backslash, newline, NUL and DEL; per string: len, iteration, every index, slices, in/find(+start/end)/count/startswith/endswith/split/replace/join with substrings taken from the string and the alphabet, strip, comparison, repetition, ord/chr, repr, eval(repr(x)) == x (also nested in tuple/list with int/float/big int); compared with CPython; non-trivial = the string contains a multi-byte character",
        samples=[dict(string=[hex(ord(c)) for c in ss[200]], first_lines=impl[200].get("out", "").splitlines()[:3])],
        distribution=dict(strings=len(ss), lines=n, model_checked_slices=len(rows), model_checked_reprs=len(rcases), model_checked_searches=len(srows)), oracle_disagreements=len(mism),
        modelled_not_verified=["strings.Index/HasPrefix/HasSuffix/Count as list functions (Model/StrSearch.v: index_from, is_prefix, is_suffix, count_go; find/startswith/endswith/in/count proved equal to the code-point rule)", "strings.Split/Replace (CPython differential only)", "strconv.IsPrint (a parameter of the repr theorem, measured in the correspondence)", "repr of bytes/float/containers (CPython differential only)", "unicode tables"])
    if mism:
        case, got, exp = mism[0]
        res.violation("counterexample", "string operation differs from Python's code-point semantics", dict(input=case, expected=exp, observed=got,
                      others=[dict(input=c, observed=g, expected=e) for c, g, e in mism[1:8]]))
        return
    if repr_bad:
        (cps, rest), o = repr_bad[0]
        res.violation("counterexample", "repr text of a string, or the value the parser reads back from it, differs from the proved model (Model/Repr.v, C14_repr_eval_roundtrip)",
                      dict(input=dict(harness_command="impl c14repr", code_points=cps, text_after_the_literal=rest), observed=o,
                           expected="R = repr_str of the model, V = the string itself", others=[dict(code_points=c, rest=r, observed=ob) for (c, r), ob in repr_bad[1:6]]))
        return
    if s_bad:
        s0, case0, got0 = s_bad[0]
        res.violation("counterexample", "find/count/startswith of the implementation differs from the proved model (Model/StrSearch.v, C14_find_by_code_points / C14_startswith_by_code_points)",
                      dict(input=dict(string=[hex(ord(c)) for c in s0], **{kk: (vv if (kk == 'op' or not isinstance(vv, str)) else [hex(ord(c)) for c in vv]) for kk, vv in case0.items()}), observed=got0,
                           expected="find_model / count_model / startswith_model over the UTF-8 bytes = the code-point rule", others=[str(x)[:300] for x in s_bad[1:6]]))
        return
    if not p_ok or tie_bad or tie_err or repr_err or s_err or len(srows) <= 1000:
        res.violation("proof-broken" if not p_ok else "tie-broken", "C14 no longer shown", dict(theorem_or_correspondence="Props/C14.v / slice correspondence / repr correspondence / search correspondence", repr_error=repr_err, search_error=s_err, search_cases=len(srows),
                      coqc_error=[l for l in mlog.splitlines() if "rror" in l][-10:], first_disagreements=[str(t) for t in tie_bad[:5]], tie_error=tie_err), no_input=True)

def replay(path):
    d = json.load(open(path)); print(json.dumps(d, indent=1)[:3000]); return 1
