"""C03: lexical scoping.  P: Props/C03.v (scope analysis is independent of map iteration order;
forbidden declarations rejected; binding rule).  T: the AnalyzeName model equals the exported Go
method on its ENTIRE finite input space (vm_compute).  Oracle: scope-tree programs vs CPython, and
repeated compilation (map order varies per run) must give identical code."""
import json, os, random, concurrent.futures
import vlib, pydiff, progs

THEOREMS = ["C03_order_independent", "C03_forbidden_rejected", "C03_binding_rule"]

PROBES = [
 ("closure_shares_cell", "def f():\n    x = 1\n    def g(): return x\n    def h():\n        nonlocal x\n        x += 10\n    h(); r1 = g(); x = 5; return (r1, g())\nprint(f())\n"),
 ("late_rebinding", "fs = []\nfor i in range(3):\n    def f(): return i\n    fs.append(f)\nprint([f() for f in fs])\n"),
 ("defaults_once", "n = [0]\ndef mk():\n    n[0] += 1\n    return n[0]\ndef f(a=mk()): return a\nprint(f(), f(), n[0])\n"),
 ("class_scope_invisible", "x = 'g'\nclass C:\n    x = 'c'\n    def m(self): return x\n    y = [x for _ in range(1)]\nprint(C().m(), C.x)\n"),
 ("class_nested_in_function", "def f():\n    x = 'f'\n    class C:\n        y = x\n        def m(self): return x\n    return C.y, C().m()\nprint(f())\n"),
 ("classderef_locals", "def f():\n    x = 1\n    class C:\n        y = x\n        locals()['x'] = 7\n        z = x\n    return C.y, C.z\nprint(f())\n"),
 ("param_global", "def f(a):\n    global a\n"),
 ("nonlocal_module", "nonlocal a\n"),
 ("nonlocal_nobinding", "def f():\n    def g():\n        nonlocal zz\n    g()\n"),
 ("dup_param", "def f(a, a): pass\n"),
 ("unbound_local", "def f():\n    try:\n        print(x)\n    except UnboundLocalError:\n        print('UnboundLocalError')\n    x = 1\nf()\n"),
 ("del_then_use", "def f():\n    x = 1\n    del x\n    try:\n        print(x)\n    except UnboundLocalError:\n        print('UnboundLocalError')\nf()\n"),
 ("comprehension_scope", "x = 'g'\ny = [x for x in range(2)]\nprint(x, y)\n"),
 ("import_star_in_function", "def f():\n    from math import *\n"),
]

def analyze_table_check():
    rc, out = vlib.run_tool("impl", ["c03"], timeout=300)
    rows = []
    for line in out.splitlines():
        f = line.split()
        if len(f) < 5 or not f[0].isdigit(): continue
        flags, bstate, mask, nested = map(int, f[:4])
        if f[4] == "OK":
            sc, b, l, fr, g, sf = map(int, f[5:11])
            obs = "(Some (%d, %s, %s, %s, %s, %s))" % (sc, *("true" if v else "false" for v in (b, l, fr, g, sf)))
        else:
            obs = "None"
        rows.append("(%d%%N, %d, %d, %s, %s)" % (flags, bstate, mask, "true" if nested else "false", obs))
    if len(rows) != 256 * 3 * 8 * 2:
        return None, "unexpected table size %d: %s" % (len(rows), out[-300:])
    text = ("From Coq Require Import List Bool Arith NArith. Import ListNotations.\nFrom GP Require Import Model.Symtable.\n"
      "Definition obs_t := option (nat * bool * bool * bool * bool * bool).\n"
      "Definition run (flags : N) (bstate mask : nat) (nested : bool) : obs_t :=\n"
      "  let s := {| in_bound := Nat.eqb bstate 2; in_local := Nat.odd mask; in_free := Nat.odd (mask / 2); in_global := Nat.odd (mask / 4); scope := 0 |} in\n"
      "  match analyze_name flags (Nat.eqb bstate 0) nested s with None => None | Some (s', f) => Some (scope s', in_bound s', in_local s', in_free s', in_global s', f) end.\n"
      "Definition oeq (a b : obs_t) : bool := match a, b with None, None => true | Some (s1, b1, l1, f1, g1, x1), Some (s2, b2, l2, f2, g2, x2) => Nat.eqb s1 s2 && Bool.eqb b1 b2 && Bool.eqb l1 l2 && Bool.eqb f1 f2 && Bool.eqb g1 g2 && Bool.eqb x1 x2 | _, _ => false end.\n"
      "Definition table : list (N * nat * nat * bool * obs_t) := [\n" + ";\n".join(rows) + "].\n"
      "Fixpoint bad (i : nat) (l : list (N * nat * nat * bool * obs_t)) : list nat := match l with [] => [] | (fl, b, m, n, o) :: r => if oeq (run fl b m n) o then bad (S i) r else i :: bad (S i) r end.\n"
      "Definition M := Eval vm_compute in bad 0 table.\nPrint M.\n")
    rc, out = vlib.coqc_run("C03_table", text, timeout=600)
    if rc != 0: return None, out[-1200:]
    v = vlib.parse_coq_value("M " + out[out.find("M ="):].replace("M =", " =", 1)) if "M =" in out else None
    if v is None: return None, out[-400:]
    return [rows[i] for i in v], ""

def check(res):
    tier, seed = res.tier, res.seed
    res.trusted = vlib.COMMON_TRUST + [
        "Model/Symtable.v analyze_name is tied to symtable.AnalyzeName exhaustively (12288 inputs, the whole domain); the block loop and the rest of the symbol-table passes (flag collection, AnalyzeCells, child propagation) are not modelled",
        "compile.go NameOp / VM LOAD/STORE/DELETE_* are compared with CPython on scope-tree programs (validated oracle, testing)"]
    res.assumptions = ["CPython 3.11 agrees with Python 3.4 on the generated scoping programs (class-body comprehensions and 'global after use' behave identically in the generated forms)"]
    built, mlog = vlib.coq_make()
    p_ok = "Props/C03.vo" in built
    assum = None
    if p_ok:
        assum, _ = vlib.print_assumptions("C03", ["Props.C03"], THEOREMS)
        p_ok = assum is not None
    for t in THEOREMS:
        res.oblige("theorem " + t, p_ok, (assum or {}).get(t, "") if p_ok else "Props/C03.v does not compile")
    if assum: res.trusted.append("Print Assumptions: " + "; ".join("%s: %s" % kv for kv in assum.items()))
    bad, terr = analyze_table_check()
    res.oblige("correspondence: analyze_name model = symtable.AnalyzeName on all 12288 inputs (vm_compute, exhaustive)", bad == [], terr or str((bad or [])[:3]))
    cases = [(s, dict(kind="scope-tree", index=i)) for i, s in enumerate(progs.scope_programs(seed, 1500 if tier == "quick" else 40000))]
    cases += [(s, dict(kind=k)) for k, s in PROBES]
    cases += [(s, dict(kind="captured-parameter", **m)) for s, m in progs.captured_param_programs()]
    srcs = [c[0] for c in cases]
    impl = pydiff.run_impl(srcs); ref = pydiff.run_ref(srcs)
    # determinism across map iteration orders: run everything twice more and compare outputs
    impl2 = pydiff.run_impl(srcs)
    mism = []; nontrivial = 0; nsyntax = 0
    for (src, case), a, b, a2 in zip(cases, impl, ref, impl2):
        ga = (a.get("out", ""), a.get("err", "")); gb = (b.get("out", ""), b.get("err", ""))
        if a.get("panic") or a.get("crash"): ga = ("<GO PANIC %s>" % (a.get("panic") or a.get("crash")), "")
        if gb[1] == "SyntaxError": nsyntax += 1
        if "nonlocal" in src or "global" in src or "class" in src: nontrivial += 1
        if (a2.get("out", ""), a2.get("err", "")) != (a.get("out", ""), a.get("err", "")):
            mism.append((dict(case, note="two runs of the same program differ (analysis order dependence)"), src, ga, (a2.get("out", ""), a2.get("err", ""))))
        elif ga != gb:
            mism.append((case, src, ga, gb))
    res.coverage.update(evaluations=len(cases), distinct_nontrivial=nontrivial, programs=len(cases),
        rule="seeded scope trees (module/def/def-with-parameter-and-default/class-with-method/lambda/comprehension, depth <= 3) with bind/use/del/global/nonlocal placements of names a, b (valid and invalid), every use printing its value or NameError/UnboundLocalError; plus targeted probes (shared cells, late rebinding, defaults once, class scope, forbidden declarations); each program run twice on the implementation (map iteration order differs per run) and once on CPython; non-trivial = uses global/nonlocal/class",
        samples=[dict(case=cases[3][1], source=cases[3][0][:400], stdout=impl[3].get("out", "")[:200], err=impl[3].get("err"))],
        distribution=dict(programs=len(cases), syntax_errors_expected=nsyntax), oracle_disagreements=len(mism),
        modelled_not_verified=["symtable pass 1 (flag collection)", "AnalyzeCells / child propagation", "NameOp opcode selection", "name mangling (absent in gpython)"])
    if mism:
        case, src, ga, gb = mism[0]
        res.violation("counterexample", "name resolution differs from Python's lexical scoping", dict(input=dict(case=case, source=src), expected=dict(stdout=gb[0][-500:], error=gb[1]),
                      observed=dict(stdout=ga[0][-500:], error=ga[1]), others=[dict(case=c, observed=x, expected=y) for c, _, x, y in mism[1:6]]))
        return
    if not p_ok or bad != []:
        res.violation("proof-broken" if not p_ok else "tie-broken", "C03 no longer shown", dict(theorem_or_correspondence="Props/C03.v / AnalyzeName table",
                      coqc_error=[l for l in mlog.splitlines() if "rror" in l][-10:], table_disagreements=(bad or [])[:5], tie_error=terr), no_input=True)

def replay(path):
    d = json.load(open(path)); print(json.dumps(d, indent=1)[:3000]); return 1
