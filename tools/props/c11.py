"""C11: py.Compile is total.  P: Props/C11.v -- (a) the assembler model terminates without panic on every
forward-jump stream and is consistent, (b) outcome acceptable iff every stage failure is a located
SyntaxError-family exception (handlers compared verbatim with the regenerated text), (c) every explicit
panic site of the regenerated inventory is audited.  T: assembler bytes model = implementation on generated
streams (incl. streams straddling the 64K boundary).  Search: exhaustive token sequences, mutation streams of
every .py in the repository and of the generators' programs, structured probes, in all three modes."""
import collections, concurrent.futures, itertools, json, os, random, re, subprocess
import vlib, progs, regen

THEOREMS = ["C11_assemble_never_panics", "C11_assemble_consistent", "C11_outcome_acceptable_iff", "C11_internal_failure_is_visible",
            "C11_handlers_as_modelled", "C11_every_panic_site_is_audited"]
OKRES = ("code", "SyntaxError+loc", "IndentationError+loc", "TabError+loc")

ALPHA = ["if", "else", "elif", "while", "for", "in", "def", "class", "return", "yield", "lambda", "try", "except", "finally", "with", "as",
 "import", "from", "global", "nonlocal", "del", "pass", "break", "continue", "raise", "assert", "not", "and", "or", "is", "None", "True",
 "x", "y", "f", "__class__", "1", "0", "1.5", "1e400", "0x", "0xFFFFFFFFFFFFFFFF", "0o8", "0b2", "09", "1j", "1__0", "'a'", "\"b\"", "b'c'", "'''", "'\\x'", "'\\N{foo}'", "b'\\xzz'", "'unterminated", "r'\\'",
 "(", ")", "[", "]", "{", "}", ":", ",", ";", ".", "...", "=", "==", "+=", "**", "*", "->", "@", "<>", "!", "$", "?", "`", "\\", "~", "-",
 "\n", "\n    ", "\n\t", "\n  ", "\n        ", "# c", "\x00", "\x0c", "\xff", "\u00e9", " ", "\\\n", "\r", "\r\n"]

def enc(s):
    return s.encode("latin-1") if ("\xff" in s or "\x00" in s) and all(ord(ch) < 256 for ch in s) else s.encode("utf8", "surrogateescape")

def run_compile(srcs):
    out = [None] * len(srcs)
    def work(idx):
        pending = list(idx)
        while pending:
            inp = "".join(json.dumps(dict(bytes=list(srcs[i]), timeout=(600 if len(srcs[i]) > 200000 else 30))) + "\n" for i in pending)
            p = subprocess.run("ulimit -v 8000000; exec %s c11" % os.path.join(vlib.GO, "bin", "impl"), shell=True, input=inp, stdout=subprocess.PIPE, stderr=subprocess.PIPE, text=True, env=vlib.GOENV)
            lines = [l for l in p.stdout.splitlines() if l.startswith("[")]
            for k, l in enumerate(lines): out[pending[k]] = json.loads(l)
            if len(lines) >= len(pending): break
            if lines and "HANG" in out[pending[len(lines) - 1]]: pending = pending[len(lines):]
            else:
                out[pending[len(lines)]] = ["CRASH " + (p.stderr or "")[-300:].replace("\n", " | ")] * 3; pending = pending[len(lines) + 1:]
    chunks = [list(range(len(srcs)))[i::16] for i in range(16)]
    with concurrent.futures.ThreadPoolExecutor(16) as ex: list(ex.map(work, [c for c in chunks if c]))
    return out

def mutants(rnd, text, n):
    toks = re.findall(r"\s+|\w+|'[^'\n]*'|\"[^\"\n]*\"|#[^\n]*|.", text)
    out = []
    for _ in range(n):
        t = list(toks)
        for _ in range(rnd.choice([1, 1, 2, 3])):
            if not t: break
            i = rnd.randrange(len(t)); op = rnd.random()
            if op < 0.3: del t[i]
            elif op < 0.6: t.insert(i, rnd.choice(ALPHA))
            elif op < 0.8: t[i] = rnd.choice(ALPHA)
            elif op < 0.9: j = rnd.randrange(len(t)); t[i], t[j] = t[j], t[i]
            else: t.insert(i, t[rnd.randrange(len(t))])
        out.append("".join(t))
    return out

def probes(tier="quick"):
    P = []
    big = 3000 if tier == "quick" else 70000
    stmts = ["return 1", "return", "yield 1", "x = yield", "yield from y", "break", "continue", "nonlocal q", "global q", "from m import *", "import m.n as o",
             "del q", "q += 1", "q: int = 1", "await q", "print q", "exec 'q'", "raise", "raise E from F", "assert q, r", "*a, b = q", "a, *b, *c = q", "*a = q", "(yield) = 1",
             "f(**k, *a)", "f(a=1, a=2)", "f(a=1, 2)", "f(x for x in y, 1)", "f(*a, b)", "lambda: (yield)", "[(yield) for i in j]", "class D(metaclass=M, *b, **k): pass",
             "def g(a, a): pass", "def g(a=1, b): pass", "def g(*, **k): pass", "def g(*): pass", "def g(**k, a): pass", "def g(*a, *b): pass", "def g(a, *, b=1, c): pass",
             "def g(a: 1 = 2, *b: 3, c: 4 = 5, **d: 6) -> 7: pass", "None = 1", "True += 1", "__debug__ = 1", "f() = 1", "a + b = 1", "[a, 1] = q", "del f()", "del (a, 1)", "for 1 in q: pass",
             "with a as 1: pass", "import a as None", "def None(): pass", "class True: pass", "def g(None): pass", "lambda None: 1", "f(None=1)", "x.None = 1", "global q; q = 1\nglobal q",
             "try: pass\nexcept: pass\nexcept E: pass", "try: pass", "try: pass\nelse: pass", "if q: pass\nelif: pass", "while q: pass\nelse: pass\nelse: pass", "@d\nq = 1", "@d\n@e\ndef g(): pass"]
    ctxs = ["%s\n", "def f():\n%s\n", "class C:\n%s\n", "def f():\n    def g():\n%s\n    return g\n", "for i in j:\n%s\n", "def f():\n    while q:\n        try:\n            pass\n        finally:\n%s\n",
            "class C:\n    def m(self):\n%s\n", "def f():\n    q = 1\n    def g():\n%s\n", "try:\n%s\nexcept E:\n    pass\n", "with a:\n%s\n", "if q:\n    pass\nelse:\n%s\n", "def f():\n    for i in j:\n        class D:\n%s\n"]
    for s in stmts:
        for c in ctxs:
            depth = 0
            m = re.search(r"\n( *)%s", c)
            ind = (len(m.group(1)) if m else 0)
            # indentation of %s: one level deeper than the line before it
            lines_before = c[:c.index("%s")].rstrip("\n").split("\n") if c.index("%s") else []
            base = 0
            if lines_before and lines_before[-1].strip():
                base = len(lines_before[-1]) - len(lines_before[-1].lstrip()) + 4
            P.append(c.replace("%s", "\n".join(" " * base + l for l in s.split("\n"))))
    # sizes: many arguments, many nested blocks, deep nesting, long lines, big bodies, jump cascades
    P.append("f(" + ", ".join("a%d" % i for i in range(300)) + ")\n")
    P.append("def f(" + ", ".join("a%d" % i for i in range(300)) + "): pass\n")
    P.append("f(" + ", ".join("k%d=1" % i for i in range(300)) + ")\n")
    P.append("x = [" + ", ".join(str(i) for i in range(big)) + "]\n")
    P.append("".join("v%d = %d\n" % (i, i) for i in range(big)))
    for d in (10, 21, 30, 120):
        P.append("".join("    " * i + "for i%d in x:\n" % i for i in range(d)) + "    " * d + "pass\n")
        P.append("".join("    " * i + "try:\n" for i in range(d)) + "    " * d + "pass\n" + "".join("    " * i + "finally:\n" + "    " * (i + 1) + "pass\n" for i in reversed(range(d))))
        P.append("".join("    " * i + "def f%d():\n" % i for i in range(d)) + "    " * d + "return 1\n")
        P.append("x = " + "(" * d * 10 + "1" + ")" * d * 10 + "\n")
        P.append("x = " + "[" * d * 10 + "]" * d * 10 + "\n")
        P.append("x = " + "-" * d * 50 + "1\n")
        P.append("x = " + " + ".join(["a"] * d * 100) + "\n")
        P.append("x = " + "a if b else " * d * 10 + "c\n")
        P.append("x = " + "lambda: " * d * 10 + "1\n")
        P.append("x = a" + ".b" * d * 100 + "\n")
        P.append("x = a" + "[0]" * d * 100 + "\n")
        P.append("x = a" + "()" * d * 100 + "\n")
    body = "".join("    x = x + 1\n" for _ in range(7000))
    body2 = "".join("        x = x + 1\n" for _ in range(7000))
    P += ["x = 0\nfor i in range(2):\n" + body, "x = 0\nwhile x < 10:\n" + body + "else:\n    pass\n", "x = 0\ntry:\n" + body + "except ValueError:\n    pass\n",
          "x = 0\nwith a:\n" + body, "x = 0\nif x:\n" + body + "elif y:\n" + body + "else:\n" + body,
          "def f(x):\n    for i in range(3):\n" + body2 + "        if x: break\n        else: continue\n    else:\n        x = 5\n    return x\n",
          "x = 0\nfor i in range(3):\n    try:\n" + body2 + "    finally:\n        print(x)\n"]
    for n, pad in ((50, 0), (3000, 0), (10800, 0), (10800, 100), (10850, 37), (10890, 3), (10900, 1)):
        P.append("a = 1\n" + "a\n" * pad + "x = " + "a and not (" * n + "a" + ")" * n + "\n")
    P += ["x = '" + "a" * 100000 + "'\n", "x = " + "1" * 50000 + "\n", "x = 0x" + "f" * 50000 + "\n", "x = 1e" + "9" * 400 + "\n", "x = 1." + "0" * 5000 + "j\n",
          "# " + "c" * 100000 + "\n", "\n" * 100000, " " * 100000, "\t" * 5000 + "x\n", "x = 1;" * 30000 + "\n", "\\\n" * 30000 + "x\n", "(" + "\n" * 30000 + ")\n",
          "x = '''" + "\n" * 30000 + "'''\n", "if x:\n" + "".join(" " * (i % 7 + 1) + "y\n" for i in range(50))]
    # element counts around the widths of packed operands (one byte / two bytes): every construct whose
    # operand is a count or a pair of counts
    counts = [254, 255, 256, 257, 300, 600] + ([65535, 65536, 65537] if tier != "quick" else [])
    for n in counts:
        names = ["b%d" % i for i in range(n)]; lst = ", ".join(names)
        P += ["*a, %s = q\n" % lst, "%s, *a = q\n" % lst, "c, *a, %s = q\n" % lst, "%s, *a, c = q\n" % lst, "[*a, %s] = q\n" % lst,
              "for *a, %s in q: pass\n" % lst, "[0 for *a, %s in q]\n" % lst, "%s = q\n" % lst, "x = (%s)\n" % lst, "x = [%s]\n" % lst, "x = {%s}\n" % lst,
              "x = {%s}\n" % ", ".join("%s: 0" % v for v in names), "f(%s)\n" % lst, "f(%s)\n" % ", ".join("%s=0" % v for v in names), "f(*p, %s)\n" % ", ".join("%s=0" % v for v in names),
              "def g(%s): pass\n" % lst, "def g(%s): pass\n" % ", ".join("%s=0" % v for v in names), "def g(*, %s): pass\n" % ", ".join("%s=0" % v for v in names),
              "def g(%s): pass\n" % ", ".join("%s: 0" % v for v in names), "lambda %s: 0\n" % ", ".join("%s=0" % v for v in names), "class D(%s): pass\n" % lst,
              "from m import %s\n" % lst, "import %s\n" % lst, "global %s\n" % lst, "def g():\n    nonlocal %s\n" % lst, "del %s\n" % lst, "x = %s\n" % " < ".join(names),
              "with %s: pass\n" % ", ".join("%s as c%s" % (v, v) for v in names), "x = %s\n" % " if c else ".join(names[:min(n, 600)]), "".join("@%s\n" % v for v in names[:min(n, 600)]) + "def g(): pass\n",
              "try:\n    pass\n" + "".join("except %s:\n    pass\n" % v for v in names[:min(n, 600)]), "def g():\n    %s = 0\n    def h():\n        return %s\n" % (" = ".join(names[:min(n, 600)]), lst if n <= 600 else "b0")]
    return P

# ---- assembler streams
def small_stream(rnd):
    n = rnd.randint(1, 30)
    kinds = [rnd.choice([0, 0, 1, 1, 2, 2, 3, 4]) for _ in range(n)]
    labels = [i for i, k in enumerate(kinds) if k == 2]
    prog = []
    for i, k in enumerate(kinds):
        if k == 0: prog.append([0, rnd.choice([1, 23, 83, 87]), 0])
        elif k == 1: prog.append([1, rnd.choice([100, 101, 124]), rnd.choice([0, 1, 255, 256, 65535, 65536, 70000, 2 ** 31])])
        elif k == 2: prog.append([2, 0, 0])
        elif k == 3: prog.append([3, rnd.choice([113, 114, 115]), rnd.choice(labels)] if labels else [0, 9, 0])
        else:
            fwd = [l for l in labels if l > i]; back = [l for l in labels if l < i]
            if rnd.random() < 0.05 and back: prog.append([4, 110, rnd.choice(back)])
            elif fwd: prog.append([4, rnd.choice([110, 120, 93]), rnd.choice(fwd)])
            else: prog.append([0, 9, 0])
    return prog

def big_stream(rnd):
    njump = rnd.randint(1, 60)
    prog = []; jidx = []
    for _ in range(njump):
        jidx.append(len(prog)); prog.append([rnd.choice([3, 3, 4]), 113, -1])
        if rnd.random() < 0.5: prog.append([0, 1, 0])
    target = 65536 + rnd.randint(-80, 10)
    cur = sum(3 if p[0] in (3, 4) else 1 for p in prog)
    fill = target - cur - rnd.randint(0, 3 * njump)
    while fill > 0:
        if fill >= 3 and rnd.random() < 0.995: prog.append([1, 100, 7]); fill -= 3
        else: prog.append([0, 9, 0]); fill -= 1
    labels = []
    for _ in range(njump):
        labels.append(len(prog)); prog.append([2, 0, 0])
        for _ in range(rnd.choice([0, 1, 1, 2, 3])): prog.append([0, 12, 0])
        if rnd.random() < 0.2: prog.append([1, 100, 5])
    for _ in range(rnd.randint(0, 5)): prog.append([3, 113, rnd.choice(labels)])
    if rnd.random() < 0.3: rnd.shuffle(labels)
    else: labels.reverse()
    for j, l in zip(jidx, labels): prog[j][2] = l
    return prog

def to_coq(prog):
    def k(p):
        if p[0] == 0: return "(KOp %d, 0)" % p[1]
        if p[0] == 1: return "(KArg %d, %d)" % (p[1], p[2])
        if p[0] == 2: return "(KLabel, 0)"
        if p[0] == 3: return "(KJabs %d %d, 0)" % (p[1], p[2])
        return "(KJrel %d %d, 0)" % (p[1], p[2])
    runs = []
    for p in prog:
        t = k(p)
        if runs and runs[-1][1] == t: runs[-1][0] += 1
        else: runs.append([1, t])
    return "expand [" + "; ".join("(%d%%nat, %s)" % (c, t) for c, t in runs) + "]"

ASM_HEADER = """From Coq Require Import List Bool NArith. Import ListNotations.
From GP Require Import Model.Assemble.
Open Scope N_scope.
Definition expand (l : list (nat * (kind * N))) : list (kind * N) := flat_map (fun r => repeat (snd r) (fst r)) l.
Inductive obs := RBytes (l : list N) | RSum (len chk : N) | RPanic.
Definition leq (a b : list N) := if list_eq_dec N.eq_dec a b then true else false.
Definition chk (l : list N) : N := fold_left (fun h b => (h * 257 + b + 1) mod 1000000007) l 0.
Definition agrees (c : list (kind * N) * obs) : bool :=
  match assemble_bytes (fst c), snd c with
  | Some bs, RBytes l => leq bs l
  | Some bs, RSum n h => N.eqb (N.of_nat (length bs)) n && N.eqb (chk bs) h
  | None, RPanic => true
  | _, _ => false
  end.
Fixpoint bad (i : nat) (l : list (list (kind * N) * obs)) : list nat := match l with [] => [] | c :: r => if agrees c then bad (S i) r else i :: bad (S i) r end.
"""

def asm_check(name, progs_, obs):
    rows = []
    for p, o in zip(progs_, obs):
        if o.startswith("BYTES"): e = "RBytes [%s]" % "; ".join(o.split()[1:])
        elif o.startswith("LEN"): t = o.split(); e = "RSum %s %s" % (t[1], t[3])
        else: e = "RPanic"
        rows.append("(%s, %s)" % (to_coq(p), e))
    text = ASM_HEADER + "Definition cases := [\n" + ";\n".join(rows) + "].\nDefinition M := Eval vm_compute in bad 0 cases.\nPrint M.\n"
    rc, out = vlib.coqc_run(name, text, timeout=900)
    if rc != 0 or "M =" not in out: return None, out[-800:]
    return vlib.parse_coq_value("M " + out[out.find("M ="):].replace("M =", " =", 1)), ""

def check(res):
    tier, seed = res.tier, res.seed
    rnd = random.Random(seed)
    res.trusted = vlib.COMMON_TRUST + [
        "Model/Assemble.v is hand-written from compile/instructions.go (positions as unbounded N instead of uint32: streams below 2^32/6 instructions); tied by byte-for-byte comparison on generated streams",
        "Model/Totality.v is hand-written from the four recover handlers and py.MakeException/MakeSyntaxError; tied by verbatim comparison with the regenerated text",
        "the panic-site inventory sees explicit panic(...) calls only; implicit run-time panics, reachability of the audited internal-invariant sites and termination of the lexer/parser loops are not proved: they are searched by enumeration (testing)",
        "the compiler only emits relative jumps to labels placed later in the stream (hypothesis fwd of C11_assemble_never_panics; checked on every compilation of the search through the absence of the corresponding panic)"]
    rc, out = regen.regen_inventories()
    built, mlog = vlib.coq_make()
    p_ok = rc == 0 and "Props/C11.vo" in built
    assum = None
    if p_ok:
        assum, _ = vlib.print_assumptions("C11", ["Props.C11"], THEOREMS)
        p_ok = assum is not None
    for t in THEOREMS:
        res.oblige("theorem " + t, p_ok, (assum or {}).get(t, "") if p_ok else "Props/C11.v does not compile on the regenerated Gen/Inventories.v")
    if assum: res.trusted.append("Print Assumptions: " + "; ".join("%s: %s" % kv for kv in assum.items()))
    # ---- assembler correspondence
    nsmall, nbig = (1500, 8) if tier == "quick" else (30000, 120)
    streams = [small_stream(rnd) for _ in range(nsmall)] + [big_stream(rnd) for _ in range(nbig)]
    p = subprocess.run([os.path.join(vlib.GO, "bin", "impl"), "c11asm"], input="".join(json.dumps(s) + "\n" for s in streams), stdout=subprocess.PIPE, stderr=subprocess.DEVNULL, text=True, env=vlib.GOENV, timeout=1200)
    obs = p.stdout.splitlines()
    tie_bad = []; tie_err = None
    if len(obs) != len(streams): tie_err = "harness returned %d results for %d streams" % (len(obs), len(streams))
    else:
        nsh = 8 if tier == "quick" else 16
        shards = [list(range(len(streams)))[i::nsh] for i in range(nsh)]
        with concurrent.futures.ThreadPoolExecutor(8) as ex:
            for sh, (v, log) in zip(shards, ex.map(lambda a: asm_check("C11_asm_%d" % a[0], [streams[i] for i in a[1]], [obs[i] for i in a[1]]), list(enumerate(shards)))):
                if v is None: tie_err = log
                else: tie_bad += [sh[i] for i in v]
    okind = collections.Counter(o.split()[0].split(":")[0] for o in obs)
    res.oblige("correspondence: assembler bytes of the implementation = the model on %d instruction streams (%d straddling the 64K boundary)" % (len(streams), nbig), tie_err is None and not tie_bad, tie_err or str([streams[i][:40] for i in tie_bad[:1]]))
    # ---- search
    srcs = []; kinds = []
    def add(b, k): srcs.append(b); kinds.append(k)
    maxlen = 2 if tier == "quick" else 3
    for n in range(1, maxlen + 1):
        for t in itertools.product(ALPHA, repeat=n):
            add(enc(" ".join(t)), "tokens%d" % n)
            if n < 3: add(enc("".join(t)), "tokens%d" % n); add(enc(" ".join(t) + "\n"), "tokens%d" % n)
    for _ in range(25000 if tier == "quick" else 400000):
        add(enc(" ".join(rnd.choice(ALPHA) for _ in range(rnd.randint(3, 10))) + rnd.choice(["", "\n"])), "random-tokens")
    base = [t for _, t in progs.repo_py_files(vlib.REPO)] + progs.all_programs(seed, 30)[:600]
    per = 25 if tier == "quick" else 400
    for b in base:
        for m in mutants(rnd, b[:20000], per): add(m.encode("utf8", "surrogateescape"), "mutant")
    for b in base: add(b.encode("utf8", "surrogateescape"), "valid")
    for b in progs.nested_scope_programs(seed, 400 if tier == "quick" else 6000): add(b.encode("utf8"), "nested-scopes")
    for pr in probes(tier): add(enc(pr), "probe")
    for _ in range(2000 if tier == "quick" else 40000):
        add(bytes(rnd.randrange(256) for _ in range(rnd.randint(1, 40))), "random-bytes")
    results = run_compile(srcs)
    cnt = collections.Counter(); bad = []
    for s, k, r in zip(srcs, kinds, results):
        r = r or ["NONE"] * 3
        for m, o in zip(("exec", "eval", "single"), r):
            cnt[o.split(":")[0]] += 1
            if o not in OKRES: bad.append((k, m, s, o))
    findings = vlib.load_findings("C11")
    new = []
    for k, m, s, o in bad:
        hit = None
        for f in findings:
            if MATCHERS.get(f["matcher"], lambda *a: False)(s, m, o): hit = f; break
        if hit:
            msg = "%s (%s)" % (hit["id"], hit["input_class"])
            if msg not in res.known: res.known.append(msg)
        else: new.append((k, m, s, o))
    res.oblige("search: %d byte sequences x 3 modes: code object or located SyntaxError-family exception, no panic, no hang" % len(srcs), not new, str(new[:1])[:300])
    res.coverage.update(evaluations=3 * len(srcs) + len(streams), distinct_nontrivial=cnt["code"] + sum(1 for o in obs if not o.startswith("PANIC")), programs=len(srcs),
        rule="exhaustive sequences of length <= %d over an alphabet of %d tokens/fragments (keywords, operators, literals incl. malformed ones, indentation, control bytes, non-ASCII), joined with and without spaces and with a final newline; seeded random sequences of length 3-10; %d token mutations (delete/insert/replace/swap/duplicate) of each of %d base programs (every .py of the repository and generator programs); the unmutated programs; random and systematic nestings of def/class/lambda/comprehension with names bound, read, deleted, declared global/nonlocal at every level; %d structured probes (statement forms x enclosing contexts, parameter and argument list forms, forbidden targets, size extremes: 300 arguments, element counts 254/255/256/257/300/600 (thorough: also 65535/65536/65537) in every construct whose operand packs a count (star-unpacking before/after the star, displays, calls, defaults, keyword-only defaults, annotations, bases, imports, global/nonlocal/del lists, comparison chains, with items, decorators, handlers, closures), 3000 (quick) / 70000 (thorough) constants and names, nesting depth up to 1200, bodies over 64K of bytecode in every jump-carrying statement, extension cascades around the 64K boundary, huge literals/lines); random byte strings; all three modes; 30 s watchdog per compilation (600 s for sources over 200 KB: the constant table lookup is quadratic); non-trivial = a code object came out" % (maxlen, len(ALPHA), per, len(base), len(probes(tier))),
        samples=[dict(source=srcs[777].decode("latin-1")[:80], result=results[777])],
        distribution=dict(kinds=dict(collections.Counter(kinds)), outcomes=dict(cnt), assembler_outcomes=dict(okind)),
        modelled_not_verified=["lexer, grammar actions, symbol table pass 1 and compile.go are searched, not proved", "stack-depth computation"])
    if new:
        k, m, s, o = new[0]
        res.violation("counterexample", "py.Compile returned neither a code object nor a located SyntaxError", dict(input=dict(mode=m, source=s.decode("latin-1")[:4000], source_bytes_hex=s[:2000].hex(), generator=k),
            expected="code object or SyntaxError/IndentationError/TabError with filename, lineno, offset", observed=o, others=[dict(mode=x[1], source=x[2].decode("latin-1")[:200], observed=x[3]) for x in new[1:6]], total=len(new)))
        return
    if tie_bad:
        i = tie_bad[0]
        res.violation("counterexample", "assembler output differs from the model (for which termination and consistency are proved)", dict(input=dict(stream=streams[i] if len(streams[i]) < 200 else "big stream %d (seed %d)" % (i, seed)), expected="bytes of Model/Assemble.v", observed=obs[i][:300], others=len(tie_bad)))
        return
    if not p_ok or tie_err:
        res.violation("proof-broken" if not p_ok else "tie-broken", "C11 no longer shown", dict(theorem_or_correspondence="Props/C11.v over the regenerated Gen/Inventories.v / assembler correspondence",
            coqc_error=[l for l in mlog.splitlines() if "rror" in l][-10:], extractor=out[-300:] if rc else "", tie_error=tie_err, searched="%d byte sequences x 3 modes: no failing input" % len(srcs)), no_input=True)

MATCHERS = {}

def replay(path):
    d = json.load(open(path)); print(json.dumps(d, indent=1)[:3000]); return 1
