"""C12: emitted code objects are well-formed and stack-safe.  P: Props/C12.v (a closed certificate
covers every reachable abstract state).  Per code object: the Coq verifier (abstract interpretation
of vm/eval.go over the regenerated opcode table) must accept it, and the depths the real VM reaches
(hook 1) must be among the predicted ones."""
import glob, json, os, random, subprocess, concurrent.futures
import vlib, progs

THEOREMS = ["C12_certificate_sound", "C12_certificate_safe", "C12_decode_contiguous"]

def run_impl(srcs, run=True):
    results = [None] * len(srcs)
    def work(idx):
        pending = list(idx)
        while pending:
            inp = "".join(json.dumps({"src": srcs[i], "run": run}) + "\n" for i in pending)
            p = subprocess.run("ulimit -v 8000000; exec %s c12" % os.path.join(vlib.GO, "bin", "impl"), shell=True, input=inp,
                               stdout=subprocess.PIPE, stderr=subprocess.PIPE, text=True, env=vlib.GOENV, timeout=3000)
            lines = [l for l in p.stdout.splitlines() if l.startswith("{")]
            for k, l in enumerate(lines): results[pending[k]] = json.loads(l)
            if len(lines) >= len(pending): break
            bad = pending[len(lines)]
            if results[bad] is None: results[bad] = {"err": "ProcessCrash", "crash": (p.stderr or "")[-500:], "objs": []}
            pending = pending[len(lines) + 1:]
    chunks = [list(range(len(srcs)))[i::16] for i in range(16)]
    with concurrent.futures.ThreadPoolExecutor(16) as ex:
        list(ex.map(work, [c for c in chunks if c]))
    return results

def nl(l): return "[" + "; ".join(map(str, l)) + "]"

def coq_check(name, objs):
    rows = []
    for o in objs:
        obs = "[" + "; ".join("(%d%%N, %d, %d)" % tuple(t) for t in (o.get("obs") or [])) + "]"
        rows.append("check_code %s %d %s %d %d %d %d %s %s" % (nl(o["code"]), o["nconsts"], "[" + "; ".join("true" if b else "false" for b in (o.get("nones") or [])) + "]",
                    o["nnames"], o["nvars"], o["ncells"], o["stacksize"], nl(o.get("lnotab") or []), obs))
    text = ("From Coq Require Import List NArith String. Import ListNotations.\nFrom GP Require Import Model.Verify.\n"
            "Definition R := Eval vm_compute in [\n" + ";\n".join(rows) + "].\nPrint R.\n")
    rc, out = vlib.coqc_run(name, text, timeout=900)
    if rc != 0: return None, out[-1500:]
    body = out[out.find("R ="):]
    import re
    vals = re.findall(r'"((?:[^"]|"")*)"', body.split(" : list")[0])
    if len(vals) != len(objs): return None, "cannot parse verifier output (%d of %d)\n%s" % (len(vals), len(objs), body[:400])
    return vals, ""

def corpus(tier, seed):
    srcs = []; origin = []
    for f in sorted(glob.glob(os.path.join(vlib.REPO, "**", "*.py"), recursive=True)):
        try:
            s = open(f, encoding="utf8").read()
        except Exception:
            continue
        srcs.append(s); origin.append(("file", os.path.relpath(f, vlib.REPO)))
    for i, s in enumerate(progs.control_flow_programs(seed, 150 if tier == "quick" else 6000)):
        srcs.append(s); origin.append(("generated", i))
    for s, m in progs.nesting_programs(seed, 100 if tier == "quick" else 8000):
        srcs.append(s); origin.append(("nesting", m))
    tce = progs.try_clause_exit_programs()
    for s, m in (tce if tier != "quick" else tce[::3]):
        srcs.append(s); origin.append(("exit-from-try-clause", m))
    return srcs, origin

def check(res):
    tier, seed = res.tier, res.seed
    res.trusted = vlib.COMMON_TRUST + [
        "Model/Verify.v: the abstract effects of every opcode and of the unwinding loop are hand-written from vm/eval.go; they are tied to the real VM by the run-time conformance check (every executed instruction's stack and block depth must be among the predicted ones) -- testing",
        "the opcode numbering is regenerated from vm/opcodes.go on every run"]
    res.assumptions = ["exceptions may be raised by any instruction the model marks can_raise; tags on the abstract stack (None / unwinding reason / exception class) are what END_FINALLY and WITH_CLEANUP inspect"]
    rc, out = vlib.run_tool("extract", ["-repo", vlib.REPO, "-out", os.path.join(vlib.COQ, "Gen"), "-what", "opcodes"])
    res.oblige("extract: opcode table of vm/opcodes.go", rc == 0, out.strip()[-800:])
    built, mlog = vlib.coq_make()
    p_ok = "Props/C12.vo" in built
    assum = None
    if p_ok:
        assum, _ = vlib.print_assumptions("C12", ["Props.C12"], THEOREMS)
        p_ok = assum is not None
    for t in THEOREMS:
        res.oblige("theorem " + t, p_ok, (assum or {}).get(t, "") if p_ok else "Props/C12.v does not compile (model vs regenerated opcode table)")
    if assum: res.trusted.append("Print Assumptions: " + "; ".join("%s: %s" % kv for kv in assum.items()))
    srcs, origin = corpus(tier, seed)
    outs = run_impl(srcs)
    objs = []; owner = []; crashes = []
    for k, r in enumerate(outs):
        if r is None: continue
        if r.get("panic") or r.get("crash"):
            crashes.append((origin[k], r.get("panic") or r.get("crash")))
        for o in r.get("objs") or []:
            objs.append(o); owner.append(k)
    verdicts = [None] * len(objs); verr = None
    if "Model/Verify.vo" in built and objs:
        order = sorted(range(len(objs)), key=lambda i: -len(objs[i]["code"]))
        shards = [order[i::16] for i in range(16)]
        with concurrent.futures.ThreadPoolExecutor(16) as ex:
            for sh, (v, log) in zip(shards, ex.map(lambda a: coq_check("C12_objs_%d" % a[0], [objs[i] for i in a[1]]), list(enumerate(shards)))):
                if v is None: verr = log
                else:
                    for i, m in zip(sh, v): verdicts[i] = m
    else:
        verr = "Model/Verify.v did not compile"
    bad = [(i, m) for i, m in enumerate(verdicts) if m]
    executed = sum(len(o.get("obs") or []) for o in objs)
    res.oblige("translation validation: the Coq verifier accepts all %d code objects and predicts all %d observed (pc, depth, block depth) triples" % (len(objs), executed),
               verr is None and not bad, verr or str([(objs[i]["name"], origin[owner[i]], m) for i, m in bad[:3]]))
    res.coverage.update(evaluations=len(objs), distinct_nontrivial=sum(1 for o in objs if any(b in o["code"] for b in (120, 121, 122, 143))),
        programs=len(srcs), disagreements_checked=executed,
        rule="every code object (recursively) compiled from every .py file of the repository and from seeded generated programs nesting loops, try/except/finally, with, break/continue/return/raise, comprehensions, closures, classes and generators; each is verified inside Coq and, where it executes, every distinct (pc, stack depth, block depth) reached by the VM is checked against the certificate; non-trivial = the object contains SETUP_LOOP/EXCEPT/FINALLY/WITH",
        samples=[dict(program=origin[owner[i]], code_object=objs[i]["name"], code_bytes=len(objs[i]["code"]), stacksize=objs[i]["stacksize"], observed_states=len(objs[i].get("obs") or [])) for i in range(min(3, len(objs)))],
        distribution=dict(programs=len(srcs), code_objects=len(objs), executed_states=executed, crashes=len(crashes)))
    if bad:
        i, m = bad[0]
        res.violation("counterexample", "a code object emitted by the compiler is rejected by the verifier or the VM left the predicted depths: " + m,
                      dict(input=dict(program=origin[owner[i]], source=srcs[owner[i]][:3000], code_object=objs[i]["name"]), expected="verifier accepts and predicts every run-time depth",
                           observed=m, code=objs[i], others=[(objs[j]["name"], origin[owner[j]], mm) for j, mm in bad[1:6]]))
        return
    if crashes:
        o, m = crashes[0]
        res.violation("counterexample", "the VM panicked while executing a compiled program", dict(input=dict(program=o), observed=m, expected="no Go panic"))
        return
    if not p_ok or verr or rc != 0:
        res.violation("proof-broken" if not p_ok else "tie-broken", "C12 no longer shown",
                      dict(theorem_or_correspondence="Props/C12.v / Model/Verify.v vs Gen/Opcodes.v", coqc_error=[l for l in mlog.splitlines() if "rror" in l][-10:], tie_error=verr), no_input=True)

def replay(path):
    d = json.load(open(path)); print(json.dumps({k: d[k] for k in d if k != "code"}, indent=1)[:3000]); return 1
