"""C05: generators and iteration.  P: Props/C05.v (a consumer whose termination test is IsException
is correct for every producer history; every termination test extracted from the Go source this run
is of that kind).  Oracle: generator histories and consumer x producer x raise-position programs vs
CPython."""
import json, os, random
import vlib, pydiff, progs

THEOREMS = ["C05_consumer_sound", "C05_all_sites_sound", "C05_every_consumer"]

def check(res):
    tier, seed = res.tier, res.seed
    res.trusted = vlib.COMMON_TRUST + [
        "go/cmd/extract itertests: syntactic classification of the test applied to the error of every Next/M__next__ call in py/, vm/, stdlib/builtin, stdlib/array, stdlib/string, stdlib/math (an unrecognised shape is classified AnyError, i.e. fails the obligation)",
        "generator suspension/resumption (py/generator.go, YIELD_VALUE, YIELD_FROM) is NOT modelled: compared with CPython on seeded next/send histories over several live generators (validated oracle, testing)"]
    res.assumptions = ["CPython 3.11 agrees with Python 3.4 on the generated programs (StopIteration raised inside a generator body is excluded: PEP 479)"]
    rc, out = vlib.run_tool("extract", ["-repo", vlib.REPO, "-out", os.path.join(vlib.COQ, "Gen"), "-what", "itertests"])
    sites = [l.split()[1:] for l in out.splitlines() if l.startswith("ITERSITE")]
    res.oblige("extract: inventory of iteration-termination tests (%d sites)" % len(sites), rc == 0 and len(sites) >= 10, out[-600:] if rc else "")
    built, mlog = vlib.coq_make()
    p_ok = "Props/C05.vo" in built
    assum = None
    if p_ok:
        assum, _ = vlib.print_assumptions("C05", ["Props.C05"], THEOREMS)
        p_ok = assum is not None
    unsound = [s for s in sites if s[-1] not in ("ByIsException", "Propagate")]
    for t in THEOREMS:
        res.oblige("theorem " + t, p_ok, (assum or {}).get(t, "") if p_ok else "Props/C05.v does not compile: unsound termination tests " + str(unsound[:5]))
    if assum: res.trusted.append("Print Assumptions: " + "; ".join("%s: %s" % kv for kv in assum.items()))
    cases = [(s, dict(kind="generator-history", **m)) for s, m in progs.generator_history_programs(seed, 600 if tier == "quick" else 20000)]
    cases += [(s, dict(kind="consumer", **m)) for s, m in progs.consumer_programs()]
    cases += [(s, dict(kind="laziness", **m)) for s, m in progs.laziness_programs()]
    # exception state and suspension: a yield inside an except handler / finally, then the rest of the handler
    for nm, body in [("raise-after-yield", "yield 1\n        raise"), ("value-after-yield", "yield 1\n        print('still', isinstance(e, ValueError))\n        yield 2"),
                     ("nested-handled-after-yield", "yield 1\n        try:\n            raise KeyError('k')\n        except KeyError:\n            print('inner')\n        yield 2")]:
        src = ("def g():\n    try:\n        raise ValueError('x')\n    except ValueError as e:\n        %s\n    yield 'end'\nit = g()\nprint(next(it))\n"
               "try:\n    print(next(it))\n    print(next(it, 'stop'))\nexcept ValueError:\n    print('ValueError')\nexcept RuntimeError:\n    print('RuntimeError')\n" % body)
        cases.append((src, dict(kind="handler-yield", form=nm)))
    srcs = [c[0] for c in cases]
    impl = pydiff.run_impl(srcs); ref = pydiff.run_ref(srcs)
    mism = []; nontrivial = 0; known = {}
    findings = vlib.load_findings("C05")
    for (src, case), a, b in zip(cases, impl, ref):
        ga = (a.get("out", ""), a.get("err", "")); gb = (b.get("out", ""), b.get("err", ""))
        if a.get("panic") or a.get("crash") or a.get("hang"): ga = ("<GO PANIC/HANG %s>" % (a.get("panic") or a.get("crash") or "hang"), "")
        if case["kind"] == "consumer" and case["how"] != "none": nontrivial += 1
        if case["kind"] == "generator-history" and len(case["live"]) > 1: nontrivial += 1
        if ga != gb:
            hit = None
            for f in findings:
                mt = MATCHERS.get(f.get("matcher"))
                if mt and mt(case): hit = f; break
            if hit: known.setdefault(hit["id"], (case, ga, gb))
            else: mism.append((case, src, ga, gb))
    for fid, (case, ga, gb) in known.items():
        f = [x for x in findings if x["id"] == fid][0]
        res.known.append("%s: %s (observed %s, Python %s)" % (fid, f["input_class"], ga[0][-60:].replace("\n", " | "), gb[0][-60:].replace("\n", " | ")))
    res.coverage.update(evaluations=len(cases), distinct_nontrivial=nontrivial, programs=len(cases),
        rule="(a) seeded histories of next()/send(v) over 1-3 live generators drawn from a pool (loops, sent values, nested try/finally, return values, yield from, raising bodies); (b) every consumer (for, comprehensions, unpacking, star-call, list/tuple/set/sum/min/max/sorted/zip/map/filter/enumerate/any/all/in/str.join/next) x producer kind (generator, user iterator class, __getitem__ sequence, builtin iterator) x position 0..3 at which the producer raises StopIteration (class), StopIteration() (instance) or KeyError; non-trivial = the producer stops early/raises, or several generators are interleaved",
        samples=[dict(case=cases[0][1], stdout=impl[0].get("out", "")[:300])],
        distribution=dict(histories=sum(1 for c in cases if c[1]["kind"] == "generator-history"), consumer_cases=sum(1 for c in cases if c[1]["kind"] == "consumer"),
                          termination_sites=len(sites), site_styles={k: sum(1 for s in sites if s[-1] == k) for k in set(s[-1] for s in sites)}),
        oracle_disagreements=len(mism), modelled_not_verified=["generator frames", "generator.throw/close (NotImplemented in gpython)"])
    if mism:
        case, src, ga, gb = mism[0]
        res.violation("counterexample", "generator / iteration behaviour differs from Python", dict(input=dict(case=case, source=src[-2000:]),
                      expected=dict(stdout=gb[0][-500:], error=gb[1]), observed=dict(stdout=ga[0][-500:], error=ga[1]),
                      others=[dict(case=c, observed=x[0][-200:], expected=y[0][-200:]) for c, _, x, y in mism[1:6]]))
        return
    if not p_ok or rc != 0:
        res.violation("proof-broken", "C05: an iteration-termination test in the Go source is not 'StopIteration (class or instance)'",
                      dict(theorem_or_correspondence="C05_all_sites_sound over Gen/IterTests.v", unsound_sites=unsound, coqc_error=[l for l in mlog.splitlines() if "rror" in l][-6:]), no_input=True)

def m_handler_yield_raise(case): return case.get("kind") == "handler-yield" and case.get("form") == "raise-after-yield"
MATCHERS = {"c05.handler_yield_raise": m_handler_yield_raise}

def replay(path):
    d = json.load(open(path)); print(json.dumps(d, indent=1)[:3000]); return 1
