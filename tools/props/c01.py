"""C01: expressions evaluate once, left to right, with Python's grouping.  P: Props/C01.v -- for EVERY
expression (operators, subscripts, attributes, calls, displays, and/or, conditional, chained comparisons)
the code compile.go emits, run by the VM model, yields the value and the event sequence of Python's rule
(operands once, left to right, operator after operands, short circuit, chains); same for assignment and
augmented assignment.  T: the model's compile = the disassembled bytecode of the real compiler on generated
expressions/statements whose tree is taken from CPython's parser (grouping oracle).  Oracle: CPython on
programs whose operands log their own evaluation."""
import ast, collections, concurrent.futures, json, os, random, re, subprocess
import vlib, pydiff
import forms_c01

THEOREMS = ["C01_expression_code_follows_pythons_rule", "C01_whole_expression", "C01_each_operand_once_in_order", "C01_assignment_code_follows_pythons_rule", "C01_nary_form_code_follows_pythons_rule"]
IMPL = os.path.join(vlib.GO, "bin", "impl")

def opcodes():
    txt = open(os.path.join(vlib.REPO, "vm", "opcodes.go")).read()
    return {m.group(1): int(m.group(2)) for m in re.finditer(r"^\s*([A-Z_]+)\s+OpCode\s*=\s*(\d+)", txt, re.M)}

BIN = {"+": ("Add", "ADD", 10), "-": ("Sub", "SUBTRACT", 10), "*": ("Mult", "MULTIPLY", 11), "/": ("Div", "TRUE_DIVIDE", 11), "//": ("FloorDiv", "FLOOR_DIVIDE", 11), "%": ("Mod", "MODULO", 11),
       "**": ("Pow", "POWER", 13), "<<": ("LShift", "LSHIFT", 9), ">>": ("RShift", "RSHIFT", 9), "&": ("BitAnd", "AND", 8), "^": ("BitXor", "XOR", 7), "|": ("BitOr", "OR", 6)}
UN = {"-": ("USub", "UNARY_NEGATIVE"), "+": ("UAdd", "UNARY_POSITIVE"), "~": ("Invert", "UNARY_INVERT"), "not ": ("Not", "UNARY_NOT")}
CMP = ["<", "<=", "==", "!=", ">", ">=", "in", "not in", "is", "is not"]
CMP_AST = {"Lt": 0, "LtE": 1, "Eq": 2, "NotEq": 3, "Gt": 4, "GtE": 5, "In": 6, "NotIn": 7, "Is": 8, "IsNot": 9}

class Gen:
    def __init__(self, rnd): self.rnd = rnd; self.n = 0
    def leaf(self):
        self.n += 1; return ("t(%d)" % self.n, 15)
    def paren(self, sp, need):
        s, p = sp
        if p < need or self.rnd.random() < 0.08: return "(" + s + ")"
        return s
    def expr(self, d, safe=False):
        r = self.rnd
        if d <= 0 or r.random() < 0.15: return self.leaf()
        kinds = ["bin"] * 5 + ["un", "and", "or", "cmp", "cmp", "ife", "tuple", "list", "call", "sub", "attr", "slice"]
        if safe: kinds = ["bin"] * 5 + ["un", "and", "or", "cmp", "cmp", "ife", "tuple", "list", "call2", "subl"]
        k = r.choice(kinds)
        if k == "bin":
            ops = list(BIN) if not safe else ["+", "-", "*", "//", "%", "&", "^", "|"]
            op = r.choice(ops); lv = BIN[op][2]
            a = self.expr(d - 1, safe); b = self.expr(d - 1, safe)
            if op == "**": return ("%s ** %s" % (self.paren(a, 14), self.paren(b, 12)), 13)
            return ("%s %s %s" % (self.paren(a, lv), op, self.paren(b, lv + 1)), lv)
        if k == "un":
            op = r.choice(list(UN) if not safe else ["-", "~", "not "]); a = self.expr(d - 1, safe)
            if op == "not ": return ("not " + self.paren(a, 4), 4)
            return (op + self.paren(a, 12), 12)
        if k in ("and", "or"):
            lv = 3 if k == "and" else 2
            parts = [self.expr(d - 1, safe) for _ in range(r.choice([2, 2, 3]))]
            return ((" %s " % k).join(self.paren(p, lv + 1) for p in parts), lv)
        if k == "cmp":
            n = r.choice([1, 1, 2, 3])
            parts = [self.expr(d - 1, safe) for _ in range(n + 1)]
            # gpython has no ordering of lists/tuples (known finding of C13): only == and != next to displays
            pool = CMP if not safe else (CMP[2:4] if any("[" in p[0] or "," in p[0] for p in parts) else CMP[:6])
            ops = [r.choice(pool) for _ in range(n)]
            s = self.paren(parts[0], 6)
            for o, p in zip(ops, parts[1:]): s += " %s %s" % (o, self.paren(p, 6))
            return (s, 5)
        if k == "ife":
            c = self.expr(d - 1, safe); a = self.expr(d - 1, safe); b = self.expr(d - 1, safe)
            return ("%s if %s else %s" % (self.paren(a, 2), self.paren(c, 2), self.paren(b, 1)), 1)
        if k in ("tuple", "list"):
            n = r.choice([1, 2, 2, 3]) if k == "tuple" else r.choice([2, 3])
            parts = [self.paren(self.expr(d - 1, safe), 2) for _ in range(n)]
            if k == "tuple": return ("(" + ", ".join(parts) + ("," if n == 1 else "") + ")", 15)
            return ("[" + ", ".join(parts) + "]", 15)
        if k == "call":
            f = self.expr(d - 1); args = [self.paren(self.expr(d - 1), 2) for _ in range(r.choice([1, 2]))]
            return ("%s(%s)" % (self.paren(f, 14), ", ".join(args)), 14)
        if k == "call2":
            args = [self.paren(self.expr(d - 1, True), 2) for _ in range(2)]
            return ("g(%s)" % ", ".join(args), 14)
        if k == "sub":
            a = self.expr(d - 1); i = self.expr(d - 1)
            return ("%s[%s]" % (self.paren(a, 14), self.paren(i, 1)), 14)
        if k == "subl":
            i = self.expr(d - 1, True)
            return ("L[(%s) %% 3]" % i[0], 14)
        if k == "slice":
            a = self.expr(d - 1); parts = [self.paren(self.expr(d - 1), 2) for _ in range(r.choice([2, 3]))]
            return ("%s[%s]" % (self.paren(a, 14), ":".join(parts)), 14)
        a = self.expr(d - 1)
        return ("%s.a%d" % (self.paren(a, 14), r.randrange(10)), 14)
    def target(self, d):
        k = self.rnd.choice(["name", "sub", "attr", "sub"])
        if k == "name": return "x%d" % self.rnd.randrange(10)
        if k == "sub": return "%s[%s]" % (self.paren(self.expr(d), 14), self.paren(self.expr(d), 1))
        return "%s.a%d" % (self.paren(self.expr(d), 14), self.rnd.randrange(10))
    def stmt(self, d):
        r = self.rnd
        if r.random() < 0.5:
            ts = [self.target(d) for _ in range(r.choice([1, 1, 2, 3]))]
            return " = ".join(ts) + " = " + self.paren(self.expr(d), 1)
        op = r.choice(["+", "-", "*", "/", "//", "%", "**", "<<", ">>", "&", "^", "|"])
        return "%s %s= %s" % (self.target(d), op, self.paren(self.expr(d), 1))

class Conv:
    """CPython AST -> Coq term of Model/ExprOrder.v"""
    def __init__(self, oc): self.oc = oc
    def e(self, n):
        if isinstance(n, ast.Call) and isinstance(n.func, ast.Name) and n.func.id == "t" and len(n.args) == 1 and isinstance(n.args[0], ast.Constant):
            return "(Leaf %d)" % n.args[0].value
        if isinstance(n, ast.BinOp):
            tag = self.oc["BINARY_" + {v[0]: v[1] for v in BIN.values()}[type(n.op).__name__]]
            return "(Prim2 %d %s %s)" % (tag, self.e(n.left), self.e(n.right))
        if isinstance(n, ast.UnaryOp):
            tag = self.oc[{v[0]: v[1] for v in UN.values()}[type(n.op).__name__]]
            return "(Prim1 %d %s)" % (tag, self.e(n.operand))
        if isinstance(n, ast.BoolOp):
            c = "And" if isinstance(n.op, ast.And) else "Or"
            vs = [self.e(v) for v in n.values]
            t = vs[-1]
            for v in reversed(vs[:-1]): t = "(%s %s %s)" % (c, v, t)
            return t
        if isinstance(n, ast.Compare):
            ch = "CEnd"
            for o, c in reversed(list(zip(n.ops, n.comparators))): ch = "(CMore %d %s %s)" % (300 + CMP_AST[type(o).__name__], self.e(c), ch)
            return "(Cmp %s %s)" % (self.e(n.left), ch)
        if isinstance(n, ast.IfExp): return "(IfE %s %s %s)" % (self.e(n.test), self.e(n.body), self.e(n.orelse))
        if isinstance(n, (ast.Tuple, ast.List)):
            tag = 501 if isinstance(n, ast.Tuple) else 502
            return "(Prim%d %d %s)" % (len(n.elts), tag, " ".join(self.e(x) for x in n.elts))
        if isinstance(n, ast.Call):
            return "(Prim%d 500 %s %s)" % (len(n.args) + 1, self.e(n.func), " ".join(self.e(x) for x in n.args))
        if isinstance(n, ast.Attribute): return "(Prim1 %d %s)" % (400 + int(n.attr[1:]), self.e(n.value))
        if isinstance(n, ast.Subscript):
            s = n.slice
            if isinstance(s, ast.Slice):
                parts = [s.lower, s.upper] + ([s.step] if s.step is not None else [])
                idx = "(Prim%d 503 %s)" % (len(parts), " ".join(self.e(x) for x in parts))
            else: idx = self.e(s)
            return "(Prim2 %d %s %s)" % (self.oc["BINARY_SUBSCR"], self.e(n.value), idx)
        raise ValueError("unsupported " + ast.dump(n)[:80])
    def nary(self, n):
        """a top-level n-ary form (Model/ExprOrder.v compile_nary): (tag, [operands in emission order])"""
        if isinstance(n, ast.Call) and not any(isinstance(a, ast.Starred) for a in n.args) and all(k.arg and re.fullmatch(r"k\d+", k.arg) for k in n.keywords):
            ops = ["OExpr %s" % self.e(n.func)] + ["OExpr %s" % self.e(a) for a in n.args]
            for k in n.keywords: ops += ["OConst %d" % (9000 + int(k.arg[1:])), "OExpr %s" % self.e(k.value)]
            return (600 + len(n.keywords)) if n.keywords else 500, ops
        if isinstance(n, (ast.Tuple, ast.List, ast.Set)):
            return {ast.Tuple: 501, ast.List: 502, ast.Set: 504}[type(n)], ["OExpr %s" % self.e(x) for x in n.elts]
        raise ValueError("not an n-ary form")
    def target(self, n):
        if isinstance(n, ast.Name): return "(TName %d)" % int(n.id[1:])
        if isinstance(n, ast.Attribute): return "(TAttr %s %d)" % (self.e(n.value), 400 + int(n.attr[1:]))
        if isinstance(n, ast.Subscript): return "(TSub %s %s)" % (self.e(n.value), self.e(n.slice))
        raise ValueError("unsupported target")
    def stmt(self, n):
        if isinstance(n, ast.Assign):
            ts = [self.target(x) for x in n.targets]
            return "(Assign [%s] %s %s)" % ("; ".join(ts[:-1]), ts[-1], self.e(n.value))
        op = self.oc["INPLACE_" + {v[0]: v[1] for v in BIN.values()}[type(n.op).__name__]]
        t = n.target
        if isinstance(t, ast.Name): return "(AugName %d %d %s)" % (int(t.id[1:]), op, self.e(n.value))
        if isinstance(t, ast.Attribute): return "(AugAttr %s %d %d %s)" % (self.e(t.value), 400 + int(t.attr[1:]), op, self.e(n.value))
        return "(AugSub %s %s %d %s)" % (self.e(t.value), self.e(t.slice), op, self.e(n.value))

def ins_coq(ins):
    k = ins[0]
    m = {"dup": "IDupTop", "dup2": "IDupTopTwo", "rot2": "IRotTwo", "rot3": "IRotThree", "pop": "IPopTop", "storesub": "IStoreSubscr"}
    if k in m: return m[k]
    if k == "leaf": return "ILeaf %d" % ins[1]
    if k == "prim": return "IPrim %d %d" % (ins[1], ins[2])
    if k in ("jfop", "jtop", "pjif", "jf"): return {"jfop": "IJumpIfFalseOrPop", "jtop": "IJumpIfTrueOrPop", "pjif": "IPopJumpIfFalse", "jf": "IJumpForward"}[k] + " %d" % ins[1]
    if k == "loadname": return "ILoadName %d" % ins[1]
    if k == "storename": return "IStoreName %d" % ins[1]
    if k == "storeattr": return "IStoreAttr %d" % ins[1]
    if k == "const": return "IConst %d" % ins[1]
    return None

COQ_HEADER = """From Coq Require Import List ZArith Arith Bool. Import ListNotations.
From GP Require Import Model.ExprOrder.
Definition ieq (a b : instr) : bool :=
  match a, b with
  | ILeaf x, ILeaf y | IJumpIfFalseOrPop x, IJumpIfFalseOrPop y | IJumpIfTrueOrPop x, IJumpIfTrueOrPop y | IPopJumpIfFalse x, IPopJumpIfFalse y
  | IJumpForward x, IJumpForward y | ILoadName x, ILoadName y | IStoreName x, IStoreName y | IStoreAttr x, IStoreAttr y => Nat.eqb x y
  | IConst x, IConst y => Z.eqb x y
  | IPrim t n, IPrim t' n' => Nat.eqb t t' && Nat.eqb n n'
  | IDupTop, IDupTop | IRotTwo, IRotTwo | IRotThree, IRotThree | IPopTop, IPopTop | IDupTopTwo, IDupTopTwo | IStoreSubscr, IStoreSubscr => true
  | _, _ => false
  end.
Fixpoint leq (a b : list instr) : bool := match a, b with [] , [] => true | x :: r, y :: s => ieq x y && leq r s | _, _ => false end.
Inductive ccase := CE (e : expr) (o : list instr) | CS (s : stmt) (o : list instr) | CN (tag : nat) (os : list operand) (o : list instr).
Definition agrees (c : ccase) : bool := match c with CE e o => leq (compile e) o | CS s o => leq (compile_stmt s) o | CN t os o => leq (compile_nary t os) o end.
Fixpoint bad (i : nat) (l : list ccase) : list nat := match l with [] => [] | c :: r => if agrees c then bad (S i) r else i :: bad (S i) r end.
"""

def coq_check(name, rows):
    text = COQ_HEADER + "Definition cases := [\n" + ";\n".join(rows) + "].\nDefinition M := Eval vm_compute in bad 0 cases.\nPrint M.\n"
    rc, out = vlib.coqc_run(name, text, timeout=900)
    if rc != 0 or "M =" not in out: return None, out[-800:]
    return vlib.parse_coq_value("M " + out[out.find("M ="):].replace("M =", " =", 1)), ""

PRELUDE = ("log = []\ndef t(i):\n    log.append(i)\n    return (i * 7 + 3) % 11 - 3\ndef g(a, b):\n    log.append('g')\n    return a + 2 * b\nL = [5, 6, 7]\n"
           "def run(f):\n    del log[:]\n    try:\n        r = f()\n        print(r, log)\n    except ZeroDivisionError:\n        print('ZeroDivisionError', log)\n    except TypeError:\n        print('TypeError', log)\n    except ValueError:\n        print('ValueError', log)\n")

def check(res):
    tier, seed = res.tier, res.seed
    rnd = random.Random(seed)
    res.trusted = vlib.COMMON_TRUST + [
        "Model/ExprOrder.v is hand-written from compile.go (Expr, Stmt Assign/AugAssign) and vm/eval.go (stack discipline of the opcodes involved); tied by comparing the model's compile with the disassembled bytecode of the real compiler, instruction by instruction",
        "CPython's parser gives the tree (grouping oracle) of each generated source text; CPython's evaluation is the oracle of the logging programs",
        "the primitive operations are uninterpreted in the theorem (it is about order and multiplicity); raising operands are outside the model (compared with CPython only)"]
    built, mlog = vlib.coq_make()
    p_ok = "Props/C01.vo" in built
    assum = None
    if p_ok:
        assum, _ = vlib.print_assumptions("C01", ["Props.C01"], THEOREMS)
        p_ok = assum is not None
    for t in THEOREMS:
        res.oblige("theorem " + t, p_ok, (assum or {}).get(t, "") if p_ok else "Props/C01.v does not compile")
    if assum: res.trusted.append("Print Assumptions: " + "; ".join("%s: %s" % kv for kv in assum.items()))
    oc = opcodes(); conv = Conv(oc)
    ne, ns = (2500, 1200) if tier == "quick" else (40000, 20000)
    cases = []
    for _ in range(ne):
        g = Gen(rnd); src = g.expr(rnd.choice([1, 2, 2, 3, 3, 4]))[0]
        cases.append(("eval", src))
    # exhaustive operator pairs/triples for precedence and associativity
    allops = list(BIN) + ["and", "or", "<", "==", "in", "is not", "if"]
    for o1 in allops:
        for o2 in allops:
            def mk(a, o, b): return "%s if %s else %s" % (a, b, a) if o == "if" else "%s %s %s" % (a, o, b)
            cases.append(("eval", mk(mk("t(1)", o1, "t(2)"), o2, "t(3)") if o1 != "if" else "t(1) if t(2) else t(3) %s t(4)" % (o2 if o2 != "if" else "+")))
            for u in ("-", "not ", "~"):
                if o1 != "if" and o2 != "if": cases.append(("eval", "%st(1) %s %st(2) %s t(3)" % (u, o1, u if u != "not " or o1 in ("and", "or") else "", o2)))
    for _ in range(ns):
        g = Gen(rnd); cases.append(("exec", g.stmt(rnd.choice([0, 1, 1, 2])) + "\n"))
    # n-ary forms: calls with 0-5 positional and 0-4 keyword arguments, displays of 4-8 elements
    for _ in range(ne // 5):
        g = Gen(rnd); sub_ = lambda: g.paren(g.expr(rnd.choice([0, 1, 1, 2])), 1)
        if rnd.random() < 0.6:
            names = rnd.sample(range(1, 40), rnd.randint(0, 4))
            args = [sub_() for _ in range(rnd.randint(0, 5))] + ["k%d=%s" % (k, sub_()) for k in names]
            cases.append(("nary", "%s(%s)" % (g.paren(g.expr(rnd.choice([0, 1])), 15), ", ".join(args))))
        else:
            o, c = rnd.choice([("(", ")"), ("[", "]"), ("{", "}")])
            cases.append(("nary", o + ", ".join(sub_() for _ in range(rnd.randint(4, 8))) + c))
    p = subprocess.run([IMPL, "c01"], input="".join(json.dumps(dict(src=s, mode="eval" if m == "nary" else m)) + "\n" for m, s in cases), stdout=subprocess.PIPE, stderr=subprocess.DEVNULL, text=True, env=vlib.GOENV, timeout=1200)
    obs = p.stdout.splitlines()
    rows = []; rowsrc = []; skipped = collections.Counter(); tie_err = None; syn = []
    if len(obs) != len(cases): tie_err = "harness returned %d results for %d sources" % (len(obs), len(cases))
    else:
        for (mode, src), o in zip(cases, obs):
            try: tree = ast.parse(src, mode="eval" if mode == "nary" else mode)
            except SyntaxError:
                skipped["cpython-syntax-error"] += 1
                if not o.startswith('{"error"'): syn.append((src, o[:100]))
                continue
            d = json.loads(o)
            if isinstance(d, dict):
                syn.append((src, d["error"])); continue
            try:
                if mode == "nary":
                    tg, ops = conv.nary(tree.body); term = "%d [%s]" % (tg, "; ".join(ops))
                else:
                    term = conv.e(tree.body) if mode == "eval" else conv.stmt(tree.body[0])
            except (ValueError, KeyError) as ex:
                skipped["unsupported"] += 1; continue
            ins = [ins_coq(i) for i in d]
            ck = {"eval": "CE", "exec": "CS", "nary": "CN"}[mode]
            if any(i is None for i in ins):
                rows.append("(%s %s [ILeaf 999999])" % (ck, term))     # an opcode outside the vocabulary: cannot agree
            else: rows.append("(%s %s [%s])" % (ck, term, "; ".join(ins)))
            rowsrc.append((mode, src, d))
    tie_bad = []
    if rows:
        nsh = 8 if tier == "quick" else 16
        shards = [list(range(len(rows)))[i::nsh] for i in range(nsh)]
        with concurrent.futures.ThreadPoolExecutor(8) as ex:
            for sh, (v, log) in zip(shards, ex.map(lambda a: coq_check("C01_code_%d" % a[0], [rows[i] for i in a[1]]), list(enumerate(shards)))):
                if v is None: tie_err = log
                else: tie_bad += [sh[i] for i in v]
    res.oblige("correspondence: model compile = disassembled code of the real compiler on %d expressions and statements (trees from CPython's parser); the real compiler accepts exactly what CPython's parser accepts" % len(rows), tie_err is None and not tie_bad and not syn, tie_err or str([rowsrc[i] for i in tie_bad[:1]] or syn[:2])[:500])
    # ---- dynamic differential: operands log their evaluation
    nd = 1500 if tier == "quick" else 30000
    exprs = []
    for _ in range(nd):
        g = Gen(rnd); exprs.append(g.expr(rnd.choice([2, 3, 3, 4]), safe=True)[0])
    stm = []
    for _ in range(nd // 3):
        g = Gen(rnd)
        tgt = lambda: rnd.choice(["L[%s %% 3]" % g.expr(1, True)[0], "D[%s %% 2]" % g.expr(1, True)[0], "v"])
        if rnd.random() < 0.5: stm.append(" = ".join(tgt() for _ in range(rnd.choice([1, 2, 3]))) + " = " + g.expr(2, True)[0])
        else: stm.append("%s %s= %s" % (tgt(), rnd.choice(["+", "-", "*", "//", "&", "|", "^"]), g.expr(2, True)[0]))
    # unpacking targets: plain, starred at every position, nested, list syntax, wrong lengths
    def pattern(depth, names):
        n = rnd.randint(1, 5); star = rnd.choice([None] * 2 + list(range(n)))
        parts = []; shape = []
        for i in range(n):
            if depth > 0 and rnd.random() < 0.2 and i != star:
                sub, sh = pattern(depth - 1, names); parts.append("(" + sub + ")"); shape.append(sh)
            else:
                nm = "u%d" % len(names); names.append(nm); parts.append(("*" if i == star else "") + nm); shape.append("*" if i == star else 1)
        txt = ", ".join(parts) + ("," if n == 1 else "")
        return (txt if rnd.random() < 0.7 else "[" + ", ".join(parts) + "]"), shape
    def value(shape, g, slack):
        items = []
        for sh in shape:
            if sh == "*": items += [g.expr(1, True)[0] for _ in range(rnd.randint(0, 3))]
            elif sh == 1: items.append(g.expr(1, True)[0])
            else: items.append(value(sh, g, 0))
        if slack: items = items[:-1] if (slack < 0 and items) else items + ["t(99)"]
        return rnd.choice(["[%s]", "(%s,)", "iter([%s])"]) % ", ".join(items)
    unp = []
    for _ in range(nd // 3):
        g = Gen(rnd); names = []; pat, shape = pattern(2, names)
        slack = rnd.choice([0, 0, 0, 0, 1, -1])
        unp.append((pat, value(shape, g, slack), names))
    chunks = [exprs[i:i + 150] for i in range(0, len(exprs), 150)]
    progs_ = [PRELUDE + "".join("run(lambda: %s)\n" % e for e in ch) for ch in chunks]
    schunks = [stm[i:i + 100] for i in range(0, len(stm), 100)]
    for ch in schunks:
        body = PRELUDE + "D = [1, 2]\nv = 1\n"
        for s in ch: body += "del log[:]\nL = [5, 6, 7]; D = [1, 2]; v = 1\ntry:\n    %s\n    print(L, D, v, log)\nexcept ZeroDivisionError:\n    print('ZeroDivisionError', log)\n" % s
        progs_.append(body)
    uchunks = [unp[i:i + 100] for i in range(0, len(unp), 100)]
    for ch in uchunks:
        body = PRELUDE
        for pat, val, names in ch:
            body += "del log[:]\ntry:\n    %s = %s\n    print(%s, log)\nexcept ValueError:\n    print('ValueError', log)\nexcept TypeError:\n    print('TypeError', log)\n" % (pat, val, ", ".join(names) if names else "0")
        progs_.append(body)
    a = pydiff.run_impl(progs_); b = pydiff.run_ref(progs_)
    mism = []
    # statement and expression forms outside the model (keyword/star arguments, comprehensions, slices, del, with,
    # defaults, decorators, class statements, loops, generators, unpacking ...), one program each
    fprogs = [PRELUDE + forms_c01.FORMS_PRE + "del log[:]\n" + f + "\n" for f in forms_c01.FORMS]
    fa = pydiff.run_impl(fprogs); fb = pydiff.run_ref(fprogs)
    for f, x, y in zip(forms_c01.FORMS, fa, fb):
        gx = "<GO PANIC %s>" % (x.get("panic") or x.get("crash") or "hang") if (x.get("panic") or x.get("crash") or x.get("hang")) else (x.get("out", ""), x.get("err", ""))
        if gx != (y.get("out", ""), y.get("err", "")): mism.append((f, str(gx)[:300], str((y.get("out", ""), y.get("err", "")))[:300]))
    allch = chunks + schunks + [["%s = %s" % (p, v) for p, v, _ in ch] for ch in uchunks]
    for ch, x, y in zip(allch, a, b):
        xo = x.get("out", "").splitlines(); yo = y.get("out", "").splitlines()
        if len(xo) != len(yo) or x.get("err") != y.get("err"): mism.append((ch[min(len(xo), len(ch) - 1)], str(x)[-200:], str(y)[-200:]))
        for e, l1, l2 in zip(ch, xo, yo):
            if l1 != l2: mism.append((e, l1, l2))
    res.oblige("oracle: %d expressions, %d assignment statements, %d unpacking assignments and %d further statement forms whose operands log their evaluation: values, bindings and evaluation log agree with CPython" % (len(exprs), len(stm), len(unp), len(fprogs)), not mism, str(mism[:2])[:400])
    kinds = collections.Counter(m for m, _ in cases)
    res.coverage.update(evaluations=len(rows) + len(exprs) + len(stm), distinct_nontrivial=len(set(r for r in rows)), programs=len(progs_),
        rule="(T) seeded random expression trees of depth 1-4 over 12 binary and 4 unary operators, and/or with 2-3 operands, comparison chains of 1-3 operators out of 10, conditional expressions, tuples, lists, calls with 1-2 arguments, subscripts, 2- and 3-part slices, attributes; rendered with minimal parentheses by precedence plus random redundant ones; all ordered pairs of 19 operators (with and without unary prefixes) for precedence/associativity; assignment statements with 1-3 targets (name, subscript, attribute) and augmented assignments with 12 operators; the tree of every text is taken from CPython's parser; (oracle) well-typed expressions and statements over logging operands run in both interpreters; unpacking assignments with 1-5 targets, a starred target at every position, nesting to depth 2, tuple and list syntax, list/tuple/iterator right-hand sides of right and wrong length; %d fixed statement forms with logging operands (calls with keyword or star arguments, comprehensions, slices, slice assignment, del, with, defaults, decorators, class statements, loops with else, generators with send, try/finally, nonlocal/global augmented assignment)" % len(forms_c01.FORMS),
        samples=[dict(source=cases[7][1], code=obs[7] if len(obs) > 7 else None)], distribution=dict(sources=dict(kinds), compared=len(rows), skipped=dict(skipped), dynamic_expressions=len(exprs), dynamic_statements=len(stm)),
        modelled_not_verified=["star arguments, lambda, comprehensions, dict displays, unpacking targets, raising operands: compared with CPython where generated, not in the model"])
    if mism:
        e, l1, l2 = mism[0]
        res.violation("counterexample", "evaluation order or value differs from Python", dict(input=dict(source=e, prelude=PRELUDE), expected=l2, observed=l1, others=[dict(source=x[0], observed=x[1], expected=x[2]) for x in mism[1:6]], total=len(mism)))
        return
    if tie_bad or syn:
        if tie_bad:
            mode, src, d = rowsrc[tie_bad[0]]
            res.violation("counterexample", "the compiler's code for this source is not the code of the model for which the order theorem holds (tree from CPython's parser)", dict(input=dict(source=src, mode=mode), expected="Model/ExprOrder.v compile (Run/C01_code_*.v)", observed=d, others=[rowsrc[i][1] for i in tie_bad[1:6]], total=len(tie_bad)))
        else:
            res.violation("counterexample", "gpython and CPython disagree on whether this text is an expression/statement", dict(input=dict(source=syn[0][0]), expected="same verdict as CPython's parser", observed=syn[0][1], others=syn[1:5]))
        return
    if not p_ok or tie_err:
        res.violation("proof-broken" if not p_ok else "tie-broken", "C01 no longer shown", dict(theorem_or_correspondence="Props/C01.v / bytecode correspondence", coqc_error=[l for l in mlog.splitlines() if "rror" in l][-10:], tie_error=tie_err,
            searched="%d sources and %d logging programs: no failing input" % (len(cases), len(progs_))), no_input=True)

def replay(path):
    d = json.load(open(path)); print(json.dumps(d, indent=1)[:3000]); return 1
