"""C10: no Python-level action panics or aborts the host.  P: Props/C10.v (argument helpers never index
out of bounds, for all formats/argument shapes; audited inventory of unchecked assertions and panics).
T: ParseTupleAndKeywords/UnpackTuple outcome and written slots = model on generated calls.  Search: every
callable of builtins and of every builtin type's attribute table, every operator/subscript/statement form,
x argument tuples over 61 values (arity 0-2 exhaustive or strided, arity 3 strided) with recover() per call
in worker processes (exit status observed); crash-probe programs."""
import collections, concurrent.futures, json, os, random, re, select, subprocess, time
import vlib, regen, pydiff

THEOREMS = ["C10_parse_tuple_and_keywords_in_bounds", "C10_unpack_tuple_in_bounds", "C10_every_risky_site_is_audited"]
IMPL = os.path.join(vlib.GO, "bin", "impl")

def drive(arity, frm, to, stride, watchdog=10, mem_kb=4000000):
    events = []; cur = frm; total = None; calls = 0
    while cur < to:
        p = subprocess.Popen("ulimit -v %d; exec %s c10 run %d %d %d %d" % (mem_kb, IMPL, cur, to, arity, stride), shell=True, stdout=subprocess.PIPE, stderr=subprocess.PIPE, env=vlib.GOENV)
        last_at = None; t_at = time.time(); buf = b""; finished = False; hung = False
        fd = p.stdout.fileno()
        while True:
            r, _, _ = select.select([fd], [], [], 1.0)
            if r:
                chunk = os.read(fd, 1 << 16)
                if not chunk: break
                buf += chunk
                *lines, buf = buf.split(b"\n")
                for l in lines:
                    l = l.decode("utf8", "replace")
                    if l.startswith("AT "): last_at = int(l[3:]); t_at = time.time(); calls += 1
                    elif l.startswith("PANIC "): events.append(("PANIC", last_at, l[6:]))
                    elif l.startswith("TOTAL "): total = int(l[6:]); to = min(to, total)
                    elif l.startswith("DONE "): finished = True
            elif time.time() - t_at > watchdog:
                hung = True; p.kill(); break
        p.wait()
        if finished: break
        err = p.stderr.read().decode("utf8", "replace")
        if hung: events.append(("HANG", last_at, ""))
        else:
            m = re.search(r"(fatal error: [^\n]*|panic: [^\n]*|signal: [^\n]*)", err)
            events.append(("FATAL", last_at, (m.group(1) if m else err[-200:]).strip()))
        if last_at is None: break
        cur = last_at + stride
    return events, total, calls

def describe(calls_list, nvals, arity, idx):
    pw = nvals ** arity
    return dict(callable=calls_list[idx // pw] if idx // pw < len(calls_list) else "?", argument_indices=[(idx % pw) // (nvals ** a) % nvals for a in range(arity)], index=idx, arity=arity)

# ---- known findings: predicates over (kind, text)
def unbounded_allocation(kind, text): return "makeslice: len out of range" in text or "out of memory" in text or "cannot allocate" in text or "makeslice: cap out of range" in text
def set_unhashable(kind, text): return "hash of unhashable type" in text
def stack_overflow(kind, text): return kind == "FATAL" and "stack overflow" in text
MATCHERS = {"c10.unbounded_allocation": unbounded_allocation, "c10.set_unhashable": set_unhashable, "c10.stack_overflow": stack_overflow}

CRASH_PROBES = [
 ("recursive list repr", "a = []\na.append(a)\nprint(a)\n", "c10.stack_overflow"),
 ("recursive dict repr", "d = {}\nd['k'] = d\nprint(d)\n", "c10.stack_overflow"),
 ("unbounded recursion", "def f(n): return f(n + 1)\nf(0)\n", "c10.stack_overflow"),
 ("self-calling __repr__", "class K:\n    def __repr__(self): return repr(self)\nprint(K())\n", "c10.stack_overflow"),
 ("tuple in set", "x = {(1, 2)}\nprint(x)\n", "c10.set_unhashable"),
 ("huge repetition", "x = [0] * (2**62)\n", "c10.unbounded_allocation"),
 ("huge shift", "x = 1 << (2**62)\n", "c10.unbounded_allocation"),
]
SAFE_PROBES = ["print(str.upper('a'))\n", "str.upper(5)\n", "list(map(globals, [1]))\n", "print(str(ValueError()))\n", "isinstance(1, 5)\n", "isinstance(1, (int, 5))\n", "type('a', 'b', 'c')\n",
               "'a'.startswith('abc', 1000)\n", "'abc'.count('', -5)\n", "range(1, 5, 0)\n", "list.append(5, 6)\n", "sorted([1], key=locals)\n", "__build_class__(lambda: 1, 5)\n",
               "int.x = 1\n", "del int.real\n", "[].__class__.__name__\n", "(1).__add__()\n", "(1).__add__(1, 2)\n", "len()\n", "len(1, 2)\n", "abs('a')\n", "chr(-1)\n", "chr(2**40)\n", "ord('')\n", "ord('ab')\n",
               "''.join([1])\n", "'%d' % 'a'\n", "'%' % 1\n", "'%(a)s' % 1\n", "'{}'.format()\n", "'{0}{1}'.format(1)\n", "'{a}'.format(1)\n", "b'a' + 'a'\n", "bytes([256])\n", "bytes([-1])\n", "[1, 2][5]\n", "(1,)[-2]\n", "'abc'[10]\n",
               "range(3)[5]\n", "{}['a']\n", "[].pop()\n", "[].pop(3)\n", "[1].pop('a')\n", "[].remove(1)\n", "[1].index(2)\n", "[1].insert('a', 1)\n", "iter(5)\n", "next(5)\n", "next(iter([]))\n", "zip(1)\n", "map(1)\n", "map(1, 2)\n", "list(map(1, [1]))\n",
               "sum([1, 'a'])\n", "max()\n", "max([])\n", "min(1)\n", "sorted(1)\n", "sorted([1, 'a'])\n", "[1, 'a'].sort()\n", "divmod(1, 0)\n", "1 // 0\n", "1 % 0\n", "1.0 // 0\n", "pow(2, -1, 5)\n", "pow(2, 3, 0)\n", "round(1.5, 'a')\n", "int('x')\n", "int('1', 99)\n", "int([])\n",
               "float('x')\n", "float([])\n", "complex('x')\n", "hash([])\n", "getattr(1, 2)\n", "setattr(1, 'a', 2)\n", "delattr(1, 'real')\n", "x = 1\ndel x\ndel x\n", "def f(): pass\nf(1)\n", "def f(a): pass\nf()\n", "def f(a): pass\nf(a=1, b=2)\n", "def f(a): pass\nf(1, a=1)\n",
               "f = lambda: 1\nf(*5)\n", "f = lambda: 1\nf(**5)\n", "f = lambda **k: k\nf(**{1: 2})\n", "class K(5): pass\n", "class K(int, str): pass\n", "class K(metaclass=5): pass\n", "raise 5\n", "raise ValueError from 5\n", "try:\n    pass\nexcept 5:\n    pass\n",
               "try:\n    raise ValueError\nexcept 5:\n    pass\n", "with 5: pass\n", "for x in 5: pass\n", "a, b = 5\n", "a, b = [1]\n", "a, *b = 5\n", "import sys\nsys.exit('x')\n", "import nonexistent\n", "from sys import nonexistent\n", "x = yield_ = 1\nx.y.z\n",
               "assert False, 1/0\n", "print(end=5)\n", "print(sep=5)\n", "print(file=5)\n", "open()\n", "open(5)\n", "open('/nonexistent/x')\n", "exec(5)\n", "eval(5)\n", "eval('(')\n", "compile(1, 2, 3)\n", "compile('1', 'f', 'bad')\n", "__import__(5)\n", "globals(1)\n", "locals(1)\n", "vars(1)\n", "dir(1, 2)\n", "dict([('a',)])\n", "dict([1])\n", "dict([(1, 2, 3)])\n", "dict(5)\n", "dict([('a', 1)], b=2)\n",
               "slice()\n", "slice(1, 2, 3, 4)\n", "[1, 2, 3][slice('a')]\n", "[1, 2, 3][::0]\n", "x = [1, 2, 3]\nx[::2] = [1]\n", "x = [1]\nx[5] = 1\n", "x = (1,)\nx[0] = 1\n", "x = 'a'\nx[0] = 'b'\n", "del 'a'[0]\n", "x = {}\ndel x['a']\n", "x = {}\nx[[]] = 1\n", "set([[]])\n", "{[]: 1}\n",
               "import math\nmath.sqrt(-1)\n", "import math\nmath.sqrt('a')\n", "import math\nmath.log(0)\n", "import math\nmath.factorial(-1)\n", "import time\ntime.sleep('a')\n", "import os\nos.getenv(5)\n", "import string\nstring.nonexistent\n"]

def reentrancy_probes():
    """container operations that call back into Python x a mutation of that container in the callback"""
    muts = ["L.clear()", "L.pop()", "del L[0]", "del L[:]", "L[:] = []", "del L[1:]", "L.sort(key=lambda e: -e.v)", "L[:] = L[:3]", "if len(L) < 40: L.extend([E(9)] * 10)"]
    ops = ["L.sort(key=cb)", "L.sort()", "sorted(L, key=cb)", "L.index(E(99))", "L.count(E(99))", "L.remove(E(99))", "E(99) in L", "min(L, key=cb)", "max(L, key=cb)", "list(map(cb, L))", "list(filter(cb, L))",
           "[cb(x) for x in L]", "sum(cb(x) for x in L)", "any(cb(x) for x in L)", "tuple(cb(x) for x in L)", "list(zip(L, map(cb, L)))", "L == [E(0), E(1), E(2), E(3), E(4), E(5)]", "L < [E(0), E(1), E(2), E(3), E(4), E(9)]",
           "L.extend(cb(x) for x in L)", "L[:] = (cb(x) for x in L)", "dict((cb(x), 1) for x in L)", "', '.join(str(cb(x)) for x in L)", "for x in L: cb(x)", "for i, x in enumerate(L): cb(x)", "for x in reversed(L): cb(x)",
           "a, b, c, d, e, f = (cb(x) for x in L)", "print(*[cb(x) for x in L])", "L.sort(key=cb, reverse=True)"]
    out = []
    for op in ops:
        for m in muts:
            if "extend" in m and ("L.extend(" in op or "L[:] =" in op): continue      # grows without end in CPython too
            src = ("L = []\nclass E:\n    def __init__(self, v): self.v = v\n    def __lt__(self, o):\n        MUT\n        return self.v < o.v\n    def __eq__(self, o):\n        MUT\n        return self.v == getattr(o, 'v', None)\n"
                   "def cb(x):\n    MUT\n    return getattr(x, 'v', 0)\nL.extend(E(i) for i in (3, 1, 4, 0, 5, 2))\ntry:\n    OP\nexcept (IndexError, ValueError, RuntimeError, TypeError, AttributeError, StopIteration) as e:\n    pass\n").replace("MUT", m).replace("OP", op)
            out.append(src)
    # dicts and sets changed while iterated, iterators over shrinking sequences
    for body in ["d = {'a': 1, 'b': 2}\nfor k in d:\n    d[k + 'x'] = 1\n    if len(d) > 50: break\n", "d = {'a': 1, 'b': 2}\nfor k in d:\n    del d[k]\n", "s = {1, 2, 3}\nfor x in s:\n    s.discard(x)\n", "s = {1, 2, 3}\nfor x in s:\n    s.add(x + 10)\n    if len(s) > 50: break\n",
                 "L = [1, 2, 3]\nit = iter(L)\nnext(it)\nL.clear()\nprint(list(it))\n", "L = [1, 2, 3]\nit = reversed(L)\nL.clear()\nprint(list(it))\n", "t = list(range(10))\nfor x in t:\n    t[:] = []\n", "b = bytes(5)\nfor x in b: pass\n",
                 "r = range(5)\nit = iter(r)\nprint(list(it), list(it))\n", "def g():\n    yield 1\n    raise ValueError\nfor x in g(): pass\n", "g = (x for x in [1])\nnext(g); next(g)\n",
                 "class I:\n    def __iter__(self): return self\n    def __next__(self): return 1 // 0\nlist(I())\n", "class I:\n    def __iter__(self): return 5\nlist(I())\n", "class I:\n    def __len__(self): return -1\nlen(I())\n", "class I:\n    def __len__(self): return 'x'\nlen(I())\n",
                 "class I:\n    def __index__(self): return 'x'\n[1, 2][I()]\n", "class I:\n    def __index__(self): return 2**70\n[1, 2][I()]\n", "class I:\n    def __bool__(self): return 5\nnot I()\n", "class I:\n    def __hash__(self): return 'x'\nhash(I())\n",
                 "class I:\n    def __str__(self): return 5\nstr(I())\n", "class I:\n    def __repr__(self): return 5\nrepr(I())\n", "class I:\n    def __getitem__(self, i): return i\nprint(I()[1:2], I()[::], I()[1, 2])\n", "class I:\n    def __contains__(self, x): return 5\nprint(1 in I())\n",
                 "class I:\n    def __call__(self): return self()\ntry:\n    I().x\nexcept AttributeError: pass\n", "class I:\n    def __enter__(self): return 1 // 0\n    def __exit__(self, *a): pass\nwith I(): pass\n", "class I:\n    def __enter__(self): return self\nwith I(): pass\n",
                 "class I:\n    def __enter__(self): return self\n    def __exit__(self): pass\nwith I(): pass\n", "class I:\n    def __del__(self): 1 // 0\nI()\n", "class I:\n    __slots__ = 5\n", "class I(Exception):\n    def __init__(self): pass\nraise I\n"]:
        out.append(body)
    return out

def setter_probes():
    """special attributes of functions, classes, instances and modules set to unsuitable values, then used"""
    out = []
    pre = ("def outer():\n    v = 1\n    def inner(a=2):\n        return v + a\n    return inner\nclo = outer()\ndef plain(a=3):\n    return a\n"
           "def gen():\n    yield 1\nclass K:\n    def m(self): return 1\nk = K()\n")
    vals = ["clo.__code__", "plain.__code__", "gen.__code__", "K.m.__code__", "None", "5", "'x'", "(1,)", "(1, 2, 3)", "{}", "[]", "plain", "K", "k", "clo.__closure__" , "(lambda: 0).__code__"]
    attrs = ["__code__", "__defaults__", "__kwdefaults__", "__closure__", "__globals__", "__name__", "__qualname__", "__doc__", "__dict__", "__annotations__", "__module__", "__class__", "__bases__", "__mro__"]
    targets = ["plain", "clo", "gen", "K", "k", "K.m", "k.m", "len", "[].append", "int"]
    for t in targets:
        for a in attrs:
            for v in vals:
                out.append(pre + "try:\n    %s.%s = %s\nexcept (TypeError, ValueError, AttributeError) as e:\n    pass\n"
                                 "for call in (lambda: plain(), lambda: clo(), lambda: clo(1), lambda: list(gen()), lambda: K().m(), lambda: k.m(), lambda: repr(%s), lambda: plain(1, 2)):\n"
                                 "    try:\n        call()\n    except Exception as e:\n        pass\n" % (t, a, v, t))
    return out

def gen_args_cases(rnd, n):
    cases = []
    for _ in range(n):
        if rnd.random() < 0.8:
            units = []
            for _ in range(rnd.randint(0, 6)):
                u = rnd.choice(["O", "O", "O", "i", "d", "s", "U", "O"])
                if u == "s" and rnd.random() < 0.5: u += rnd.choice(["*", "#"])
                units.append(u)
            for ch in ("|", "$"):
                if rnd.random() < 0.4: units.insert(rnd.randint(0, len(units)), ch)
            fmtstr = "".join(units) + rnd.choice(["", ":fn", ";msg", ""])
            nops = sum(1 for u in units if u not in ("|", "$"))
            names = ["a", "b", "c", "d", "e", "f", "g"]
            nres = rnd.choice([nops, nops, nops, max(0, nops - 1), nops + 1, rnd.randint(0, 7)])
            kwlist = rnd.choice([None, names[:nres], names[:nres], names[:rnd.randint(0, 7)]])
            nargs = rnd.randint(0, min(7, nops + 1))
            kwargs = rnd.choice([None, None, [], rnd.sample(names, rnd.randint(0, 3)), rnd.sample(names[:max(1, nres)], rnd.randint(0, min(2, max(1, nres))))])
            cases.append(dict(fn="ptak", format=fmtstr, nargs=nargs, kwargs=kwargs, kwlist=kwlist, nresults=nres))
        else:
            mn = rnd.randint(0, 4); mx = mn + rnd.randint(0, 3)
            cases.append(dict(fn="unpack", nargs=rnd.randint(0, 8), nkwargs=rnd.choice([0, 0, 0, 1]), min=mn, max=mx, nresults=rnd.choice([mx, mx, mx + 1, max(0, mx - 1), rnd.randint(0, 8)])))
    return cases

def args_coq(name, cases, obs):
    names = ["a", "b", "c", "d", "e", "f", "g"]
    rows = []
    for c, o in zip(cases, obs):
        err = "true" if o.startswith("E|") else "false"
        written = "[" + "; ".join(o[2:].split()) + "]"
        if c["fn"] == "ptak":
            # unit codes for the type oracle: arguments are all ints
            codes = []; s = c["format"]; i = 0
            while i < len(s):
                ch = s[i]; i += 1
                if i < len(s) and s[i] in "*#": i += 1
                if ch in ":;": break
                if ch in "$|": continue
                codes.append(ch)
            okl = "[" + "; ".join("true" if ch in "Oid" else "false" for ch in codes) + "]"
            fmt = "[" + "; ".join(str(ord(ch)) for ch in c["format"]) + "]"
            kw = "[" + "; ".join(str(names.index(k)) for k in (c["kwargs"] or [])) + "]"
            kl = "None" if c["kwlist"] is None else "(Some [" + "; ".join(str(names.index(k)) for k in c["kwlist"]) + "])"
            rows.append("(CP %s %s %d %s %s %d, %s, %s)" % (okl, fmt, c["nargs"], kw, kl, c["nresults"], err, written))
        else:
            rows.append("(CU %d %d %d %d %d, %s, %s)" % (c["nargs"], c["nkwargs"], c["min"], c["max"], c["nresults"], err, written))
    text = ("From Coq Require Import List Bool Arith. Import ListNotations.\nFrom GP Require Import Model.Args.\n"
      "Inductive acase := CP (ok : list bool) (fmt : list nat) (nargs : nat) (kw : list nat) (kl : option (list nat)) (nres : nat) | CU (nargs nkw mn mx nres : nat).\n"
      "Definition leq (a b : list nat) := if list_eq_dec Nat.eq_dec a b then true else false.\n"
      "Definition model (c : acase) : list (nat * bool) * bool := match c with CP ok f n kw kl r => ptak (fun i => nth i ok false) f n kw kl r | CU n k mn mx r => unpack_tuple n k mn mx r end.\n"
      "Definition agrees (c : acase * bool * list nat) : bool := let '(cs, e, w) := c in let '(acc, me) := model cs in Bool.eqb me e && leq (map fst (filter snd acc)) w.\n"
      "Definition cases := [\n" + ";\n".join(rows) + "].\n"
      "Fixpoint bad (i : nat) (l : list (acase * bool * list nat)) : list nat := match l with [] => [] | c :: r => if agrees c then bad (S i) r else i :: bad (S i) r end.\n"
      "Definition M := Eval vm_compute in bad 0 cases.\nPrint M.\n")
    rc, out = vlib.coqc_run(name, text, timeout=600)
    if rc != 0 or "M =" not in out: return None, out[-800:]
    return vlib.parse_coq_value("M " + out[out.find("M ="):].replace("M =", " =", 1)), ""

def check(res):
    tier, seed = res.tier, res.seed
    rnd = random.Random(seed)
    res.trusted = vlib.COMMON_TRUST + [
        "Model/Args.v is hand-written from py/args.go (type tests of format units as an oracle); tied by comparing error/no-error and the set of written result slots on generated calls through the Go API",
        "the risky-site inventory counts unchecked type assertions and explicit panic calls per function; whether each audited assertion is guarded by an earlier check is not proved but searched by the enumeration (testing)",
        "recover() in the harness and the exit status of the worker processes are the observations; a 10 s watchdog per call: calls that exceed it (huge pow/round/repetition) are counted as hangs and reported in the evidence, not as violations (the computation is legitimately long in CPython too)"]
    rc, out = regen.regen_inventories()
    built, mlog = vlib.coq_make()
    p_ok = rc == 0 and "Props/C10.vo" in built
    assum = None
    if p_ok:
        assum, _ = vlib.print_assumptions("C10", ["Props.C10"], THEOREMS)
        p_ok = assum is not None
    for t in THEOREMS:
        res.oblige("theorem " + t, p_ok, (assum or {}).get(t, "") if p_ok else "Props/C10.v does not compile on the regenerated Gen/Inventories.v")
    if assum: res.trusted.append("Print Assumptions: " + "; ".join("%s: %s" % kv for kv in assum.items()))
    # ---- argument helper correspondence
    na = 3000 if tier == "quick" else 60000
    cases = gen_args_cases(rnd, na)
    p = subprocess.run([IMPL, "c10", "args"], input="".join(json.dumps(c) + "\n" for c in cases), stdout=subprocess.PIPE, stderr=subprocess.DEVNULL, text=True, env=vlib.GOENV, timeout=600)
    obs = p.stdout.splitlines()
    tie_bad = []; tie_err = None; arg_panics = [(c, o) for c, o in zip(cases, obs) if o.startswith("PANIC")]
    if len(obs) != len(cases): tie_err = "harness returned %d results for %d cases" % (len(obs), len(cases))
    elif not arg_panics:
        nsh = 4 if tier == "quick" else 16
        shards = [list(range(len(cases)))[i::nsh] for i in range(nsh)]
        with concurrent.futures.ThreadPoolExecutor(8) as ex:
            for sh, (v, log) in zip(shards, ex.map(lambda a: args_coq("C10_args_%d" % a[0], [cases[i] for i in a[1]], [obs[i] for i in a[1]]), list(enumerate(shards)))):
                if v is None: tie_err = log
                else: tie_bad += [sh[i] for i in v]
    res.oblige("correspondence: ParseTupleAndKeywords / UnpackTuple error flag and written result slots = the model on %d generated calls" % na, tie_err is None and not tie_bad and not arg_panics, tie_err or str(arg_panics[:1] or [cases[i] for i in tie_bad[:1]]))
    # ---- enumeration
    lst = [l for l in subprocess.run([IMPL, "c10", "list"], stdout=subprocess.PIPE, stderr=subprocess.DEVNULL, text=True, env=vlib.GOENV).stdout.splitlines() if not l.startswith("***")]
    m = re.match(r"(\d+) callables; (\d+) values", lst[0] if lst else "")
    ncalls, nvals = (int(m.group(1)), int(m.group(2))) if m else (0, 0)
    calls_list = lst[1:]
    plan = [(0, 1), (1, 1), (2, 7 if tier == "quick" else 1), (3, 1009 if tier == "quick" else 53)]
    jobs = []
    for arity, stride in plan:
        total = ncalls * nvals ** arity
        nshard = 1 if total // stride < 20000 else 14
        per = (total // nshard // stride + 1) * stride
        for k in range(nshard): jobs.append((arity, k * per, min(total, (k + 1) * per), stride))
    events = []; ncall = 0
    with concurrent.futures.ThreadPoolExecutor(14) as ex:
        for (arity, frm, to, stride), (ev, total, calls) in zip(jobs, ex.map(lambda j: drive(*j), jobs)):
            events += [(arity,) + e for e in ev]; ncall += calls
    findings = vlib.load_findings("C10")
    new = []; kinds = collections.Counter()
    for arity, kind, idx, text in events:
        kinds[kind] += 1
        if kind == "HANG": continue
        hit = None
        for f in findings:
            if MATCHERS.get(f["matcher"], lambda *a: False)(kind, text): hit = f; break
        if hit:
            msg = "%s (%s)" % (hit["id"], hit["input_class"])
            if msg not in res.known: res.known.append(msg)
        else: new.append((arity, kind, idx, text))
    # ---- programs
    sp = setter_probes()
    if tier == "quick": sp = [x for i, x in enumerate(sp) if i % 3 == seed % 3 or "__code__" in x.split("try:")[1][:60]]
    probes = [s for _, s, _ in CRASH_PROBES] + SAFE_PROBES + reentrancy_probes() + sp
    pr = pydiff.run_impl(probes)
    prog_new = []
    for i, (src, r) in enumerate(zip(probes, pr)):
        bad = r.get("panic") or r.get("crash") or (r.get("hang") and i < len(CRASH_PROBES))
        if not bad: continue
        text = str(r.get("panic") or r.get("crash") or "stack overflow (hang until the Go stack limit)")
        kind = "FATAL" if (r.get("crash") or r.get("hang")) else "PANIC"
        if r.get("hang"): text = "fatal error: stack overflow"
        hit = None
        for f in findings:
            # the crash probes are the listed witnesses themselves: matched by the program, any other program by the failure text
            if (i < len(CRASH_PROBES) and f["matcher"] == CRASH_PROBES[i][2]) or MATCHERS.get(f["matcher"], lambda *a: False)(kind, text): hit = f; break
        if hit:
            msg = "%s (%s)" % (hit["id"], hit["input_class"])
            if msg not in res.known: res.known.append(msg)
        else: prog_new.append((src, r))
    ok_search = not new and not prog_new and ncalls > 0
    res.oblige("search: %d calls (%d callables and operator/statement forms x argument tuples over %d values, arity 0-3) and %d probe programs: every failure is a Python exception" % (ncall, ncalls, nvals, len(probes)), ok_search, str(new[:1] or prog_new[:1])[:400])
    res.coverage.update(evaluations=ncall + na + len(probes), distinct_nontrivial=ncalls, programs=len(probes),
        rule="every callable in the builtins module (except input/exit/open/print/exec/eval/compile/__import__) and every entry of the attribute table of every builtin type and of the type of every universe value (%d callables), plus %d operator, subscript, call, comprehension, augmented-assignment and statement forms as functions; argument tuples: arity 0 and 1 exhaustive, arity 2 stride %d, arity 3 stride %d over a universe of %d values of every type (None, bools, word/big ints incl. 2**62..2**64, floats incl. inf/nan, complex, str incl. format strings and non-ASCII, bytes, tuples, lists, dicts, sets, ranges, slices, iterators, generators, lambdas, types, exceptions, an instance with hostile __len__/__index__/__iter__); results are repr()ed; recover() around each call, workers under ulimit -v 4 GB with a 10 s watchdog, exit status observed; %d probe programs run through RunCode" % (ncalls - 160, 160, plan[2][1], plan[3][1], nvals, len(probes)),
        samples=[dict(call=describe(calls_list, nvals, 2, 12345))], distribution=dict(events=dict(kinds), calls=ncall, args_cases=na, hangs=kinds.get("HANG", 0)),
        modelled_not_verified=["every builtin's body (searched, not proved)", "memory exhaustion and stack exhaustion (known findings)"])
    if new or prog_new:
        if new:
            arity, kind, idx, text = new[0]
            rep = dict(input=describe(calls_list, nvals, arity, idx), expected="a Python exception returned as error", observed="%s: %s" % (kind, text[:600]), others=[dict(call=describe(calls_list, nvals, a, i), observed=t[:200]) for a, k, i, t in new[1:6]], total=len(new))
        else:
            src, r = prog_new[0]
            rep = dict(input=dict(program=src), expected="a Python exception returned as error", observed=str(r)[:800], others=[p[0] for p in prog_new[1:6]])
        res.violation("counterexample", "a Python-level action panicked or aborted the process", rep)
        return
    if arg_panics or tie_bad:
        c = arg_panics[0][0] if arg_panics else cases[tie_bad[0]]
        res.violation("counterexample", "argument helper differs from the model for which bounds safety is proved", dict(input=c, expected="Model/Args.v", observed=(arg_panics[0][1] if arg_panics else obs[tie_bad[0]]), others=len(tie_bad) + len(arg_panics)))
        return
    if not p_ok or tie_err or ncalls == 0:
        res.violation("proof-broken" if not p_ok else "tie-broken", "C10 no longer shown", dict(theorem_or_correspondence="Props/C10.v over the regenerated Gen/Inventories.v (C10_every_risky_site_is_audited) / argument-helper correspondence",
            coqc_error=[l for l in mlog.splitlines() if "rror" in l][-10:], extractor=out[-300:] if rc else "", tie_error=tie_err, searched="%d calls and %d programs: no new panic" % (ncall, len(probes))), no_input=True)

def replay(path):
    d = json.load(open(path)); print(json.dumps(d, indent=1)[:3000]); return 1
