"""C07: integer arithmetic.  P: Props/C07.v over the go2v translation of py/int.go + IntDispatch
model.  T: model vs implementation on a boundary lattice (Coq vm_compute), oracle = exact ints."""
import itertools, json, os, random, concurrent.futures
import vlib, pydiff

THEOREMS = ["C07_binop", "C07_unop", "C07_pow3", "C07_guards"]
BINOPS = {"add": "OAdd", "sub": "OSub", "mul": "OMul", "floordiv": "OFloorDiv", "mod": "OMod",
          "divmod": "ODivMod", "lshift": "OLshift", "rshift": "ORshift", "and": "OAnd", "or": "OOr",
          "xor": "OXor", "lt": "OLt", "le": "OLe", "eq": "OEq", "ne": "ONe", "gt": "OGt", "ge": "OGe",
          "pow": "OPow"}
INPLACE = ["iadd", "isub", "imul", "ifloordiv", "imod", "ilshift", "irshift", "iand", "ior", "ixor"]
UNOPS = {"neg": "UNeg", "abs": "UAbs", "invert": "UInvert", "truth": "UTruth"}
IMIN, IMAX = -2**63, 2**63 - 1

def lattice():
    base = [0, 1, 2, 3, 7, 10, 63, 64, 65, 2**31, 3037000499, 3037000500, 2**32, 2**62, 2**63, 2**64, 2**127]
    vs = set()
    for b in base:
        for d in (-2, -1, 0, 1, 2):
            vs.add(b + d); vs.add(-(b + d))
    return sorted(vs)

def fits(z): return IMIN <= z <= IMAX
def canon(z): return ("W:%d" if fits(z) else "B:%d") % z

def oracle(op, vals):
    """expected observation per Python semantics (canonical representation)"""
    a = vals[0]
    try:
        if op in UNOPS:
            if op == "neg": return canon(-a)
            if op == "abs": return canon(abs(a))
            if op == "invert": return canon(~a)
            if op == "truth": return "T" if a else "F"
        b = vals[1]
        base = op[1:] if op in INPLACE else op
        if op == "pow3":
            m = vals[2]
            if b < 0: return "E:TypeError"
            if m == 0: return "E:ValueError"
            return canon(pow(a, b, m))
        if base == "add": return canon(a + b)
        if base == "sub": return canon(a - b)
        if base == "mul": return canon(a * b)
        if base in ("floordiv", "mod", "divmod"):
            if b == 0: return "E:ZeroDivisionError"
            q, r = divmod(a, b)
            return canon(q) if base == "floordiv" else canon(r) if base == "mod" else "P:%s,%s" % (canon(q), canon(r))
        if base == "lshift":
            if b < 0: return "E:ValueError"
            if a == 0: return "W:0"
            if b >= 2**63: return "E:OverflowError"
            return canon(a << b)
        if base == "rshift":
            if b < 0: return "E:ValueError"
            if b >= 2**63: return canon(-1 if a < 0 else 0)
            return canon(a >> b)
        if base == "and": return canon(a & b)
        if base == "or": return canon(a | b)
        if base == "xor": return canon(a ^ b)
        if base == "lt": return "T" if a < b else "F"
        if base == "le": return "T" if a <= b else "F"
        if base == "eq": return "T" if a == b else "F"
        if base == "ne": return "T" if a != b else "F"
        if base == "gt": return "T" if a > b else "F"
        if base == "ge": return "T" if a >= b else "F"
        if base == "pow":
            if b < 0:
                if a == 0: return "E:ZeroDivisionError"
                return "FL"      # negative exponent: float result, C15's domain (not judged here)
            return canon(a ** b)
    except Exception as e:
        return "E:" + type(e).__name__
    return "?"

def too_big(op, vals):
    base = op[1:] if op in INPLACE else op
    if base == "lshift" and 4096 < vals[1] < 2**63 and vals[0] != 0: return True
    if base == "pow" and vals[1] > 64 and abs(vals[0]) > 1: return True
    if op == "pow3" and vals[1] > 2**20 and abs(vals[0]) > 1: return True
    return False

# ---- known-finding matchers: predicates over the structured case, never over output text
def m_shift_count_overflow(op, vals, reps):
    base = op[1:] if op in INPLACE else op
    return base in ("lshift", "rshift") and not fits(vals[1])
def m_noncanonical_operand(op, vals, reps):
    return any(r == "B" and fits(v) for r, v in zip(reps, vals))
MATCHERS = {"c07.shift_count_does_not_fit_word": m_shift_count_overflow}

def gen_cases(tier, seed):
    rnd = random.Random(seed)
    L = lattice()
    def reps(v): return ["W", "B"] if fits(v) else ["B"]
    cases = []
    ops = list(BINOPS) + INPLACE
    if tier == "thorough":
        for op in ops:
            for a in L:
                for b in L:
                    for ra in reps(a):
                        for rb in reps(b):
                            cases.append((op, (ra, rb), (a, b)))
    else:
        small = [v for v in L if abs(v) in (0, 1, 2, 63, 64, 65) or abs(abs(v) - 2**63) <= 1 or abs(abs(v) - 3037000499) <= 1 or abs(v) == 2**64 or abs(v) == 2**31]
        for op in ops:
            for a in small:
                for b in small:
                    ra = rnd.choice(reps(a)); rb = rnd.choice(reps(b))
                    cases.append((op, (ra, rb), (a, b)))
        for _ in range(6000):
            op = rnd.choice(ops); a = rnd.choice(L); b = rnd.choice(L)
            cases.append((op, (rnd.choice(reps(a)), rnd.choice(reps(b))), (a, b)))
    for _ in range(3000 if tier == "quick" else 60000):     # seeded random 1..192-bit operands
        op = rnd.choice(ops)
        a = rnd.getrandbits(rnd.randint(1, 192)) * rnd.choice((1, -1))
        b = rnd.getrandbits(rnd.randint(1, 192)) * rnd.choice((1, -1))
        if op in ("lshift", "rshift", "pow", "ilshift", "irshift"):
            b = rnd.randint(-3, 200) if op != "pow" else rnd.randint(-2, 40)
        cases.append((op, (rnd.choice(reps(a)), rnd.choice(reps(b))), (a, b)))
    for op in UNOPS:
        for a in L:
            for ra in reps(a):
                cases.append((op, (ra,), (a,)))
    pl = [v for v in L if abs(v) <= 10 or abs(abs(v) - 2**63) <= 1 or abs(v) == 2**64]
    for _ in range(1500 if tier == "quick" else 20000):
        a, b, m = rnd.choice(pl), rnd.choice([0, 1, 2, 3, 10, 63, 64, 65, -1, 200]), rnd.choice(pl)
        cases.append(("pow3", (rnd.choice(reps(a)), rnd.choice(reps(b)), rnd.choice(reps(m))), (a, b, m)))
    cases = [c for c in cases if not too_big(c[0], c[2])]
    return cases

def run_impl(cases):
    chunks = [cases[i::16] for i in range(16)]
    def work(ch):
        if not ch: return []
        inp = "".join("%s %s\n" % (op, " ".join("%s %d" % (r, v) for r, v in zip(reps, vals))) for op, reps, vals in ch)
        rc, out = vlib.run_tool("impl", ["c07"], input=inp, timeout=1500)
        lines = out.splitlines()
        lines = [l for l in lines if not l.startswith("WARNING")]
        if len(lines) != len(ch):
            lines = (lines + ["WORKER-DIED rc=%s" % rc] * len(ch))[:len(ch)]
        return list(zip(ch, lines))
    res = []
    with concurrent.futures.ThreadPoolExecutor(16) as ex:
        for r in ex.map(work, chunks): res += r
    return res

def coq_iv(r, v): return "(%s (%d))" % (r, v)
def coq_obs(o):
    if o.startswith("W:") or o.startswith("B:"): return "(RInt (%s (%s)))" % (o[0], o[2:])
    if o in ("T", "F"): return "(RBool %s)" % ("true" if o == "T" else "false")
    if o.startswith("P:"):
        q, r = o[2:].split(",")
        return "(RPair (%s (%s)) (%s (%s)))" % (q[0], q[2:], r[0], r[2:])
    if o.startswith("E:"): return '(RErr "%s")' % o[2:]
    if o.startswith("FL"): return "RFloat"
    return "RGoPanic"

def coq_check(name, sample):
    """model = implementation on the sample, by vm_compute; returns list of bad indices or None"""
    lines = []
    for (op, reps, vals), o in sample:
        if op in BINOPS:
            lines.append("CBin %s %s %s %s" % (BINOPS[op], coq_iv(reps[0], vals[0]), coq_iv(reps[1], vals[1]), coq_obs(o)))
        elif op in INPLACE:
            lines.append("CBin %s %s %s %s" % (BINOPS[op[1:]], coq_iv(reps[0], vals[0]), coq_iv(reps[1], vals[1]), coq_obs(o)))
        elif op in UNOPS:
            lines.append("CUn %s %s %s" % (UNOPS[op], coq_iv(reps[0], vals[0]), coq_obs(o)))
        else:
            lines.append("CPow3 %s %s %s %s" % (coq_iv(reps[0], vals[0]), coq_iv(reps[1], vals[1]), coq_iv(reps[2], vals[2]), coq_obs(o)))
    text = ("From Coq Require Import ZArith String List. Import ListNotations.\nFrom GP Require Import Base.Go2v Spec.IntSpec Model.IntDispatch.\nOpen Scope Z_scope.\n"
            "Definition cases : list icase := [\n" + ";\n".join(lines) + "].\n"
            "Definition M := Eval vm_compute in bad_indices 0 cases.\nPrint M.\n")
    rc, out = vlib.coqc_run(name, text, timeout=400)
    if rc != 0:
        return None, out[-1500:]
    v = vlib.parse_coq_value("M " + out[out.find("M ="):].replace("M =", " =", 1)) if "M =" in out else None
    return v, out[-500:]

TEXT_PROGRAM = """def t(f):
    try:
        print(repr(f()))
    except ValueError: print('ValueError')
    except TypeError: print('TypeError')
    except OverflowError: print('OverflowError')
strs = ['0', '00', '000', '1', '01', '-1', '+1', ' 12 ', '0x1f', '0X1F', '0x01', '0o17', '0O17', '0o017', '0b101', '0B101', '0b01', '0b2', '0o8', '0xg', '0x', '0b', '0o', 'ff', 'FF', 'z', 'Zz',
        '9223372036854775807', '9223372036854775808', '-9223372036854775808', '-9223372036854775809', '123456789012345678901234567890', '0x' + 'f' * 20, '1' * 40, '', ' ', '-', '+', '--1', '1-', '1.0', '1e3', '0x-1', '-0x1f', '+0b11', '- 1']
for b in (0, 2, 8, 10, 16, 36, 7):
    for s in strs:
        t(lambda: int(s, b))
for s in strs:
    t(lambda: int(s))
for b in (1, -1, 37):
    t(lambda: int('1', b))
ns = [0, 1, -1, 7, 8, 255, 256, -255, 2**31 - 1, 2**31, 2**32, 2**62, 2**63 - 1, 2**63, -2**63, -2**63 - 1, 2**64, 2**64 + 1, 10**18, 10**19, 10**30, -10**30, 2**200 - 1, -(2**200)]
for n in ns:
    print(str(n), repr(n), hex(n), oct(n), bin(n), int(str(n)) == n, int(hex(n), 16) == n, int(oct(n), 8) == n, int(bin(n), 2) == n, int(hex(n), 0) == n, int(oct(n), 0) == n, int(bin(n), 0) == n, eval(repr(n)) == n)
print(0x1F, 0o17, 0b101, 0XfF, 0O7, 0B1, 9223372036854775808, -9223372036854775809, 0xffffffffffffffffffff, 0o7777777777777777777777777, 0b1111111111111111111111111111111111111111111111111111111111111111111)
print('%d %s %x %o %X' % (255, 255, 255, 255, 255), '%5d|%-5d|%05d' % (42, 42, 42))
print(int(3.9), int(-3.9), int(True), int('  7  '), float(2**63), int(float(2**63)) == 2**63)
"""

def check(res):
    tier, seed = res.tier, res.seed
    res.trusted = vlib.COMMON_TRUST + [
        "go2v semantics of Go int64 arithmetic (wrap64, truncating / and %, shift-count rules) and of math/big as exact Z operations",
        "hand-written BigInt paths and operator dispatch (Model/IntDispatch.v), tied by the correspondence only",
        "text conversion (str/int/hex/oct/bin, literals) is NOT modelled: covered by the oracle comparison only (testing)"]
    res.assumptions = ["GOARCH=amd64 (64-bit int)", "math/big implements exact integer arithmetic"]
    rc, out = vlib.run_tool("go2v", ["-repo", vlib.REPO, "-out", os.path.join(vlib.COQ, "Gen")])
    res.oblige("go2v: word-arithmetic kernel of py/int.go is inside the translator's subset", rc == 0, out.strip()[-1500:])
    built, mlog = vlib.coq_make()
    p_ok = "Props/C07.vo" in built
    assum = None
    if p_ok:
        assum, _ = vlib.print_assumptions("C07", ["Props.C07"], THEOREMS)
        p_ok = assum is not None
    for t in THEOREMS:
        res.oblige("theorem " + t, p_ok, (assum or {}).get(t, "") if p_ok else "Props/C07.v does not compile on the regenerated Gen/py_int.v")
    if assum:
        res.trusted.append("Print Assumptions: " + "; ".join("%s: %s" % kv for kv in assum.items()))
    cases = gen_cases(tier, seed)
    obs = run_impl(cases)
    findings = vlib.load_findings("C07")
    mismatches = []; known_hit = {}; dist = {}; nontrivial = set()
    for (op, reps, vals), o in obs:
        dist[op] = dist.get(op, 0) + 1
        exp = oracle(op, vals)
        if any(not fits(v) for v in vals) or (exp[:2] == "B:") or any(abs(abs(v) - 2**63) <= 2 for v in vals):
            nontrivial.add((op, reps, vals))
        good = (o == exp) or (exp == "FL" and (o.startswith("FL:") or o == "E:ZeroDivisionError"))
        if not good and m_noncanonical_operand(op, vals, reps) and o[:2] in ("W:", "B:") and exp[:2] in ("W:", "B:") and o[2:] == exp[2:]:
            good = True      # value right; representation of a result derived from a non-canonical operand
        if good:
            continue
        hit = None
        for f in findings:
            m = MATCHERS.get(f.get("matcher"))
            if m and m(op, vals, reps):
                hit = f; break
        if hit:
            known_hit.setdefault(hit["id"], (op, reps, vals, o, exp))
        else:
            mismatches.append((op, reps, vals, o, exp))
    # text conversions (int(s, base), str/hex/oct/bin, literals, % formatting) against CPython
    ta = pydiff.run_impl([TEXT_PROGRAM])[0]; tb = pydiff.run_ref([TEXT_PROGRAM])[0]
    tla = ta.get("out", "").split("\n"); tlb = tb.get("out", "").split("\n")
    text_bad = [(k, x, y) for k, (x, y) in enumerate(zip(tla + ["<missing>"] * (len(tlb) - len(tla)), tlb)) if x != y]
    if ta.get("panic") or ta.get("crash") or ta.get("err") != tb.get("err"): text_bad.append((-1, str((ta.get("err"), ta.get("msg"), ta.get("panic") or ta.get("crash"))), str(tb.get("err"))))
    for k, x, y in text_bad[:10]:
        mismatches.append(("text-conversion", ("text",), (k,), x, y))
    for fid, (op, reps, vals, o, exp) in known_hit.items():
        f = [x for x in findings if x["id"] == fid][0]
        res.known.append("%s: %s (e.g. %s %s -> %s, Python: %s)" % (fid, f["input_class"], op, list(vals), o, exp))
    # model = implementation (Coq)
    rnd = random.Random(seed + 7)
    pool = [c for c in obs if not c[1].startswith(("S:", "WORKER", "BADCASE", "OBJ", "NIL", "NOTIMPL", "NONE"))]
    n_coq = 4000 if tier == "quick" else 40000
    sample = pool if len(pool) <= n_coq else rnd.sample(pool, n_coq)
    shards = [sample[i::8] for i in range(8)] if tier == "thorough" else [sample]
    tie_bad = []; tie_err = None
    with concurrent.futures.ThreadPoolExecutor(8) as ex:
        for sh, (v, log) in zip(shards, ex.map(lambda a: coq_check("C07_cases_%d" % a[0], a[1]), list(enumerate(shards)))):
            if v is None:
                tie_err = log
            else:
                tie_bad += [sh[i] for i in v]
    res.oblige("correspondence: IntDispatch model = implementation on %d sampled cases (vm_compute)" % len(sample),
               tie_err is None and not tie_bad, tie_err or (str(tie_bad[:3]) if tie_bad else ""))
    res.coverage.update(evaluations=len(cases), distinct_nontrivial=len(nontrivial),
        rule="boundary lattice around 0, 2**31, 2**31.5, 2**32, 2**62, 2**63, 2**64, 2**127 (+-1, +-2, both signs) x representations {word, big} x 28 binary/in-place operators + unary + pow3, plus seeded random 1..192-bit operands; through the Go API; non-trivial = an operand or the result is outside or within 2 of the word boundary; oracle = exact Python ints in canonical representation",
        samples=[dict(op=op, reps=list(reps), operands=[str(v) for v in vals], observed=o) for (op, reps, vals), o in obs[:3] + obs[-2:]],
        distribution=dict(cases_per_operator=dist), model_checked_cases=len(sample),
        oracle_disagreements=len(mismatches), matched_known_findings=len(known_hit),
        modelled_not_verified=["math/big", "strconv", "text conversion", "Bool operands (listed finding)"])
    if mismatches:
        op, reps, vals, o, exp = mismatches[0]
        res.violation("counterexample", "integer operator result differs from the exact value",
                      dict(input=dict(op=op, reps=list(reps), operands=[str(v) for v in vals]), expected=exp, observed=o,
                           others=[dict(op=m[0], operands=[str(v) for v in m[2]], observed=m[3], expected=m[4]) for m in mismatches[1:6]],
                           how_to_rerun="python3 tools/check.py C07 --replay <this file>"))
        return
    if not p_ok or tie_bad or tie_err or rc != 0:
        what = "theorems of Props/C07.v" if not p_ok else "correspondence IntDispatch model vs implementation"
        detail = dict(theorem_or_correspondence=what, go2v=out.strip()[-1000:],
                      coqc_error=[l for l in mlog.splitlines() if "Error" in l or "rror:" in l][-10:],
                      first_model_disagreements=[dict(op=c[0][0], reps=list(c[0][1]), operands=[str(v) for v in c[0][2]], implementation=c[1]) for c in tie_bad[:5]],
                      tie_error=tie_err)
        res.violation("proof-broken" if not p_ok else "tie-broken", "C07 no longer shown: " + what, detail, no_input=True)

def replay(path):
    d = json.load(open(path)); inp = d.get("input") or {}
    err = vlib.go_build()
    if err: print(err); return 2
    if "op" not in inp:
        print("replay file names no input:", d.get("theorem_or_correspondence")); return 1
    vals = tuple(int(v) for v in inp["operands"])
    for c, o in run_impl([(inp["op"], tuple(inp["reps"]), vals)]):
        exp = oracle(inp["op"], vals)
        print("observed", o, "expected", exp)
        return 0 if o == exp else 1
    return 2
