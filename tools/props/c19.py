"""C19: module bodies run once per context; importers share the module.  P: Props/C19.v (store model:
no body twice, whatever the graph/requests/order).  T: execution order of generated module graphs =
the model's log (vm_compute).  Oracle: CPython (statement forms, sharing, star-import names, errors)."""
import itertools, json, os, random, concurrent.futures
import vlib, pydiff

THEOREMS = ["C19_body_at_most_once", "C19_requested_module_is_shared"]

def gen_case(rnd, k, nmods):
    names = ["m%d_%d" % (k, i) for i in range(nmods)]
    edges = {i: [] for i in range(nmods)}
    for i in range(nmods):
        for j in rnd.sample(range(nmods), rnd.randint(0, min(3, nmods))):
            if j != i: edges[i].append(j)
    files = {}
    all_kind = {}
    for i, n in enumerate(names):
        L = ["print('exec %d')" % i, "v = %d" % (i * 10), "lst = []", "_hidden = %d" % i, "def helper(): return %d" % i]
        ak = rnd.choice([None, None, "['v']", "[]", "['v', '_hidden']", "('helper',)"])
        all_kind[i] = ak
        if ak is not None: L.append("__all__ = " + ak)
        for j in edges[i]:
            back = i in edges[j] or any(i in edges[x] for x in edges[j])      # possible cycle: plain import only
            form = "import" if back else rnd.choice(["import", "importas", "from", "fromas", "star"])
            t = names[j]
            if form == "import": L.append("import %s" % t)
            elif form == "importas": L.append("import %s as peer%d" % (t, j))
            elif form == "from": L.append("from %s import lst" % t)
            elif form == "fromas": L.append("from %s import lst as lst%d" % (t, j))
            else: L.append("from %s import *" % t)
        L.append("after = 'done %d'" % i)
        files[n + ".py"] = "\n".join(L) + "\n"
    reqs = [rnd.randrange(nmods) for _ in range(rnd.randint(1, 5))]
    M = ["def t(f):\n    try:\n        print(f())\n    except ImportError: print('ImportError')\n    except AttributeError: print('AttributeError')\n    except NameError: print('NameError')"]
    for r in reqs:
        n = names[r]
        form = rnd.choice(["import", "importas", "from", "fromas", "star"])
        if form == "import": M += ["import %s" % n, "print('main', %s.v, %s.after)" % (n, n)]
        elif form == "importas": M += ["import %s as a%d" % (n, r), "print('main', a%d.v)" % r]
        elif form == "from": M += ["from %s import v, lst" % n, "print('main', v, lst)"]
        elif form == "fromas": M += ["from %s import v as vv%d" % (n, r), "print('main', vv%d)" % r]
        else:
            M += ["from %s import *" % n]
            for nm in ("v", "lst", "_hidden", "helper", "after"):
                M.append("t(lambda: %s if isinstance(%s, (int, str, list)) else 'callable')" % (nm, nm))
            M += ["del v" if False else "pass"]
    # sharing: mutate through one importer, observe through another
    a = names[reqs[0]]
    M += ["import %s" % a, "import %s as other" % a, "%s.lst.append('mut')" % a, "print(other.lst, other is %s)" % a, "from %s import lst as l2" % a, "print(l2 is other.lst)",
          "%s.v = 'rebound'" % a, "import %s as third" % a, "print(third.v)"]
    M += ["try:\n    import nonexistent_module_%d\nexcept ImportError:\n    print('ImportError ok')" % k,
          "try:\n    from %s import no_such_name\nexcept ImportError:\n    print('ImportError name')" % a,
          "import %s as still" % a, "print('usable', still.after)"]
    return dict(src="\n".join(M) + "\n", files=files), dict(nmods=nmods, edges=edges, reqs=reqs, all=all_kind)

def coq_check(name, rows):
    text = ("From Coq Require Import List Bool Arith. Import ListNotations.\nFrom GP Require Import Model.Import.\n"
      "Definition leq (a b : list nat) := if list_eq_dec Nat.eq_dec a b then true else false.\n"
      "Definition mk (adj : list (list nat)) : graph := fun m => nth m adj [].\n"
      "Definition cases : list (list (list nat) * list nat * list nat) := [\n" + ";\n".join(rows) + "].\n"
      "Fixpoint bad (i : nat) (l : list (list (list nat) * list nat * list nat)) : list nat := match l with [] => [] | (adj, reqs, obs) :: r => if leq (rev (snd (run_imports 50 (mk adj) reqs))) obs then bad (S i) r else i :: bad (S i) r end.\n"
      "Definition M := Eval vm_compute in bad 0 cases.\nPrint M.\n")
    rc, out = vlib.coqc_run(name, text, timeout=400)
    if rc != 0: return None, out[-1200:]
    v = vlib.parse_coq_value("M " + out[out.find("M ="):].replace("M =", " =", 1)) if "M =" in out else None
    return v, out[-300:]

def failing_module_cases():
    """systematic: a module whose body fails (each exception kind, incl. the ImportErrors of a nested import),
    requested twice by the main program in each statement form, directly or through a tolerant importer;
    every body logs its executions in a shared module.  Python: a failed module is not left in the module
    store - every request runs the body again and fails again."""
    fails = {"value": "raise ValueError('boom')", "zerodiv": "1 / 0", "importerror-raised": "raise ImportError('explicit')",
             "import-missing-module": "import no_such_module_xyz", "from-missing-name": "from dep import absent",
             "keyerror": "{}['k']", "nameerror": "undefined_name", "filenotfound": "open('/nonexistent_zz_dir/nofile')"}
    forms = {"import": "import bad", "importas": "import bad as b2", "from": "from bad import ready", "star": "from bad import *"}
    out = []
    for fk, stmt in fails.items():
        for pos in ("early", "late"):
            body = "import log\nlog.events.append('bad body')\nready = False\n" + (stmt + "\nready = True\n" if pos == "early" else "ready = True\n" + stmt + "\nlast = 1\n")
            files = {"log.py": "events = []\n", "dep.py": "present = 1\n", "bad.py": body,
                     "user.py": "import log\nlog.events.append('user body')\ntry:\n    from bad import ready\n    have = 'bad imported ' + str(ready)\nexcept Exception:\n    have = 'bad unavailable'\n"}
            for f1, s1 in forms.items():
                for f2, s2 in forms.items():
                    for via_user in (False, True):
                        M = ["import log"]
                        if via_user: M += ["import user", "print(user.have)"]
                        for st in (s1, s2):
                            M += ["try:", "    " + st, "    print('imported')", "except BaseException as e:", "    print('failed', isinstance(e, ImportError), isinstance(e, ValueError), isinstance(e, ZeroDivisionError), isinstance(e, KeyError), isinstance(e, NameError), isinstance(e, FileNotFoundError))"]
                        M += ["print(log.events)", "import dep", "print(dep.present)"]
                        out.append((dict(src="\n".join(M) + "\n", files=files), dict(kind="failing-module", failure=fk, position=pos, first=f1, second=f2, via_user=via_user)))
    return out

PROBES = [
 ("failed_import_not_cached", dict(src="try:\n    import bad\nexcept ValueError:\n    print('VE1')\ntry:\n    import bad\n    print('second import succeeded')\nexcept ValueError:\n    print('VE2')\nimport good\nprint(good.x)\n", files={"bad.py": "x = 1\nraise ValueError('boom')\n", "good.py": "x = 2\n"})),
 ("builtin_go_module_once", dict(src="import math\nimport math as m2\nfrom math import pi\nprint(m2 is math, pi == math.pi)\nmath.extra = 5\nimport math as m3\nprint(m3.extra)\n", files={"unused.py": "x=1\n"})),
 ("star_all_empty", dict(src="v = 'mine'\nfrom ma import *\nprint(v)\n", files={"ma.py": "v = 'theirs'\n__all__ = []\n"})),
 ("dotted_missing", dict(src="try:\n    import no.such.pkg\nexcept ImportError:\n    print('ImportError')\nprint('alive')\n", files={"unused.py": "x=1\n"})),
]

def check(res):
    tier, seed = res.tier, res.seed
    rnd = random.Random(seed)
    res.trusted = vlib.COMMON_TRUST + [
        "Model/Import.v is hand-written from ImportModuleLevelObject / ModuleInit (store lookup first, registration before the body runs); tied to the code by the execution-order correspondence on generated module graphs",
        "statement forms, name binding, __all__ handling, error classes and sharing are compared with CPython (validated oracle, testing); the file system and py.Compile are outside the model"]
    res.assumptions = ["CPython 3.11 agrees with Python 3.4 on the generated import programs (cyclic edges use plain 'import m')"]
    built, mlog = vlib.coq_make()
    p_ok = "Props/C19.vo" in built
    assum = None
    if p_ok:
        assum, _ = vlib.print_assumptions("C19", ["Props.C19"], THEOREMS)
        p_ok = assum is not None
    for t in THEOREMS:
        res.oblige("theorem " + t, p_ok, (assum or {}).get(t, "") if p_ok else "Props/C19.v does not compile")
    if assum: res.trusted.append("Print Assumptions: " + "; ".join("%s: %s" % kv for kv in assum.items()))
    cases = []; metas = []
    n = 400 if tier == "quick" else 8000
    for k in range(n):
        c, m = gen_case(rnd, k, rnd.choice([1, 2, 3, 4, 5]))
        cases.append(c); metas.append(dict(kind="graph", **m))
    for k, c in PROBES:
        cases.append(c); metas.append(dict(kind=k))
    for c, m in failing_module_cases():
        cases.append(c); metas.append(m)
    impl = pydiff.run_impl(cases); ref = pydiff.run_ref(cases)
    mism = []; rows = []; rowmeta = []; nontrivial = 0
    for c, m, a, b in zip(cases, metas, impl, ref):
        ga = (a.get("out", ""), a.get("err", "")); gb = (b.get("out", ""), b.get("err", ""))
        if a.get("panic") or a.get("crash"): ga = ("<GO PANIC %s>" % (a.get("panic") or a.get("crash")), "")
        if ga != gb: mism.append((m, c, ga, gb))
        if m["kind"] == "graph":
            if any(m["edges"][i] for i in m["edges"]): nontrivial += 1
            order = [int(l.split()[1]) for l in a.get("out", "").splitlines() if l.startswith("exec ")]
            adj = "[" + "; ".join("[" + "; ".join(map(str, m["edges"][i])) + "]" for i in range(m["nmods"])) + "]"
            rows.append("(%s, [%s], [%s])" % (adj, "; ".join(map(str, m["reqs"] + [m["reqs"][0]])), "; ".join(map(str, order))))
            rowmeta.append(m)
    tie_bad = []; tie_err = None
    shards = [list(range(len(rows)))[i::4] for i in range(4)]
    with concurrent.futures.ThreadPoolExecutor(4) as ex:
        for sh, (v, log) in zip(shards, ex.map(lambda a: coq_check("C19_cases_%d" % a[0], [rows[i] for i in a[1]]), list(enumerate(shards)))):
            if v is None: tie_err = log
            else: tie_bad += [rowmeta[sh[i]] for i in v]
    res.oblige("correspondence: module execution order of the implementation = the model's log on %d module graphs (vm_compute)" % len(rows), tie_err is None and not tie_bad, tie_err or str(tie_bad[:2]))
    res.coverage.update(evaluations=len(cases), distinct_nontrivial=nontrivial, programs=len(cases),
        rule="seeded import graphs over 1-5 generated source modules (cycles and diamonds included; each edge one of import / import as / from import / from import as / from import *, cyclic edges plain import), each module logging its execution, followed by 1-5 first-import requests in all statement forms from the main program, sharing checks (mutation through one importer seen through another, rebinding, identity), star-import name sets under several __all__ settings, missing module / missing name (ImportError, context still usable); plus probes (failed import not cached, Go-implemented module, empty __all__); non-trivial = the graph has at least one edge",
        samples=[dict(case=metas[2], main=cases[2]["src"][:300], stdout=impl[2].get("out", "")[:200])],
        distribution=dict(graphs=n, probes=len(PROBES)), oracle_disagreements=len(mism), modelled_not_verified=["path resolution (ResolveAndCompile)", "IMPORT_FROM / IMPORT_STAR name binding", "file system"])
    if mism:
        m, c, ga, gb = mism[0]
        res.violation("counterexample", "import behaviour differs from Python", dict(input=dict(case=m, main=c["src"], files=c["files"]),
                      expected=dict(stdout=gb[0][-600:], error=gb[1]), observed=dict(stdout=ga[0][-600:], error=ga[1]), others=[dict(case=x[0]) for x in mism[1:5]]))
        return
    if not p_ok or tie_bad or tie_err:
        res.violation("proof-broken" if not p_ok else "tie-broken", "C19 no longer shown", dict(theorem_or_correspondence="Props/C19.v / execution-order correspondence",
                      coqc_error=[l for l in mlog.splitlines() if "rror" in l][-10:], first_disagreements=tie_bad[:3], tie_error=tie_err), no_input=True)

def replay(path):
    d = json.load(open(path)); print(json.dumps(d, indent=1)[:3000]); return 1
