"""C18: compilation is deterministic and leaves nothing behind.  P: Props/C18.v -- every map-range loop
of the pipeline (regenerated inventory, verbatim text) is one of the modelled loops, each proved
order-independent for all maps and all iteration orders; no clock/random/goroutine use; no package
state written.  T/search: every generator's programs and every .py of the repository compiled 64x,
interleaved with failing compilations, from 16 goroutines, and in separate processes; deep dumps equal."""
import hashlib, json, os, random, subprocess
import vlib, progs, regen

THEOREMS = ["C18_every_map_range_is_modelled", "C18_set_update", "C18_analyze_cells", "C18_update1", "C18_update2", "C18_sorted_keys",
            "C18_analyze_block", "C18_find", "C18_invert", "C18_token_values_distinct", "C18_no_nondeterminism_source",
            "C18_no_state_left_behind"]

FAILING = [
 "class K:\n    def m(self):\n        return [i for i in self]\n    def n(self):\n        x = (yield)\n        break\n",
 "def f():\n    def g():\n        nonlocal zz\n    return g\n",
 "def outer():\n    x = 1\n    def inner():\n        return x +* 2\n",
 "def f(a, a):\n    pass\n",
 "lambda: (yield)\nreturn 5\n",
 "def f():\n    [continue for x in y]\n",
 "class C:\n    def f(self):\n        def g():\n            return __class__\n        return g\n    x = = 1\n",
 "def f():\n    global a\n    a = 1\n    def g():\n        nonlocal a\n",
 "x = [i for i in range(3) if (lambda: (i, *j))]\n",
 "for x in y:\n    def f():\n        continue\n",
 "def f(a, b, c, d):\n    global a\n    global b\n    global c\n    global d\n",
 "def f(zz, yy, xx):\n    def g(p, q, r, s):\n        nonlocal p, q, r, s\n    global zz, yy, xx\n",
 "def f():\n    def g():\n        nonlocal n1, n2, n3, n4, n5\n        global n1, n2, n3\n",
 "x1 = x2 = x3 = 0\ndef f(x1, x2, x3, x4):\n    global x4, x3, x2, x1\n    nonlocal x1\n",
]

def sources(seed, tier):
    n = 60 if tier == "quick" else 1500
    src = progs.all_programs(seed, n)
    if tier == "quick":
        rnd = random.Random(seed); rnd.shuffle(src); src = src[:1200]
    src += progs.nested_scope_programs(seed, 300 if tier == "quick" else 5000)
    files = progs.repo_py_files(vlib.REPO)
    src += [t for _, t in files]
    # failing compilations interleaved with everything else
    out = []
    for i, s in enumerate(src):
        out.append(s)
        if i % 7 == 3: out.append(FAILING[(i // 7) % len(FAILING)])
    return out, len(files)

def run_c18(srcs):
    inp = "".join(json.dumps(dict(src=s)) + "\n" for s in srcs)
    p = subprocess.run([os.path.join(vlib.GO, "bin", "impl"), "c18"], input=inp, stdout=subprocess.PIPE, stderr=subprocess.PIPE, text=True, env=vlib.GOENV, timeout=3000)
    res = {}
    for l in p.stdout.splitlines():
        if l.startswith("{"):
            try: d = json.loads(l)
            except ValueError: continue      # the harness process died in the middle of a line
            res[d["index"]] = d["result"]
    return res, p.returncode, p.stderr[-800:]

def check(res):
    tier, seed = res.tier, res.seed
    res.trusted = vlib.COMMON_TRUST + [
        "go/types with the source importer: Gen/Inventories.v lists every range-over-map, every write to a package-level variable outside init, every use of time/rand/os/reflect/sync/unsafe/runtime, every method call on a package-level variable in parser/, ast/, symtable/, compile/ (writes through aliases of package-level tables and state hidden behind function calls into other packages are not seen by the inventory: the repetition harness is the only guard there)",
        "Model/MapOrder.v and Model/Symtable.v are hand-written from the loop bodies; the tie is that the regenerated loop text must be verbatim the audited text in Props/C18.v",
        "goroutine scheduling of the concurrent part of the harness is whatever the Go runtime does (16 goroutines, not all interleavings)"]
    rc, out = regen.regen_inventories()
    built, mlog = vlib.coq_make()
    p_ok = rc == 0 and "Props/C18.vo" in built
    assum = None
    if p_ok:
        assum, _ = vlib.print_assumptions("C18", ["Props.C18"], THEOREMS)
        p_ok = assum is not None
    for t in THEOREMS:
        res.oblige("theorem " + t, p_ok, (assum or {}).get(t, "") if p_ok else "Props/C18.v does not compile on the regenerated Gen/Inventories.v")
    if assum: res.trusted.append("Print Assumptions: " + "; ".join("%s: %s" % kv for kv in assum.items()))
    srcs, nfiles = sources(seed, tier)
    r1, rc1, err1 = run_c18(srcs)
    bad = [(i, r) for i, r in sorted(r1.items()) if r != "same"]
    missing = [i for i in range(len(srcs)) if i not in r1]
    # across processes (different map seeds, different address space)
    def digest():
        inp = "".join(json.dumps(dict(src=s)) + "\n" for s in srcs)
        p = subprocess.run([os.path.join(vlib.GO, "bin", "impl"), "c18dump"], input=inp, stdout=subprocess.PIPE, stderr=subprocess.DEVNULL, text=True, env=vlib.GOENV, timeout=3000)
        return p.stdout.splitlines()
    d1 = digest(); d2 = digest(); d3 = digest()
    cross = [i for i in range(min(len(d1), len(d2), len(d3))) if not (d1[i] == d2[i] == d3[i])]
    if len(d1) != len(srcs): missing.append(-1)
    ok = not bad and not missing and not cross and rc1 == 0
    res.oblige("search/correspondence: %d sources x (64 sequential repetitions interleaved with other and failing compilations + 16 concurrent goroutines + 3 processes): identical deep dumps; every result object (code or error with its location attributes) held from a first compilation is unchanged after all later ones, no two failed compilations share an exception object, concurrent failing compilations each report their own location" % len(srcs), ok, str(bad[:1] or missing[:3] or cross[:3] or err1))
    res.coverage.update(evaluations=len(srcs) * (64 + 16 + 3), distinct_nontrivial=sum(1 for s in srcs if "def " in s or "class " in s or "lambda" in s), programs=len(srcs),
        rule="every generator of the other properties (control flow, nesting, cleanup, scope, generator histories, consumers, container histories) + nested-scope programs (random and systematic def/class/lambda/comprehension nestings with shared names) + every .py file under /repo (%d) + failing compilations interleaved (syntax errors inside nested scopes); each compiled 64 times sequentially with other compilations in between, once from each of 16 goroutines, and in 3 separate processes; recursive dump of code, consts, names, varnames, freevars, cellvars, cell2arg, flags, stacksize, firstlineno, lnotab, name, filename; non-trivial = has a nested scope" % nfiles,
        samples=[dict(source=srcs[5][:200])], distribution=dict(sources=len(srcs), repo_files=nfiles, failing=sum(1 for s in srcs if s in FAILING)),
        modelled_not_verified=["the parser tables (y.go) and the assembler are covered by the harness only", "aliasing writes into package-level tables"])
    if bad or cross:
        i = bad[0][0] if bad else cross[0]
        res.violation("counterexample", "two compilations of the same source differ", dict(input=dict(source=srcs[i], preceded_by=srcs[max(0, i - 3):i]),
            expected="identical code objects", observed=(bad[0][1] if bad else "dumps differ between processes"), others=len(bad) + len(cross)))
        return
    if not p_ok or missing or rc1 != 0:
        res.violation("proof-broken" if not p_ok else "tie-broken", "C18 no longer shown", dict(theorem_or_correspondence="Props/C18.v over the regenerated Gen/Inventories.v (C18_every_map_range_is_modelled / C18_no_nondeterminism_source / C18_no_state_left_behind)",
            coqc_error=[l for l in mlog.splitlines() if "rror" in l][-10:], extractor=out[-400:] if rc else "", harness=err1, searched="%d sources x 83 compilations: no differing code object found" % len(srcs)), no_input=True)

def replay(path):
    d = json.load(open(path)); print(json.dumps(d, indent=1)[:3000]); return 1
