"""C04: argument binding.  P: Props/C04.v (call-site / MAKE_FUNCTION operand round trips; a successful
binding leaves no parameter unbound).  T: EvalCode model = implementation on the exhaustive signature x
call-shape product (vm_compute); oracle: CPython, incl. *seq / **map call shapes.  Go callables: see go side."""
import itertools, json, os, random, concurrent.futures
import vlib, pydiff

THEOREMS = ["C04_callsite_roundtrip", "C04_make_function_roundtrip", "C04_all_parameters_bound", "C04_binding_rule"]
CODE = {"a": 1, "b": 2, "g": 7, "d": 4, "e": 5, "z": 9}

def signatures():
    sigs = []
    for npos in (0, 1, 2, 3):
        for ndefs in range(npos + 1):
            for var in (False, True):
                for nkwo in (0, 1, 2):
                    for kwd in itertools.product((False, True), repeat=nkwo):
                        for kwarg in (False, True):
                            sigs.append(dict(pos=["a", "b", "g"][:npos], ndefs=ndefs, vararg=var, kwonly=["d", "e"][:nkwo],
                                             kwdefs=[n for n, has in zip(["d", "e"], kwd) if has], kwarg=kwarg))
    return sigs

def sig_src(s):
    parts = []
    npos = len(s["pos"])
    for i, n in enumerate(s["pos"]):
        parts.append(n if i < npos - s["ndefs"] else "%s=%d" % (n, 300 + CODE[n]))
    if s["vararg"]: parts.append("*c")
    elif s["kwonly"]: parts.append("*")
    for n in s["kwonly"]:
        parts.append("%s=%d" % (n, 300 + CODE[n]) if n in s["kwdefs"] else n)
    if s["kwarg"]: parts.append("**k")
    ret = "(" + "".join("%s, " % n for n in s["pos"] + s["kwonly"]) + ")"
    ret = "(%s, %s, %s)" % (ret, "list(c)" if s["vararg"] else "None", "[(n, k[n]) for n in sorted(k)]" if s["kwarg"] else "None")
    if s.get("capture"):
        # every parameter is captured by an inner scope (cell variables filled from the arguments)
        ret = "(lambda: %s)()" % ret
    if s.get("lambda"): return "f = lambda %s: %s\n" % (", ".join(parts), ret)
    return "def f(%s):\n    return %s\n" % (", ".join(parts), ret)

def calls():
    out = []
    for nargs in range(5):
        for r in range(0, 4):
            for kws in itertools.combinations(["a", "b", "d", "e", "g", "z"], r):
                out.append(dict(nargs=nargs, kws=list(kws), seq=None, map=None))
    for nargs in range(4):
        for kws in ([], ["d"], ["b", "e"], ["g"]):
            for seq in ([], [400], [400, 401]):
                for mp in (None, [], ["e"], ["z"], ["a"]):
                    out.append(dict(nargs=nargs, kws=kws, seq=seq, map=mp))
            for mp in ([], ["d", "e"], ["z"], ["b"]):
                out.append(dict(nargs=nargs, kws=kws, seq=None, map=mp))
    return out

def call_src(c):
    args = [str(100 + i) for i in range(c["nargs"])]
    if c["seq"] is not None: args.append("*" + repr(tuple(c["seq"])))
    args += ["%s=%d" % (n, 200 + CODE[n]) for n in c["kws"]]
    if c["map"] is not None: args.append("**{" + ", ".join("'%s': %d" % (n, 500 + CODE[n]) for n in c["map"]) + "}")
    return "f(%s)" % ", ".join(args)

PRE = "def t(g):\n    try:\n        print(g())\n    except TypeError:\n        print('TypeError')\n"

def coq_sig(s):
    return "{| s_pos := [%s]; s_ndefs := %d; s_vararg := %s; s_kwonly := [%s]; s_kwdefs := [%s]; s_kwarg := %s |}" % (
        "; ".join(str(CODE[n]) for n in s["pos"]), s["ndefs"], "true" if s["vararg"] else "false",
        "; ".join(str(CODE[n]) for n in s["kwonly"]), "; ".join(str(CODE[n]) for n in s["kwdefs"]), "true" if s["kwarg"] else "false")

def coq_obs(line):
    if line == "TypeError": return "BTypeError"
    try:
        v = eval(line, {"__builtins__": {}}, {"None": None})
        slots, star, kw = v
        rev = {n: c for n, c in CODE.items()}
        return "(Bound [%s] %s %s)" % ("; ".join(map(str, slots)),
            "None" if star is None else "(Some [%s])" % "; ".join(map(str, star)),
            "None" if kw is None else "(Some [%s])" % "; ".join("(%d, %d)" % (rev[n], x) for n, x in kw))
    except Exception:
        return "(Bound [999999] None None)"

def coq_check(name, rows):
    text = ("From Coq Require Import List Bool Arith. Import ListNotations.\nFrom GP Require Import Model.Bind.\n"
      "Definition leq (a b : list nat) := if list_eq_dec Nat.eq_dec a b then true else false.\n"
      "Definition oeq (a b : option (list nat)) := match a, b with None, None => true | Some x, Some y => leq x y | _, _ => false end.\n"
      "Fixpoint peq (a b : list (nat * nat)) : bool := match a, b with [], [] => true | (x1, y1) :: r1, (x2, y2) :: r2 => Nat.eqb x1 x2 && Nat.eqb y1 y2 && peq r1 r2 | _, _ => false end.\n"
      "Definition keq (a b : option (list (nat * nat))) := match a, b with None, None => true | Some x, Some y => peq x y | _, _ => false end.\n"
      "Definition beq (a b : bres) := match a, b with BTypeError, BTypeError => true | Bound s1 t1 k1, Bound s2 t2 k2 => leq s1 s2 && oeq t1 t2 && keq k1 k2 | _, _ => false end.\n"
      "Definition cases : list (sig * nat * list nat * bres) := [\n" + ";\n".join(rows) + "].\n"
      "Fixpoint bad (i : nat) (l : list (sig * nat * list nat * bres)) : list nat := match l with [] => [] | (s, n, k, o) :: r => if beq (bind_model s n k) o then bad (S i) r else i :: bad (S i) r end.\n"
      "Definition M := Eval vm_compute in bad 0 cases.\nPrint M.\n")
    text = text.replace("prod_eq_dec Nat.eq_dec Nat.eq_dec x y", "ltac:(decide equality; apply Nat.eq_dec)") if False else text
    rc, out = vlib.coqc_run(name, text, timeout=400)
    if rc != 0: return None, out[-1200:]
    v = vlib.parse_coq_value("M " + out[out.find("M ="):].replace("M =", " =", 1)) if "M =" in out else None
    return v, out[-300:]

def m_kwonly_misaligned(case):
    s = case.get("sig")
    return bool(s) and s["kwonly"] == ["d", "e"] and s["kwdefs"] == ["e"]
MATCHERS = {"c04.kwonly_default_after_required_kwonly": m_kwonly_misaligned}

def check(res):
    tier, seed = res.tier, res.seed
    res.trusted = vlib.COMMON_TRUST + [
        "Model/Bind.v is hand-written from EvalCode's argument parsing; tied to the code by the exhaustive signature x plain-call product (vm_compute); *seq/**map merging, defaults evaluation and error selection are compared with CPython only",
        "Go callables (Method.Call/CallWithKeywords, receiver injection) are exercised by the harness (cmd/impl c04), testing"]
    res.assumptions = ["CPython 3.11 agrees with Python 3.4 on argument binding for the generated signatures"]
    built, mlog = vlib.coq_make()
    p_ok = "Props/C04.vo" in built
    assum = None
    if p_ok:
        assum, _ = vlib.print_assumptions("C04", ["Props.C04"], THEOREMS)
        p_ok = assum is not None
    for t in THEOREMS:
        res.oblige("theorem " + t, p_ok, (assum or {}).get(t, "") if p_ok else "Props/C04.v does not compile")
    if assum: res.trusted.append("Print Assumptions: " + "; ".join("%s: %s" % kv for kv in assum.items()))
    sigs = signatures(); cs = calls()
    rnd = random.Random(seed)
    if tier == "quick":
        sig_sel = sigs
        call_sel = lambda: rnd.sample(cs, 70)
    else:
        sig_sel = sigs; call_sel = lambda: cs
    progs = []; metas = []
    # every signature as a def and as a lambda (the parameter list of a lambda goes through its own grammar rules)
    sig_sel = [dict(s, **{"lambda": lam}) for s in sig_sel for lam in ((False, True) if tier != "quick" else (rnd.random() < 0.5,))]
    sig_sel = [dict(s, capture=cap) for s in sig_sel for cap in ((False, True) if tier != "quick" else (rnd.random() < 0.5,))]
    for s in sig_sel:
        sel = call_sel()
        src = PRE + sig_src(s) + "".join("t(lambda: %s)\n" % call_src(c) for c in sel)
        progs.append(src); metas.append((s, sel))
    impl = pydiff.run_impl(progs); ref = pydiff.run_ref(progs)
    findings = vlib.load_findings("C04"); known = {}
    mism = []; rows = []; rowmeta = []; n = 0; nontrivial = 0
    for (s, sel), a, b in zip(metas, impl, ref):
        la = a.get("out", "").splitlines(); lb = b.get("out", "").splitlines()
        for k, c in enumerate(sel):
            n += 1
            if c["kws"] or c["seq"] is not None or c["map"] is not None: nontrivial += 1
            got = la[k] if k < len(la) else "<missing: %s %s>" % (a.get("err"), a.get("panic") or a.get("crash") or a.get("msg"))
            exp = lb[k] if k < len(lb) else "<missing>"
            hit = None
            for f in findings:
                mt = MATCHERS.get(f.get("matcher"))
                if mt and mt(dict(sig=s, call=c)): hit = f; break
            if got != exp:
                if hit: known.setdefault(hit["id"], (sig_src(s).splitlines()[0], call_src(c), got, exp))
                else: mism.append((dict(signature=sig_src(s).splitlines()[0], call=call_src(c)), got, exp))
            if c["seq"] is None and c["map"] is None and k < len(la) and not hit:
                rows.append("(%s, %d, [%s], %s)" % (coq_sig(s), c["nargs"], "; ".join(str(CODE[x]) for x in c["kws"]), coq_obs(got)))
                rowmeta.append((s, c, got))
    for fid, (sg, cl, got, exp) in known.items():
        f = [x for x in findings if x["id"] == fid][0]
        res.known.append("%s: %s (e.g. %s; %s -> %s, Python: %s)" % (fid, f["input_class"], sg, cl, got, exp))
    tie_bad = []; tie_err = None
    shards = [list(range(len(rows)))[i::8] for i in range(8)]
    with concurrent.futures.ThreadPoolExecutor(8) as ex:
        for sh, (v, log) in zip(shards, ex.map(lambda a: coq_check("C04_cases_%d" % a[0], [rows[i] for i in a[1]]), list(enumerate(shards)))):
            if v is None: tie_err = log
            else: tie_bad += [rowmeta[sh[i]] for i in v]
    res.oblige("correspondence: bind model = implementation on %d (signature, call) pairs (vm_compute)" % len(rows), tie_err is None and not tie_bad,
               tie_err or str([(sig_src(s).splitlines()[0], call_src(c), g) for s, c, g in tie_bad[:3]]))
    # Go callables
    rc, out = vlib.run_tool("impl", ["c04"], timeout=300)
    go_ok = rc == 0 and "FAIL" not in out
    res.oblige("Go callables of the four signatures receive receiver/args/kwargs exactly (harness scenario with two contexts)", go_ok, out[-1500:])
    res.coverage.update(evaluations=n, distinct_nontrivial=nontrivial,
        rule="all signatures over <=3 positional (each trailing default choice), optional *c, <=2 keyword-only (each with/without default), optional **k (%d signatures) x call shapes with 0..4 positionals, keyword subsets of {a,b,g,d,e,z}, optional *seq and **map (%d shapes; quick samples 70 per signature); non-trivial = a call using keywords, *seq or **map" % (len(sigs), len(cs)),
        samples=[dict(signature=sig_src(metas[37][0]).splitlines()[0], call=call_src(metas[37][1][0]), observed=impl[37].get("out", "").splitlines()[:1])],
        distribution=dict(signatures=len(sig_sel), pairs=n, model_checked=len(rows)), oracle_disagreements=len(mism),
        modelled_not_verified=["*seq/**map merging in Vm.Call", "ParseTupleAndKeywords formats", "error message selection"])
    if mism:
        case, got, exp = mism[0]
        res.violation("counterexample", "argument binding differs from Python", dict(input=case, expected=exp, observed=got,
                      others=[dict(input=c, observed=g, expected=e) for c, g, e in mism[1:6]]))
        return
    if not go_ok:
        res.violation("counterexample", "a Go callable did not receive the receiver/arguments of the Python call", dict(input="cmd/impl c04 scenario", observed=out[-2000:], expected="all PASS"))
        return
    if not p_ok or tie_bad or tie_err:
        res.violation("proof-broken" if not p_ok else "tie-broken", "C04 no longer shown", dict(theorem_or_correspondence="Props/C04.v / bind model correspondence",
                      coqc_error=[l for l in mlog.splitlines() if "rror" in l][-10:], first_disagreements=[(sig_src(s).splitlines()[0], call_src(c), g) for s, c, g in tie_bad[:5]], tie_error=tie_err), no_input=True)

def replay(path):
    d = json.load(open(path)); print(json.dumps(d, indent=1)[:3000]); return 1
