"""C15: float and mixed arithmetic.  P: Props/C15.v (Flocq binary64 model: exact int/float comparison,
int->float nearest-even or overflow, float->int truncation, round half even for floats, rationals and
ints -- for all doubles and all ints).  T: bit-pattern correspondence of gpython's conversions,
comparisons, round and floatDivMod with the model (vm_compute over Flocq) on a lattice + random bits.
Oracle: CPython on operators, conversions, fold builtins and text forms over the same lattice."""
import collections, concurrent.futures, json, os, random, re, struct, subprocess
import vlib, pydiff

THEOREMS = ["C15_cmp_exact", "C15_int_to_float_nearest_even", "C15_float_to_int_truncates", "C15_round_half_even", "C15_rational_round_half_even", "C15_int_round_half_even"]
IMPL = os.path.join(vlib.GO, "bin", "impl")

SPECIAL = ["0.0", "-0.0", "1.0", "-1.0", "0.5", "-0.5", "1.5", "2.5", "-2.5", "3.5", "0.1", "-0.1", "1e-320", "5e-324", "-5e-324", "2.2250738585072014e-308", "2.225073858507201e-308",
 "9007199254740992.0", "9007199254740993.0", "9007199254740991.0", "-9007199254740992.0", "9223372036854775808.0", "9223372036854774784.0", "-9223372036854775808.0", "9223372036854777856.0", "1.8446744073709552e19",
 "1.7976931348623157e308", "-1.7976931348623157e308", "float('inf')", "float('-inf')", "float('nan')", "1e16", "1e-5", "123456.789", "2.675", "0.125", "1e22", "1e23", "4.35", "-7.0", "7.0", "3.0", "1e300", "1e-300"]
INTS = ["0", "1", "-1", "2", "-2", "3", "7", "-7", "10", "2**53", "2**53+1", "2**53-1", "-(2**53+1)", "2**62", "2**63-1", "2**63", "-2**63", "2**63+1", "2**64", "2**64+2**11", "2**64+2**11+1", "2**64+3*2**10", "2**100", "-(2**100)+1", "2**1023", "2**1024", "-(2**1024)", "2**1024-2**970", "2**1024-2**969", "10**22", "10**23", "10**400"]
BINOPS = ["+", "-", "*", "/", "//", "%", "**", "==", "!=", "<", "<=", ">", ">="]
EXTRA = ["sum([0.1] * 10)", "sum([1, 2.5, 3])", "sum([1e308, 1e308])", "max(1, 1.0)", "max(1.0, 1)", "min(2**53+1, 2.0**53)", "max(2**53+1, 2.0**53)", "abs(-0.0)", "pow(2.0, 3.0)", "pow(0.0, -1)", "0 ** -1", "0.0 ** -1.0", "pow(2.0, 3, 5)", "divmod(7, 2.0)", "divmod(-7.5, 2)", "divmod(7.5, -2)",
  "round(2.5)", "round(-2.5)", "round(0.5)", "round(1e300)", "round(float('inf'))", "round(float('nan'))", "round(2.675, 2)", "round(1234.5678, -2)", "round(5, 0)", "round(15, -1)", "round(25, -1)", "round(-25, -1)", "round(35, -1)", "round(2**70 + 5, -1)", "round(0.125, 2)", "round(0.375, 2)", "round(1e308, -308)",
  "float('1e400')", "float('-1e400')", "float('  1.5  ')", "float('inf')", "float('-Infinity')", "float('nan')", "float('0x1p3')", "float('')", "float('1e')", "int(1e22)", "int(-1e22)", "int(float('nan'))", "int(float('inf'))", "1e308 * 10", "-1e308 * 10", "1e308 + 1e308", "1e-320 / 2**10", "(0.1 + 0.2) == 0.3", "0.1 + 0.2", "1.1 * 3", "1e16 + 1",
  "(-2.0) ** 2", "(-2.0) ** 3", "2 ** -1", "2 ** -1.0", "10 ** -2", "1j * 1j", "(1+2j) * (3-1j)", "abs(3+4j)", "(1+2j) == (1+2j)", "1j == 1", "complex(1, 2) + 1", "complex(1, 2) + 1.5", "bool(0.0)", "bool(-0.0)", "bool(float('nan'))", "bool(1e-320)"]
HEADER = ("def kind(r):\n    if r is True or r is False: return 'bool'\n    if isinstance(r, float): return 'float'\n    if isinstance(r, complex): return 'complex'\n    if isinstance(r, str): return 'str'\n    if isinstance(r, tuple): return 'tuple'\n    return 'int'\n"
          "def t(f):\n    try:\n        r = f()\n        print(kind(r), repr(r))\n    except ZeroDivisionError:\n        print('ZeroDivisionError')\n    except OverflowError:\n        print('OverflowError')\n    except ValueError:\n        print('ValueError')\n    except TypeError:\n        print('TypeError')\n")

ROUND_DIGITS = [-401, -400, -309, -308, -307, -300, -23, -17, -16, -15, -2, 0, 3, 15, 16, 17, 22, 23, 300, 307, 308, 309, 310, 315, 322, 323, 324, 325, 326, 400, 401, 2**31, -2**31, 2**63 - 1]
ROUND_SMALL = ["5e-324", "1e-323", "2.5e-323", "1.5e-323", "1e-310", "7e-310", "1.25e-311", "-3e-315", "2.2250738585072014e-308", "2.225073858507201e-308", "1.5e-308", "-2.5e-308", "4.5e-308", "1.7976931348623157e308", "3.5e-320", "-6.5e-322"]
def expressions(rnd, tier):
    ex = []
    fl = list(SPECIAL)
    n_rand = 20 if tier == "quick" else 200
    for _ in range(n_rand):
        bits = rnd.getrandbits(64)
        v = struct.unpack("<d", struct.pack("<Q", bits))[0]
        if v == v and abs(v) != float("inf"): fl.append(repr(v))
    for a in fl:
        for op in ["float(%s)", "int(%s)", "round(%s)", "round(%s, 1)", "round(%s, 2)", "round(%s, -1)", "abs(%s)", "-(%s)", "bool(%s)", "str(%s)", "float(repr(%s))", "(%s) == (%s)"]: ex.append(op.replace("%s", a))
    # round(x, n) across the whole range of decimal exponents a double can have (5e-324 .. 1.8e308) and beyond
    # both cut-offs: the digits that still matter for subnormals (309..324) and the negative ones up to -308
    for a in fl:
        for nd in (rnd.sample(ROUND_DIGITS, 6) if (tier == "quick" and a not in SPECIAL) else ROUND_DIGITS):
            ex.append("round(%s, %d)" % (a, nd))
    for a in ROUND_SMALL:
        for nd in range(300, 330): ex.append("round(%s, %d)" % (a, nd))
    pairs = [(a, b) for a in fl for b in fl]
    if tier == "quick": pairs = [p for p in pairs if p[0] in SPECIAL and p[1] in SPECIAL] + rnd.sample(pairs, min(400, len(pairs)))
    for a, b in pairs:
        for op in BINOPS: ex.append("(%s) %s (%s)" % (a, op, b))
        ex.append("divmod(%s, %s)" % (a, b))
    for a in (SPECIAL if tier == "quick" else fl):
        for n in INTS:
            for op in BINOPS:
                ex.append("(%s) %s (%s)" % (a, op, n)); ex.append("(%s) %s (%s)" % (n, op, a))
    for n in INTS:
        for op in ["float(%s)", "(%s) / 1", "(%s) / 3", "(%s) * 1.0", "(%s) + 0.0", "1 / (%s) if (%s) else 0", "(%s) / (2**64+1)", "(2**1100) / ((%s) + 10**300)"]: ex.append(op.replace("%s", n))
    # int / int with quotients near and below the smallest normal double, and zero numerators
    for _ in range(60 if tier == "quick" else 2000):
        a = rnd.choice([1, 3, 5, 7, rnd.randrange(1, 2 ** 60), rnd.randrange(1, 2 ** 10) * 2 ** 59 + 1]); e = rnd.randint(1015, 1140)
        b = (2 ** e) * rnd.choice([1, 3, 5, 1 + 2 * rnd.randrange(1, 2 ** 20)])
        ex.append("(%d) / (%d)" % (rnd.choice([a, -a]), rnd.choice([b, -b])))
    ex += ["0 / -5", "0 / 5", "-0 / 5", "0 / -(2**100)", "0.0 / -5", "(0 / -5) == 0", "str(0 / -5)", "1 / (3 * 2**1021)", "(5 * 2**59 + 1) / 2**1134", "7 / 2**1074", "1 / 2**1075", "3 / 2**1075", "2**1074 / 2**2148"]
    return ex + EXTRA

def pow_value(expr, got, want):
    """KF-C15-pow-libm: a power whose value (not its type or exception) differs"""
    if "**" not in expr and "pow(" not in expr: return False
    kg, kw = got.split(" ")[0], want.split(" ")[0]
    return kg == kw and kg in ("float", "complex")
MATCHERS = {"c15.pow_value": pow_value}

def fbits(x): return struct.unpack("<Q", struct.pack("<d", x))[0]

def corr_cases(rnd, tier):
    sp = []
    for s in SPECIAL:
        v = eval(s); sp.append(fbits(v))
    ints = [eval(n) for n in INTS] + [2 ** 53 + k for k in range(-3, 4)] + [2 ** 63 + k * 1024 for k in range(-3, 4)] + [-(2 ** 63) + k for k in range(-2, 3)] + [2 ** 1024 - 2 ** 970 - 1, 2 ** 1024 - 2 ** 970 + 1, 2 ** 54 + 2, 2 ** 54 + 6, 3 * 2 ** 52 + 1]
    nr = 150 if tier == "quick" else 3000
    rb = [rnd.getrandbits(64) for _ in range(nr)]
    # doubles around the boundary ints
    near = []
    for n in ints:
        try:
            f = float(n)
            b = fbits(f)
            near += [b, b + 1, b - 1]
        except OverflowError: pass
    fls = sp + rb + near
    ops = []
    for n in ints + [rnd.getrandbits(rnd.randint(1, 1100)) * rnd.choice([1, -1]) for _ in range(nr)]: ops.append("i2f %d" % n)
    for b in fls: ops.append("f2i %d" % b); ops.append("rnd %d" % b)
    for b in sp + near + rb[:60]:
        for n in rnd.sample(ints, 12) + [0, 1, -1]: ops.append("cmp %d %d" % (b, n))
    for b in near:
        f = struct.unpack("<d", struct.pack("<Q", b & (2 ** 64 - 1)))[0]
        if f == f and abs(f) != float("inf"):
            for d in (-1, 0, 1): ops.append("cmp %d %d" % (b, int(f) + d))
    pairs = [(a, b) for a in sp for b in sp] + [(rnd.choice(fls), rnd.choice(fls)) for _ in range(nr * 2)]
    if tier == "quick": pairs = rnd.sample(pairs, 1200)
    for a, b in pairs: ops.append("divmod %d %d" % (a, b))
    for n in ints[:40] + [rnd.randrange(-10 ** 25, 10 ** 25) for _ in range(nr)] + [5, 15, 25, 35, -25, 150, 250, 50, -50, 500]:
        for k in (1, 2, 3, 20): ops.append("irnd %d %d" % (n, -k))
    def okbits(o):
        f = o.split()
        nb = {"f2i": 1, "rnd": 1, "cmp": 1, "divmod": 2}.get(f[0], 0)
        return all(0 <= int(x) < 2 ** 64 for x in f[1:1 + nb])
    return [o for o in ops if okbits(o)]

def coq_rows(ops, obs):
    rows = []
    for o, r in zip(ops, obs):
        f = o.split(); t = r.split()
        bits = lambda s: str(int(s) & (2 ** 64 - 1))
        if f[0] == "i2f": case = "CI2F (%s)" % f[1]
        elif f[0] == "f2i": case = "CF2I %s" % bits(f[1])
        elif f[0] == "rnd": case = "CRND %s" % bits(f[1])
        elif f[0] == "cmp": case = "CCMP %s (%s)" % (bits(f[1]), f[2])
        elif f[0] == "divmod": case = "CDM %s %s" % (bits(f[1]), bits(f[2]))
        elif f[0] == "irnd": case = "CIRND (%s) %d" % (f[1], -int(f[2]))
        else: continue
        if t[0] == "ERR": exp = {"OverflowError": "OOver", "ValueError": "OVal", "ZeroDivisionError": "OZero"}.get(t[1], "OOther")
        elif t[0] == "F" and len(t) == 2: exp = "OF %s" % t[1]
        elif t[0] == "I": exp = "OI (%s)" % t[1]
        elif t[0] == "C": exp = "OC %s %s %s" % tuple("true" if c == "1" else "false" for c in t[1])
        elif t[0] == "F" and len(t) == 4: exp = "OFF %s %s" % (t[1], t[3])
        else: exp = "OOther"
        rows.append("(%s, %s)" % (case, exp))
    return rows

COQ_HEADER = """From Coq Require Import ZArith Bool List. Import ListNotations.
From GP Require Import Model.Float.
Open Scope Z_scope.
Inductive ccase := CI2F (n : Z) | CF2I (b : Z) | CRND (b : Z) | CCMP (b n : Z) | CDM (a b : Z) | CIRND (n k : Z).
Inductive cobs := OF (b : Z) | OI (n : Z) | OC (lt eq gt : bool) | OFF (q r : Z) | OOver | OVal | OZero | OOther.
Definition nanb (b : Z) : bool := is_nan (of_bits b).
Definition feq (x : float) (b : Z) : bool := if is_nan x then nanb b else Z.eqb (bits_of x) b.
Definition agrees (c : ccase * cobs) : bool :=
  match c with
  | (CI2F n, o) => match int_to_float n, o with Ok z, OF b => feq z b | OverflowErr, OOver => true | _, _ => false end
  | (CF2I b, o) => match float_to_int (of_bits b), o with Ok z, OI n => Z.eqb z n | OverflowErr, OOver => true | ValueErr, OVal => true | _, _ => false end
  | (CRND b, o) => match round_float (of_bits b), o with Ok z, OI n => Z.eqb z n | OverflowErr, OOver => true | ValueErr, OVal => true | _, _ => false end
  | (CCMP b n, OC l e g) => match cmp_float_int (of_bits b) n with Some Lt => l && negb e && negb g | Some Eq => negb l && e && negb g | Some Gt => negb l && negb e && g | None => negb l && negb e && negb g end
  | (CDM a b, o) => match float_divmod (of_bits a) (of_bits b), o with Ok (q, r), OFF qb rb => feq q qb && feq r rb | ZeroDivErr, OZero => true | _, _ => false end
  | (CIRND n k, OI r) => Z.eqb (round_int n k) r
  | _ => false
  end.
Fixpoint bad (i : nat) (l : list (ccase * cobs)) : list nat := match l with [] => [] | c :: r => if agrees c then bad (S i) r else i :: bad (S i) r end.
"""

def coq_check(name, rows):
    text = COQ_HEADER + "Definition cases := [\n" + ";\n".join(rows) + "].\nDefinition M := Eval vm_compute in bad 0 cases.\nPrint M.\n"
    rc, out = vlib.coqc_run(name, text, timeout=1500)
    if rc != 0 or "M =" not in out: return None, out[-800:]
    return vlib.parse_coq_value("M " + out[out.find("M ="):].replace("M =", " =", 1)), ""

def check(res):
    tier, seed = res.tier, res.seed
    rnd = random.Random(seed)
    res.trusted = vlib.COMMON_TRUST + [
        "Flocq 4 (IEEE754.BinarySingleNaN, Bits) as the definition of binary64 and its operations; Go's float64 + - * / and math.Floor/Copysign/RoundToEven/Mod, big.Float/big.Rat conversions are taken to implement IEEE-754 / exact arithmetic as documented",
        "Model/Float.v is hand-written from py/float.go, py/int.go, py/bigint.go; tied by bit-pattern correspondence (vm_compute) on the lattice and random bit patterns",
        "CPython 3.11 as validated oracle for operators, conversions, fold builtins and text forms; libm pow is outside (known finding KF-C15-pow-libm)",
        "axioms (standard library, via Flocq/Reals): ClassicalDedekindReals.sig_forall_dec, ClassicalDedekindReals.sig_not_dec, FunctionalExtensionality.functional_extensionality_dep, Classical_Prop.classic"]
    built, mlog = vlib.coq_make()
    p_ok = "Props/C15.vo" in built
    assum = None
    if p_ok:
        assum, _ = vlib.print_assumptions("C15", ["Props.C15"], THEOREMS)
        p_ok = assum is not None
    for t in THEOREMS:
        res.oblige("theorem " + t, p_ok, (assum or {}).get(t, "")[:400] if p_ok else "Props/C15.v does not compile")
    # ---- bit correspondence
    ops = corr_cases(rnd, tier)
    p = subprocess.run([IMPL, "c15"], input="\n".join(ops) + "\n", stdout=subprocess.PIPE, stderr=subprocess.DEVNULL, text=True, env=vlib.GOENV, timeout=1200)
    obs = p.stdout.splitlines()
    tie_bad = []; tie_err = None
    panics = [(o, r) for o, r in zip(ops, obs) if r.startswith("PANIC")]
    if len(obs) != len(ops): tie_err = "harness returned %d results for %d operations" % (len(obs), len(ops))
    else:
        rows = coq_rows(ops, obs)
        nsh = 8 if tier == "quick" else 16
        shards = [list(range(len(rows)))[i::nsh] for i in range(nsh)]
        with concurrent.futures.ThreadPoolExecutor(8) as ex:
            for sh, (v, log) in zip(shards, ex.map(lambda a: coq_check("C15_bits_%d" % a[0], [rows[i] for i in a[1]]), list(enumerate(shards)))):
                if v is None: tie_err = log
                else: tie_bad += [sh[i] for i in v]
    res.oblige("correspondence: int->float, float->int, float/int comparison, round, floatDivMod, int rounding: implementation = Flocq model bit for bit on %d operations" % len(ops), tie_err is None and not tie_bad and not panics, tie_err or str(panics[:1] or [(ops[i], obs[i]) for i in tie_bad[:2]]))
    # ---- CPython differential
    exprs = expressions(rnd, tier)
    chunks = [exprs[i:i + 400] for i in range(0, len(exprs), 400)]
    progs_ = [HEADER + "".join("t(lambda: %s)\n" % e for e in ch) for ch in chunks]
    a = pydiff.run_impl(progs_); b = pydiff.run_ref(progs_)
    mism = []; broken = []
    for ch, x, y in zip(chunks, a, b):
        xo = x.get("out", "").splitlines(); yo = y.get("out", "").splitlines()
        if len(xo) != len(ch) or len(yo) != len(ch): broken.append((ch[min(len(xo), len(ch) - 1)], str(x)[-300:]))
        for e, l1, l2 in zip(ch, xo, yo):
            if l1 != l2: mism.append((e, l1, l2))
    findings = vlib.load_findings("C15"); new = []
    for e, l1, l2 in mism:
        hit = None
        for f in findings:
            if MATCHERS.get(f["matcher"], lambda *a: False)(e, l1, l2): hit = f; break
        if hit:
            msg = "%s (%s)" % (hit["id"], hit["input_class"])
            if msg not in res.known: res.known.append(msg)
        else: new.append((e, l1, l2))
    res.oblige("oracle: %d expressions (operators, conversions, round, divmod, fold builtins, text forms over the lattice) agree with CPython" % len(exprs), not new and not broken, str(new[:2] or broken[:1])[:400])
    cat = collections.Counter(o.split()[0] for o in ops)
    res.coverage.update(evaluations=len(ops) + len(exprs), distinct_nontrivial=len(set(ops)), programs=len(progs_),
        rule="lattice of %d special doubles (+-0, subnormals, smallest normal, 2^53 and 2^63 neighbours, halves, decimal ties, max, inf, nan) + seeded random bit patterns + the doubles adjacent to each boundary int; %d boundary ints (2^53+-k, 2^63+-k, 2^64 with sticky bits, 2^1024-2^970+-1, 10^22, 10^23, 10^400) + random ints up to 1100 bits; (T) conversions, comparison against nearby and random ints, round, divmod on pairs, int rounding to -1..-20 digits, all compared bit for bit with the Flocq model; (oracle) every binary operator and comparison on pairs, int x float both ways, conversions, round with 0/1/2/-1 digits, abs/neg/bool/str/repr round trip, sum/min/max/pow/divmod, float() parsing, complex samples" % (len(SPECIAL), len(INTS)),
        samples=[dict(op=ops[10], observed=obs[10] if len(obs) > 10 else None), dict(expr=exprs[100])], distribution=dict(bit_ops=dict(cat), expressions=len(exprs), oracle_disagreements=len(mism), known=len(mism) - len(new)),
        modelled_not_verified=["floatDivMod laws under rounding (model-vs-code and CPython comparison only)", "pow, repr digits (strconv), complex arithmetic", "float parsing"])
    if new or broken:
        e, l1, l2 = new[0] if new else (broken[0][0], broken[0][1], "")
        res.violation("counterexample", "float arithmetic differs from Python", dict(input=dict(expression=e), expected=l2, observed=l1, others=[dict(expression=x[0], observed=x[1], expected=x[2]) for x in new[1:8]], total=len(new)))
        return
    if tie_bad or panics:
        i = tie_bad[0] if tie_bad else 0
        o, r = (ops[i], obs[i]) if tie_bad else panics[0]
        res.violation("counterexample", "float algorithm differs from the Flocq model for which the theorems hold", dict(input=dict(operation=o), expected="Model/Float.v (Run/C15_bits_*.v)", observed=r, others=len(tie_bad) + len(panics)))
        return
    if not p_ok or tie_err:
        res.violation("proof-broken" if not p_ok else "tie-broken", "C15 no longer shown", dict(theorem_or_correspondence="Props/C15.v / bit correspondence", coqc_error=[l for l in mlog.splitlines() if "rror" in l][-10:], tie_error=tie_err,
            searched="%d bit-level operations and %d expressions: no failing input" % (len(ops), len(exprs))), no_input=True)

def replay(path):
    d = json.load(open(path)); print(json.dumps(d, indent=1)[:3000]); return 1
