"""C08: contexts are isolated and safe to run concurrently.  P: Props/C08.v (ownership invariant over all
interleavings; no action of other contexts changes an observation; audited process-wide state over the
regenerated inventory).  T: interleaved operation histories on real contexts through the Go API = model
(vm_compute).  Search: generated programs that mutate every reachable piece of per-context state, in many
contexts on 16 goroutines sharing code objects, with concurrent compilation, under the Go race detector;
observations compared with a solo run."""
import concurrent.futures, json, os, random, re, subprocess
import vlib, progs, regen

THEOREMS = ["C08_no_container_shared_between_contexts", "C08_others_cannot_interfere", "C08_no_leak", "C08_observes_what_it_observes_alone", "C08_process_wide_state_is_audited"]
MODDIR = os.path.join(vlib.VERIF, "tools", "data", "c08mods")

CHANNELS = [
 ("int.__dict__", "int.__dict__['leak']", "int.__dict__['leak'] = TAG"),
 ("vars(str)", "vars(str)['leak']", "vars(str)['leak'] = TAG"),
 ("setattr(int)", "int.leak2", "setattr(int, 'leak2', TAG)"),
 ("object.__setattr__", "float.leak3", "object.__setattr__(float, 'leak3', TAG)"),
 ("type.__setattr__", "float.leak4", "type.__setattr__(float, 'leak4', TAG)"),
 ("exc class attr", "ValueError.leak", "ValueError.leak = TAG"),
 ("method attr", "str.upper.leak", "str.upper.leak = TAG"),
 ("builtin fn attr", "len.leak", "len.leak = TAG"),
 ("math fn attr", "math.sqrt.leak", "math.sqrt.leak = TAG"),
 ("None attr", "None.leak", "None.leak = TAG"),
 ("object attr", "object.leak", "object.leak = TAG"),
 ("type attr", "type.leak", "type.leak = TAG"),
 ("sys.stdout attr", "sys.stdout.leak", "sys.stdout.leak = TAG"),
 ("sys.stdout rebind", "sys.stdout is sys.__stdout__", "sys.stdout = None"),
 ("math.pi rebind", "math.pi", "math.pi = 3"),
 ("builtins del", "abs(-1)", "del builtins.abs"),
 ("builtins dict key", "builtins.leak", "builtins.__dict__['leak'] = TAG"),
 ("int.__add__ rebind", "(1).__add__(2)", "int.__add__ = lambda a, b: TAG"),
 ("del type attr", "int.__doc__ is None", "del int.__doc__"),
 ("type dict via mro", "bool.__mro__[1].__dict__.get('leak5')", "bool.__mro__[1].__dict__['leak5'] = TAG"),
 ("metatype dict", "type(str).__dict__.get('leak6')", "type(str).__dict__['leak6'] = TAG"),
 ("function defaults", "f()", "f.__defaults__ = (TAG,)"),
 ("string module const", "string.digits", "string.digits = TAG"),
 ("time module attr", "hasattr(time, 'leak')", "time.leak = TAG"),
 ("range attr", "range.leak", "range.leak = TAG"),
 ("os.environ", "'C08_LEAK' in os.environ", "os.environ['C08_LEAK'] = TAG"),
 ("os attr", "hasattr(os, 'leak')", "os.leak = TAG"),
 ("sys.argv", "list(sys.argv)[:1]", "sys.argv.append(TAG)"),
 ("sys.path", "TAG in sys.path", "sys.path.append(TAG)"),
 ("source module list", "list(shared_mod.items)", "shared_mod.items.append(TAG)"),
 ("source module counter", "shared_mod.counter", "shared_mod.bump()"),
 ("class attribute", "K.shared", "K.shared.append(TAG)"),
]

def channel_program():
    src = ("obs = []\nimport sys, math, builtins, string, time, os, shared_mod\ndef f(a=1): return a\nclass K:\n    shared = []\n"
           "def t(g):\n    try:\n        return repr(g())\n    except Exception as e:\n        return 'EXC'\n")
    for name, ob, mut in CHANNELS: src += "obs.append((%r, t(lambda: %s)))\n" % (name, ob)
    src += "total = 0\nfor i in range(300):\n    total += i\n"
    for name, ob, mut in CHANNELS:
        src += "try:\n    %s\n    obs.append((%r, 'mutated'))\nexcept Exception as e:\n    obs.append((%r, 'refused'))\n" % (mut, name, name)
    src += "obs.append(total)\n"
    return src

PROGS = [channel_program(),
'''obs = []
import sys, math, shared_mod, builtins
obs.append(('argv', list(sys.argv))); obs.append(('path_has_tag', TAG in sys.path)); obs.append(('math.leak', hasattr(math, 'leak')))
obs.append(('mod', shared_mod.counter, list(shared_mod.items))); obs.append(('len', len('abc')))
sys.argv.append(TAG); sys.path.append(TAG); math.leak = TAG
shared_mod.items.append(TAG); shared_mod.bump(); shared_mod.bump()
G = TAG
def mylen(x): return TAG
builtins.len = mylen
total = 0
for i in range(2000):
    total += i
obs.append(('after', sys.argv[-1] == TAG, sys.path[-1] == TAG, math.leak == TAG, shared_mod.counter, shared_mod.items == [TAG], len('abc') == TAG, G == TAG, total))
''']

# a registered module with a source-text body (compiled lazily on the first import by whichever context comes first)
PROGS.append("obs = []\nimport tsrc\nobs.append(('fresh', tsrc.counter[0], list(tsrc.items)))\ntsrc.items.append(TAG)\nobs.append(('bumped', tsrc.bump(), tsrc.bump(), tsrc.items == [TAG]))\nimport tsrc as t2\nobs.append(t2 is tsrc)\n")
for _v in ("a", "b"):
    PROGS.append("obs = []\nimport sys\nsys.path = [sys.path[0] + '/variant_%s'] + sys.path\nimport dup_mod\nobs.append(('which', dup_mod.WHO, dup_mod.helper()))\nimport dup_mod as again\nobs.append(again is dup_mod)\n" % _v)

def wrap_program(src):
    """a generator program made to record instead of print (stdout is process-wide)"""
    return "obs = []\ndef print(*a, **k):\n    obs.append(a)\n" + src

def run_jobs(binary, programs, jobs, g, compile_conc):
    inp = json.dumps(dict(programs=programs, jobs=jobs, goroutines=g, dir=MODDIR, compile_concurrently=compile_conc))
    p = subprocess.run([os.path.join(vlib.GO, "bin", binary), "c08", "run"], input=inp, stdout=subprocess.PIPE, stderr=subprocess.PIPE, text=True, env=dict(vlib.GOENV, GORACE="halt_on_error=0"), timeout=3000)
    return p.returncode, p.stdout.splitlines(), p.stderr

# ---- history correspondence
MODKEYS = {0: [0, 1, 2], 1: [3, 4]}
def gen_history(rnd):
    k = rnd.choice([1, 2, 2, 3]); ops = []; n = [100]
    def val():
        n[0] += 1; return n[0]
    for c in range(k):
        if rnd.random() < 0.8: ops.append([c, "import", rnd.choice([0, 0, 1])])
    for _ in range(rnd.randint(3, 25)):
        c = rnd.randrange(k); m = rnd.choice([0, 0, 1]); key = rnd.randrange(5); r = rnd.random()
        if r < 0.15: ops.append([c, "import", m])
        elif r < 0.3: ops.append([c, "setatom", m, key, val()])
        elif r < 0.45: ops.append([c, "newlist", m, key, [val() for _ in range(rnd.randint(0, 3))]])
        elif r < 0.75: ops.append([c, "append", m, key, val()])
        elif r < 0.92: ops.append([c, "alias", m, key, rnd.choice([0, 0, 1]), rnd.randrange(5)])
        else: ops.append([c, "del", m, key])
    return dict(contexts=k, ops=ops)

def hist_coq(name, cases, obs):
    def op(o):
        c, kind = o[0], o[1]
        if kind == "import": return "(%d, Import %d)" % (c, o[2])
        if kind == "setatom": return "(%d, SetAtom (%d, %d) %d)" % (c, o[2], o[3], o[4])
        if kind == "newlist": return "(%d, NewList (%d, %d) [%s])" % (c, o[2], o[3], "; ".join(map(str, o[4])))
        if kind == "append": return "(%d, Append (%d, %d) %d)" % (c, o[2], o[3], o[4])
        if kind == "alias": return "(%d, Alias (%d, %d) (%d, %d))" % (c, o[2], o[3], o[4], o[5])
        return "(%d, Del (%d, %d))" % (c, o[2], o[3])
    def ob(t):
        if t == "-": return "None"
        p = t.split()
        if p[0] == "A": return "Some (inl %s)" % p[1]
        return "Some (inr [%s])" % "; ".join(p[1:])
    rows = []
    for cs, o in zip(cases, obs):
        rows.append("(%d, [%s], [%s])" % (cs["contexts"], "; ".join(op(x) for x in cs["ops"]), "; ".join(ob(t) for t in o.split("|"))))
    text = ("From Coq Require Import List Bool Arith. Import ListNotations.\nFrom GP Require Import Model.Contexts.\n"
      "Definition impls (m : nat) : list (nat * tval) := match m with 0 => [(0, TAtom 7); (1, TList [1; 2; 3]); (2, TList [1])] | 1 => [(3, TList []); (4, TAtom 5)] | _ => [] end.\n"
      "Definition oeq (a b : option (nat + list nat)) : bool := match a, b with None, None => true | Some (inl x), Some (inl y) => Nat.eqb x y | Some (inr x), Some (inr y) => if list_eq_dec Nat.eq_dec x y then true else false | _, _ => false end.\n"
      "Definition slots (k : nat) : list (nat * (nat * nat)) := flat_map (fun c => flat_map (fun m => map (fun key => (c, (m, key))) [0; 1; 2; 3; 4]) [0; 1]) (seq 0 k).\n"
      "Fixpoint alleq (a b : list (option (nat + list nat))) : bool := match a, b with [], [] => true | x :: r, y :: s => oeq x y && alleq r s | _, _ => false end.\n"
      "Definition agrees (c : nat * list (nat * op) * list (option (nat + list nat))) : bool := let '(k, h, o) := c in let st := run impls h init in alleq (map (fun cs => observe st (fst cs) (snd cs)) (slots k)) o.\n"
      "Definition cases := [\n" + ";\n".join(rows) + "].\n"
      "Fixpoint bad (i : nat) (l : list (nat * list (nat * op) * list (option (nat + list nat)))) : list nat := match l with [] => [] | c :: r => if agrees c then bad (S i) r else i :: bad (S i) r end.\n"
      "Definition M := Eval vm_compute in bad 0 cases.\nPrint M.\n")
    rc, out = vlib.coqc_run(name, text, timeout=600)
    if rc != 0 or "M =" not in out: return None, out[-800:]
    return vlib.parse_coq_value("M " + out[out.find("M ="):].replace("M =", " =", 1)), ""

def race_sites(stderr):
    blocks = stderr.split("==================")
    return [b for b in blocks if "DATA RACE" in b]

def check(res):
    tier, seed = res.tier, res.seed
    rnd = random.Random(seed)
    res.trusted = vlib.COMMON_TRUST + [
        "Model/Contexts.v is hand-written from py/module.go (NewModule, copyGlobals), py/internal.go (SetAttrString refuses built-in types) and stdlib/stdlib.go (NewContext); tied by the operation-history correspondence through the Go API",
        "the Go race detector (go build -race) observes the schedules that happen to occur: sampled, not enumerated; the theorem covers all interleavings of the modelled operations only",
        "observations are taken at the granularity of whole operations (no torn reads): atomicity of a single Go map/slice operation within a context is not modelled",
        "the model's operations are the store-level ones (import, bind, in-place append, alias, delete); what Python code does between them inside one context is outside the model (compared with the solo run)"]
    rc, out = regen.regen_inventories()
    berr = vlib.go_build_race()
    built, mlog = vlib.coq_make()
    p_ok = rc == 0 and "Props/C08.vo" in built
    assum = None
    if p_ok:
        assum, _ = vlib.print_assumptions("C08", ["Props.C08"], THEOREMS)
        p_ok = assum is not None
    for t in THEOREMS:
        res.oblige("theorem " + t, p_ok, (assum or {}).get(t, "") if p_ok else "Props/C08.v does not compile on the regenerated Gen/Inventories.v")
    if assum: res.trusted.append("Print Assumptions: " + "; ".join("%s: %s" % kv for kv in assum.items()))
    # ---- history correspondence
    nh = 600 if tier == "quick" else 12000
    cases = [gen_history(rnd) for _ in range(nh)]
    p = subprocess.run([os.path.join(vlib.GO, "bin", "impl"), "c08", "hist"], input=json.dumps(cases), stdout=subprocess.PIPE, stderr=subprocess.DEVNULL, text=True, env=vlib.GOENV, timeout=1200)
    obs = p.stdout.splitlines()
    tie_bad = []; tie_err = None
    if len(obs) != len(cases): tie_err = "harness returned %d results for %d histories" % (len(obs), len(cases))
    else:
        nsh = 4 if tier == "quick" else 16
        shards = [list(range(len(cases)))[i::nsh] for i in range(nsh)]
        with concurrent.futures.ThreadPoolExecutor(8) as ex:
            for sh, (v, log) in zip(shards, ex.map(lambda a: hist_coq("C08_hist_%d" % a[0], [cases[i] for i in a[1]], [obs[i] for i in a[1]]), list(enumerate(shards)))):
                if v is None: tie_err = log
                else: tie_bad += [sh[i] for i in v]
    res.oblige("correspondence: final observation of every (context, module, key) after %d interleaved operation histories on real contexts = the model (vm_compute)" % nh, tie_err is None and not tie_bad, tie_err or str([cases[i] for i in tie_bad[:1]]))
    # ---- isolation + race search
    def compiles(src):
        try:
            compile(src, "<gen>", "exec"); return True
        except SyntaxError:
            return False
    # (some generators emit deliberately invalid programs for other properties: not usable as jobs here)
    gen = [w for w in (wrap_program(s) for s in progs.all_programs(seed, 12)) if compiles(w)]
    rnd.shuffle(gen)
    programs = PROGS + gen[:(60 if tier == "quick" else 600)]
    NP = len(PROGS)
    # solo references, one fresh process each batch of distinct programs (each program once, sequentially, its own context)
    ref = {}
    for i in range(len(programs)):
        pass
    # a fresh process per program would be slow: programs observe before they mutate, so a leak from an
    # earlier context of the same process is itself a difference from the pristine observation; the two
    # state-mutating programs get a process of their own
    for i in range(NP):
        rc1, o1, e1 = run_jobs("impl", programs, [dict(prog=i, tag="T")], 1, False)
        ref[i] = o1[0] if o1 else "NO OUTPUT " + e1[-200:]
    rc1, o1, e1 = run_jobs("impl", programs, [dict(prog=i, tag="T") for i in range(NP, len(programs))], 1, False)
    for i, o in zip(range(NP, len(programs)), o1): ref[i] = o
    reps = 12 if tier == "quick" else 60
    jobs = []
    for r in range(reps):
        for i in range(NP): jobs.append(dict(prog=i, tag="tag%dx%d" % (r, i)))
    for i in range(NP, len(programs)):
        for r in range(2 if tier == "quick" else 6): jobs.append(dict(prog=i, tag="g%dx%d" % (r, i)))
    rnd.shuffle(jobs)
    diffs = []; races = []; crash = None
    if berr:
        crash = berr[-600:]
    else:
        rc2, o2, e2 = run_jobs("impl_race", programs, jobs, 16, True)
        races = race_sites(e2)
        if len(o2) != len(jobs): crash = "race run: %d results for %d jobs, rc=%d: %s" % (len(o2), len(jobs), rc2, e2[-600:])
        else:
            for j, o in zip(jobs, o2):
                if o.replace(j["tag"], "T") != ref.get(j["prog"]): diffs.append((j, o, ref.get(j["prog"])))
    rcr, outr = vlib.sh([os.path.join(vlib.GO, "bin", "impl_race"), "c08", "repl"], env=dict(vlib.GOENV, GORACE="halt_on_error=0"), timeout=600) if not berr else (1, "")
    repl_races = race_sites(outr)
    repl_foreign = [l for l in outr.splitlines() if l.startswith("session") and not l.endswith(" 0 from the other session")]
    ok_search = not diffs and not races and not crash and not repl_races and not repl_foreign
    res.oblige("search: %d contexts (%d programs, shared code objects, concurrent compilation, 16 goroutines) under the race detector: observations equal the solo run, no data race; two concurrent REPL sessions keep their outputs apart" % (len(jobs), len(programs)), ok_search,
               (str(diffs[0])[:300] if diffs else "") or (races[0][:400] if races else "") or (crash or "") or (repl_races[0][:400] if repl_races else "") or str(repl_foreign))
    res.coverage.update(evaluations=len(jobs) + nh + 600, distinct_nontrivial=len(programs) + sum(1 for c in cases if c["contexts"] > 1), programs=len(programs),
        rule="(T) seeded interleaved histories of 3-25 operations (import, set atom, new list, append in place, alias, delete) over 1-3 contexts, two registered Go module implementations with atom/list/dict globals, all slots compared; (search) a program that observes and then tries to mutate %d channels of process-reachable state (type dictionaries by 9 routes, module attributes and constants, builtins, sys.argv/path/stdout, os.environ, source-module globals, class attributes, function defaults), a second state-mutating program, two programs that put different directories holding a module of the same name in front of sys.path, and %d programs of the other properties' generators with print redirected into a per-module list; %d contexts on 16 goroutines, code objects shared, py.Compile called concurrently; every context's observations compared with the same program alone in a fresh process; Go race detector on; two REPL sessions in two contexts x 300 lines" % (len(CHANNELS), len(programs) - 2, len(jobs)),
        samples=[dict(history=cases[0], observed=obs[0] if obs else None)], distribution=dict(histories=nh, contexts_per_history={k: sum(1 for c in cases if c["contexts"] == k) for k in (1, 2, 3)}, jobs=len(jobs), programs=len(programs), race_reports=len(races) + len(repl_races)),
        modelled_not_verified=["VM frame state and Go-level memory safety inside one context (race detector only)", "file objects behind sys.stdout/stdin/stderr are process-wide by design"])
    if diffs:
        j, o, r = diffs[0]
        res.violation("counterexample", "a context observed something different from what it observes alone", dict(input=dict(program=programs[j["prog"]][:3000], tag=j["tag"], jobs=len(jobs), goroutines=16),
            expected=r, observed=o, others=len(diffs)))
        return
    if races or repl_races or repl_foreign:
        res.violation("counterexample", "data race / cross-talk between distinct contexts", dict(input=dict(scenario="repl sessions" if (repl_races or repl_foreign) and not races else "contexts on 16 goroutines", programs=len(programs), jobs=len(jobs)),
            expected="no data race, outputs kept apart", observed=((races or repl_races or [""])[0][:3000]) or str(repl_foreign), others=len(races) + len(repl_races)))
        return
    if tie_bad:
        i = tie_bad[0]
        res.violation("counterexample", "module store behaviour differs from the model for which isolation is proved", dict(input=cases[i], expected="observations of Model/Contexts.v (see Run/C08_hist_*.v)", observed=obs[i], others=len(tie_bad)))
        return
    if not p_ok or tie_err or crash:
        res.violation("proof-broken" if not p_ok else "tie-broken", "C08 no longer shown", dict(theorem_or_correspondence="Props/C08.v over the regenerated Gen/Inventories.v / history correspondence / race build",
            coqc_error=[l for l in mlog.splitlines() if "rror" in l][-10:], extractor=out[-300:] if rc else "", tie_error=tie_err, harness=crash, searched="%d contexts under the race detector and %d histories: no failing input" % (len(jobs), nh)), no_input=True)

def replay(path):
    d = json.load(open(path)); print(json.dumps(d, indent=1)[:3000]); return 1
