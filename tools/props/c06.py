"""C06: parsing yields the tree the 3.4 grammar assigns.  P: Props/C06.v -- escape decoding model
(parser/stringescape.go): for every string/bytes value and every spelling of it (literal characters, named,
octal, \\x, \\u, \\U escapes in any mixture) decoding the spelling gives back the value; int literals in
bases 2/8/10/16 denote their value.  T: DecodeEscape = model on generated spellings (vm_compute).  Oracle:
CPython's parser through a 3.4-format dumper validated on the repository's own CPython-3.4-generated
corpus; base programs, re-spellings (layout, comments, continuation, semicolons, trailing commas,
indentation, literal spellings) and single-token deletions/insertions for rejection."""
import ast, collections, concurrent.futures, io, json, os, random, re, subprocess, sys, tokenize
import warnings
import vlib, progs, ast34, respell
warnings.filterwarnings("ignore", category=SyntaxWarning)
warnings.filterwarnings("ignore", category=DeprecationWarning)
sys.path.insert(0, os.path.join(vlib.VERIF, "tools", "props"))

THEOREMS = ["C06_decode_of_any_spelling", "C06_int_literal_denotes_its_value"]
IMPL = os.path.join(vlib.GO, "bin", "impl")

TOUR = [
 "@d\n@e(1)\ndef f(a, b=1, *c, d, e=2, **k) -> 'r':\n    return a\n", "def f(a: int, *, b: 'x' = 2): pass\n", "def f(*, a): pass\n", "def f(a, b,): pass\n", "f = lambda: 0\ng = lambda a, b=1, *c, d=2, **k: (a, b)\n",
 "class C(B, metaclass=M, *a, **k):\n    x = 1\n    def m(self): pass\n", "class C: pass\n", "class C():\n    'doc'\n", "with a as b, c as (d, e), f: pass\n", "with a: pass\n",
 "try:\n    a\nexcept E as e:\n    b\nexcept (F, G):\n    c\nexcept:\n    d\nelse:\n    e\nfinally:\n    f\n", "try:\n    a\nfinally:\n    b\n", "raise\n", "raise E\n", "raise E from F\n", "assert a\n", "assert a, 'm'\n",
 "import a\nimport a.b.c as d, e\nfrom . import f\nfrom .. g import h as i, j\nfrom k import *\nfrom .l import (m, n,)\n", "global a, b\n", "def f():\n    nonlocal a\n", "del a, b[0], c.d, (e, f)\n",
 "for a, (b, c) in d:\n    continue\nelse:\n    pass\n", "while a:\n    break\nelse:\n    pass\n", "if a: pass\nelif b: pass\nelif c: pass\nelse: pass\n", "if a:\n    if b:\n        c\n    d\ne\n",
 "a = b = c, d = e\n", "a, *b, c = d\n", "*a, = b\n", "[a, b] = c\n", "(a), (b) = c\n", "a += 1; b -= 2; c *= 3; d /= 4; e //= 5; f %= 6; g **= 7; h >>= 8; i <<= 9; j &= 10; k ^= 11; l |= 12\n",
 "x = a[1], a[1:2], a[1:2:3], a[:], a[::], a[:2], a[1:], a[::3], a[1, 2], a[1:2, 3], a[..., 1:], a[()]\n", "x = f(), f(1), f(1, 2), f(a=1), f(1, b=2), f(*a), f(*a, **k), f(1, *a, b=2, **k), f(**k), f(x for x in y)\n",
 "x = [i for i in j], [i for i in j if k], [i for i in j for l in m if n if o], {i for i in j}, {i: j for i, j in k}, (i for i in j)\n", "x = [[i for i in j] for j in k]\n",
 "x = a if b else c if d else e\n", "x = lambda: (yield)\n", "def g():\n    x = yield\n    y = yield 1\n    z = yield from a\n    yield 1, 2\n",
 "x = not a, -a, +a, ~a, - -a, not not a, -a ** -b, (-a) ** b, a ** b ** c\n", "x = a < b > c == d != e <= f >= g is h is not i in j not in k\n", "x = a or b and c or not d and e\n",
 "x = a | b ^ c & d << e >> f + g - h * i / j // k % l\n", "x = (a, ), (a, b), [a], [a, b, ], {a}, {a, b, }, {a: b}, {a: b, c: d, }, (), [], {}\n", "x = a.b.c(d)[e].f\n",
 "x = 0, 1, 0x1F, 0o17, 0b101, 0XfF, 0O7, 0B1, 1., .5, 1e3, 1E-3, 1.5e+10, 0., 00, 0e0, 1j, 1.5J, .5j, 1e2j, 123456789012345678901234567890\n",
 "x = 'a', \"b\", '''c''', \"\"\"d\"\"\", 'a' 'b', b'a', B'b', r'\\n', R'\\n', rb'\\x', br'\\x', Rb'a', bR'a', u'a', U'b', 'a\\nb', '\\x41\\101\\u0041\\U00000041', '\\\\', '\\'', \"\\\"\", '''a\nb''', 'a\\\nb'\n",
 "x = 'é', '日本', 'a\\u00e9b'\n", "x = '\\N{BULLET}'\n", "x = b'\\x7f\\177'\n", "x = None, True, False, ..., Ellipsis\n", "pass; pass\npass;\n", "x = (\n  1,\n  2\n)\ny = [\n]\n", "x = 1 + \\\n  2\n",
 "if a:\n\tb\n\tif c:\n\t\td\n", "if a:\n  b\n  if c:\n       d\n  e\n", "def f():\n    pass\n\n\n\ndef g():\n    pass\n", "# comment only\n", "x = 1 # trailing\n# between\ny = 2\n", "\n\n\nx = 1\n\n\n",
 "'''doc'''\n", "def f():\n    '''doc'''\n    return\n", "x = yield_ = 1\n", "for i in 1, 2, 3: pass\n", "for i in *a, b: pass\n" , "x = [*a]\n", "print(a, end='')\n", "exec('a')\n", "nonlocal_ = async_ = await_ = 1\n",
]

def dumps_gp(cases):
    def work(chunk):
        p = subprocess.run([IMPL, "c06"], input="".join(json.dumps(dict(src=s, mode=m)) + "\n" for m, s in chunk), stdout=subprocess.PIPE, stderr=subprocess.DEVNULL, text=True, env=vlib.GOENV, timeout=3000)
        out = []
        for l in p.stdout.split("\n"):
            if not l: continue
            try: out.append(json.loads(l))
            except ValueError: out.append(dict(error="PANIC", msg=l[:300]))
        return out
    chunks = [cases[i:i + 2000] for i in range(0, len(cases), 2000)]
    res = []
    with concurrent.futures.ThreadPoolExecutor(12) as ex:
        for ch, o in zip(chunks, ex.map(work, chunks)):
            if len(o) != len(ch): o = (o + [dict(error="MISSING", msg="worker stopped")] * len(ch))[:len(ch)]
            res += o
    return res

def ref(mode, src, raw=True):
    try: tree = ast.parse(src, mode=mode)
    except (SyntaxError, ValueError, RecursionError, MemoryError) as e: return ("reject", type(e).__name__)
    try:
        ast34.RAW = raw
        return ("dump", ast34.d(tree))
    except ast34.Unsupported as e: return ("newer", str(e))
    except RecursionError: return ("newer", "recursion")

NEWER = re.compile(r":=|\basync\b|\bawait\b|(?<![\w.)\]])@|[^\w]f[\"']|[^\w][fF][rR]?[\"']|[0-9]_[0-9]|\bmatch\b|\bcase\b|\*\*?\s*\w+\s*,\s*\)|\*\*?\s*\w+\s*,\s*:|\bprint\b\s+[\w'\"]|\bexec\b\s+[\w'\"]|\bnonlocal\b|\bwith\s*\(|=\s*\*|\breturn\s*\*|\bin\s*\*|\[\s*\*|\{\s*\*|,\s*\*\w+\s*,\s*\w+\s*[\])]|\bfor\b[^:\n]*\bin\b[^:\n]*\*|\bdef\b[^:\n]*\*[^:\n]*,\s*\)|\byield\s*\*")
OLDER = re.compile(r"[\[({,] ?\*|\bdel [^;]*\*|\bif\s+lambda\b|<>|`|\bur['\"]|\bUR['\"]|\bu[rR]['\"]")

def flat(src):
    """the text with comments removed and all white space (and continuations) collapsed, for the version patterns"""
    return re.sub(r"[\s\\]+", " ", re.sub(r"#[^\n]*", "", src))

def mutate_tokens(rnd, src, n):
    try: toks = [t for t in tokenize.generate_tokens(io.StringIO(src).readline)]
    except Exception: return []
    spans = [(t.start, t.end) for t in toks if t.type in (tokenize.OP, tokenize.NAME, tokenize.NUMBER, tokenize.STRING) ]
    lines = src.split("\n"); out = []
    if not spans: return []
    ins = ["(", ")", "[", "]", ":", ",", "=", "+", "not", "if", "else", "lambda", "*", "**", ".", "1", "x", "'s'", "for", "in", "return", "yield", "import", "as", "del", "is", ";", "->", "@", "...", "\\", "    "]
    for _ in range(n):
        (r1, c1), (r2, c2) = rnd.choice(spans)
        if r1 != r2: continue
        l = lines[r1 - 1]
        if rnd.random() < 0.5: nl = l[:c1] + l[c2:]
        else: nl = l[:c1] + rnd.choice(ins) + " " + l[c1:]
        out.append("\n".join(lines[:r1 - 1] + [nl] + lines[r1:]))
    return out

# ---- escape / int literal correspondence (model in Coq)
def esc_cases(rnd, n):
    cases = []
    for _ in range(n):
        bmode = rnd.random() < 0.3
        k = rnd.randint(0, 12); src = []
        for _ in range(k):
            r = rnd.random()
            if r < 0.35: src.append(rnd.choice([65, 66, 97, 122, 48, 55, 56, 32, 39, 34, 10, 233 if not bmode else 67, 0x65e5 if not bmode else 68, 0x1F600 if not bmode else 69, 123, 125]))
            else:
                src.append(92)
                r2 = rnd.random()
                if r2 < 0.2: src.append(rnd.choice([92, 39, 34, 98, 102, 116, 110, 114, 118, 97, 10]))
                elif r2 < 0.4: src += [rnd.choice([48, 49, 50, 51, 52, 53, 54, 55]) for _ in range(rnd.randint(1, 4))]
                elif r2 < 0.6: src += [120] + [rnd.choice(list(b"0123456789abcdefABCDEF") + [103, 45, 43, 32, 95]) for _ in range(rnd.choice([2, 2, 2, 1, 0, 3]))]
                elif r2 < 0.75: src += [117] + [rnd.choice(list(b"0123456789abcdefABCDEF") + [103, 45]) for _ in range(rnd.choice([4, 4, 4, 3, 5]))]
                elif r2 < 0.85: src += [85] + [rnd.choice(list(b"0000000001dDfF") ) for _ in range(rnd.choice([8, 8, 8, 7]))]
                elif r2 < 0.9: src += [78, 123, 65, 125]
                elif r2 < 0.95: src.append(rnd.choice([113, 122, 56, 57, 40, 233 if not bmode else 67]))
                # else: trailing backslash
        cases.append((src, bmode))
    return cases

def esc_coq(name, cases, obs):
    rows = []
    for (src, bmode), o in zip(cases, obs):
        exp = "None" if "error" in o else "(Some [%s])" % "; ".join(str(x) for x in o["out"])
        rows.append("([%s], %s, %s)" % ("; ".join(map(str, src)), "true" if bmode else "false", exp))
    text = ("From Coq Require Import List NArith Bool. Import ListNotations.\nFrom GP Require Import Model.Escape.\nOpen Scope N_scope.\n"
      "Definition leq (a b : list N) := if list_eq_dec N.eq_dec a b then true else false.\n"
      "Definition agrees (c : list N * bool * option (list N)) : bool := let '(s, b, o) := c in match decode b s, o with Some x, Some y => leq x y | None, None => true | _, _ => false end.\n"
      "Definition cases := [\n" + ";\n".join(rows) + "].\n"
      "Fixpoint bad (i : nat) (l : list (list N * bool * option (list N))) : list nat := match l with [] => [] | c :: r => if agrees c then bad (S i) r else i :: bad (S i) r end.\n"
      "Definition M := Eval vm_compute in bad 0 cases.\nPrint M.\n")
    rc, out = vlib.coqc_run(name, text, timeout=600)
    if rc != 0 or "M =" not in out: return None, out[-800:]
    return vlib.parse_coq_value("M " + out[out.find("M ="):].replace("M =", " =", 1)), ""

def check(res):
    tier, seed = res.tier, res.seed
    rnd = random.Random(seed)
    res.trusted = vlib.COMMON_TRUST + [
        "Model/Escape.v is hand-written from parser/stringescape.go (over code points; byte mode truncates to a byte) and the digit loops of py.IntFromString; tied by comparing DecodeEscape with the model on generated escape sequences (valid and malformed)",
        "CPython 3.11's parser as oracle, read through tools/ast34.py (3.4 dump format), itself validated on every entry of parser/grammar_data_test.go that CPython 3.11 still parses (279 entries, generated by CPython 3.4); texts using syntax newer than 3.4 (detected by token patterns and by the dumper) are not judged",
        "the LALR tables and grammar actions are compared, not proved"]
    built, mlog = vlib.coq_make()
    p_ok = "Props/C06.vo" in built
    assum = None
    if p_ok:
        assum, _ = vlib.print_assumptions("C06", ["Props.C06"], THEOREMS)
        p_ok = assum is not None
    for t in THEOREMS:
        res.oblige("theorem " + t, p_ok, (assum or {}).get(t, "") if p_ok else "Props/C06.v does not compile")
    if assum: res.trusted.append("Print Assumptions: " + "; ".join("%s: %s" % kv for kv in assum.items()))
    # ---- the dumper against the repository's own corpus (generated by CPython 3.4)
    txt = open(os.path.join(vlib.REPO, "parser", "grammar_data_test.go")).read()
    corpus = re.findall(r'^\t\{("(?:[^"\\]|\\.)*"), "(\w+)", ("(?:[^"\\]|\\.)*"), nil, ""\},$', txt, re.M)
    cor_ok = cor_bad = 0; cor_src = []
    for inp, mode, out in corpus:
        try: s = eval(inp); e = eval(out)
        except Exception: continue
        cor_src.append((mode, s))
        r = ref(mode, s, raw=False)
        if r[0] == "dump":
            if r[1] == e: cor_ok += 1
            else: cor_bad += 1
    res.oblige("oracle validation: tools/ast34.py reproduces the CPython-3.4 dump of %d corpus entries of parser/grammar_data_test.go" % cor_ok, cor_bad == 0 and cor_ok > 200, "%d differ" % cor_bad)
    # ---- escape correspondence
    ec = esc_cases(rnd, 3000 if tier == "quick" else 60000)
    p = subprocess.run([IMPL, "c06"], input="".join(json.dumps(dict(escape=s, bytes=b)) + "\n" for s, b in ec), stdout=subprocess.PIPE, stderr=subprocess.DEVNULL, text=True, env=vlib.GOENV, timeout=1200)
    eo = [json.loads(l) for l in p.stdout.split("\n") if l]
    tie_bad = []; tie_err = None
    if len(eo) != len(ec): tie_err = "harness returned %d results for %d escape cases" % (len(eo), len(ec))
    else:
        nsh = 4 if tier == "quick" else 16
        shards = [list(range(len(ec)))[i::nsh] for i in range(nsh)]
        with concurrent.futures.ThreadPoolExecutor(8) as ex:
            for sh, (v, log) in zip(shards, ex.map(lambda a: esc_coq("C06_esc_%d" % a[0], [ec[i] for i in a[1]], [eo[i] for i in a[1]]), list(enumerate(shards)))):
                if v is None: tie_err = log
                else: tie_bad += [sh[i] for i in v]
    res.oblige("correspondence: DecodeEscape = Model/Escape.v on %d escape sequences (valid and malformed, str and bytes mode)" % len(ec), tie_err is None and not tie_bad, tie_err or str([(ec[i], eo[i]) for i in tie_bad[:2]]))
    # ---- parse differential
    base = [("exec", s) for s in TOUR] + cor_src
    allp = progs.all_programs(seed, 25); rnd.shuffle(allp)
    base += [("exec", s) for s in allp[:(250 if tier == "quick" else 3000)]]
    base += [("exec", t) for _, t in progs.repo_py_files(vlib.REPO) if len(t) < 30000][: (40 if tier == "quick" else 200)]
    # comprehension clauses: every target spelling x every continuation
    tg = ["x", "x,", "x, y", "x, y,", "(x, y)", "[x, y]", "(x,)", "x, *y", "x.a", "x[0]", "x, (y, z)"]
    for t in tg:
        for tail in ["", " if z", " if z if w", " for y in z", " if z for q, in w", " for q, in w if z"]:
            for form in ["[%s]", "(%s)", "{%s}", "{v: %s}", "f(%s)"]:
                base.append(("eval", form % ("v for %s in s%s" % (t, tail))))
    import c01
    for _ in range(300 if tier == "quick" else 5000):
        g = c01.Gen(rnd); base.append(("eval", g.expr(rnd.choice([1, 2, 3, 4]))[0]))
        g = c01.Gen(rnd); base.append(("exec", g.stmt(rnd.choice([0, 1, 2])) + "\n"))
    import c06_probes
    cases = list(c06_probes.INCOMPLETE); kinds = ["incomplete-statement"] * len(cases)
    for m, s in base:
        cases.append((m, s)); kinds.append("base")
        for _ in range(4 if tier == "quick" else 30):
            cases.append((m, respell.respell(rnd, s))); kinds.append("respelled")
        if len(s) < 4000:
            for mu in mutate_tokens(rnd, s, 3 if tier == "quick" else 20):
                cases.append((m, mu)); kinds.append("token-mutant")
    got = dumps_gp(cases)
    mism = []; stats = collections.Counter()
    if len(got) != len(cases): tie_err = (tie_err or "") + " parse harness returned %d results for %d texts" % (len(got), len(cases))
    else:
        for (m, s), k, g in zip(cases, kinds, got):
            r = ref(m, s)
            if r[0] == "newer": stats["skipped-newer-syntax"] += 1; continue
            if "dump" in g and r[0] == "dump":
                stats["both-accept"] += 1
                if g["dump"] != r[1]:
                    if re.search(r"\bwith \(", flat(s)): stats["skipped-newer-syntax"] += 1      # 3.9+: parenthesised context managers
                    else: mism.append((k, m, s, "tree differs", g["dump"], r[1]))
            elif "error" in g and r[0] == "reject":
                stats["both-reject"] += 1
                if g["error"] not in ("SyntaxError", "IndentationError", "TabError"): mism.append((k, m, s, "rejected with " + g["error"], g.get("msg", ""), r[1]))
            elif "dump" in g:
                if OLDER.search(flat(s)): stats["skipped-3.4-only"] += 1
                else: mism.append((k, m, s, "accepted a text Python rejects", g["dump"][:300], r[1]))
            else:
                if NEWER.search(flat(s)): stats["skipped-newer-syntax"] += 1
                else: mism.append((k, m, s, "rejected a text Python accepts", g.get("error", "") + ": " + g.get("msg", ""), r[1][:300]))
    findings = vlib.load_findings("C06"); new = []
    for x in mism:
        hit = None
        for f in findings:
            if MATCHERS.get(f["matcher"], lambda *a: False)(x): hit = f; break
        if hit:
            msg = "%s (%s)" % (hit["id"], hit["input_class"])
            if msg not in res.known: res.known.append(msg)
        else: new.append(x)
    res.oblige("oracle: %d texts (base programs, re-spellings, token mutants) in their mode: same tree as CPython's parser (3.4 dump) or rejected by both with a SyntaxError" % len(cases), not new, str([(x[0], x[2][:150], x[3]) for x in new[:2]])[:500])
    res.coverage.update(evaluations=len(cases) + len(ec) + len(corpus), distinct_nontrivial=stats["both-accept"], programs=len(cases),
        rule="base: a grammar tour of %d snippets (every statement and expression form of 3.4 incl. decorators, annotations, keyword-only parameters, star targets, all slice forms, all call forms, comprehensions, all literal prefixes and escapes, numeric literal forms), the %d inputs of the repository's grammar corpus, programs of every generator, .py files of the repository, random expressions and assignments; each base text re-spelled %d times (token spacing, tabs, blank lines, comments, backslash continuation, newlines inside brackets, indentation unit, trailing commas, number bases/exponent forms, string quote styles/prefixes/escape spellings/implicit concatenation) and mutated by single-token deletions/insertions; compared with CPython's tree in 3.4 dump format or with its rejection" % (len(TOUR), len(cor_src), 4 if tier == "quick" else 30),
        samples=[dict(source=cases[3][1][:200], mode=cases[3][0])], distribution=dict(kinds=dict(collections.Counter(kinds)), verdicts=dict(stats), escape_cases=len(ec), mismatches=len(mism), known=len(mism) - len(new)),
        modelled_not_verified=["lexer state machine (indent stack, bracket depth), LALR tables, grammar actions: compared with CPython, not proved"])
    if new:
        k, m, s, what, a, b = new[0]
        res.violation("counterexample", "parse result differs from Python's: " + what, dict(input=dict(source=s[:6000], mode=m, generator=k), expected=b[:3000], observed=a[:3000], first_difference=diffctx(a, b), others=[dict(source=x[2][:300], what=x[3], diff=diffctx(x[4], x[5])) for x in new[1:8]], total=len(new)))
        return
    if tie_bad:
        i = tie_bad[0]
        res.violation("counterexample", "DecodeEscape differs from the model for which the round-trip theorem holds", dict(input=dict(code_points=ec[i][0], bytes_mode=ec[i][1]), expected="Model/Escape.v decode", observed=eo[i], others=len(tie_bad)))
        return
    if not p_ok or tie_err or cor_bad:
        res.violation("proof-broken" if not p_ok else "tie-broken", "C06 no longer shown", dict(theorem_or_correspondence="Props/C06.v / escape correspondence / corpus validation of the dumper", coqc_error=[l for l in mlog.splitlines() if "rror" in l][-10:], tie_error=tie_err,
            searched="%d texts: no differing tree" % len(cases)), no_input=True)

def diffctx(a, b):
    i = next((k for k in range(min(len(a), len(b))) if a[k] != b[k]), min(len(a), len(b)))
    return dict(observed=a[max(0, i - 80):i + 120], expected=b[max(0, i - 80):i + 120])

def named_unicode_escape(x): return "\\N{" in x[2]
def trailing_backslash(x): return x[2].rstrip(" \t\n\f").endswith(chr(92)) and x[3].startswith("accepted a text")
def bare_generator_argument(x):
    return x[3].startswith("accepted a text") and re.search(r"\w\s*\((?:[^()]*,\s*)?[^(),]*\bfor\b[^()]*\bin\b[^()]*(?:,[^()]*)?\)", flat(x[2])) is not None
MATCHERS = {"c06.named_unicode_escape": named_unicode_escape, "c06.trailing_backslash_at_eof": trailing_backslash, "c06.bare_generator_argument": bare_generator_argument}

def replay(path):
    d = json.load(open(path)); print(json.dumps(d, indent=1)[:3000]); return 1
