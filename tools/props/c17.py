"""C17: lists, dicts, sets over operation histories with aliases.  Oracle: CPython on seeded histories
(state of every container and alias printed after every operation).  P: Props/C17.v (Go-slice model:
distinct lists never share writable storage under the list operations)."""
import json, os, random
import vlib, pydiff, progs

THEOREMS = ["C17_append_fresh_or_private", "C17_ops_preserve_separation"]
PROBES = [
 ("set_cross_type_equal", "print(len({1, 1.0}), len({1, True}), 1.0 in {1})\n"),
 ("set_of_tuples", "s = {(1, 2)}\nprint((1, 2) in s, len(s))\n"),
 ("dict_int_key", "d = {1: 'a'}\nprint(d[1])\n"),
 ("list_iter_sees_append", "l = [1, 2]\nfor x in l:\n    if len(l) < 5: l.append(x * 10)\nprint(l)\n"),
 ("sort_key_mutation", "l = [3, 1, 2]\nl2 = l\nl.sort()\nprint(l, l2, sorted([2, 1]), l is l2)\n"),
 ("dict_iter_mutation", "d = {'a': 1}\ne = d\ne['b'] = 2\nprint(sorted(d), d == e, d is e, dict(d) == d, dict(d) is d)\n"),
 ("nested_alias", "a = [1]\nb = [a, a]\nb[0].append(2)\nprint(b, a)\nc = list(b)\nc[0].append(3)\nc.append(4)\nprint(a, b, c)\n"),
]
def m_set_hash(case): return case.get("kind") in ("set_cross_type_equal", "set_of_tuples")
def m_dict_nonstring(case): return case.get("kind") == "dict_int_key"
MATCHERS = {"c17.set_element_identity_by_go_equality": m_set_hash, "c17.dict_non_string_key": m_dict_nonstring}

def check(res):
    tier, seed = res.tier, res.seed
    res.trusted = vlib.COMMON_TRUST + [
        "Base/GoSlice-style model of list storage (Model/ListHeap.v) is hand-written; the container operations themselves are compared with CPython on histories (validated oracle, testing)"]
    res.assumptions = ["CPython 3.11 agrees with Python 3.4 on the generated container histories (dict/set output is order-normalised)"]
    built, mlog = vlib.coq_make()
    p_ok = "Props/C17.vo" in built
    assum = None
    if p_ok:
        assum, _ = vlib.print_assumptions("C17", ["Props.C17"], THEOREMS)
        p_ok = assum is not None
    for t in THEOREMS:
        res.oblige("theorem " + t, p_ok, (assum or {}).get(t, "") if p_ok else "Props/C17.v does not compile")
    if assum: res.trusted.append("Print Assumptions: " + "; ".join("%s: %s" % kv for kv in assum.items()))
    cases = [(s, dict(kind="history", **m)) for s, m in progs.container_history_programs(seed, 1500 if tier == "quick" else 40000, 12)]
    cases += [(s, dict(kind="history-short", **m)) for s, m in progs.container_history_programs(seed + 1, 1500 if tier == "quick" else 20000, 3)]
    rnd = random.Random(seed)
    for n in list(range(2, 41)) + [64, 100]:
        items = [rnd.choice(["1", "1.0", "2", "2.0", "0", "0.0", "3", "3.0"]) for _ in range(n)]
        src = "l = [%s]\nm = l\nprint(sorted(l))\nprint(sorted(l, reverse=True))\nl.sort()\nprint(l, m is l)\nk = [%s]\nk.sort(key=lambda v: v %% 3)\nprint(k)\n" % (", ".join(items), ", ".join(str(rnd.randint(0, 30)) for _ in range(n)))
        cases.append((src, dict(kind="sort-stability", n=n)))
    cases += [(s, dict(kind=k)) for k, s in PROBES]
    srcs = [c[0] for c in cases]
    impl = pydiff.run_impl(srcs); ref = pydiff.run_ref(srcs)
    findings = vlib.load_findings("C17")
    mism = []; known = {}; nontrivial = 0
    for (src, case), a, b in zip(cases, impl, ref):
        ga = (a.get("out", ""), a.get("err", "")); gb = (b.get("out", ""), b.get("err", ""))
        if a.get("panic") or a.get("crash") or a.get("hang"): ga = ("<GO PANIC/HANG %s>" % (a.get("panic") or a.get("crash") or "hang"), "")
        if case["kind"].startswith("history") and any(w in src for w in ("l1.", "l1[", "d1[", "s1.", "+= ", "|= ", "*= ")): nontrivial += 1
        if ga == gb: continue
        hit = None
        for f in findings:
            mt = MATCHERS.get(f.get("matcher"))
            if mt and mt(case): hit = f; break
        if hit: known.setdefault(hit["id"], (case, ga, gb))
        else: mism.append((case, src, ga, gb))
    for fid, (case, ga, gb) in known.items():
        f = [x for x in findings if x["id"] == fid][0]
        res.known.append("%s: %s (observed %s, Python %s)" % (fid, f["input_class"], ga[0].strip()[-60:] or ga[1], gb[0].strip()[-60:]))
    res.coverage.update(evaluations=len(cases), distinct_nontrivial=nontrivial, programs=len(cases),
        rule="seeded histories of 2-12 (and 1-3) operations over three list names, three dict names and three set names of which two are aliases and one a copy: item/slice assignment and deletion, append/extend/sort, += *= |=, +, *, membership, len, equality, copies by constructor/slice/operator, mutation during iteration, self-operands; the state of every container and the identity of the aliases is printed after every operation and compared with CPython; non-trivial = the history mutates through an alias or in place",
        samples=[dict(case=cases[1][1], source_tail=cases[1][0][-300:], stdout_tail=impl[1].get("out", "")[-200:])],
        distribution=dict(histories=len(cases) - len(PROBES), probes=len(PROBES)), oracle_disagreements=len(mism), matched_known_findings=len(known),
        modelled_not_verified=["dict (Go map keyed by string)", "set (Go map keyed by interface value)", "sort.Stable"])
    if mism:
        case, src, ga, gb = mism[0]
        k = 0; la = ga[0].splitlines(); lb = gb[0].splitlines()
        while k < min(len(la), len(lb)) and la[k] == lb[k]: k += 1
        res.violation("counterexample", "container history differs from the reference model", dict(input=dict(case=case, source=src[src.find("dump()\n", src.find("def t(")) + 7:][:2500]),
                      expected=dict(first_differing_line=lb[k] if k < len(lb) else "<end>", error=gb[1]), observed=dict(first_differing_line=la[k] if k < len(la) else "<end>", error=ga[1]),
                      others=[dict(case=c) for c, _, _, _ in mism[1:6]]))
        return
    if not p_ok:
        res.violation("proof-broken", "C17 theorems no longer compile", dict(theorem_or_correspondence="Props/C17.v", coqc_error=[l for l in mlog.splitlines() if "rror" in l][-10:]), no_input=True)

def replay(path):
    d = json.load(open(path)); print(json.dumps(d, indent=1)[:3000]); return 1
