"""C02: control flow and exceptions.  P: Props/C02.v (unwinding model: exceptions reach the innermost
handler, return/break run intervening finally bodies, handler selection by MRO).  T/oracle: path
traces, escaping exception class and traceback line numbers of systematic nestings vs CPython."""
import json, os, random
import vlib, pydiff, progs

THEOREMS = ["C02_exception_not_swallowed", "C02_return_runs_finally", "C02_break_path", "C02_handler_selection"]

PROBES = [
 ("user_exception_class", "class MyErr(Exception): pass\ntry:\n    raise MyErr('x')\nexcept MyErr:\n    print('caught')\n"),
 ("user_exception_subclass", "class A(Exception): pass\nclass B(A): pass\ntry:\n    raise B('x')\nexcept A:\n    print('caught')\n"),
 ("break_outside_loop_in_try", "try:\n    break\nfinally:\n    pass\n"),
 ("continue_outside_loop_in_with", "class C:\n    def __enter__(self): return 1\n    def __exit__(self, a, b, c): return False\nwith C():\n    continue\n"),
 ("for_iter_propagates", "class It:\n    def __iter__(self): return self\n    def __next__(self): raise KeyError('k')\ntry:\n    for x in It():\n        print('body')\n    print('silently ended')\nexcept KeyError:\n    print('KeyError propagated')\n"),
 ("unpack_propagates", "class It:\n    def __iter__(self): return self\n    def __next__(self): raise KeyError('k')\ntry:\n    a, b = It()\n    print('unpacked')\nexcept KeyError:\n    print('KeyError propagated')\nexcept ValueError:\n    print('ValueError instead')\n"),
 ("raise_from_finally_replaces", "def f():\n    try:\n        raise KeyError('a')\n    finally:\n        raise ValueError('b')\ntry:\n    f()\nexcept KeyError:\n    print('KeyError')\nexcept ValueError:\n    print('ValueError')\n"),
 ("exit_called_once", "class C:\n    def __enter__(self): print('enter'); return 1\n    def __exit__(self, a, b, c): print('exit', a is None); return False\ndef f():\n    for i in range(2):\n        with C():\n            if i == 0: continue\n            return 5\nprint(f())\n"),
 ("tb_last_instr_of_line", "def f():\n    x = 1\n    raise ValueError('a')\n    y = 2\ndef g():\n    f()\n    z = 3\ng()\n"),
 ("tb_in_finally", "def f():\n    try:\n        x = 1\n    finally:\n        raise KeyError('k')\nf()\n"),
]

def m_user_exc(case): return case.get("kind") in ("user_exception_class", "user_exception_subclass")
def m_bare_raise_callee(case): return case.get("kind") == "exception-being-handled" and case.get("position") == "in-callee-of-handler"
MATCHERS = {"c02.user_defined_exception_class": m_user_exc, "c02.bare_raise_in_callee": m_bare_raise_callee}

def uncaught_variant(src):
    i = src.index("for a in range(")
    return src[:i] + "print('r', f(0))\nprint('r', f(1))\n"

def check(res):
    tier, seed = res.tier, res.seed
    res.trusted = vlib.COMMON_TRUST + [
        "the unwinding model (Model/Verify.v) is hand-written from RunFrame; it is tied to the VM by C12's run-time conformance and by the path-trace comparison here",
        "compile.go's code generation for try/finally/with/loops is NOT modelled: the compiled programs are compared with CPython 3.11 (validated oracle, testing)"]
    res.assumptions = ["CPython 3.11 agrees with Python 3.4 on the generated control-flow programs (continue inside finally is excluded, as in 3.4)"]
    built, mlog = vlib.coq_make()
    p_ok = "Props/C02.vo" in built
    assum = None
    if p_ok:
        assum, _ = vlib.print_assumptions("C02", ["Props.C02"], THEOREMS)
        p_ok = assum is not None
    for t in THEOREMS:
        res.oblige("theorem " + t, p_ok, (assum or {}).get(t, "") if p_ok else "Props/C02.v does not compile")
    if assum: res.trusted.append("Print Assumptions: " + "; ".join("%s: %s" % kv for kv in assum.items()))
    cases = []
    for s, m in progs.nesting_programs(seed, 400 if tier == "quick" else 20000):
        cases.append((s, dict(kind="nesting", **m)))
        if "raise" in m["tree"]:
            cases.append((uncaught_variant(s), dict(kind="nesting-uncaught", **m)))
    for i, s in enumerate(progs.control_flow_programs(seed, 300 if tier == "quick" else 8000)):
        cases.append((s, dict(kind="random-control-flow", index=i)))
    for s, m in progs.cleanup_programs():
        cases.append((s, dict(kind="pending-exit-across-cleanup", **m)))
    for k, s in PROBES:
        cases.append((s, dict(kind=k)))
    for s, m in progs.exc_state_programs():
        cases.append((s, dict(kind="exception-being-handled", **m)))
    for s, m in progs.try_clause_exit_programs():
        cases.append((s, dict(kind="exit-from-try-clause", **m)))
    for s, m in progs.exc_matrix_programs():
        cases.append((s, dict(kind="handler-matching-matrix", **m)))
    srcs = [c[0] for c in cases]
    impl = pydiff.run_impl(srcs); ref = pydiff.run_ref(srcs)
    findings = vlib.load_findings("C02")
    mism = []; known = {}; nontrivial = 0; dist = {}
    for (src, case), a, b in zip(cases, impl, ref):
        dist[case["kind"]] = dist.get(case["kind"], 0) + 1
        if case["kind"].startswith("nesting") and case["tree"].count("(") >= 2: nontrivial += 1
        if case["kind"] == "pending-exit-across-cleanup" and case["abrupt"] != "pass" and case["cleanup"] > 0: nontrivial += 1
        ga = (a.get("out", ""), a.get("err", ""), tuple(a.get("tb") or []) if a.get("err") and a.get("err") != "SyntaxError" else ())
        gb = (b.get("out", ""), b.get("err", ""), tuple(b.get("tb") or []) if b.get("err") and b.get("err") != "SyntaxError" else ())
        if a.get("panic") or a.get("crash") or a.get("hang"):
            ga = ("<GO PANIC/CRASH: %s>" % (a.get("panic") or a.get("crash") or "hang"), "", ())
        if ga == gb: continue
        hit = None
        for f in findings:
            mt = MATCHERS.get(f.get("matcher"))
            if mt and mt(case): hit = f; break
        if hit: known.setdefault(hit["id"], (case, ga, gb))
        else: mism.append((case, src, ga, gb))
    for fid, (case, ga, gb) in known.items():
        f = [x for x in findings if x["id"] == fid][0]
        res.known.append("%s: %s (observed %s / %s, Python %s / %s)" % (fid, f["input_class"], ga[1], ga[0][-40:].strip(), gb[1], gb[0][-40:].strip()))
    res.coverage.update(evaluations=len(cases), distinct_nontrivial=nontrivial, programs=len(cases),
        rule="every depth-1 nesting of {if, if/else, while(/else), for(/else), try/except(/else), try/finally, try/except/finally, with (swallowing or not)} with each slot holding one of {mark, raise LookupError, raise KeyError, return, break, continue} (3.4-valid placements), inside and outside an enclosing loop, plus seeded depth 2-3 nestings, random control-flow programs, uncaught variants (exception class + traceback lines) and targeted probes; compared with CPython on stdout path trace, escaping exception class and traceback line numbers; non-trivial = nesting depth >= 2",
        samples=[dict(case=cases[5][1], stdout=impl[5].get("out", "")[:200])],
        distribution=dict(by_kind=dist), oracle_disagreements=len(mism), matched_known_findings=len(known),
        modelled_not_verified=["compile.go code generation", "exception object construction", "__context__ chaining"])
    if mism:
        case, src, ga, gb = mism[0]
        res.violation("counterexample", "control flow / exception path differs from Python",
                      dict(input=dict(case=case, source=src[-2500:]), expected=dict(stdout=gb[0][-600:], error=gb[1], traceback_lines=gb[2]),
                           observed=dict(stdout=ga[0][-600:], error=ga[1], traceback_lines=ga[2]),
                           others=[dict(case=c, observed=(x[1], x[2]), expected=(y[1], y[2])) for c, _, x, y in mism[1:6]]))
        return
    if not p_ok:
        res.violation("proof-broken", "C02 theorems no longer compile", dict(theorem_or_correspondence="Props/C02.v", coqc_error=[l for l in mlog.splitlines() if "rror" in l][-10:]), no_input=True)

def replay(path):
    d = json.load(open(path)); print(json.dumps(d, indent=1)[:3000]); return 1
