"""C13: indexing and slicing.  P: Props/C13.v (GetIndices model = Python clipping for all operands;
go2v translation agrees with the model on the lattice, inside Coq).  T: real Slice.GetIndices vs the
translation and the model (vm_compute).  Oracle for the element-level operations: CPython."""
import itertools, json, os, random, concurrent.futures
import vlib, pydiff

THEOREMS = ["C13_indices", "C13_count", "C13_loop", "C13_gen_agrees_on_lattice", "C13_range_length",
            "C13_list_getslice", "C13_list_delslice", "C13_list_setslice", "C13_list_items", "C13_list_ops_never_panic"]
BIG = [2**62, 2**63 - 1, 2**63, 2**64]

def idx_values(tier):
    small = list(range(-9, 10)) if tier == "thorough" else [-9, -7, -3, -2, -1, 0, 1, 2, 3, 6, 9]
    return [None] + small + BIG + [-b for b in BIG] + [-(2**63) - 1]

def gi_cases(tier, seed):
    rnd = random.Random(seed)
    vals = idx_values(tier)
    cases = []
    lens = range(0, 7)
    allc = [(n, a, b, c) for n in lens for a in vals for b in vals for c in vals]
    if tier == "quick":
        cases = rnd.sample(allc, 5000)
    else:
        cases = allc
    for _ in range(500 if tier == "quick" else 5000):
        n = rnd.choice([0, 1, 5, 100, 2**31, 2**62 - 1])
        r = lambda: rnd.choice([None, rnd.randint(-n - 3, n + 3), rnd.choice(BIG) * rnd.choice((1, -1))])
        cases.append((n, r(), r(), r()))
    return cases

def fmt(v): return "N" if v is None else str(v)
def coq_opt(v): return "None" if v is None else "(Some (%d))" % v

def run_gi(cases):
    chunks = [cases[i::8] for i in range(8)]
    def work(ch):
        if not ch: return []
        inp = "".join("gi %d %s %s %s\n" % (n, fmt(a), fmt(b), fmt(c)) for n, a, b, c in ch)
        rc, out = vlib.run_tool("impl", ["c13"], input=inp)
        lines = [l for l in out.splitlines() if not l.startswith("WARNING")]
        lines = (lines + ["WORKER-DIED"] * len(ch))[:len(ch)]
        return list(zip(ch, lines))
    res = []
    with concurrent.futures.ThreadPoolExecutor(8) as ex:
        for r in ex.map(work, chunks): res += r
    return res

def coq_gi(name, obs):
    rows = []
    for (n, a, b, c), o in obs:
        if o.startswith("E:"):
            ob = "None" if o == "E:ValueError" else "(Some (0,0,0,-1))"
        elif o[0] in "-0123456789":
            x = o.split(); ob = "(Some (%s, %s, %s, %s))" % tuple("(%s)" % v for v in x)
        else:
            ob = "(Some (0,0,0,-2))"
        rows.append("(%d, %s, %s, %s, %s)" % (n, coq_opt(a), coq_opt(b), coq_opt(c), ob))
    text = ("From Coq Require Import ZArith Bool List String. Import ListNotations.\nFrom GP Require Import Base.Go2v Model.Slice.\nFrom GP Require Gen.py_slice.\nOpen Scope Z_scope.\n"
      "Definition eq4 (x y : option (Z*Z*Z*Z)) : bool := match x, y with None, None => true | Some (a,b,c,d), Some (a',b',c',d') => (a =? a') && (b =? b') && (c =? c') && (d =? d') | _, _ => false end.\n"
      "Definition gen4 n a b c := match py_slice.GetIndices a b c n with Some (x,y,s,k,VNil) => Some (x,y,s,k) | Some (_,_,_,_,VErr _) => None | _ => Some (0,0,0,-9) end.\n"
      "Definition cases : list (Z * option Z * option Z * option Z * option (Z*Z*Z*Z)) := [\n" + ";\n".join(rows) + "].\n"
      "Fixpoint bad (i : nat) (l : list (Z * option Z * option Z * option Z * option (Z*Z*Z*Z))) : list nat := match l with [] => [] | (n,a,b,c,o) :: r => if eq4 (gen4 n a b c) o && eq4 (get_indices n a b c) o then bad (S i) r else i :: bad (S i) r end.\n"
      "Definition M := Eval vm_compute in bad 0 cases.\nPrint M.\n")
    rc, out = vlib.coqc_run(name, text, timeout=400)
    if rc != 0: return None, out[-1500:]
    v = vlib.parse_coq_value("M " + out[out.find("M ="):].replace("M =", " =", 1)) if "M =" in out else None
    return v, out[-300:]

# ---------------- list / tuple element operations through the Go API vs Model/ListOps.v
def ops_cases(tier, seed):
    """(command line for `impl c13`, Coq (lop, n, a, b, c)) pairs"""
    rnd = random.Random(seed + 131)
    vals = idx_values(tier)
    triples = [(a, b, c) for a in vals for b in vals for c in vals]
    out = []
    for n in range(0, 7 if tier == "thorough" else 6):
        ts = triples if tier == "thorough" else rnd.sample(triples, 220)
        for a, b, c in ts:
            abc = "%s %s %s" % (fmt(a), fmt(b), fmt(c)); cq = "%s, %s, %s" % (coq_opt(a), coq_opt(b), coq_opt(c))
            out.append(("lg %d %s" % (n, abc), "(LGet, %d%%nat, %s)" % (n, cq)))
            out.append(("tg %d %s" % (n, abc), "(TGet, %d%%nat, %s)" % (n, cq)))
            out.append(("ld %d %s" % (n, abc), "(LDel, %d%%nat, %s)" % (n, cq)))
            for k in sorted(set([0, 1, 2, 3, n])):
                out.append(("ls %d %s %d" % (n, abc, k), "(LSet %d, %d%%nat, %s)" % (k, n, cq)))
        for i in [v for v in vals if v is not None]:
            for cmd, op in (("li", "IGet"), ("lS", "ISet"), ("lD", "IDel")):
                out.append(("%s %d %d" % (cmd, n, i), "(%s, %d%%nat, %s, None, None)" % (op, n, coq_opt(i))))
    return out

def run_ops(cases):
    chunks = [cases[i::8] for i in range(8)]
    def work(ch):
        if not ch: return []
        rc, out = vlib.run_tool("impl", ["c13"], input="".join(c[0] + "\n" for c in ch))
        lines = [l for l in out.split("\n") if l and not l.startswith("WARNING")]
        lines = (lines + ["WORKER-DIED"] * len(ch))[:len(ch)]
        return list(zip(ch, lines))
    res = [None] * len(cases)
    with concurrent.futures.ThreadPoolExecutor(8) as ex:
        for k, r in enumerate(ex.map(work, chunks)):
            for j, x in enumerate(r): res[k + 8 * j] = x
    return res

def coq_ops(name, obs):
    rows = []
    for (cmd, cq), o in obs:
        if o.startswith("[") and o.endswith("]"):
            ob = "Ok [%s]" % "; ".join("(%s)" % x for x in o[1:-1].split())
        elif o == "E:ValueError": ob = "ValueErr"
        elif o == "E:IndexError": ob = "IndexErr"
        else: ob = "Panic"
        rows.append("(%s, %s)" % (cq, ob))
    text = ("From Coq Require Import ZArith Bool List. Import ListNotations.\nFrom GP Require Import Model.ListOps.\nOpen Scope Z_scope.\n"
      "Definition cases : list ((lop * nat * option Z * option Z * option Z) * res Z) := [\n" + ";\n".join(rows) + "].\n"
      "Fixpoint bad (i : nat) (l : list ((lop * nat * option Z * option Z * option Z) * res Z)) : list nat := match l with [] => [] | ((o, n, a, b, c), r) :: t => if res_eqb (run_op o n a b c) r then bad (S i) t else i :: bad (S i) t end.\n"
      "Definition M := Eval vm_compute in bad 0 cases.\nPrint M.\n")
    rc, out = vlib.coqc_run(name, text, timeout=900)
    if rc != 0: return None, out[-1500:]
    v = vlib.parse_coq_value("M " + out[out.find("M ="):].replace("M =", " =", 1)) if "M =" in out else None
    return v, out[-300:]

# ---------------- element-level operations, CPython as the validated oracle
PRE = '''def t(f):
    try:
        print(repr(f()))
    except IndexError: print('IndexError')
    except ValueError: print('ValueError')
    except TypeError: print('TypeError')
    except OverflowError: print('OverflowError')
    except MemoryError: print('MemoryError')
'''
def mk(ty, n):
    if ty == "list": return "[" + ", ".join(str(10 + i) for i in range(n)) + "]"
    if ty == "tuple": return "(" + "".join("%d, " % (10 + i) for i in range(n)) + ")"
    if ty == "str": return repr("".join("abcdefg"[i] for i in range(n)))
    if ty == "bytes": return "b" + repr("".join("abcdefg"[i] for i in range(n)))
    if ty == "range": return "range(3, %d, 2)" % (3 + 2 * n)

def elem_programs(tier, seed):
    """returns (programs, meta) where meta[p] = list of structured case dicts, one per output line"""
    rnd = random.Random(seed + 13)
    vals = [None, -9, -3, -2, -1, 0, 1, 2, 3, 6, 2**63, -2**63 - 1, 2**64] if tier == "quick" else idx_values("thorough")
    progs = []; meta = []
    for ty in ("list", "tuple", "str", "range", "bytes"):
        for n in range(0, 7 if tier == "thorough" else 5):
            lines = []; m = []; cuts = []
            def add(code, **case):
                lines.append(code); m.append(dict(type=ty, n=n, **case)); cuts.append(len(lines))
            triples = [(a, b, c) for a in vals for b in vals for c in vals]
            if tier == "quick": triples = rnd.sample(triples, 160)
            wrap = "list" if ty == "range" else ""
            for a, b, c in triples:
                sl = "%s:%s:%s" % tuple("" if v is None else str(v) for v in (a, b, c))
                add("t(lambda: %s(x[%s]))" % (wrap, sl), op="getslice", start=a, stop=b, step=c)
            for i in [v for v in vals if v is not None]:
                add("t(lambda: x[%d])" % i, op="getitem", index=i)
            add("t(lambda: len(x))", op="len")
            add("t(lambda: %s(x + x))" % wrap, op="concat")
            for k in (-1, 0, 1, 2, 3):
                add("t(lambda: %s(x * %d))" % (wrap, k), op="repeat", k=k)
                add("t(lambda: %s(%d * x))" % (wrap, k), op="rrepeat", k=k)
            probe = {"list": "12", "tuple": "12", "str": "'c'", "bytes": "99", "range": "7"}[ty]
            add("t(lambda: %s in x)" % probe, op="contains")
            add("t(lambda: [e for e in x])", op="iter")
            other = mk(ty, max(n - 1, 0))
            for cmpop in ("==", "!=") + (() if ty == "range" else ("<", "<=", ">", ">=")):
                add("t(lambda: x %s %s)" % (cmpop, other), op="cmp", cmp=cmpop, other="shorter")
                add("t(lambda: x %s %s)" % (cmpop, mk(ty, n)), op="cmp", cmp=cmpop, other="equal")
            if ty == "range":
                # equality of ranges is equality of the sequences they denote
                add("t(lambda: [(a, b, c, d, e, f) for a in (0, 1) for b in (0, 1, 2, 4) for c in (1, 2, 3, -1) for d in (0, 1) for e in (0, 1, 2, 4) for f in (1, 2, 3, -1) if (range(a, b, c) == range(d, e, f)) != (list(range(a, b, c)) == list(range(d, e, f)))])", op="range-equality")
                add("t(lambda: (x == range(3, %d, 2), x != range(3, %d, 2), x == range(3, %d, 2), x == range(3, %d, 4), range(0) == range(5, 5), range(0, 3, 5) == range(0, 1, 9)))" % (3 + 2 * n, 3 + 2 * n, 4 + 2 * n, 3 + 2 * n), op="range-equality")
            add("t(lambda: %s(x))" % ("list" if ty == "range" else "repr"), op="intact-after-all")
            if ty == "list":
                for a, b, c in (triples if tier == "thorough" else rnd.sample(triples, 120)):
                    sl = "%s:%s:%s" % tuple("" if v is None else str(v) for v in (a, b, c))
                    for rl in (0, 1, 2, n):
                        rhs = "[" + ", ".join(str(90 + i) for i in range(rl)) + "]"
                        lines.append("def f():\n    y = list(x)\n    y[%s] = %s\n    return y" % (sl, rhs))
                        add("t(f)", op="setslice", start=a, stop=b, step=c, rhs_len=rl)
                    lines.append("def f():\n    y = list(x)\n    del y[%s]\n    return y" % sl)
                    add("t(f)", op="delslice", start=a, stop=b, step=c)
                for i in [v for v in vals if v is not None]:
                    lines.append("def f():\n    y = list(x)\n    y[%d] = 77\n    return y" % i)
                    add("t(f)", op="setitem", index=i)
                    lines.append("def f():\n    y = list(x)\n    del y[%d]\n    return y" % i)
                    add("t(f)", op="delitem", index=i)
                # results never alias a mutable operand
                lines.append("def f():\n    y = list(x)\n    rs = [y[:], y + [], [] + y, y * 1, 1 * y, list(y), y[::1], y[0:], y[:len(y)]]\n    for r in rs:\n        if len(r) > 0:\n            r[0] = 55\n            r[len(r) - 1] = 66\n            del r[0]\n    for r in rs:\n        r.append(1)\n    return y")
                add("t(f)", op="noalias")
                add("t(lambda: repr(x))", op="intact-after-all")
            if ty in ("tuple", "str", "bytes"):
                # immutable sequences: a value derived from x (slice, sum, product) that is then extended in place
                # (+=, *=) must leave x and every other derived value untouched (shared backing arrays)
                ext = {"tuple": "(70, 80)", "str": "'yz'", "bytes": "b'yz'"}[ty]
                for cut in (sorted(set([0, 1, 2, max(n - 1, 0), n])) if ty != "bytes" else []):
                    lines.append("def f():\n    s = x[:%d]\n    s += %s\n    r = x[:%d]\n    r += %s\n    r += %s\n    q = x[:%d]\n    q *= 2\n    return (s, r, q, x)" % (cut, ext, cut, ext, ext, cut))
                    add("t(f)", op="noalias", cut=cut)
                lines.append("def f():\n    a = x + %s\n    b = a\n    b += %s\n    c = a\n    c += %s\n    return (a, b, c, x)" % (ext, ext, ext))
                add("t(f)", op="noalias", cut=-1)
            # one program per <= 1500 observations (each well inside the harness watchdog), each closed by an
            # intact-after-all observation of the operand
            CH = 1500
            for lo in range(0, len(m), CH):
                hi = min(lo + CH, len(m))
                code = lines[(cuts[lo - 1] if lo else 0):cuts[hi - 1]]
                mm = m[lo:hi]
                if mm[-1]["op"] != "intact-after-all":
                    code = code + ["t(lambda: %s(x))" % ("list" if ty == "range" else "repr")]; mm = mm + [dict(type=ty, n=n, op="intact-after-all")]
                progs.append("\n".join([PRE, "x = " + mk(ty, n)] + code) + "\n"); meta.append(mm)
    return progs, meta

def m_bytes_seq(case): return case["type"] == "bytes" and case["op"] in ("getslice", "getitem", "len", "repeat", "rrepeat", "contains", "iter", "intact-after-all", "cmp", "concat")
def m_ordering(case): return case["type"] in ("list", "tuple") and case["op"] == "cmp" and case.get("cmp") in ("<", "<=", ">", ">=")
def m_range_huge(case): return case["type"] == "range" and case["op"] in ("getslice", "getitem") and any(isinstance(case.get(k), int) and abs(case[k]) >= 2**62 for k in ("start", "stop", "step", "index"))
MATCHERS = {"c13.bytes_sequence_protocol": m_bytes_seq, "c13.list_tuple_ordering": m_ordering, "c13.range_huge_operand": m_range_huge}

def check(res):
    tier, seed = res.tier, res.seed
    res.trusted = vlib.COMMON_TRUST + [
        "go2v translation of Slice.GetIndices and the range helpers (validated against the real functions through the Go API)",
        "Model/ListOps.v is hand-written from List.M__getitem__/M__setitem__/M__delitem__/DelItem and Tuple.M__getitem__; tied to the code by running both on the same operations (Go API harness, vm_compute)",
        "element-level str/range/bytes operations are NOT modelled in Coq beyond the shared slicing loop: they are compared with CPython 3.11 (validated oracle; testing, not proof)",
        "aliasing / operand corruption is observed by the harness only (mutate the result, re-read the operand)"]
    res.assumptions = ["sequence lengths are below 2**63-1", "CPython 3.11 agrees with Python 3.4 on the generated sequence operations"]
    rc, out = vlib.run_tool("go2v", ["-repo", vlib.REPO, "-out", os.path.join(vlib.COQ, "Gen")])
    res.oblige("go2v: Slice.GetIndices and range helpers are inside the translator's subset", rc == 0, out.strip()[-1500:])
    built, mlog = vlib.coq_make()
    p_ok = "Props/C13.vo" in built
    assum = None
    if p_ok:
        assum, _ = vlib.print_assumptions("C13", ["Props.C13"], THEOREMS)
        p_ok = assum is not None
    for t in THEOREMS:
        res.oblige("theorem " + t, p_ok, (assum or {}).get(t, "") if p_ok else "Props/C13.v does not compile on the regenerated Gen/py_slice.v, Gen/py_range.v")
    if assum:
        res.trusted.append("Print Assumptions: " + "; ".join("%s: %s" % kv for kv in assum.items()))
    # --- tie: real GetIndices vs translation and model
    cases = gi_cases(tier, seed)
    obs = run_gi(cases)
    tie_bad = []; tie_err = None
    if "Gen/py_slice.vo" in built and "Model/Slice.vo" in built:
        shards = [obs[i::8] for i in range(8)] if len(obs) > 8000 else [obs]
        with concurrent.futures.ThreadPoolExecutor(8) as ex:
            for sh, (v, log) in zip(shards, ex.map(lambda a: coq_gi("C13_gi_%d" % a[0], a[1]), list(enumerate(shards)))):
                if v is None: tie_err = log
                else: tie_bad += [sh[i] for i in v]
    else:
        tie_err = "Gen/py_slice.v or Model/Slice.v did not compile"
    res.oblige("correspondence: Slice.GetIndices (implementation) = go2v translation = model on %d triples (vm_compute)" % len(obs),
               tie_err is None and not tie_bad, tie_err or str(tie_bad[:3]))
    # --- tie: list / tuple element operations through the Go API vs Model/ListOps.v
    ocases = ops_cases(tier, seed)
    oobs = run_ops(ocases)
    ops_bad = []; ops_err = None
    if "Model/ListOps.vo" in built:
        oshards = [oobs[i:i + 6000] for i in range(0, len(oobs), 6000)]
        with concurrent.futures.ThreadPoolExecutor(8) as ex:
            for sh, (v, log) in zip(oshards, ex.map(lambda a: coq_ops("C13_ops_%d" % a[0], a[1]), list(enumerate(oshards)))):
                if v is None: ops_err = log
                else: ops_bad += [(sh[i][0][0], sh[i][1]) for i in v]
    else:
        ops_err = "Model/ListOps.v did not compile"
    res.oblige("correspondence: list/tuple getitem, slicing, slice assignment, slice deletion through the Go API = Model/ListOps.v on %d operations (vm_compute)" % len(oobs),
               ops_err is None and not ops_bad, ops_err or str(ops_bad[:3]))
    # --- oracle: element-level operations vs CPython
    progs, meta = elem_programs(tier, seed)
    impl = pydiff.run_impl(progs); ref = pydiff.run_ref(progs)
    findings = vlib.load_findings("C13")
    mism = []; known = {}; nlines = 0; dist = {}; nontrivial = 0
    for p, m, a, b in zip(progs, meta, impl, ref):
        la = a.get("out", "").splitlines(); lb = b.get("out", "").splitlines()
        crashed = a.get("panic") or a.get("crash") or a.get("hang")
        for k, case in enumerate(m):
            nlines += 1
            dist[case["type"] + "." + case["op"]] = dist.get(case["type"] + "." + case["op"], 0) + 1
            if case["op"] in ("getslice", "setslice", "delslice") and (case.get("step") not in (None, 1) or (case.get("start") or 0) < 0 or (case.get("stop") or 0) < 0):
                nontrivial += 1
            got = la[k] if k < len(la) else ("<GO PANIC: %s>" % (a.get("panic") or a.get("crash")) if crashed else "<missing:%s>" % a.get("err"))
            exp = lb[k] if k < len(lb) else "<missing>"
            if got == exp: continue
            hit = None
            for f in findings:
                mt = MATCHERS.get(f.get("matcher"))
                if mt and mt(case): hit = f; break
            if hit: known.setdefault(hit["id"], (case, got, exp))
            else: mism.append((case, got, exp))
            if k >= len(la): break
    for fid, (case, got, exp) in known.items():
        f = [x for x in findings if x["id"] == fid][0]
        res.known.append("%s: %s (e.g. %s -> %s, Python: %s)" % (fid, f["input_class"], json.dumps(case), got, exp))
    res.coverage.update(evaluations=len(cases) + nlines, distinct_nontrivial=nontrivial + sum(1 for c in cases if any(v is not None and abs(v) >= 2**62 for v in c[1:])),
        rule="(a) Slice.GetIndices through the Go API on (length, start, stop, step) triples over {None, -9..9, +-2**62, +-(2**63-1), +-2**63, +-2**64} plus seeded large lengths, compared inside Coq with the go2v translation and the model; (b) programs applying getitem/slice/setslice/delslice/concat/repeat/len/in/compare/iterate to str, list, tuple, range, bytes of lengths 0..6, compared line by line with CPython; non-trivial = negative/absent/huge bound or non-unit step",
        samples=[dict(getindices=dict(len=c[0][0], start=fmt(c[0][1]), stop=fmt(c[0][2]), step=fmt(c[0][3])), observed=c[1]) for c in obs[:3]] + [meta[0][0]],
        distribution=dict(getindices_cases=len(cases), list_model_operations=len(oobs), element_lines=nlines, per_type_op=dist),
        oracle_disagreements=len(mism), matched_known_findings=len(known),
        modelled_not_verified=["element loops of str / range / bytes (list and tuple loops are modelled: Model/ListOps.v)", "Go slice aliasing and capacity (C17)"])
    if mism:
        case, got, exp = mism[0]
        res.violation("counterexample", "sequence operation differs from Python's sequence model",
                      dict(input=case, expected=exp, observed=got, others=[dict(input=c, observed=g, expected=e) for c, g, e in mism[1:8]],
                           how_to_rerun="python3 tools/check.py C13 --replay <this file>"))
        return
    if ops_bad:
        cmd, got = ops_bad[0]
        res.violation("counterexample", "list operation through the Go API differs from the proved model (Model/ListOps.v, Props/C13.v C13_list_*)",
                      dict(input=dict(harness_command="impl c13", line=cmd, meaning="lg/tg: x[a:b:c] on list/tuple [10..10+n-1]; ls: x[a:b:c] = [90..]; ld: del x[a:b:c]; li/lS/lD: x[i], x[i] = 77, del x[i]"),
                           observed=got, expected="the model's result (python3 tools/check.py C13 --replay <this file> recomputes it)", others=[dict(line=c, observed=g) for c, g in ops_bad[1:8]]))
        return
    if not p_ok or tie_bad or tie_err or rc != 0 or ops_err:
        what = "theorems of Props/C13.v" if not p_ok else ("correspondence list operations / Model/ListOps.v: " + str(ops_err) if ops_err and not (tie_bad or tie_err) else "correspondence GetIndices implementation/translation/model")
        res.violation("proof-broken" if not p_ok else "tie-broken", "C13 no longer shown: " + what,
                      dict(theorem_or_correspondence=what, go2v=out.strip()[-800:],
                           coqc_error=[l for l in mlog.splitlines() if "rror" in l][-10:],
                           first_disagreements=[dict(len=c[0][0], start=fmt(c[0][1]), stop=fmt(c[0][2]), step=fmt(c[0][3]), implementation=c[1]) for c in tie_bad[:5]],
                           tie_error=tie_err), no_input=True)

def replay(path):
    d = json.load(open(path)); case = d.get("input")
    print(json.dumps(d, indent=1)[:3000])
    return 1
