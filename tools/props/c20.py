"""C20: REPL.  P: Props/C20.v (feeding statements line by line = executing them once each, in order;
prompt iff pending; errors recover).  T: prompts predicted by the model (with the compiler verdicts
measured on the real py.Compile) = prompts shown by the real repl.REPL (vm_compute).  Oracle: echo,
stdout and final globals vs CPython executing the same statements one by one in 'single' mode."""
import json, os, random, subprocess, sys, concurrent.futures
import vlib

THEOREMS = ["C20_equiv", "C20_timely", "C20_prompt", "C20_error_recovers"]

SIMPLE = ["x = 1", "x = x + 1", "x", "y = [1, 2]", "y.append(x)", "y", "print('p', x)", "None", "'s'", "x * 2", "z = (x, y)", "z", "_", "import math", "math.floor(2.5)", "del z",
          "# just a comment", "x = 5  # trailing comment", "1 if x else 2", "a, b = 1, 2", "a + b", "(lambda q: q + 1)(x)"]
MULTI = [["if x:", "    x = x + 10", "else:", "    x = 0"], ["for i in range(3):", "    x = x + i"], ["def f(a):", "    return a * 2"], ["f(4)"],
         ["while x > 100:", "    x = x - 100"], ["y = [1,", "     2,", "     3]"], ["s = '''a", "b'''"], ["s2 = '''a", "", "b", "", "'''"], ["def g2():", "    '''doc", "", "    string'''", "    return 7"], ["g2.__doc__ is None, s2"], ["s3 = \"\"\"", "", "x\"\"\""], ["s3"], ["t = (x,", "", "     2)"], ["class K:", "    v = 3", "    def m(self):", "        return self.v"],
         ["K().m()"], ["for i in range(2):", "    i"], ["if x:", "    for j in range(2):", "        x = x + j", "    x"], ["try:", "    1 / 0", "except ZeroDivisionError:", "    x = -1"],
         ["with_value = {'a':", "  1}"], ["def g():", "    '''doc", "    string'''", "    return 7"], ["g()"]]
MULTI_ERR = [["if x:", "    y = = 1"], ["for i in range(2):", "    x +", "    x = 1"], ["def h(a):", "    return )"], ["while x:", "    pass", "  bad_dedent = 1"], ["if x:", "    x = 7", "    1 / 0"], ["y = [1,", "     2 2]"]]
ERRORS = ["x = = 2", "1 / 0", "undefined_name", "x +", ")", "def", "y[99]", "'abc' + 1"]

def gen_session(rnd):
    """returns (lines fed, statements) where statements are the source texts executed one by one"""
    lines = []; stmts = []
    lines.append("x = 3"); stmts.append("x = 3\n")
    for _ in range(rnd.randint(2, 12)):
        r = rnd.random()
        if r < 0.5:
            s = rnd.choice(SIMPLE); lines.append(s)
            if not s.startswith("#"): stmts.append(s + "\n")
        elif r < 0.85:
            m = rnd.choice(MULTI)
            if len(m) == 1:
                lines.append(m[0]); stmts.append(m[0] + "\n")
            else:
                if m[0].rstrip().endswith(":") and not any(ch in l for l in m for ch in "([{'\"") and rnd.random() < 0.4:
                    # a line of white space only inside the block: ignored in a file and at the prompt alike (only a
                    # totally empty line ends the statement)
                    m = list(m); m.insert(rnd.randint(1, len(m)), rnd.choice(["    ", "\t", "  ", "        "]))
                lines += m + [""]; stmts.append("\n".join(m) + "\n")
        elif r < 0.92:
            e = rnd.choice(ERRORS); lines.append(e); stmts.append(e + "\n")
        elif r < 0.97:
            m = rnd.choice(MULTI_ERR); lines += m + [""]; stmts.append("\n".join(m) + "\n")
        else:
            lines.append(rnd.choice(["", "", "   ", "\t"]))      # nothing entered (empty, or white space only) at the primary prompt
    return lines, stmts

REF = r'''
import sys, json, io, contextlib
def run(stmts):
    g = {"__name__": "__main__"}
    out = []
    for s in stmts:
        buf = io.StringIO(); echo = []
        def hook(v):
            if v is None: return
            g["_"] = None
            echo.append(repr(v)); g["_"] = v
        sys.displayhook = hook
        err = ""
        try:
            code = compile(s, "<stdin>", "single")
            with contextlib.redirect_stdout(buf):
                exec(code, g)
        except SyntaxError:
            err = "compile"
        except BaseException as e:
            err = "runtime:" + type(e).__name__
        out.append({"echo": echo, "stdout": buf.getvalue(), "err": err})
    gl = {}
    for k, v in g.items():
        if k.startswith("__"): continue
        if isinstance(v, (int, str, float, bool, list, tuple, type(None))): gl[k] = repr(v)
        else: gl[k] = "<" + type(v).__name__ + ">"
    return {"stmts": out, "globals": gl}
for line in sys.stdin:
    print(json.dumps(run(json.loads(line)["stmts"]))); sys.stdout.flush()
'''

def run_impl(sessions):
    inp = "".join(json.dumps({"lines": l}) + "\n" for l, _ in sessions)
    p = subprocess.run([os.path.join(vlib.GO, "bin", "impl"), "c20"], input=inp, stdout=subprocess.PIPE, stderr=subprocess.DEVNULL, text=True, env=vlib.GOENV, timeout=900)
    return [json.loads(l) for l in p.stdout.splitlines() if l.startswith("{")]

def run_ref(sessions):
    inp = "".join(json.dumps({"stmts": s}) + "\n" for _, s in sessions)
    p = subprocess.run([sys.executable, "-c", REF], input=inp, stdout=subprocess.PIPE, stderr=subprocess.PIPE, text=True, timeout=900)
    return [json.loads(l) for l in p.stdout.splitlines() if l.startswith("{")]

def coq_check(name, rows):
    text = ("From Coq Require Import List Bool Arith. Import ListNotations.\nFrom GP Require Import Model.Repl.\n"
      "(* per session: the fed lines as (is_blank, verdict-if-compiled) and the prompts observed after each line *)\n"
      "Definition vd (n : nat) : verdict := match n with 1 => Complete | 2 => Incomplete | 3 => CompileError | _ => Ignored end.\n"
      "(* replay: the verdict of the real compiler is consumed when the model asks for one *)\n"
      "Fixpoint replay (st : rstate) (ls : list (nat * nat)) (k : nat) : list bool :=\n"
      "  match ls with [] => [] | (b, v) :: r =>\n"
      "    let l := match b with 0 => blank | 1 => white | _ => S (S k) end in\n"
      "    let '(st', _) := run_line (fun _ => vd v) st l in continuation st' :: replay st' r (S k) end.\n"
      "Definition beql (a b : list bool) := if list_eq_dec Bool.bool_dec a b then true else false.\n"
      "Definition cases : list (list (nat * nat) * list bool) := [\n" + ";\n".join(rows) + "].\n"
      "Fixpoint bad (i : nat) (l : list (list (nat * nat) * list bool)) : list nat := match l with [] => [] | (ls, obs) :: r => if beql (replay idle ls 0) obs then bad (S i) r else i :: bad (S i) r end.\n"
      "Definition M := Eval vm_compute in bad 0 cases.\nPrint M.\n")
    rc, out = vlib.coqc_run(name, text, timeout=400)
    if rc != 0: return None, out[-1200:]
    v = vlib.parse_coq_value("M " + out[out.find("M ="):].replace("M =", " =", 1)) if "M =" in out else None
    return v, out[-300:]

def check(res):
    tier, seed = res.tier, res.seed
    rnd = random.Random(seed)
    res.trusted = vlib.COMMON_TRUST + [
        "Model/Repl.v is hand-written from repl.REPL.Run; the compiler verdicts (complete / incomplete / error / ignored comment) are MEASURED on the real py.Compile for the very texts of each session and fed to the model; the hypothesis stmt_ok of C20_equiv is thereby checked on the generated statement forms only",
        "execution of the statements (echo, _, stdout, globals) is compared with CPython running the same statements one by one in 'single' mode (validated oracle, testing)"]
    res.assumptions = ["a blank line follows every multi-line statement (as the property states)", "CPython 3.11 agrees with Python 3.4 on the generated statements"]
    built, mlog = vlib.coq_make()
    p_ok = "Props/C20.vo" in built
    assum = None
    if p_ok:
        assum, _ = vlib.print_assumptions("C20", ["Props.C20"], THEOREMS)
        p_ok = assum is not None
    for t in THEOREMS:
        res.oblige("theorem " + t, p_ok, (assum or {}).get(t, "") if p_ok else "Props/C20.v does not compile")
    if assum: res.trusted.append("Print Assumptions: " + "; ".join("%s: %s" % kv for kv in assum.items()))
    sessions = [gen_session(rnd) for _ in range(400 if tier == "quick" else 10000)]
    impl = run_impl(sessions); ref = run_ref(sessions)
    mism = []; rows = []; nontrivial = 0
    vmap = {"complete": 1, "incomplete": 2, "error": 3, "": 0}
    for (lines, stmts), a, b in zip(sessions, impl, ref):
        if a.get("panic"):
            mism.append((dict(lines=lines), "<GO PANIC %s>" % a["panic"], "")); continue
        if any(l == "" for l in lines): nontrivial += 1
        # tie: prompts
        comment = lambda ln: ln.strip().startswith("#")
        rows.append("([%s], [%s])" % ("; ".join("(%s, %d)" % ("0" if ln == "" else ("1" if ln.strip() == "" else "2"), 4 if (x["verdict"] == "error" and comment(ln) and x["prompt"] == ">>> " and not x["prints"]) else vmap[x["verdict"]]) for ln, x in zip(lines, a["lines"])),
                                       "; ".join("true" if x["prompt"] == "... " else "false" for x in a["lines"])))
        # oracle: per statement echo/stdout; statements end where the REPL returns to '>>> ' after a compile
        got_echo = [p for x in a["lines"] for p in x["prints"] if not p.startswith("Compile error")]
        got_out = "".join(x["stdout"] for x in a["lines"])
        exp_echo = [e for s in b["stmts"] for e in s["echo"]]
        exp_out = "".join(s["stdout"] for s in b["stmts"])
        n_cerr = sum(1 for x in a["lines"] for p in x["prints"] if p.startswith("Compile error"))
        exp_cerr = sum(1 for s in b["stmts"] if s["err"] == "compile")
        ga = dict(echo=got_echo, stdout=got_out, compile_errors=n_cerr, globals=a["globals"], final_prompt=a["lines"][-1]["prompt"] if a["lines"] else ">>> ")
        gb = dict(echo=exp_echo, stdout=exp_out, compile_errors=exp_cerr, globals=b["globals"], final_prompt=">>> ")
        if ga != gb: mism.append((dict(lines=lines), ga, gb))
    tie_bad = []; tie_err = None
    v, log = coq_check("C20_cases", rows)
    if v is None: tie_err = log
    else: tie_bad = [sessions[i][0] for i in v]
    res.oblige("correspondence: prompts shown by repl.REPL = prompts of the model under the measured compiler verdicts, %d sessions (vm_compute)" % len(rows), tie_err is None and not tie_bad, tie_err or str(tie_bad[:2]))
    res.coverage.update(evaluations=len(sessions), distinct_nontrivial=nontrivial, programs=len(sessions),
        rule="seeded sessions of 3-13 statements (simple statements, expression statements with echo, comments, compound statements and nested blocks, multi-line brackets incl. a blank line inside brackets, lines of white space only inside blocks, triple-quoted strings, erroneous statements: syntax and run-time errors) fed one physical line at a time with a blank line after each multi-line statement; compared: prompt after every line (vs the Coq model), echoes, stdout, number of compile-error reports, final session globals incl. _ (vs CPython running the statements one by one); non-trivial = the session contains a multi-line statement",
        samples=[dict(lines=sessions[0][0], prompts=[x["prompt"] for x in impl[0]["lines"]], prints=[x["prints"] for x in impl[0]["lines"]])],
        distribution=dict(sessions=len(sessions)), oracle_disagreements=len(mism), modelled_not_verified=["py.Compile single-mode classification (measured, not modelled)", "vm.PrintExpr package variable"])
    if mism:
        case, ga, gb = mism[0]
        res.violation("counterexample", "interactive session differs from executing the statements one by one", dict(input=case, expected=gb, observed=ga, others=[dict(input=c) for c, _, _ in mism[1:5]]))
        return
    if not p_ok or tie_bad or tie_err:
        res.violation("proof-broken" if not p_ok else "tie-broken", "C20 no longer shown", dict(theorem_or_correspondence="Props/C20.v / prompt correspondence",
                      coqc_error=[l for l in mlog.splitlines() if "rror" in l][-10:], first_disagreements=tie_bad[:3], tie_error=tie_err), no_input=True)

def replay(path):
    d = json.load(open(path)); print(json.dumps(d, indent=1)[:3000]); return 1
