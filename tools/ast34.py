"""Dump a CPython 3.11 ast in the format of Python 3.4's ast.dump (the format gpython's ast.Dump
produces), for programs within the 3.4 grammar.  Raises Unsupported for constructs that are not 3.4."""
import ast

class Unsupported(Exception): pass

# gpython's ast.Dump prints the contents of str/bytes constants raw between quotes (no escaping);
# RAW switches the dumper to that convention (the comparison is still exact on the contents)
RAW = False

F34 = {
 "Module": ["body"], "Interactive": ["body"], "Expression": ["body"],
 "FunctionDef": ["name", "args", "body", "decorator_list", "returns"],
 "Return": ["value"], "Delete": ["targets"], "Assign": ["targets", "value"], "AugAssign": ["target", "op", "value"],
 "For": ["target", "iter", "body", "orelse"], "While": ["test", "body", "orelse"], "If": ["test", "body", "orelse"],
 "With": ["items", "body"], "Raise": ["exc", "cause"], "Try": ["body", "handlers", "orelse", "finalbody"], "Assert": ["test", "msg"],
 "Import": ["names"], "ImportFrom": ["module", "names", "level"], "Global": ["names"], "Nonlocal": ["names"], "Expr": ["value"],
 "Pass": [], "Break": [], "Continue": [],
 "BoolOp": ["op", "values"], "BinOp": ["left", "op", "right"], "UnaryOp": ["op", "operand"], "Lambda": ["args", "body"], "IfExp": ["test", "body", "orelse"],
 "Dict": ["keys", "values"], "Set": ["elts"], "ListComp": ["elt", "generators"], "SetComp": ["elt", "generators"], "DictComp": ["key", "value", "generators"], "GeneratorExp": ["elt", "generators"],
 "Yield": ["value"], "YieldFrom": ["value"], "Compare": ["left", "ops", "comparators"],
 "Attribute": ["value", "attr", "ctx"], "Starred": ["value", "ctx"], "Name": ["id", "ctx"], "List": ["elts", "ctx"], "Tuple": ["elts", "ctx"],
 "comprehension": ["target", "iter", "ifs"], "ExceptHandler": ["type", "name", "body"],
 "arguments": ["args", "vararg", "kwonlyargs", "kw_defaults", "kwarg", "defaults"], "arg": ["arg", "annotation"],
 "keyword": ["arg", "value"], "alias": ["name", "asname"], "withitem": ["context_expr", "optional_vars"],
}
SIMPLE = {"Load", "Store", "Del", "And", "Or", "Add", "Sub", "Mult", "Div", "Mod", "Pow", "LShift", "RShift", "BitOr", "BitXor", "BitAnd", "FloorDiv",
          "Invert", "Not", "UAdd", "USub", "Eq", "NotEq", "Lt", "LtE", "Gt", "GtE", "Is", "IsNot", "In", "NotIn"}

def d(n):
    if n is None: return "None"
    if isinstance(n, list): return "[" + ", ".join(d(x) for x in n) + "]"
    if isinstance(n, (str, int)) and not isinstance(n, ast.AST): return repr(n)
    name = type(n).__name__
    if name in SIMPLE: return name + "()"
    if name == "Constant":
        v = n.value
        if v is True or v is False or v is None: return "NameConstant(value=%r)" % (v,)
        if v is Ellipsis: return "Ellipsis()"
        if isinstance(v, str): return ("Str(s='%s')" % v) if RAW else "Str(s=%r)" % v
        if isinstance(v, bytes):
            if RAW:
                if any(b >= 128 for b in v): raise Unsupported("bytes constant with a byte above 127 (not representable in the JSON transport)")
                return "Bytes(s=b'%s')" % v.decode("ascii")
            return "Bytes(s=%r)" % v
        if isinstance(v, (int, float, complex)): return "Num(n=%r)" % (v,)
        raise Unsupported("constant " + repr(v))
    if name == "Subscript":
        return "Subscript(value=%s, slice=%s, ctx=%s)" % (d(n.value), sl(n.slice), d(n.ctx))
    if name == "Slice": return sl(n)
    if name in ("Call", "ClassDef"):
        args = n.args if name == "Call" else n.bases
        pos = []; star = None; kw = []; kwargs = None
        for a in args:
            if isinstance(a, ast.Starred):
                if star is not None: raise Unsupported("two *args")
                star = a.value
            else:
                if star is not None: raise Unsupported("positional after *args")
                pos.append(a)
        for k in n.keywords:
            if k.arg is None:
                if kwargs is not None: raise Unsupported("two **kwargs")
                kwargs = k.value
            else:
                if kwargs is not None: raise Unsupported("keyword after **kwargs")
                kw.append(k)
        if name == "Call":
            return "Call(func=%s, args=%s, keywords=%s, starargs=%s, kwargs=%s)" % (d(n.func), d(pos), d(kw), d(star), d(kwargs))
        return "ClassDef(name=%r, bases=%s, keywords=%s, starargs=%s, kwargs=%s, body=%s, decorator_list=%s)" % (n.name, d(pos), d(kw), d(star), d(kwargs), d(n.body), d(n.decorator_list))
    if name == "arguments" and n.posonlyargs: raise Unsupported("positional-only parameters")
    if name == "comprehension" and n.is_async: raise Unsupported("async comprehension")
    if name == "Dict" and any(k is None for k in n.keys): raise Unsupported("dict unpacking")
    if name not in F34: raise Unsupported(name)
    return "%s(%s)" % (name, ", ".join("%s=%s" % (f, d(getattr(n, f))) for f in F34[name]))

def sl(s):
    if isinstance(s, ast.Slice): return "Slice(lower=%s, upper=%s, step=%s)" % (d(s.lower), d(s.upper), d(s.step))
    if isinstance(s, ast.Tuple) and any(isinstance(e, ast.Slice) for e in s.elts):
        return "ExtSlice(dims=[%s])" % ", ".join(sl(e) for e in s.elts)
    return "Index(value=%s)" % d(s)

def dump(src, mode="exec"):
    return d(ast.parse(src, mode={"exec": "exec", "eval": "eval", "single": "single"}[mode]))
