# statement/expression forms outside the model: each is a block of code run after `del log[:]`; it prints
# its results and the log.  u(i) = t(i) but returns i itself (usable as index / truth value).
FORMS_PRE = '''def u(i):
    log.append(('u', i))
    return i
def f(*a, **k):
    log.append('f')
    return (a, [(n, k[n]) for n in sorted(k)])
def R(n):
    log.append(('R', n))
    return range(n)
class CM:
    def __init__(self, tag): self.tag = tag; log.append(('init', tag))
    def __enter__(self): log.append(('enter', self.tag)); return self.tag
    def __exit__(self, a, b, c): log.append(('exit', self.tag)); return False
def dec(tag):
    log.append(('dec', tag))
    def wrap(fn):
        log.append(('apply', tag))
        return fn
    return wrap
class O: pass
'''
FORMS = [
 "def gen():\n    for i in (1, 2, 3, 4):\n        log.append(('gen', i))\n        yield i\ng = gen()\nprint(2 in g, log)\nprint(next(g), 9 in g, log)\nprint(next(g, 'end'))",
 "def gen():\n    for i in (1, 2, 3):\n        log.append(('gen', i))\n        yield i\nprint(u(1) in gen(), u(2) not in gen(), u(7) in gen(), log)",
 "it = iter([u(1), u(2), u(3), u(4)])\nprint(u(2) in it, list(it), log)",
 "class S:\n    def __getitem__(self, i):\n        log.append(('item', i))\n        if i > 3: raise IndexError\n        return i * 10\nprint(10 in S(), 25 in S(), 20 not in S(), log)",
 "class I:\n    def __iter__(self):\n        log.append('iter')\n        return iter([t(1), t(2), t(3)])\nprint(t(1) in I(), t(9) in I(), log)",
 "def gen():\n    for i in (1, 2, 3):\n        log.append(('gen', i))\n        yield i\nprint(u(0) < u(1) in gen() != u(5), log)",
 "m = map(u, [1, 2, 3])\nprint(1 in m, list(m), log)\nz = zip([u(1), u(2)], [u(3), u(4)])\nprint((1, 3) in z, list(z), log)",
 # mixed int / float / bool comparisons with equal and unequal values, every operator, both operand orders; chains
 "vals = [0, 1, 2, -1, True, False, 0.0, -0.0, 1.0, 2.0, 2.5, -1.0]\nfor op in ('<', '<=', '==', '!=', '>', '>='):\n    print(op, ''.join('1' if eval('a %s b' % op, {'a': a, 'b': b}) else '0' for a in vals for b in vals))",
 "print(u(2) <= 2.0 <= u(3), u(2) >= 2.0 >= u(3), 2.0 <= u(2) < 2.5 <= u(2), u(0) <= -0.0 <= u(1), u(1) <= True <= 1.0 <= u(1), log)",
 "print(u(0) <= u(5) <= 5.0, u(0) <= 5.0 <= u(5) <= 4.5 <= u(9), u(3) >= 3.0 > u(2) >= 2.0 >= u(2), log)",
 "print(f(t(1), t(2), k=t(3), j=t(4)), log)",
 "print(f(t(1), *[t(2), t(3)]), log)",
 "print(f(t(1), k=t(4), **{'z': t(5)}), log)",
 "print(f(*[t(1)], **dict(a=t(2), b=t(3))), log)",
 "print(f(k=t(1), j=t(2), i=t(3)), log)",
 "print(f(f(t(1), a=t(2)), f(t(3)), b=f(t(4))), log)",
 "print(sorted({t(1), t(2), t(3)}), log)",
 "print([t(x) for x in (u(1), u(2)) if u(x)], log)",
 "print([t(x) for x in (u(0), u(2), u(0))if u(x)], log)",
 "print([(x, y) for x in R(u(2)) for y in R(u(x + 1))], log)",
 "print([(x, y) for x in R(2) if u(x) for y in R(2) if u(y)], log)",
 "print(list(t(x) for x in R(u(3))), log)",
 "print(sorted({t(x) for x in R(3)}), log)",
 "print([[u(i) * u(j) for j in R(2)] for i in R(2)], log)",
 "print(L[u(0):u(2)], log)",
 "print(L[u(0):u(3):u(2)], log)",
 "print([L, L][u(1)][u(0):u(1)], log)",
 "M = [1, 2, 3, 4]\nM[u(1):u(3)] = [t(1), t(2), t(3)]\nprint(M, log)",
 "M = [1, 2, 3, 4]\nM[u(0)], M[u(1)] = t(3), t(4)\nprint(M, log)",
 "M = [1, 2, 3, 4]\ndel M[u(2)], M[u(0)]\nprint(M, log)",
 "M = [1, 2, 3, 4]\ndel M[u(1):u(3)]\nprint(M, log)",
 "M = [[1, 2], [3, 4]]\nM[u(1)][u(0)] += t(5)\nprint(M, log)",
 "M = [1, 2, 3]\nM[u(0)] = M[u(1)] = M[u(2)] = t(4)\nprint(M, log)",
 "o = O()\no.a = t(1)\no.a += t(2)\n[o][u(0)].a *= t(3)\nprint(o.a, log)",
 "with CM(t(1)) as a, CM(t(2)) as b:\n    log.append('body')\nprint(a, b, log)",
 "with CM(t(1)) as a:\n    with CM(t(2)) as b:\n        log.append('body')\nprint(a, b, log)",
 "try:\n    with CM(t(1)), CM(t(2)):\n        1 / u(0)\nexcept ZeroDivisionError:\n    print('zde', log)",
 "def g1(a=t(1), b=t(2), *, c=t(3), d=t(4)):\n    return (a, b, c, d)\nprint(g1(), log)",
 "h = lambda a=t(1), *, b=t(2): (a, b)\nprint(h(), h(t(3)), h(b=t(4)), log)",
 "@dec(t(1))\n@dec(t(2))\ndef g2():\n    return 1\nprint(g2(), log)",
 "@dec(t(1))\n@dec(t(2))\ndef g2d(a, b=t(3), *c, k=t(4), **kw):\n    return (a, b, c, k)\nprint(g2d(0), g2d(1, 2, 3, k=5), log)",
 "@dec(t(1))\ndef g2e(a=t(2), b=t(3)):\n    return (a, b)\nprint(g2e(), g2e(9), log)",
 "class KD:\n    @dec(t(1))\n    def m(self, v=t(2), *, w=t(3)):\n        return (v, w)\n    @staticmethod\n    def s(a=t(4)):\n        return a\n    @classmethod\n    def c(cls, a=t(5)):\n        return a\nprint(KD().m(), KD.s(), KD.c(), log)",
 "@dec(t(1))\nclass K1(O):\n    x = t(2)\nprint(K1.x, log)",
 "def base(i):\n    log.append(('base', i))\n    return O\nclass K2(base(1)):\n    y = t(3)\nprint(K2.y, log)",
 "print(t(1), t(2), sep=str(t(3)))\nprint(log)",
 "print('%s-%s' % (t(1), t(2)), '%d' % t(3), log)",
 "print(t(1) if u(1) else t(2), t(3) if u(0) else t(4), log)",
 "print(u(1) < u(2) in [u(2)], u(3) is not u(3) == u(3), u(5) > u(4) > u(6) > u(9), log)",
 "print(u(0) or u(0) or u(3) and u(4), u(1) and u(0) and u(5), not u(0) or u(7), log)",
 "print(u(2) ** u(3) ** u(2), -u(2) ** u(2), (u(1), u(2)) + (u(3),), log)",
 "print((lambda a, b: (a, b))(t(1), t(2)), (lambda *a: a)(*[t(3), t(4)]), log)",
 "for x in R(u(2)):\n    t(x)\nelse:\n    t(9)\nprint(log)",
 "i = 0\nwhile u(i) < u(2):\n    i += u(1)\nelse:\n    t(8)\nprint(i, log)",
 "def g3():\n    x = yield t(1)\n    log.append(('got', x))\n    y = yield t(2)\n    log.append(('got', y))\nit = g3()\nprint(next(it), it.send(u(5)), log)",
 "def g4():\n    return t(1), t(2)\na, b = g4()\nprint(a, b, log)",
 "try:\n    raise ValueError(t(1), t(2))\nexcept ValueError as e:\n    print(e.args, log)",
 "try:\n    assert u(0), t(1)\nexcept AssertionError as e:\n    print(e.args, log)",
 "assert u(1), t(1)\nprint(log)",
 "x = y = z = t(1)\nprint(x, y, z, log)",
 "a, b = t(1), t(2)\na, b = b, a\nprint(a, b, log)",
 "(a, b), c = (t(1), t(2)), t(3)\nprint(a, b, c, log)",
 "a, *b = t(1), t(2), t(3)\n*c, d = [t(4), t(5)]\nprint(a, b, c, d, log)",
 "for a, (b, c) in [(t(1), (t(2), t(3)))]:\n    print(a, b, c, log)",
 "print([u(1), u(2), u(3)][u(1)], (u(4), u(5))[u(0)], 'abc'[u(2)], log)",
 "print(str(t(1)).join([str(t(2)), str(t(3))]), log)",
 "d = {}\nd[str(t(1))] = t(2)\nd[str(t(3))] = d[str(1 * t(1))] + t(4)\nprint([(n, d[n]) for n in sorted(d)], log)",
 "print(u(1) in [u(0), u(1)], u(2) not in (u(2),), log)",
 "print(max(t(1), t(2)), min(t(3), t(4), t(5)), abs(t(6)), log)",
 "print(f(*R(u(2)), **{'a': u(1)}), log)",
 "print(f(t(1))[u(0)], f(k=t(2))[u(1)][u(0)], log)",
 "if u(0):\n    t(1)\nelif u(1):\n    t(2)\nelse:\n    t(3)\nprint(log)",
 "print(t(1) + t(2) * t(3) - t(4) // (abs(t(5)) + 1) % (abs(t(6)) + 1), log)",
 "print((t(1), t(2))[u(0):u(1)] + (t(3),) * u(2), log)",
 "print(~u(1) & u(6) | u(8) ^ u(3) << u(1) >> u(0), log)",
 "def g5(a, b=2, *c, d, e=5, **k):\n    return (a, b, c, d, e, [(n, k[n]) for n in sorted(k)])\nprint(g5(t(1), d=t(2)), g5(t(1), t(2), t(3), t(4), d=t(5), z=t(6)), log)",
 "def outer():\n    a = t(1)\n    def inner(b=t(2)):\n        return a + b + t(3)\n    return inner\nprint(outer()(), log)",
 "print(list(map(lambda x: t(x), [u(1), u(2)])), log)",
 "print(list(zip([t(1), t(2)], (t(3), t(4)))), log)",
 "x = [t(1), t(2)]\nx += [t(3)]\nx *= u(2)\nprint(x, log)",
 "x = t(1)\nx -= t(2) * t(3)\nx //= abs(t(4)) + 1\nprint(x, log)",
 "print(isinstance(t(1), int), len([t(2), t(3)]), log)",
 "print(u(1) if u(0) else u(2) if u(0) else u(3), log)",
 "print([u(1), u(2)] == [u(1), u(2)], (u(1),) < (u(2),) if False else 0, log)",
 "global_v = t(1)\ndef g6():\n    global global_v\n    global_v += t(2)\n    return global_v\nprint(g6(), log)",
 "def g7():\n    v = t(1)\n    def bump():\n        nonlocal v\n        v += t(2)\n        return v\n    return bump() + bump()\nprint(g7(), log)",
 "try:\n    try:\n        t(1)\n        1 / u(0)\n    finally:\n        t(2)\nexcept ZeroDivisionError:\n    t(3)\nprint(log)",
 "def g8():\n    try:\n        return t(1)\n    finally:\n        t(2)\nprint(g8(), log)",
 "def g9():\n    for i in R(u(3)):\n        if u(i) == 1:\n            continue\n        if u(i) == 2:\n            break\n        t(i)\n    return t(7)\nprint(g9(), log)",
]
