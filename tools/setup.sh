#!/bin/sh
# Build the framework from files on disk only (offline).
set -e
cd "$(dirname "$0")/.."
export GOFLAGS=-mod=mod GOPROXY=off GOSUMDB=off GOTOOLCHAIN=local
python3 - <<'PY'
import sys, os
sys.path.insert(0, "tools")
import vlib
err = vlib.go_build()
if err:
    print(err); sys.exit(1)
# regenerate everything that is generated, then a clean full .vo build
import regen
regen.regen_all()
vlib.sh("rm -f */*.vo */*.vok */*.vos */*.glob */.*.aux Makefile Makefile.conf .Makefile.d _CoqProject", cwd=vlib.COQ)
built, log = vlib.coq_make()
print(log[-3000:])
print("built %d .vo files" % len(built))
PY
# no axioms / admitted proofs anywhere in the development
if grep -rnE '\b(Admitted|admit|Axiom|Parameter|Conjecture|Unset Guard|bypass_check|Admit Obligations)\b' coq --include=*.v | grep -v '^coq/Run/'; then
  echo "forbidden construct in the Coq development"; exit 1
fi
echo setup ok
