#!/usr/bin/env python3
"""One entry point for every property:  check.py Cxx --tier quick|thorough [--replay path]"""
import argparse, importlib, os, sys
sys.path.insert(0, os.path.dirname(os.path.abspath(__file__)))
import vlib

def main():
    ap = argparse.ArgumentParser()
    ap.add_argument("prop")
    ap.add_argument("--tier", default=os.environ.get("VERIF_TIER", "quick"))
    ap.add_argument("--replay")
    a = ap.parse_args()
    seed = int(os.environ.get("VERIF_SEED", "1"))
    tier = a.tier if a.tier in ("quick", "thorough") else "quick"
    mod = importlib.import_module("props." + a.prop.lower())
    if a.replay:
        sys.exit(mod.replay(a.replay))
    res = vlib.Result(a.prop, tier, seed)
    err = vlib.go_build()
    if err:
        res.oblige("harness builds against /repo", False, err[-2000:])
        res.violation("tie-broken", "the verification harness no longer builds against /repo",
                      dict(theorem_or_correspondence="go build of /verif/go against /repo", error=err[-4000:]),
                      no_input=True)
        sys.exit(res.finish())
    res.oblige("verification harness and extractors build against /repo's working tree", True, "")
    mod.check(res)
    if tier == "thorough" and not os.environ.get("VERIF_NO_COQCHK"):
        ok, axioms, tail = vlib.coqchk(a.prop)
        res.oblige("coqchk -silent -o re-checks Props.%s and every library it depends on" % a.prop, ok, axioms[:1500] if ok else tail)
        if ok: res.trusted.append("coqchk context summary: " + " ".join(axioms.split())[:1200])
        elif not res.violations:
            res.violation("proof-broken", "coqchk rejects the compiled development", dict(theorem_or_correspondence="coqchk GP.Props." + a.prop, log=tail), no_input=True)
    sys.exit(res.finish())

if __name__ == "__main__":
    main()
