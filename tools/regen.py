"""Regeneration of coq/Gen/*.v from /repo's working tree (run by every check and by setup)."""
import os
import vlib

def regen_all():
    out = {}
    gen = os.path.join(vlib.COQ, "Gen")
    os.makedirs(gen, exist_ok=True)
    out["go2v"] = vlib.run_tool("go2v", ["-repo", vlib.REPO, "-out", gen])
    out["lifecycle"] = vlib.run_tool("extract", ["-repo", vlib.REPO, "-out", gen, "-what", "lifecycle"])
    out["itertests"] = vlib.run_tool("extract", ["-repo", vlib.REPO, "-out", gen, "-what", "itertests"])
    out["opcodes"] = vlib.run_tool("extract", ["-repo", vlib.REPO, "-out", gen, "-what", "opcodes"])
    out["inventories"] = regen_inventories()
    return out

def regen_inventories():
    """type-checked inventories; the source importer needs /repo as working directory"""
    import os
    gen = os.path.join(vlib.COQ, "Gen")
    with vlib.Lock(os.path.join(vlib.GO, ".inv.lock")):
        return vlib.sh([os.path.join(vlib.GO, "bin", "extract"), "-repo", vlib.REPO, "-out", gen, "-what", "inventories"],
                       cwd=vlib.REPO, env=vlib.GOENV, timeout=600)
