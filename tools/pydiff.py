"""Differential execution of Python snippets: implementation (impl runpy) vs CPython reference."""
import json, os, subprocess, sys, concurrent.futures
import vlib

def _case(x, mode):
    if isinstance(x, dict): return dict(x, mode=x.get("mode", mode))
    return {"src": x, "mode": mode}

def run_impl(srcs, mode="exec", workers=16):
    """returns list of result dicts aligned with srcs; a crashing worker yields {'crash':...} for
    the offending case and the rest are re-run"""
    results = [None] * len(srcs)
    def work(idx_list):
        pending = list(idx_list)
        while pending:
            inp = "".join(json.dumps(_case(srcs[i], mode)) + "\n" for i in pending)
            p = subprocess.run("ulimit -v 8000000; exec %s runpy" % os.path.join(vlib.GO, "bin", "impl"), shell=True,
                               input=inp, stdout=subprocess.PIPE, stderr=subprocess.PIPE, text=True, env=vlib.GOENV, timeout=3000)
            lines = [l for l in p.stdout.splitlines() if l.startswith("{")]
            for k, l in enumerate(lines):
                results[pending[k]] = json.loads(l)
            if len(lines) >= len(pending):
                break
            if lines and results[pending[len(lines) - 1]].get("hang"):
                pending = pending[len(lines):]      # the worker stops after reporting a hang: go on with the rest
                continue
            bad = pending[len(lines)]      # the case the worker died on
            err_text = p.stderr or ""
            m = __import__("re").search(r"(fatal error: [^\n]*|panic: [^\n]*)", err_text)
            results[bad] = {"out": "", "err": "ProcessCrash", "crash": ((m.group(1) + " | ") if m else "") + err_text[-400:].replace("\n", " | "), "rc": p.returncode}
            pending = pending[len(lines) + 1:]
    chunks = [list(range(len(srcs)))[i::workers] for i in range(workers)]
    with concurrent.futures.ThreadPoolExecutor(workers) as ex:
        list(ex.map(work, [c for c in chunks if c]))
    return results

def run_ref(srcs, mode="exec", workers=8):
    results = [None] * len(srcs)
    def work(idx_list):
        pending = list(idx_list)
        while pending:
            inp = "".join(json.dumps(_case(srcs[i], mode)) + "\n" for i in pending)
            p = subprocess.run([sys.executable, os.path.join(vlib.VERIF, "tools", "pyref.py")], input=inp,
                               stdout=subprocess.PIPE, stderr=subprocess.PIPE, text=True, timeout=6000)
            lines = [l for l in p.stdout.split("\n") if l.startswith("{")]
            for k, l in enumerate(lines):
                results[pending[k]] = json.loads(l)
            if len(lines) >= len(pending) or not lines or not results[pending[len(lines) - 1]].get("hang"):
                break
            pending = pending[len(lines):]      # the reference stopped after reporting a non-terminating program
    chunks = [list(range(len(srcs)))[i::workers] for i in range(workers)]
    with concurrent.futures.ThreadPoolExecutor(workers) as ex:
        list(ex.map(work, [c for c in chunks if c]))
    return [r or {"out": "", "err": "RefCrash"} for r in results]
