#!/usr/bin/env python3
"""Reference runner (CPython): same JSON protocol as `impl runpy`.  Used as a validated oracle
on the fragment where Python 3.4 and this CPython agree."""
import sys, json, io, contextlib, traceback, gc
def run(c):
    out = io.StringIO(); res = {"out": "", "err": ""}
    g = {"__name__": "__main__"}
    d = None; before = set(sys.modules)
    if c.get("files"):
        import tempfile, os
        sys.dont_write_bytecode = True
        d = tempfile.mkdtemp(prefix="verif-mods-")
        for name, text in c["files"].items():
            open(os.path.join(d, name), "w").write(text)
        sys.path.insert(0, d)
        import importlib; importlib.invalidate_caches()
    try:
        code = compile(c["src"], "<case>", c.get("mode") or "exec")
        with contextlib.redirect_stdout(out), contextlib.redirect_stderr(out):
            exec(code, g) if (c.get("mode") or "exec") != "eval" else eval(code, g)
    except BaseException as e:
        res["err"] = type(e).__name__
        tb = e.__traceback__; lines = []
        while tb is not None:
            if tb.tb_frame.f_code.co_filename == "<case>":
                lines.append(tb.tb_lineno)
            tb = tb.tb_next
        res["tb"] = lines
    res["out"] = out.getvalue()
    if d:
        import shutil
        sys.path.remove(d); shutil.rmtree(d, ignore_errors=True)
        for k in list(sys.modules):
            if k not in before: del sys.modules[k]
    # finalise leftover generators now (their finally blocks may print), not during the next case
    with contextlib.redirect_stdout(io.StringIO()):
        g.clear(); gc.collect()
    return res
import signal, os
def _hang(sig, frm):
    # the reference itself does not terminate on this program: say so and stop (the orchestrator goes on with the rest)
    sys.__stdout__.write(json.dumps({"out": "", "err": "Hang", "hang": True}) + "\n"); sys.__stdout__.flush(); os._exit(3)
signal.signal(signal.SIGALRM, _hang)
for line in sys.stdin:
    if line.strip():
        signal.alarm(120)
        try:
            print(json.dumps(run(json.loads(line))))
        except RecursionError:
            print(json.dumps({"out": "", "err": "RecursionError"}))
        sys.stdout.flush()
