"""Shared machinery of the checks: regeneration, Coq build, Go build, evidence, verdict."""
import fcntl, glob, hashlib, json, os, re, subprocess, sys, time

VERIF = os.path.dirname(os.path.dirname(os.path.abspath(__file__)))
REPO = os.environ.get("VERIF_REPO", "/repo")
COQ = os.path.join(VERIF, "coq")
GO = os.path.join(VERIF, "go")
EVID = os.path.join(VERIF, "evidence")

GOENV = dict(os.environ, GOFLAGS="-mod=mod", GOPROXY="off", GOSUMDB="off", GOTOOLCHAIN="local",
             CGO_ENABLED=os.environ.get("CGO_ENABLED", "1"))

def log(*a):
    print(*a, file=sys.stderr, flush=True)

def sh(cmd, cwd=None, env=None, timeout=1800, input=None):
    """run, return (rc, stdout+stderr)"""
    try:
        p = subprocess.run(cmd, cwd=cwd, env=env, timeout=timeout, input=input,
                           stdout=subprocess.PIPE, stderr=subprocess.STDOUT, text=True,
                           shell=isinstance(cmd, str))
        return p.returncode, p.stdout
    except subprocess.TimeoutExpired as e:
        out = e.stdout if isinstance(e.stdout, str) else (e.stdout or b"").decode("utf8", "replace")
        return 124, (out or "") + "\nTIMEOUT"

class Lock:
    def __init__(self, path): self.path = path
    def __enter__(self):
        self.f = open(self.path, "w"); fcntl.flock(self.f, fcntl.LOCK_EX); return self
    def __exit__(self, *a):
        fcntl.flock(self.f, fcntl.LOCK_UN); self.f.close()

# ---------------------------------------------------------------- Go side
def go_build():
    """(re)build the harness tools against /repo's working tree; returns error text or ''"""
    os.makedirs(os.path.join(GO, "bin"), exist_ok=True)
    sumf = os.path.join(GO, "go.sum")
    try:
        src = open(os.path.join(REPO, "go.sum")).read()
        if not os.path.exists(sumf) or open(sumf).read() != src:
            open(sumf, "w").write(src)
    except OSError:
        pass
    errs = ""
    with Lock(os.path.join(GO, ".lock")):
        for name, tags in (("extract", ""), ("go2v", ""), ("impl", "verif")):
            if not os.path.isdir(os.path.join(GO, "cmd", name)):
                continue
            cmd = ["go", "build"] + (["-tags", tags] if tags else []) + ["-o", "bin/" + name, "./cmd/" + name]
            rc, out = sh(cmd, cwd=GO, env=GOENV, timeout=900)
            if rc != 0:
                errs += "go build %s failed:\n%s\n" % (name, out)
    return errs

def go_build_race():
    """the race-detector build of the harness (C08, C10); returns error text or ''"""
    with Lock(os.path.join(GO, ".lock")):
        rc, out = sh(["go", "build", "-race", "-tags", "verif", "-o", "bin/impl_race", "./cmd/impl"], cwd=GO, env=GOENV, timeout=1200)
    return "" if rc == 0 else "go build -race failed:\n" + out

def run_tool(name, args, input=None, timeout=1800):
    return sh([os.path.join(GO, "bin", name)] + args, cwd=GO, env=GOENV, input=input, timeout=timeout)

# ---------------------------------------------------------------- Coq side
def coq_files():
    fs = []
    for d in ("Base", "Gen", "Model", "Spec", "Proofs", "Props"):
        fs += sorted(glob.glob(os.path.join(COQ, d, "*.v")))
    return [os.path.relpath(f, COQ) for f in fs]

def coq_make(targets=None, timeout=3000):
    """full .vo build with make -k; returns (built:set of .vo relpaths, log)"""
    with Lock(os.path.join(COQ, ".lock")):
        files = coq_files()
        proj = "-Q . GP\n" + "\n".join(files) + "\n"
        pf = os.path.join(COQ, "_CoqProject")
        if not os.path.exists(pf) or open(pf).read() != proj or not os.path.exists(os.path.join(COQ, "Makefile")):
            open(pf, "w").write(proj)
            rc, out = sh(["coq_makefile", "-f", "_CoqProject", "-o", "Makefile"], cwd=COQ)
            if rc != 0:
                return set(), out
        tg = targets or []
        rc, out = sh(["make", "-k", "-j16"] + tg, cwd=COQ, timeout=timeout)
        built = set(f[:-2] + ".vo" for f in files if os.path.exists(os.path.join(COQ, f[:-2] + ".vo"))
                    and os.path.getmtime(os.path.join(COQ, f[:-2] + ".vo")) >= os.path.getmtime(os.path.join(COQ, f)))
        return built, out

def coqc_run(name, text, timeout=1200):
    """compile a per-run file coq/Run/<name>.v; returns (rc, output)"""
    d = os.path.join(COQ, "Run"); os.makedirs(d, exist_ok=True)
    p = os.path.join(d, name + ".v")
    open(p, "w").write(text)
    return sh(["coqc", "-Q", ".", "GP", "Run/" + name + ".v"], cwd=COQ, timeout=timeout)

def print_assumptions(prop, requires, theorems):
    """kernel confirms each theorem exists; returns {theorem: assumptions-text} or None on failure"""
    text = "".join("From GP Require Import %s.\n" % r for r in requires)
    for t in theorems:
        text += 'Goal True. idtac "@@%s". Abort.\nPrint Assumptions %s.\n' % (t, t)
    rc, out = coqc_run(prop + "_assum", text)
    if rc != 0:
        return None, out
    res = {}; cur = None
    for line in out.splitlines():
        if line.startswith("@@"):
            cur = line[2:]; res[cur] = ""
        elif cur is not None:
            res[cur] += line.strip() + " "
    return {k: v.strip() for k, v in res.items()}, out

def coqchk(prop, timeout=3000):
    """independent re-check of the compiled Props module and everything it depends on;
    returns (ok, axioms-text, log-tail)"""
    with Lock(os.path.join(COQ, ".lock")):
        rc, out = sh(["coqchk", "-silent", "-o", "-Q", ".", "GP", "GP.Props." + prop], cwd=COQ, timeout=timeout)
    ax = ""
    if "Axioms:" in out or "axioms" in out.lower():
        i = out.find("CONTEXT SUMMARY")
        ax = out[i:] if i >= 0 else out[-1500:]
    return rc == 0, ax.strip(), out[-1500:]

def parse_coq_value(out):
    """parse the value printed by `Eval vm_compute in ...` / Print: nested lists/tuples of nats,
    bools, strings -> python objects (first ' = ' block)."""
    m = re.search(r"=\s(.*?)\n\s*:\s", out, re.S)
    if not m:
        return None
    s = m.group(1)
    s = re.sub(r"%\w+", "", s)
    s = s.replace(";", ",").replace("true", "True").replace("false", "False")
    s = re.sub(r"\bSome\b", "", s).replace("None", "None")
    try:
        return eval(s, {"__builtins__": {}}, {"True": True, "False": False, "None": None})
    except Exception:
        return None

# ---------------------------------------------------------------- findings / verdict
def load_findings(prop):
    try:
        d = json.load(open(os.path.join(VERIF, "known-findings.json")))
    except OSError:
        return []
    return [f for f in d.get("findings", []) if f.get("property") == prop]

class Result:
    def __init__(self, prop, tier, seed):
        self.prop, self.tier, self.seed = prop, tier, seed
        self.t0 = time.time()
        self.obligations = []      # (name, discharged: bool, detail)
        self.violations = []       # dict(kind, summary, replay-dict)
        self.known = []            # strings
        self.coverage = {}
        self.assumptions = []
        self.trusted = []
        self.checker_cmd = "make -k -j16 (coq_makefile, full .vo build) in /verif/coq + coqc on per-run files"
        self.notes = []

    def oblige(self, name, ok, detail=""):
        self.obligations.append((name, bool(ok), detail))

    def violation(self, kind, summary, replay, no_input=False):
        self.violations.append(dict(kind=kind, summary=summary, replay=replay, no_input=no_input))

    def finish(self):
        os.makedirs(os.path.join(EVID, "replay"), exist_ok=True)
        lines = []
        for v in self.violations:
            body = dict(property=self.prop, kind=v["kind"], summary=v["summary"], **v["replay"])
            h = hashlib.sha1(json.dumps(body, sort_keys=True, default=str).encode()).hexdigest()[:10]
            path = os.path.join(EVID, "replay", "%s-%s.json" % (self.prop, h))
            json.dump(body, open(path, "w"), indent=1, default=str)
            lines.append("VIOLATION property=%s replay=%s%s" % (self.prop, path,
                         " no-failing-input-found" if v["no_input"] else ""))
        for k in self.known:
            print("KNOWN-FINDING: property=%s %s" % (self.prop, k))
        nob = len(self.obligations); ndis = sum(1 for o in self.obligations if o[1])
        cov = dict(self.coverage)
        cov.update(obligations=max(nob, 1), discharged=ndis, checker_cmd=self.checker_cmd,
                   trusted_base=self.trusted,
                   obligation_list=[dict(name=n, discharged=ok, detail=d) for n, ok, d in self.obligations])
        cov.setdefault("evaluations", 0); cov.setdefault("distinct_nontrivial", 0)
        cov.setdefault("samples", [])
        ev = dict(property_id=self.prop, tier=self.tier, seed=self.seed, level="proof", coverage=cov,
                  assumptions=self.assumptions, wall_s=round(time.time() - self.t0, 2),
                  violations=len(self.violations), known_findings=self.known, notes=self.notes)
        os.makedirs(EVID, exist_ok=True)
        json.dump(ev, open(os.path.join(EVID, self.prop + ".json"), "w"), indent=1, default=str)
        for l in lines:
            print(l)
        sys.stdout.flush()
        return 1 if lines else 0

COMMON_TRUST = [
    "Coq 8.16.1 kernel (coqc); vm_compute used for finite obligations and witnesses; native_compute not used",
    "extractors/translator in /verif/go/cmd (extract, go2v) and the correspondence harness cmd/impl",
    "Go toolchain, math/big, strconv, sync implement their documentation",
]
