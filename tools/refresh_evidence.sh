#!/bin/sh
# Re-run every quick check on the CLEAN /repo tree so that the committed evidence describes it.
cd "$(dirname "$0")/.."
if [ -n "$(git -C /repo status --porcelain)" ]; then echo "/repo is not clean"; exit 1; fi
rc=0
for p in C01 C02 C03 C04 C05 C06 C07 C08 C09 C10 C11 C12 C13 C14 C15 C16 C17 C18 C19 C20; do
  out=$(python3 tools/check.py $p --tier quick 2>&1); r=$?
  echo "$p rc=$r $(echo "$out" | grep -c '^KNOWN-FINDING') known $(echo "$out" | grep '^VIOLATION')"
  [ $r -ne 0 ] && rc=1
done
python3 - <<'PY'
import json, glob
for f in sorted(glob.glob('evidence/C*.json')):
    d = json.load(open(f)); c = d['coverage']
    if c['obligations'] != c['discharged'] or d['violations']: print("NOT CLEAN", f, c['obligations'], c['discharged'], d['violations'])
PY
exit $rc
