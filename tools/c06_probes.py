"""C06: statements that lack a required part, clauses in the wrong place, and texts that end inside a
continuation.  (mode, text) pairs; CPython's parser is the oracle."""
B = "\\"
EXEC = [
    "try:\n    x = 1\ny = 2\n", "try:\n    x = 1\n", "try:\n    x = 1\nelse:\n    y = 2\n", "try:\n    x = 1\nelse:\n    y = 2\nfinally:\n    z = 3\n",
    "try:\n    x = 1\nfinally:\n    y = 2\n", "try:\n    x = 1\nexcept E:\n    y = 2\nelse:\n    z = 3\nfinally:\n    w = 4\n", "def f():\n    try:\n        return 1\n    return 2\n",
    "for i in y:\n    try:\n        break\n", "try:\n    pass\nexcept:\n    pass\nexcept E:\n    pass\n", "try:\n    pass\nfinally:\n    pass\nexcept E:\n    pass\n",
    "try:\n    pass\nfinally:\n    pass\nelse:\n    pass\n", "try:\n    pass\nexcept E:\n    pass\nfinally:\n    pass\nfinally:\n    pass\n", "try:\n    pass\nexcept E:\n    pass\nelse:\n    pass\nelse:\n    pass\n",
    "try:\n    try:\n        pass\n    except E:\n        pass\n", "try:\n    try:\n        pass\nexcept E:\n    pass\n",
    "else:\n    pass\n", "elif x:\n    pass\n", "except E:\n    pass\n", "finally:\n    pass\n", "if x:\n    pass\nelse:\n    pass\nelse:\n    pass\n", "if x:\n    pass\nelse:\n    pass\nelif y:\n    pass\n",
    "while x:\n    pass\nelse:\n    pass\nelse:\n    pass\n", "for a in b:\n    pass\nelif c:\n    pass\n", "with x:\n    pass\nelse:\n    pass\n", "class C:\n    pass\nelse:\n    pass\n", "def f():\n    pass\nelse:\n    pass\n",
    "if x:\n", "while x:\n", "for a in b:\n", "def f():\n", "class C:\n", "with x:\n", "if x:\nelse:\n    pass\n", "x = \n", "x += \n", "del\n", "import\n", "from a import\n", "from import a\n", "global\n", "nonlocal\n", "assert\n",
    "raise from x\n", "lambda:\n", "x = lambda\n", "x = (1,\n", "x = [1, 2\n", "x = {1: 2\n", "f(a,\n", "x = 1 +\n", "x = not\n", "x = a if b\n", "x = a if b else\n", "x = [a for a in]\n", "x = [a for in b]\n", "x = [for a in b]\n",
    "x = 1 + " + B, "x = 1 " + B, B, "x" + B, "x = (1 +" + B, "if x:\n    y = 1 " + B, "x = 1 + " + B + "\n", "x = 1 " + B + "\n\n", "x = 1 + " + B + "\n2\n", "x = 1 + " + B + "\n    2\n",
    "x = '''a" + B, "x = 'a" + B, "# c " + B, "x = 1 # c " + B + "\n", "x = 1" + B + " \n", "x = 1 " + B + "# c\n2\n",
]
T3 = "'''"
EXEC += ["x = r" + T3 + "a" + B + "\nb" + T3 + "\n", 'x = r"""a' + B + '\nb"""\n', "x = r'a" + B + "\nb'\n", "x = " + T3 + "a" + B + "\nb" + T3 + "\n", "x = 'a" + B + "\nb'\n",
         "x = rb" + T3 + "a" + B + "\nb" + T3 + "\n", "x = r'a" + B + B + "'\n", "x = r'a" + B + "'b'\n", "x = r'" + B + "'\n", "x = R'" + B + "n' r'" + B + "t'\n"]
EVAL = ["x" + B, "1 + " + B, "(1,\n " + B, "1 + " + B + "\n2", "x if y", "lambda", "lambda:", "[a for a in]", "(", ")", "", "x y", "x,, y", "f(a b)", "*x", "**x", "x = 1", "x if y else", "not", "x[", "x[1:2:3:4]", "x.", ".x", "x..y", "1 2", "'a' 1", "f(**a, *b)", "f(a=1, 2)", "{1: 2, 3}", "{1, 2: 3}", "[1, 2)", "f(x for x in y, 1)", "f(1, x for x in y)", "f(x for x in y)", "f((x for x in y), 1)", "f(a, (x for x in y))", "f(x for x in y if x for z in x)", "b'\u00e9'", "b'a' 'b'", "b'\\xe9'"]
# "single" mode: exactly one statement (a compound statement needs its terminating blank line); anything after it is an error
SINGLE = ["a = 5\nb = 6\n", "a = 5\n", "a = 5\n\n# c\n   \n", "if a:\n    b = 1\n\n", "if a:\n    b = 1\nc = 2\n", "a = 5; b = 6\n", "x = [1,\n2]\nx\n", "def f():\n    return 1\n\nf()\n",
          "a\n  b\n", "pass\n\n\npass\n", "1 + 2\n", "x\n", "for i in y: pass\n", "class C: pass\n\n", "x = 1\n  \n\t\n# only a comment\n", "x = 1 # c\ny\n", "if a: b\nelse: c\n\n", "if a: b\n\nelse: c\n", "try:\n    a\nfinally:\n    b\n\nc\n"]
INCOMPLETE = [("exec", t) for t in EXEC] + [("eval", t) for t in EVAL] + [("single", t) for t in SINGLE]
