WHO = "A"
def helper():
    return "from a"
