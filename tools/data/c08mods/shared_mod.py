counter = 0
items = []
def bump():
    global counter
    counter += 1
    return counter
