WHO = "B"
def helper():
    return "from b"
