#!/usr/bin/env python3
"""Writes MANIFEST.json from the table below (kept in one place so it stays valid)."""
import json, os
V = os.path.dirname(os.path.dirname(os.path.abspath(__file__)))
props = [json.loads(l) for l in open(os.path.join(V, "properties.jsonl"))]
CLAIMED = {
 "C09": dict(
   text="Machine-checked proof (Coq) that the lifecycle program regenerated from stdlib/stdlib.go on every run is safe for any number of goroutines and every interleaving: no panic, Done only after all admitted executions finished and the callbacks ran exactly once, no execution inside after the callbacks, refusal after a completed Close, no deadlock. The model is tied to the code by (a) regeneration of the action lists from the Go source and (b) replay of model traces on the real context through yield hooks.",
   note="Trusted: Coq kernel; the lifecycle extractor's statement subset; sync.WaitGroup/Once/Mutex/channels as documented; a mutex critical section as one atomic action (checked: every access of the guarded flag is under the mutex); execution bodies as single terminating steps; self-Close from inside an execution excluded.",
   technique="Rocq/Coq inductive-invariant proof over a transition system regenerated from the Go source + model-driven schedule replay", ref="5/C09"),
 "C07": dict(
   text="Machine-checked proof (Coq) that every integer operator (+ - * // % divmod ** pow3 << >> & | ^ ~ neg abs, six comparisons, truth) returns the exact Z result in canonical representation for operands of any magnitude in all word/big representation combinations. The word-arithmetic kernel of py/int.go (overflow guards, floor division, shifts) is translated to Gallina by go2v on every run, so the guard-exactness theorems are about the current source; BigInt paths and operator dispatch are a hand-written model tied by correspondence (vm_compute in Coq) on a boundary lattice, with an exact-integer oracle.",
   note="Trusted: Coq kernel; go2v's semantics for int64/math/big; hand-written BigInt/dispatch model (correspondence-tied, sampled); math/big, strconv. Partial: text conversion (str/int/hex/oct/bin/literals) and Bool operands are covered by the oracle comparison only, not by a theorem; shift counts beyond a word are a listed finding.",
   technique="Rocq/Coq proof over a go2v translation of the Go source (lia/nia) + hand model tied by vm_compute correspondence", ref="5/C07"),
 "C13": dict(
   text="Machine-checked proof (Coq) that slice normalisation (Slice.GetIndices) equals Python's clipping rule for bounds and steps of any magnitude or None, that the slice count is exactly the number of selected indices, that the shared element loop reads those indices in order, and that the range length helper (go2v translation) is exact when stop-start fits a word. GetIndices and the range helpers are re-translated from the Go source by go2v on every run; the translation is compared with the structured model exhaustively on the boundary lattice inside Coq and with the real function through the Go API. Element-level operations of the five sequence types (including no-alias / operand-intact checks) are compared with CPython (validated oracle, testing).",
   note="Trusted: Coq kernel; go2v; the structured GetIndices model is tied to the regenerated translation only on the finite lattice (29^3 x 8 points, inside Coq) plus sampled Go API runs. Partial: per-type element loops, aliasing and error classes of list/tuple/str/range/bytes are covered by differential testing against CPython 3.11, not by theorems.",
   technique="Rocq/Coq proof (lia/nia) of a structured model + in-kernel exhaustive comparison with the go2v translation of the source + CPython differential for element operations", ref="5/C13"),
 "C16": dict(
   text="Machine-checked proof (Coq) about a model of pmerge/mro_implementation and GetAttrString: an accepted class always gets a consistent linearisation (itself first, every base's MRO and the declared base order preserved, exactly its ancestors, no duplicates), a hierarchy with no such linearisation is rejected, and lookup returns the instance's own attribute or else the first definition along the MRO. The model is tied to the code by running generated class DAGs (exhaustive to 4 classes, sampled to 6) on the implementation and comparing MRO order probes with the model inside Coq; binding, isinstance and write locality are compared with CPython.",
   note="Trusted: Coq kernel; the hand-written MRO/lookup model (correspondence-tied on generated DAGs only); CPython 3.11 as validated oracle for descriptor binding, isinstance, write/delete locality. __name__/__mro__/__class__ introspection is absent in gpython and not used.",
   technique="Rocq/Coq inductive proof over a hand-written C3 merge model + vm_compute correspondence on class DAG programs + CPython differential", ref="5/C16"),
 "C12": dict(
   text="Verified validator + translation validation. A bytecode verifier written in Coq (decoder following the VM's own fetch rule; abstract interpretation of every opcode and of the unwinding loop of vm/eval.go over value-stack tags and the block stack; operand-range, jump-target, co_stacksize and line-table checks) is proved sound: a certificate closed under the abstract step contains every reachable abstract state, so no reachable state underflows or overflows the stack, leaves an instruction boundary or hits a VM-internal panic. On every run the verifier is executed by the Coq kernel (vm_compute) on every code object the real compiler emits for every .py file of the repository and for generated programs, and every (pc, stack depth, block depth) the real VM reaches (hook 1) must be among the predicted ones.",
   note="Trusted: Coq kernel; the hand-written abstract effects of the opcodes (tied to the real VM only by the run-time conformance check: testing); opcode numbering regenerated from vm/opcodes.go. The theorem is per certificate (translation validation), not a proof that the compiler always emits verifiable code.",
   technique="Rocq/Coq-verified bytecode verifier run in the kernel on each emitted code object + dynamic conformance through a VM hook", ref="5/C12"),
 "C02": dict(
   text="Machine-checked proof (Coq) about the model of RunFrame's unwinding loop and of exception matching: an exception is never swallowed or diverted by unwinding (it enters the innermost enclosing except/finally handler or leaves the frame), return and break run every intervening finally body, and the handler taken is the first whose class is in the raised class's MRO. The model is the one C12 ties to the real VM at run time. Code generation for try/finally/with/loops is not modelled: stdout path traces, escaping exception class and traceback line numbers of systematic statement nestings (all depth-1 nestings, pending exits across cleanup code, sampled deeper nestings) are compared with CPython.",
   note="Trusted: Coq kernel; the hand-written unwinding model; CPython 3.11 as validated oracle for the compiled programs (continue inside finally excluded as in 3.4). Partial: compile.go is covered by differential testing only; user-defined exception classes are a listed finding.",
   technique="Rocq/Coq proofs over the VM unwinding model + CPython differential on systematic control-flow nestings", ref="5/C02"),
 "C04": dict(
   text="Machine-checked proof (Coq) of the call-site and MAKE_FUNCTION operand round trips (counts below 256 / 32768; refuted beyond) and that a successful binding by the EvalCode model leaves no parameter unbound and builds the star containers exactly when declared. The EvalCode model is tied to the code by running the exhaustive signature x plain-call product on the implementation and comparing inside Coq; *seq/**map call shapes and error selection are compared with CPython; Go callables of the four supported signatures are exercised by a harness scenario over two contexts (receiver, positional, keyword arguments, arity errors).",
   note="Trusted: Coq kernel; hand-written EvalCode model (correspondence-tied); CPython 3.11 as validated oracle. Partial: the full equivalence of the binding model with the language-reference algorithm is established by the exhaustive comparison with CPython, not by a theorem; keyword-only default misalignment is a listed finding.",
   technique="Rocq/Coq arithmetic round-trip proofs + model/implementation vm_compute correspondence on the exhaustive signature x call product + CPython differential + Go-callable harness", ref="5/C04"),
 "C03": dict(
   text="Machine-checked proof (Coq) that the scope analysis of a block is independent of the order in which the symbol map is iterated (any two permutations give the same per-name sets, scopes, Free flag and accept/reject), that forbidden declarations (parameter+global, global+nonlocal, nonlocal without enclosing binding or at module level) are rejected, and of the local/free binding rule. The per-name function of the model is tied to the exported Go method symtable.AnalyzeName on its entire finite input space (12288 inputs, compared inside Coq). Whole-program name resolution (cells shared by closures, late rebinding, class scopes, comprehensions, defaults, UnboundLocalError) is compared with CPython on seeded scope-tree programs, each also run twice to expose map-order dependence.",
   note="Trusted: Coq kernel; the exhaustive table harness (cmd/impl c03); CPython 3.11 as validated oracle. Partial: symbol-table pass 1, AnalyzeCells, child propagation, compile.go NameOp and the VM name opcodes are covered by differential testing only.",
   technique="Rocq/Coq permutation-invariance proof of the analysis loop + exhaustive model/implementation table + CPython differential on scope trees", ref="5/C03"),
 "C05": dict(
   text="Machine-checked proof (Coq) that a consumer whose end-of-iteration test is 'StopIteration, class or instance' yields exactly the elements up to the first StopIteration and propagates every other exception for EVERY producer history, and (per run, by vm_compute over an inventory regenerated from the Go source) that every place where the error of a __next__ call decides termination uses that test; the identity and any-error tests are refuted. Generator suspension/resumption (next/send histories over several live generators, nested finally, return values, yield from) and all listed consumers x producer kinds x raise positions are compared with CPython.",
   note="Trusted: Coq kernel; the syntactic site classifier of go/cmd/extract (unknown shapes fail the obligation); CPython 3.11 as validated oracle (PEP 479 cases excluded). Partial: generator frames are not modelled; generator.throw/close are NotImplemented in gpython and outside the property.",
   technique="Rocq/Coq generic consumer theorem + per-run forallb over a regenerated inventory of termination tests + CPython differential on generator histories", ref="5/C05"),
 "C17": dict(
   text="Machine-checked proof (Coq) over a model of the Go-level storage of lists (slice headers over backing arrays; in-place append/store/delete, reallocation when capacity is exhausted, fresh storage for copies): every operation preserves the invariant that distinct list objects never share storage and leaves the contents of every other list object unchanged, and a copy starts with equal contents in separate storage - so a mutation is visible exactly through the aliases of the mutated object and never through a copy. The implementation's lists, string-keyed dicts and sets are compared with CPython on seeded operation histories over aliased and copied containers (state of all containers printed after every operation), plus sort-stability and targeted probes.",
   note="Trusted: Coq kernel; the hand-written storage model (not tied by a structural correspondence: the tie is the history comparison); CPython 3.11 as validated oracle (dict/set output order-normalised). Partial: dict and set are compared by testing only; sets of cross-type-equal or unhashable elements and non-string dict keys are listed findings.",
   technique="Rocq/Coq separation-invariant (refinement frame) proof over a Go-slice heap model + CPython differential on aliased container histories", ref="5/C17"),
 "C14": dict(
   text="Machine-checked proof (Coq), for every string of Unicode scalar values, that over the UTF-8 storage len counts code points, pos(n) is the encoded width of the first n code points, and the byte-offset slicing of py/string.go yields exactly the encoding of the code-point slice. The model's slice is compared inside Coq with s[a:b] computed by the implementation on generated strings; every other listed operation (indexing, iteration, in/find/count/startswith/endswith, split/join/strip/replace, comparison, repetition, ord/chr) and the repr round trip eval(repr(x)) == x (strings, and nested tuples/lists with ints, floats, big ints) are compared with CPython over all strings of length <= 2 and seeded longer ones from an alphabet mixing 1-4 byte characters, quotes, backslash, NUL and control characters.",
   note="Trusted: Coq kernel; the byte-list model of len/pos/slice for valid UTF-8 (correspondence-tied); CPython 3.11 as validated oracle; Go's strings/unicode packages. Partial: searching/splitting/escaping are covered by differential testing only (no theorem for repr/eval); upper/lower special casing is outside the property.",
   technique="Rocq/Coq induction over code-point lists for the UTF-8 offset arithmetic + vm_compute correspondence on slices + CPython differential", ref="5/C14"),
}
NOT_YET = "check not built yet in this round (planned in DESIGN.md section 8)"
checks = []; na = []
for p in props:
    i = p["id"]
    if i in CLAIMED:
        c = CLAIMED[i]
        checks.append(dict(property_id=i,
            quick_cmd="python3 tools/check.py %s --tier quick" % i,
            thorough_cmd="python3 tools/check.py %s --tier thorough" % i,
            evidence_file="/verif/evidence/%s.json" % i,
            replay_cmd_template="python3 tools/check.py %s --replay {path}" % i,
            engine="rocq-proof+correspondence",
            level_claimed=dict(category="proof", text=c["text"], design_ref="DESIGN.md section " + c["ref"]),
            level_note=c["note"], technique=c["technique"]))
    else:
        na.append(dict(property_id=i, reason=NOT_YET))
m = dict(version=1, setup_cmd="sh tools/setup.sh",
  hooks=dict(guard="verif", enable="go build -tags verif (harness module /verif/go replaces github.com/go-python/gpython => /repo)",
             baseline_off_cmd="cd /repo && go build ./... && go test -vet=off -count=1 ./...",
             source_commits=["30093da", "71f6d86"], add_only=True),
  engines=[dict(name="rocq-proof+correspondence", path="/verif/coq + /verif/go + /verif/tools/check.py",
                serves_properties=[c["property_id"] for c in checks],
                kind_free_text="Coq 8.16.1 development (models regenerated from the Go source or hand-written), per-run kernel-checked obligations, differential correspondence harness against the implementation built from /repo with -tags verif")],
  checks=checks, not_applicable=na,
  notes="All checks: python3 tools/check.py <id> --tier quick|thorough; evidence in evidence/<id>.json; findings in known-findings.json.")
json.dump(m, open(os.path.join(V, "MANIFEST.json"), "w"), indent=1)
print("claimed", [c["property_id"] for c in checks])
