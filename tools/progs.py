"""Seeded generators of Python programs shared by several properties."""
import random

CM = '''class CM:
    def __init__(self, tag, swallow):
        self.tag = tag; self.swallow = swallow
    def __enter__(self):
        print('enter', self.tag); return self.tag
    def __exit__(self, t, v, tb):
        print('exit', self.tag, t is None); return self.swallow
E1 = LookupError
E2 = KeyError
E3 = ValueError
'''

def control_flow_programs(seed, n):
    rnd = random.Random(seed * 7919 + 5)
    out = []
    for k in range(n):
        out.append(_one(rnd, k))
    return out

def _one(rnd, k):
    ctr = [0]
    wctr = [0]
    def mark():
        ctr[0] += 1; return "print('m%d')" % ctr[0]
    def leaf(in_loop, in_func):
        ch = ["pass", mark(), "raise E1('x')", "raise E2('y')", "raise E3('z')", "x = x + 1"]
        if in_loop: ch += ["break", "continue"]
        if in_func: ch += ["return %d" % rnd.randint(0, 9)]
        return rnd.choice(ch)
    def block(depth, in_loop, in_func, ind):
        n = rnd.randint(1, 3)
        lines = []
        for _ in range(n):
            lines += stmt(depth, in_loop, in_func, ind)
        return lines
    def stmt(depth, in_loop, in_func, ind):
        p = "    " * ind
        if depth <= 0 or rnd.random() < 0.3:
            return [p + leaf(in_loop, in_func)]
        kind = rnd.choice(["if", "while", "for", "try-except", "try-finally", "try-full", "with", "if"])
        L = []
        if kind == "if":
            L.append(p + "if x %% %d == 0:" % rnd.randint(1, 3)); L += block(depth - 1, in_loop, in_func, ind + 1)
            if rnd.random() < 0.5:
                L.append(p + "else:"); L += block(depth - 1, in_loop, in_func, ind + 1)
        elif kind == "while":
            wctr[0] += 1
            v = "w%d_%d" % (rnd.randint(0, 99), wctr[0])      # unique per loop: a nested loop never resets an outer counter
            L.append(p + "%s = 0" % v); L.append(p + "while %s < %d:" % (v, rnd.randint(1, 3)))
            L.append(p + "    %s += 1" % v); L += block(depth - 1, True, in_func, ind + 1)
            if rnd.random() < 0.4:
                L.append(p + "else:"); L += block(depth - 1, in_loop, in_func, ind + 1)
        elif kind == "for":
            L.append(p + "for i%d in range(%d):" % (rnd.randint(0, 9), rnd.randint(0, 3))); L += block(depth - 1, True, in_func, ind + 1)
            if rnd.random() < 0.4:
                L.append(p + "else:"); L += block(depth - 1, in_loop, in_func, ind + 1)
        elif kind in ("try-except", "try-full"):
            L.append(p + "try:"); L += block(depth - 1, in_loop, in_func, ind + 1)
            for _ in range(rnd.randint(1, 2)):
                exc = rnd.choice(["E1", "E2", "E3", "(E2, E3)", "Exception"])
                L.append(p + ("except %s as e:" % exc if rnd.random() < 0.5 else "except %s:" % exc)); L += block(depth - 1, in_loop, in_func, ind + 1)
            if rnd.random() < 0.4:
                L.append(p + "else:"); L += block(depth - 1, in_loop, in_func, ind + 1)
            if kind == "try-full":
                L.append(p + "finally:"); L += block(depth - 1, False, in_func, ind + 1)
        elif kind == "try-finally":
            L.append(p + "try:"); L += block(depth - 1, in_loop, in_func, ind + 1)
            L.append(p + "finally:"); L += block(depth - 1, False, in_func, ind + 1)
        elif kind == "with":
            L.append(p + "with CM(%d, %s) as c:" % (rnd.randint(0, 99), rnd.choice(["True", "False", "False"]))); L += block(depth - 1, in_loop, in_func, ind + 1)
        return L
    body = block(rnd.randint(1, 3), False, True, 1)
    src = CM + "def f(x):\n" + "\n".join(body) + "\n    return x\n"
    src += "for a in range(3):\n    try:\n        print('r', f(a))\n    except E2:\n        print('exc E2')\n    except E1:\n        print('exc E1')\n    except E3:\n        print('exc E3')\n"
    if k % 5 == 0:
        src += "g = [y * 2 for y in range(4) if y % 2]\nprint(g, sorted({str(y): y for y in range(2)}), sorted({y for y in range(2)}))\ndef gen(n):\n    for i in range(n):\n        try:\n            yield i\n        finally:\n            print('gf', i)\nprint(list(gen(3)))\ndef outer(a):\n    def inner(b):\n        return a + b\n    return inner\nprint(outer(1)(2))\nclass K:\n    z = 3\n    def m(self): return self.z\nprint(K().m())\n"
    return src

# ---------------------------------------------------------------- systematic nestings
KINDS = {  # kind -> list of (header, slot is inside this loop?) ; '%s' gets a fresh number
    "if": [("if x % 2 == 0:", None)],
    "ifelse": [("if x % 2 == 0:", None), ("else:", None)],
    "while": [("w%d = 0\nwhile w%d < 2:\n    w%d += 1", "loop")],
    "whileelse": [("w%d = 0\nwhile w%d < 2:\n    w%d += 1", "loop"), ("else:", None)],
    "for": [("for i%d in range(2):", "loop")],
    "forelse": [("for i%d in range(2):", "loop"), ("else:", None)],
    "tryexc": [("try:", None), ("except E1:", None)],
    "tryexcelse": [("try:", None), ("except E1 as e:", None), ("else:", None)],
    "tryfin": [("try:", None), ("finally:", "fin")],
    "tryexcfin": [("try:", None), ("except E2:", None), ("finally:", "fin")],
    "with": [("with CM(%d, False) as c:", None)],
    "withsw": [("with CM(%d, True) as c:", None)],
}
LEAVES = ["mark", "raise E1('a')", "raise E2('b')", "return 7", "break", "continue"]

def _render(tree, ind, ctr):
    """tree = leaf string | (kind, [subtrees])"""
    p = "    " * ind
    if isinstance(tree, str):
        if tree == "mark":
            ctr[0] += 1; return [p + "print('m%d')" % ctr[0]]
        return [p + tree]
    kind, subs = tree
    out = []
    ctr[1] += 1; n = ctr[1]
    for (hdr, _), sub in zip(KINDS[kind], subs):
        h = hdr.replace("%d", str(n))
        hl = h.split("\n")
        if len(hl) > 1:      # while: init line, header, increment inside the body
            out.append(p + hl[0]); out.append(p + hl[1]); out.append(p + "    " + hl[2].strip())
        else:
            out.append(p + h)
        ctr[0] += 1; out.append(p + "    print('s%d')" % ctr[0])
        out += _render(sub, ind + 1, ctr)
    return out

def _valid(tree, in_loop, can_cont=None):
    """3.4 rules: break/continue only inside a loop (a loop's else clause is outside it);
    continue is not allowed directly inside a finally clause of that loop"""
    if can_cont is None: can_cont = in_loop
    if isinstance(tree, str):
        if tree == "break": return in_loop
        if tree == "continue": return can_cont
        return True
    kind, subs = tree
    for (hdr, ctx), sub in zip(KINDS[kind], subs):
        if ctx == "loop": ok = _valid(sub, True, True)
        elif ctx == "fin": ok = _valid(sub, in_loop, False)
        else: ok = _valid(sub, in_loop, can_cont)
        if not ok: return False
    return True

def _enum(depth):
    if depth == 0:
        for l in LEAVES: yield l
        return
    for l in LEAVES: yield l
    import itertools
    for kind, slots in KINDS.items():
        for subs in itertools.product(*[list(_enum(depth - 1)) for _ in slots]):
            yield (kind, list(subs))

def nesting_program(tree, outer_loop, tail=False):
    """tail=True: the compound statement is the LAST statement of the function (paths that fall out of it
    reach the implicit return None)"""
    ctr = [0, 0]
    body = _render(tree, 2 if outer_loop else 1, ctr)
    src = CM + "def f(x):\n"
    if outer_loop:
        src += "    for o in range(2):\n        print('o', o)\n" + "\n".join(body) + "\n" + ("" if tail else "        print('after')\n")
    else:
        src += "\n".join(body) + "\n" + ("" if tail else "    print('after')\n")
    if not tail: src += "    return x\n"
    src += "for a in range(2):\n    try:\n        print('r', f(a))\n    except E2:\n        print('exc E2')\n    except E1:\n        print('exc E1')\n    except E3:\n        print('exc E3')\n"
    return src

def nesting_programs(seed, n_random):
    """all depth-1 nestings (with and without an enclosing loop) + a seeded sample of depth 2"""
    rnd = random.Random(seed * 31 + 7)
    out = []
    for t in _enum(1):
        if isinstance(t, str): continue
        for outer in (False, True):
            if _valid(t, outer):
                out.append((nesting_program(t, outer), dict(tree=repr(t), outer_loop=outer)))
                out.append((nesting_program(t, outer, True), dict(tree=repr(t), outer_loop=outer, tail=True)))
    leaves = LEAVES
    def rand_tree(d):
        if d == 0 or rnd.random() < 0.25: return rnd.choice(leaves)
        kind = rnd.choice(list(KINDS))
        return (kind, [rand_tree(d - 1) for _ in KINDS[kind]])
    tries = 0
    while sum(1 for _ in out) < 10**9 and n_random > 0 and tries < n_random * 20:
        tries += 1
        t = rand_tree(rnd.choice([2, 2, 3]))
        if isinstance(t, str): continue
        outer = rnd.random() < 0.6
        if _valid(t, outer):
            out.append((nesting_program(t, outer), dict(tree=repr(t), outer_loop=outer))); n_random -= 1
            if n_random % 3 == 0:
                out.append((nesting_program(t, outer, True), dict(tree=repr(t), outer_loop=outer, tail=True)))
    return out

# ---------------------------------------------------------------- pending exit across cleanup code
CLEANUP_BODIES = [
    "print('c-simple')",
    "for j in range(2):\n    print('c-for', j)",
    "for j in range(3):\n    if j == 1:\n        continue\n    print('c-cont', j)",
    "for j in range(3):\n    try:\n        if j == 1:\n            continue\n        print('c-trycont', j)\n    finally:\n        print('c-fin', j)",
    "for j in range(3):\n    try:\n        if j == 1:\n            continue\n        print('c-exccont', j)\n    except ValueError:\n        pass",
    "for j in range(3):\n    with CM(j, False):\n        if j == 1:\n            continue\n        if j == 2:\n            break",
    "k = 0\nwhile k < 3:\n    k += 1\n    try:\n        if k == 2:\n            break\n    finally:\n        print('c-wfin', k)",
    "try:\n    raise KeyError('inner')\nexcept KeyError:\n    print('c-caught')",
    "try:\n    try:\n        raise ValueError('v')\n    finally:\n        print('c-inner-fin')\nexcept ValueError:\n    print('c-caught-v')",
    "print('c-helper', helper(3))",
    "print('c-gen', list(gen(3)))",
    "print('c-comp', [q for q in range(4) if q % 2])",
    "with CM(77, True):\n    raise KeyError('swallowed')",
]
HELPERS = '''def helper(n):
    t = 0
    for q in range(n):
        try:
            if q == 1:
                continue
            t += q
        finally:
            t += 10
    return t
def gen(n):
    for q in range(n):
        try:
            yield q
        finally:
            print('g-fin', q)
'''
ABRUPT = ["continue", "break", "return 'ret'", "raise KeyError('pending')", "pass"]

def _indent(code, n):
    return "\n".join(("    " * n + l) for l in code.split("\n"))

def cleanup_programs():
    """every pending exit reason x every cleanup body x every cleanup construct, inside a loop"""
    out = []
    for ai, ab in enumerate(ABRUPT):
        for ci, cb in enumerate(CLEANUP_BODIES):
            for wrap in ("tryfin", "tryexcfin", "with", "nested"):
                for loop in ("for", "while"):
                    L = [CM, HELPERS, "def f(x):"]
                    if loop == "for":
                        L += ["    for o in range(3):", "        print('o', o)"]
                    else:
                        L += ["    o = 0", "    while o < 3:", "        o += 1", "        print('o', o)"]
                    if wrap == "tryfin":
                        L += ["        try:", "            print('body')", "            if o == 1:", "                " + ab, "        finally:", _indent(cb, 3)]
                    elif wrap == "tryexcfin":
                        L += ["        try:", "            print('body')", "            if o == 1:", "                " + ab, "        except ValueError:", "            print('never')", "        finally:", _indent(cb, 3)]
                    elif wrap == "with":
                        L += ["        with CM(o, False):", "            try:", "                print('body')", "                if o == 1:", "                    " + ab, "            finally:", _indent(cb, 4)]
                    else:
                        L += ["        try:", "            try:", "                print('body')", "                if o == 1:", "                    " + ab, "            finally:", _indent(cb, 4), "        finally:", "            print('outer-fin', o)"]
                    L += ["        print('after', o)", "    return 'end'"]
                    L += ["try:", "    print('r', f(0))", "except KeyError:", "    print('exc KeyError')"]
                    out.append(("\n".join(L) + "\n", dict(abrupt=ab, cleanup=ci, wrap=wrap, loop=loop)))
    return out

# ---------------------------------------------------------------- scope trees (C03)
def scope_programs(seed, n):
    """random nestings of module/def/class/lambda/comprehension scopes with bind/use/global/
    nonlocal/del placements of names a, b; every use prints a label and the value or the
    exception class; some programs are invalid (SyntaxError expected)."""
    rnd = random.Random(seed * 104729 + 11)
    out = []
    for k in range(n):
        out.append(_scope_prog(rnd))
    return out

def _scope_prog(rnd):
    ctr = [0]
    def lab():
        ctr[0] += 1; return "L%d" % ctr[0]
    def use(name, ind):
        p = "    " * ind; l = lab()
        return [p + "try:", p + "    print('%s', %s)" % (l, name), p + "except UnboundLocalError:", p + "    print('%s UnboundLocalError')" % l,
                p + "except NameError:", p + "    print('%s NameError')" % l]
    def body(kind, depth, ind, enclosing_func):
        """statements of a def (kind 'def') or class (kind 'class') or module body"""
        p = "    " * ind; L = []
        decl = []
        for nm in ("a", "b"):
            r = rnd.random()
            if kind != "module" and r < 0.12: decl.append(p + "global " + nm)
            elif kind != "module" and enclosing_func and r < 0.24: decl.append(p + "nonlocal " + nm)
            elif kind != "module" and r < 0.27: decl.append(p + "nonlocal " + nm)      # often invalid
        rnd.shuffle(decl)
        pre_use = rnd.random() < 0.25
        if pre_use and not decl: L += use(rnd.choice("ab"), ind)
        L += decl
        nops = rnd.randint(1, 4)
        for _ in range(nops):
            op = rnd.random(); nm = rnd.choice("ab")
            if op < 0.35:
                ctr[0] += 1; L.append(p + "%s = 'v%d'" % (nm, ctr[0]))
            elif op < 0.65:
                L += use(nm, ind)
            elif op < 0.72:
                L += [p + "try:", p + "    del " + nm, p + "except NameError:", p + "    print('del NameError')"]
            elif depth > 0:
                L += child(depth - 1, ind, enclosing_func or kind == "def")
            else:
                L += use(nm, ind)
        if rnd.random() < 0.15 and decl == []:
            L.append(p + "global " + rnd.choice("ab"))           # declaration after use/assignment: SyntaxError (3.4: warning) - both must agree
        return L
    def child(depth, ind, enclosing_func):
        p = "    " * ind; ctr[0] += 1; n = ctr[0]
        kind = rnd.choice(["def", "def", "class", "lambda", "comp", "defparam"])
        if kind == "def":
            return [p + "def f%d():" % n] + body("def", depth, ind + 1, enclosing_func) + [p + "f%d()" % n]
        if kind == "defparam":
            nm = rnd.choice("ab")
            dflt = rnd.choice(["", "=a", "=b"])
            return [p + "try:", p + "    def g%d(%s%s):" % (n, nm, dflt)] + ["    " + l for l in body("def", depth, ind + 1, enclosing_func)] + \
                   [p + "    g%d(%s)" % (n, "" if dflt else "'arg%d'" % n), p + "except NameError:", p + "    print('defaults NameError')"]
        if kind == "class":
            return [p + "class C%d:" % n] + body("class", depth, ind + 1, enclosing_func) + \
                   [p + "    def m(self):"] + use(rnd.choice("ab"), ind + 2) + [p + "C%d().m()" % n]
        if kind == "lambda":
            nm = rnd.choice("ab")
            return [p + "try:", p + "    print('lam', (lambda: %s)())" % nm, p + "except NameError:", p + "    print('lam NameError')"]
        nm = rnd.choice("ab"); other = "b" if nm == "a" else "a"
        return [p + "try:", p + "    print('comp', [%s for %s in range(2)], [(%s, q) for q in range(1)])" % (nm, nm, other), p + "except NameError:", p + "    print('comp NameError')"]
    L = []
    if rnd.random() < 0.7: L.append("a = 'ga'")
    if rnd.random() < 0.5: L.append("b = 'gb'")
    L += body("module", 3, 0, False)
    L += use("a", 0) + use("b", 0)
    return "\n".join(L) + "\n"

# ---------------------------------------------------------------- generators / iteration (C05)
GEN_POOL = '''def g_count(n):
    i = 0
    while i < n:
        yield i
        i += 1
def g_send():
    total = 0
    while True:
        x = yield total
        if x is None:
            x = 1
        total += x
        if total > 20:
            return total
def g_fin(n):
    try:
        for i in range(n):
            try:
                yield ('a', i)
            finally:
                print('inner-fin', i)
    finally:
        print('outer-fin')
def g_ret():
    yield 1
    return 'retval'
def g_from():
    r = yield from g_ret()
    print('got', r)
    yield 'after'
    r2 = yield from g_count(2)
    print('got2', r2)
def g_raise():
    yield 1
    raise ValueError('boom')
    yield 2
def g_nested():
    for x in g_count(2):
        for y in g_count(2):
            yield (x, y)
def g_from_send():
    r = yield from g_send()
    yield ('done', r)
'''
SHOW = '''def show(label, f):
    try:
        print(label, f())
    except StopIteration as e:
        print(label, 'StopIteration')
    except ValueError:
        print(label, 'ValueError')
    except KeyError:
        print(label, 'KeyError')
    except TypeError:
        print(label, 'TypeError')
'''

def generator_history_programs(seed, n):
    rnd = random.Random(seed * 2654435761 % (2**31) + 3)
    gens = ["g_count(3)", "g_send()", "g_fin(2)", "g_ret()", "g_from()", "g_raise()", "g_nested()", "g_from_send()", "g_count(0)"]
    out = []
    for k in range(n):
        live = [rnd.choice(gens) for _ in range(rnd.randint(1, 3))]
        L = [GEN_POOL, SHOW] + ["G%d = %s" % (i, g) for i, g in enumerate(live)]
        for step in range(rnd.randint(3, 12)):
            i = rnd.randrange(len(live))
            if rnd.random() < 0.65:
                L.append("show('n%d', lambda: next(G%d))" % (i, i))
            else:
                v = rnd.choice(["None", "5", "7", "30"])
                L.append("show('s%d', lambda: G%d.send(%s))" % (i, i, v))
        out.append(("\n".join(L) + "\n", dict(live=live)))
    return out

CONSUMERS = [
    ("for", "r = []\nfor x in IT:\n    r.append(x)\nprint(r)"),
    ("listcomp", "print([x for x in IT])"),
    ("genexp", "print(list(x for x in IT))"),
    ("unpack3", "a, b, c = IT\nprint(a, b, c)"),
    ("unpack_star", "a, *b = IT\nprint(a, b)"),
    ("starcall", "def f(*a): return a\nprint(f(*IT))"),
    ("list", "print(list(IT))"), ("tuple", "print(tuple(IT))"), ("set", "print(sorted(set(IT)))"),
    ("sum", "print(sum(IT))"), ("min", "print(min(IT))"), ("max", "print(max(IT))"), ("sorted", "print(sorted(IT))"),
    ("zip", "print(list(zip(IT, [10, 20, 30, 40])))"), ("zip2", "print(list(zip([10, 20, 30, 40], IT)))"),
    ("map", "print(list(map(lambda v: v + 1, IT)))"), ("filter", "print(list(filter(lambda v: v % 2, IT)))"),
    ("enumerate", "print(list(enumerate(IT)))"), ("any", "print(any(v > 5 for v in IT), any(IT2))"), ("all", "print(all(IT))"),
    ("in", "print(2 in IT)"), ("notin", "print(99 not in IT)"), ("join", "print(','.join(str(v) for v in IT))"),
    ("join_direct", "print(','.join(ITS))"), ("dictcomp", "print(sorted({str(v): v for v in IT}))"),
    ("iter_next", "i = iter(IT)\nprint(next(i), next(i))"),
]
PRODUCERS = {
    "generator": "def prod(k, how):\n    for i in range(3):\n        if i == k:\n            if how == 'key': raise KeyError('k')\n            if how == 'stopinst': raise StopIteration()\n            if how == 'stopcls': raise StopIteration\n        yield i + 1\n",
    "userclass": "class Prod:\n    def __init__(self, k, how): self.i = 0; self.k = k; self.how = how\n    def __iter__(self): return self\n    def __next__(self):\n        if self.i == self.k:\n            if self.how == 'key': raise KeyError('k')\n            if self.how == 'stopinst': raise StopIteration()\n            if self.how == 'stopcls': raise StopIteration\n        if self.i >= 3: raise StopIteration\n        self.i += 1\n        return self.i\ndef prod(k, how): return Prod(k, how)\n",
    "getitem": "class Seq:\n    def __init__(self, k, how): self.k = k; self.how = how\n    def __getitem__(self, i):\n        if i == self.k and self.how == 'key': raise KeyError('k')\n        if i >= 3 or (i == self.k and self.how != 'key'): raise IndexError('done')\n        return i + 1\ndef prod(k, how): return Seq(k, how)\n",
    "builtin": "def prod(k, how): return iter([1, 2, 3][:k if how != 'none' and how != 'key' else 3])\n",
}

def consumer_programs():
    """every consumer x every producer kind x every position at which the producer stops or raises"""
    out = []
    for pname, psrc in PRODUCERS.items():
        for cname, csrc in CONSUMERS:
            for k in (0, 1, 2, 3):
                for how in ("none", "key", "stopinst", "stopcls"):
                    if pname == "builtin" and how == "key": continue
                    if pname == "generator" and how in ("stopinst", "stopcls"): continue   # PEP 479: differs between 3.4 and the oracle
                    if how == "none" and k != 3: continue
                    body = csrc.replace("IT2", "prod(%d, %r)" % (k, how)).replace("ITS", "(str(v) for v in prod(%d, %r))" % (k, how)).replace("IT", "prod(%d, %r)" % (k, how))
                    src = psrc + "try:\n" + "\n".join("    " + l for l in body.split("\n")) + "\nexcept KeyError:\n    print('KeyError')\nexcept ValueError:\n    print('ValueError')\nexcept StopIteration:\n    print('StopIteration escaped')\nexcept TypeError:\n    print('TypeError')\n"
                    out.append((src, dict(producer=pname, consumer=cname, k=k, how=how)))
    return out

# ---------------------------------------------------------------- container histories (C17)
def container_history_programs(seed, n, maxlen=12):
    rnd = random.Random(seed * 48271 + 17)
    out = []
    for k in range(n):
        out.append(_container_prog(rnd, rnd.randint(2, maxlen)))
    return out

def _container_prog(rnd, nops):
    vals = ["1", "2", "3", "5", "2.5", "0", "1.0", "-4"]      # mutually comparable: a failed sort leaves an unspecified permutation
    keys = ["'a'", "'b'", "'c'", "'d'"]
    svals = ["1", "2", "3", "'x'", "'y'", "7"]     # ints and strs only: see the set probes for floats/bools/tuples
    L = ["l0 = [1, 2, 3]", "l1 = l0", "l2 = list(l0)", "d0 = {'a': 1, 'b': 2}", "d1 = d0", "d2 = dict(d0)", "s0 = {1, 2, 'x'}", "s1 = s0", "s2 = set(s0)",
         "def dump():\n    print(l0, l1, l2, sorted(d0), [d0[k] for k in sorted(d0)], sorted(d2), sorted(str(e) for e in s0), sorted(str(e) for e in s2), l0 is l1, d0 is d1, s0 is s1)",
         "def t(f):\n    try:\n        r = f()\n        if r is not None:\n            print('->', r)\n    except IndexError: print('IndexError')\n    except KeyError: print('KeyError')\n    except ValueError: print('ValueError')\n    except TypeError: print('TypeError')\n    dump()"]
    ops = []
    lst = lambda: rnd.choice(["l0", "l1", "l2"])
    dct = lambda: rnd.choice(["d0", "d1", "d2"])
    st = lambda: rnd.choice(["s0", "s1", "s2"])
    i = lambda: str(rnd.randint(-4, 4))
    for _ in range(nops):
        c = rnd.random()
        if c < 0.5:
            a = lst(); op = rnd.choice(["append", "setitem", "delitem", "setslice", "delslice", "extend", "iadd", "imul", "sort", "copy", "in", "len", "eq", "mutiter", "selfop", "getitem", "add", "mul"])
            v = rnd.choice(vals)
            if op == "append": ops.append("t(lambda: %s.append(%s))" % (a, v))
            elif op == "setitem": ops.append("def f():\n    %s[%s] = %s\nt(f)" % (a, i(), v))
            elif op == "delitem": ops.append("def f():\n    del %s[%s]\nt(f)" % (a, i()))
            elif op == "setslice": ops.append("def f():\n    %s[%s:%s] = [%s]\nt(f)" % (a, i(), i(), ", ".join(rnd.choice(vals) for _ in range(rnd.randint(0, 3)))))
            elif op == "delslice": ops.append("def f():\n    del %s[%s:%s:%s]\nt(f)" % (a, i(), i(), rnd.choice(["1", "2", "-1", "-2"])))
            elif op == "extend": ops.append("t(lambda: %s.extend(%s))" % (a, rnd.choice(["[8, 9]", "(8, 9)", "range(2)", lst(), "iter([5])", "(x for x in (6, 7))"])))
            elif op == "iadd": ops.append("def f():\n    global %s\n    %s += %s\nt(f)" % (a, a, rnd.choice(["[8]", "(9,)", lst()])))
            elif op == "imul": ops.append("def f():\n    global %s\n    %s *= %s\nt(f)" % (a, a, rnd.choice(["0", "1", "2"])))
            elif op == "insert": ops.append("t(lambda: %s.insert(%s, %s))" % (a, i(), v))
            elif op == "pop": ops.append("t(lambda: %s.pop(%s))" % (a, rnd.choice(["", i()])))
            elif op == "sort": ops.append("t(lambda: %s.sort())" % a if rnd.random() < 0.5 else "t(lambda: sorted(%s))" % a)
            elif op == "reverse": ops.append("t(lambda: %s.reverse())" % a)
            elif op == "copy": ops.append("def f():\n    global l2\n    l2 = %s\nt(f)" % rnd.choice(["list(%s)" % a, "%s[:]" % a, "%s + []" % a, "%s * 1" % a, "[] + %s" % a]))
            elif op == "add": ops.append("t(lambda: %s + %s)" % (a, lst()))
            elif op == "mul": ops.append("t(lambda: %s * 2)" % a)
            elif op == "index": ops.append("t(lambda: %s.index(%s))" % (a, v))
            elif op == "count": ops.append("t(lambda: %s.count(%s))" % (a, v))
            elif op == "in": ops.append("t(lambda: %s in %s)" % (v, a))
            elif op == "len": ops.append("t(lambda: len(%s))" % a)
            elif op == "eq": ops.append("t(lambda: (%s == %s, %s != %s))" % (a, lst(), a, lst()))
            elif op == "getitem": ops.append("t(lambda: %s[%s])" % (a, i()))
            elif op == "remove": ops.append("t(lambda: %s.remove(%s))" % (a, v))
            elif op == "clear": ops.append("t(lambda: %s.clear())" % a)
            elif op == "mutiter":
                ops.append("def f():\n    seen = []\n    for x in %s:\n        seen.append(x)\n        if len(seen) < 6 and len(%s) < 8:\n            %s\n    return seen\nt(f)" % (a, a, rnd.choice(["%s.append(len(seen))" % a, "del %s[0]" % a, "%s[0:0] = [0]" % a, "%s[-1:] = []" % a])))
            else:
                ops.append("def f():\n    %s\nt(f)" % rnd.choice(["%s.extend(%s)" % (a, a), "%s[1:2] = %s" % (a, a), "%s[:] = %s" % (a, a), "%s[::2] = %s[::2]" % (a, a)]))
        elif c < 0.78:
            a = dct(); k = rnd.choice(keys); v = rnd.choice(vals)
            op = rnd.choice(["set", "del", "get", "getitem", "in", "len", "keys", "values", "items", "eq", "copy", "mutiter"])
            if op == "set": ops.append("def f():\n    %s[%s] = %s\nt(f)" % (a, k, v))
            elif op == "del": ops.append("def f():\n    del %s[%s]\nt(f)" % (a, k))
            elif op == "get": ops.append("t(lambda: %s.get(%s, 'dflt'))" % (a, k))
            elif op == "getitem": ops.append("t(lambda: %s[%s])" % (a, k))
            elif op == "in": ops.append("t(lambda: (%s in %s, %s not in %s))" % (k, a, k, a))
            elif op == "len": ops.append("t(lambda: len(%s))" % a)
            elif op == "update": ops.append("t(lambda: %s.update(%s))" % (a, rnd.choice(["{'c': 3}", dct(), "{}"])))
            elif op == "keys": ops.append("t(lambda: sorted(%s.keys()))" % a)
            elif op == "values": ops.append("t(lambda: sorted(str(v) for v in %s.values()))" % a)
            elif op == "items": ops.append("t(lambda: sorted(k for k, v in %s.items()))" % a)
            elif op == "eq": ops.append("t(lambda: (%s == %s, %s != %s))" % (a, dct(), a, dct()))
            elif op == "copy": ops.append("def f():\n    global d2\n    d2 = %s\nt(f)" % rnd.choice(["dict(%s)" % a, "dict((k, %s[k]) for k in %s)" % (a, a)]))
            elif op == "pop": ops.append("t(lambda: %s.pop(%s))" % (a, k))
            elif op == "setdefault": ops.append("t(lambda: %s.setdefault(%s, %s))" % (a, k, v))
            elif op == "clear": ops.append("t(lambda: %s.clear())" % a)
            else: ops.append("t(lambda: sorted(k for k in %s))" % a)
        else:
            a = st(); v = rnd.choice(svals)
            op = rnd.choice(["add", "in", "len", "union", "inter", "diff", "symdiff", "eq", "copy", "iter", "iunion"])
            if op == "add": ops.append("t(lambda: %s.add(%s))" % (a, v))
            elif op == "in": ops.append("t(lambda: (%s in %s, %s not in %s))" % (v, a, v, a))
            elif op == "len": ops.append("t(lambda: len(%s))" % a)
            elif op == "union": ops.append("t(lambda: sorted(str(e) for e in (%s | %s)))" % (a, st()))
            elif op == "inter": ops.append("t(lambda: sorted(str(e) for e in (%s & %s)))" % (a, st()))
            elif op == "diff": ops.append("t(lambda: sorted(str(e) for e in (%s - {%s})))" % (a, v))
            elif op == "symdiff": ops.append("t(lambda: sorted(str(e) for e in (%s ^ {%s, 99})))" % (a, v))
            elif op == "eq": ops.append("t(lambda: (%s == %s, %s != %s))" % (a, st(), a, st()))
            elif op == "copy": ops.append("def f():\n    global s2\n    s2 = %s\nt(f)" % rnd.choice(["set(%s)" % a, "%s | set()" % a]))
            elif op == "iter": ops.append("t(lambda: sorted(str(e) for e in %s))" % a)
            elif op == "discard": ops.append("t(lambda: %s.discard(%s))" % (a, v))
            elif op == "remove": ops.append("t(lambda: %s.remove(%s))" % (a, v))
            elif op == "iunion": ops.append("def f():\n    global %s\n    %s |= {%s}\nt(f)" % (a, a, v))
            elif op == "sub": ops.append("t(lambda: ({%s} <= %s, %s >= {%s}))" % (v, a, a, v))
            elif op == "clear": ops.append("t(lambda: %s.clear())" % a)
            else: ops.append("t(lambda: %s.update([%s, 5]))" % (a, v))
    return "\n".join(L + ops) + "\n", dict(nops=nops)

# ------------------------------------------------------------------------------------------------
# every generator's programs, as plain source strings (used by C18/C08/C10/C11)
def all_programs(seed, n):
    out = []
    def add(rs):
        for r in rs:
            out.append(r if isinstance(r, str) else r[0])
    add(control_flow_programs(seed, n)); add(nesting_programs(seed, n)); add(cleanup_programs())
    add(scope_programs(seed, n)); add(generator_history_programs(seed, n)); add(consumer_programs())
    add(container_history_programs(seed, n))
    return out

def repo_py_files(repo):
    import os
    res = []
    for root, dirs, files in os.walk(repo):
        dirs[:] = [d for d in dirs if not d.startswith(".")]
        for f in sorted(files):
            if f.endswith(".py"):
                p = os.path.join(root, f)
                try:
                    res.append((os.path.relpath(p, repo), open(p, encoding="utf8", errors="surrogateescape").read()))
                except OSError:
                    pass
    return sorted(res)

# ------------------------------------------------------------------------------------------------
# nested scopes for the compile pipeline (C11, C18): random nestings of def / class / lambda /
# comprehension with names from a small pool bound, read, deleted, declared global or nonlocal at
# every level.  The programs are meant to be COMPILED (many are not meant to run; some are rejected
# with a SyntaxError, e.g. nonlocal without an enclosing binding).
def nested_scope_programs(seed, n):
    import random
    rnd = random.Random(seed * 7919 + 13)
    names = ["alpha", "beta", "gamma", "delta"]
    def block(kind, depth, ind):
        pad = "    " * ind; out = []
        k = rnd.randint(1, 5)
        for _ in range(k):
            r = rnd.random(); x = rnd.choice(names); y = rnd.choice(names)
            if r < 0.22: out.append(pad + "%s = %d" % (x, rnd.randint(0, 9)))
            elif r < 0.36: out.append(pad + ("return %s + %s" % (x, y) if kind == "def" and rnd.random() < 0.5 else "print(%s, %s)" % (x, y)))
            elif r < 0.42 and kind != "module": out.append(pad + "global " + x)
            elif r < 0.48 and kind == "def" and depth > 1: out.append(pad + "nonlocal " + x)
            elif r < 0.52: out.append(pad + "del " + x)
            elif r < 0.58: out.append(pad + "%s = lambda %s=%s: %s + %s" % (x, y, y, x, rnd.choice(names)))
            elif r < 0.64: out.append(pad + "%s = [%s for %s in range(2) if %s]" % (x, rnd.choice(names), y, rnd.choice(names)))
            elif r < 0.68: out.append(pad + "for %s in (1, 2): %s += 1" % (x, y))
            elif r < 0.72 and kind == "def": out.append(pad + "%s = yield %s" % (x, y))
            elif depth < 4 and r < 0.88:
                params = ", ".join(rnd.sample(names, rnd.randint(0, 2)))
                out.append(pad + "def f%d(%s):" % (rnd.randint(0, 9), params)); out += block("def", depth + 1, ind + 1)
            elif depth < 4:
                out.append(pad + "class C%d:" % rnd.randint(0, 9)); out += block("class", depth + 1, ind + 1)
            else: out.append(pad + "pass")
        return out
    progs = []
    for _ in range(n):
        progs.append("\n".join(block("module", 0, 0)) + "\n")
    # the systematic core: function > class > method with every subset of the pool bound in the class
    # body and read in the method
    import itertools
    for bound in itertools.chain.from_iterable(itertools.combinations(names, k) for k in range(0, 5)):
        for read in itertools.chain.from_iterable(itertools.combinations(names, k) for k in range(1, 4)):
            src = "def outer():\n" + "".join("    %s = 1\n" % x for x in names) + "    class C:\n" + "".join("        %s = 2\n" % x for x in bound)
            src += "        def m(self):\n            return (%s,)\n    return C\n" % ", ".join(read)
            progs.append(src)
    return progs

# ---------------------------------------------------------------- the exception being handled (bare raise, nested handlers)
def exc_state_programs():
    """systematic programs about which exception a bare `raise` re-raises: a handler for OUTER does some
    ACTIVITY (another exception raised and handled in the same frame, in a callee, in a generator, inside
    a with/finally), then a bare raise at POSITION; the driver prints the class that comes out."""
    outers = ["ValueError('outer')", "KeyError('outer')", "ZeroDivisionError('outer')"]
    acts = {
        "none": ["pass"],
        "handled-here": ["try:", "    [][1]", "except IndexError:", "    print('inner handled')"],
        "handled-here-as": ["try:", "    raise TypeError('inner')", "except TypeError as e2:", "    print('inner handled', e2.args[0])"],
        "handled-twice": ["for q in (1, 2):", "    try:", "        raise LookupError(q)", "    except LookupError:", "        print('inner', q)"],
        "handled-in-callee": ["helper()"],
        "handled-in-generator": ["print(list(gen()))"],
        "nested-finally": ["try:", "    try:", "        raise TypeError('inner')", "    finally:", "        print('inner finally')", "except TypeError:", "    print('inner handled')"],
        "with-swallow": ["with Swallow():", "    raise TypeError('inner')"],
    }
    swallow_vals = ["1", "'yes'", "[0]", "2.5", "(0,)", "0", "''", "[]", "None", "0.0", "True", "False"]
    positions = {
        "in-handler": (["raise"], []),
        "in-nested-handler": (["try:", "    raise AttributeError('second')", "except AttributeError:", "    print('second handled')", "    raise"], []),
        "in-finally-of-handler": (["try:", "    print('body')", "finally:", "    raise"], []),
        "in-else-after": (["print('handler done')"], ["raise"]),
        "in-callee-of-handler": (["reraise()"], []),
    }
    pre = ("class Swallow:\n    def __enter__(self): return self\n    def __exit__(self, t, v, tb):\n        print('exit', t is not None); return True\n"
           "def helper():\n    try:\n        raise OSError('h')\n    except OSError:\n        print('helper handled')\n"
           "def gen():\n    for i in range(2):\n        try:\n            raise NameError(i)\n        except NameError:\n            yield i\n"
           "def reraise():\n    raise\n")
    out = []
    for sv in swallow_vals:
        src = ("class R:\n    def __init__(self, r): self.r = r\n    def __enter__(self): return self\n    def __exit__(self, a, b, c):\n        print('exit', a is None)\n        return self.r\n"
               "def run():\n    with R(%s):\n        raise ValueError('v')\n    print('suppressed')\n    for i in range(2):\n        with R(%s):\n            if i == 0: continue\n            return 'ret'\n"
               "try:\n    print(run())\nexcept ValueError:\n    print('propagated')\nwith R(%s):\n    print('no exception')\nprint('after')\n" % (sv, sv, sv))
        out.append((src, dict(outer="ValueError", activity="exit-result " + sv, position="with")))
    for o in outers:
        for an, act in acts.items():
            for pn, (inh, after) in positions.items():
                body = ["def run():", "    try:", "        raise " + o, "    except Exception:", "        print('handling')"]
                body += ["        " + l for l in act] + ["        " + l for l in inh] + ["    " + l for l in after]
                body += ["    print('run returns')"]
                drv = ["try:", "    run()", "except BaseException as e:", "    print('out:', isinstance(e, ValueError), isinstance(e, KeyError), isinstance(e, ZeroDivisionError), isinstance(e, RuntimeError), isinstance(e, AttributeError), isinstance(e, TypeError), e.args)"]
                out.append((pre + "\n".join(body + drv) + "\n", dict(outer=o.split("(")[0], activity=an, position=pn)))
    return out

# ---------------------------------------------------------------- parameters of every kind captured by inner scopes
def captured_param_programs():
    """systematic: a function whose signature has parameters of every kind (positional, defaulted,
    *args, keyword-only, keyword-only with default, **kwargs); a chosen subset of them is captured by an
    inner scope of a chosen form (closure read, nonlocal rebinding, lambda, comprehension, method of a
    local class, doubly nested closure).  Every parameter is printed from the function and from the
    inner scope."""
    import itertools
    params = [("p", "p"), ("d", "d=20"), ("va", "*va"), ("ko", "ko"), ("kd", "kd=50"), ("kw", "**kw")]
    sigs = [["p", "d", "va", "ko", "kd", "kw"], ["p", "va", "ko"], ["ko", "kd"], ["p", "d", "ko", "kw"], ["va", "kd", "kw"], ["p", "d"]]
    def inner(form, caps):
        tup = "(" + ", ".join(caps) + ",)"
        if form == "read": return ["def inner():", "    return " + tup, "print('inner', inner())"]
        if form == "nonlocal":
            return ["def inner():", "    nonlocal " + ", ".join(caps)] + ["    %s = (%s, 'n')" % (c, c) for c in caps] + ["    return " + tup, "print('inner', inner())"]
        if form == "lambda": return ["print('inner', (lambda: " + tup + ")())"]
        if form == "comprehension": return ["print('inner', [" + tup + " for _ in (1, 2)])"]
        if form == "method": return ["class K:", "    def m(self):", "        return " + tup, "print('inner', K().m())"]
        if form == "nested2": return ["def mid():", "    def inner():", "        return " + tup, "    return inner", "print('inner', mid()())"]
    out = []
    for sig in sigs:
        text = []
        seen_star = False
        for n in sig:
            spec = dict(params)[n]
            if n in ("ko", "kd") and not seen_star and "va" not in sig[:sig.index(n)]:
                text.append("*"); seen_star = True
            text.append(spec)
            if n == "va": seen_star = True
        call_args = []
        if "p" in sig: call_args.append("1")
        if "d" in sig: call_args.append("2")
        if "va" in sig: call_args += ["3", "4"] if ("p" in sig and "d" in sig) or ("p" not in sig and "d" not in sig) else []
        if "ko" in sig: call_args.append("ko=5")
        if "kw" in sig: call_args.append("zz=7")
        for k in range(1, min(len(sig), 3) + 1):
            for caps in itertools.combinations(sig, k):
                for form in ("read", "nonlocal", "lambda", "comprehension", "method", "nested2"):
                    body = ["def f(%s):" % ", ".join(text)] + ["    " + l for l in inner(form, list(caps))]
                    body.append("    print('outer', %s)" % ", ".join(n if n != "kw" else "sorted(kw.items())" for n in sig))
                    body.append("try:\n    f(%s)\nexcept NameError as e:\n    print('NameError')\nexcept UnboundLocalError as e:\n    print('UnboundLocalError')" % ", ".join(call_args))
                    out.append(("\n".join(body) + "\n", dict(signature=", ".join(text), captured=list(caps), form=form)))
    return out

# ---------------------------------------------------------------- handler matching over the builtin exception hierarchy
EXC_NAMES = ['BaseException','Exception','ArithmeticError','AssertionError','AttributeError','BufferError','EOFError','FloatingPointError','GeneratorExit','ImportError','IndexError','KeyError','KeyboardInterrupt','LookupError','MemoryError','NameError','NotImplementedError','OSError','OverflowError','ReferenceError','RuntimeError','StopIteration','SyntaxError','IndentationError','TabError','SystemError','SystemExit','TypeError','UnboundLocalError','UnicodeError','ValueError','ZeroDivisionError','IOError','EnvironmentError','FileNotFoundError','PermissionError','FileExistsError','IsADirectoryError','NotADirectoryError','TimeoutError','InterruptedError','BlockingIOError','ChildProcessError','ConnectionError','BrokenPipeError','ConnectionAbortedError','ConnectionRefusedError','ConnectionResetError','ProcessLookupError','Warning','UserWarning','DeprecationWarning','RuntimeWarning','SyntaxWarning','FutureWarning','ImportWarning','UnicodeWarning','BytesWarning','ResourceWarning','PendingDeprecationWarning']
def exc_matrix_programs():
    """for every ordered pair (raised class, handler class) of the builtin exception classes: is the exception
    caught by `except H`, by `except (X, H)`, and which of several handlers in sequence takes it (the first
    that matches by inheritance, no other); also instances vs classes as the raise operand"""
    pre = "names = %r\nclasses = [eval(n) for n in names]\n" % EXC_NAMES
    p1 = pre + ("for r in classes:\n    row = ''\n    for h in classes:\n        try:\n            try:\n                raise r('x')\n            except h:\n                row += '1'\n"
                "        except BaseException:\n            row += '0'\n    print(row)\n")
    p2 = pre + ("for r in classes:\n    row = ''\n    for h in classes:\n        try:\n            try:\n                raise r\n            except (TabError, h):\n                row += '1'\n"
                "        except BaseException:\n            row += '0'\n    print(row)\n")
    # first matching handler among three, chosen from the hierarchy in every order of (specific, general, unrelated)
    p3 = pre + ("def which(r, hs):\n    try:\n        try:\n            raise r('y')\n        except hs[0]:\n            return 0\n        except hs[1]:\n            return 1\n        except hs[2]:\n            return 2\n"
                "    except BaseException:\n        return 9\n"
                "trip = [(KeyError, LookupError, Exception), (LookupError, KeyError, Exception), (Exception, LookupError, KeyError), (ValueError, KeyError, BaseException), (ZeroDivisionError, ArithmeticError, OverflowError),\n"
                "        (FileNotFoundError, OSError, IOError), (IndentationError, SyntaxError, TabError), (UnboundLocalError, NameError, Exception), (NotImplementedError, RuntimeError, StopIteration), (BrokenPipeError, ConnectionError, OSError)]\n"
                "for hs in trip:\n    print(''.join(str(which(r, hs)) for r in classes))\n")
    p4 = pre + ("for r in classes:\n    print(''.join('1' if isinstance(r('z'), h) else '0' for h in classes))\n")
    return [(p1, dict(form="except H")), (p2, dict(form="except (X, H), class operand")), (p3, dict(form="first of three handlers")), (p4, dict(form="isinstance"))]

# ---------------------------------------------------------------- laziness: how much of a producer each consumer pulls
def laziness_programs():
    """a logging producer (generator, iterator class, sequence-protocol object) under consumers that must stop
    early or must not pull at all until asked; the pull log is printed with the result"""
    prods = {
      "generator": "def P(n, tag='p'):\n    for i in range(n):\n        print(tag, 'yield', i)\n        yield i\n    print(tag, 'finished')\n",
      "iterclass": "class It:\n    def __init__(self, n, tag): self.n = n; self.i = 0; self.tag = tag\n    def __iter__(self): return self\n    def __next__(self):\n        if self.i >= self.n:\n            print(self.tag, 'finished')\n            raise StopIteration\n        self.i += 1\n        print(self.tag, 'yield', self.i - 1)\n        return self.i - 1\ndef P(n, tag='p'): return It(n, tag)\n",
      "getitem": "class Sq:\n    def __init__(self, n, tag): self.n = n; self.tag = tag\n    def __getitem__(self, i):\n        if i >= self.n:\n            print(self.tag, 'finished')\n            raise IndexError\n        print(self.tag, 'yield', i)\n        return i\ndef P(n, tag='p'): return Sq(n, tag)\n",
    }
    cons = [
      "print(any(v > 1 for v in P(5)))", "print(all(v < 2 for v in P(5)))", "print(any(P(4)))", "print(all(P(4)))",
      "print(2 in P(5))", "print(7 in P(3))", "print(1 not in P(4))",
      "print(list(zip(P(2, 'a'), P(5, 'b'))))", "print(list(zip(P(5, 'a'), P(2, 'b'))))", "print(list(zip(P(0, 'a'), P(3, 'b'))))", "print(list(zip(P(2, 'a'), P(2, 'b'), P(3, 'c'))))",
      "i = iter(P(4))\nprint(next(i))\nprint(next(i))", "i = iter(P(1))\nprint(next(i))\nprint(next(i, 'dflt'))\nprint(next(i, 'again'))",
      "for v in P(5):\n    if v == 2:\n        break\nprint('after', v)", "for v in P(2):\n    pass\nelse:\n    print('else')",
      "try:\n    a, b = P(2)\n    print(a, b)\nexcept ValueError:\n    print('ValueError')", "try:\n    a, b = P(5)\n    print(a, b)\nexcept ValueError:\n    print('ValueError')",
      "try:\n    a, b, c = P(2)\nexcept ValueError:\n    print('ValueError')", "a, *b = P(3)\nprint(a, b)", "*a, b = P(3)\nprint(a, b)",
      "m = map(lambda v: v * 2, P(3))\nprint('made')\nprint(next(m))\nprint(list(m))", "f = filter(lambda v: v % 2, P(4))\nprint('made')\nprint(next(f))",
      "e = enumerate(P(3), 10)\nprint('made')\nprint(next(e))\nprint(list(e))", "g = (v * v for v in P(3))\nprint('made')\nprint(next(g))\nprint(next(g))",
      "z = zip(P(3, 'a'), P(3, 'b'))\nprint('made')\nprint(next(z))", "print(min(P(3)), max(P(3)), sum(P(3)))", "print(sorted(P(3), reverse=True))",
      "print(list(P(3))[1:], tuple(P(2)), sorted(set(P(2))))", "print(dict(zip(['a', 'b'], P(5))))" if False else "print(list(zip(['a', 'b'], P(5))))",
      "def take(it, n):\n    r = []\n    for v in it:\n        if len(r) == n:\n            break\n        r.append(v)\n    return r\nprint(take(P(5), 2))",
      "it = iter(P(4))\nfor v in it:\n    if v == 1:\n        break\nprint(list(it))", "it = iter(P(3))\nprint(list(it), list(it))",
      "def f(*a):\n    return a\nprint(f(*P(3)))", "print(','.join(str(v) for v in P(3)))", "print([v for v in P(4) if v % 2 for w in P(1, 'q')])",
      "x = iter(P(3))\nprint(1 in x)\nprint(list(x))",
      "i = iter([1, 2, 3])\nprint(next(i))\nprint(list(i), list(i))", "i = iter(range(3))\nprint(next(i), next(i), next(i), next(i, 'end'))", "i = iter('ab')\nprint(next(i), next(i), next(i, None))",
      "l = [1, 2, 3]\ni = iter(l)\nprint(next(i))\nl.append(4)\nprint(list(i))", "l = [1, 2, 3, 4]\nr = []\nfor v in l:\n    r.append(v)\n    if v == 2:\n        del l[0]\nprint(r)",
      "e = enumerate(P(4))\nfor i, v in e:\n    if i == 1:\n        break\nprint(list(e))", "e = enumerate('abc', 5)\nprint(next(e), next(e))\nprint(iter(e) is e, list(e))",
      "s = P(2)\ni = iter(s)\nprint(list(i))\nprint(next(i, 'still exhausted'))\nprint(list(i))",
      "l = [1, 2]\ni = iter(l)\nprint(list(i))\nl.append(3)\nprint(list(i), next(i, 'still exhausted'))", "t = (1, 2)\nj = iter(t)\nprint(list(j), list(j))",
      "class S:\n    def __init__(self): self.n = 2\n    def __getitem__(self, k):\n        if k >= self.n: raise IndexError\n        return k\ns = S()\nit = iter(s)\nprint(list(it))\ns.n = 5\nprint(list(it))",
      "r = iter(range(2))\nprint(list(r), list(r))", "st = iter('ab')\nprint(list(st), list(st))", "z = zip([1, 2], [3, 4])\nprint(list(z), list(z))", "m = map(str, [1, 2])\nprint(list(m), list(m))",
      "g = P(2)\nprint(list(g), list(g), next(g, 'exhausted'))",
      "n = [0]\ndef f():\n    n[0] += 1\n    return n[0]\nit = iter(f, 3)\nprint(list(it), n[0])\nprint(next(it, 'done'), n[0], list(it), n[0])",
      "n = [0]\ndef f():\n    n[0] += 1\n    return float(n[0])\nprint(list(iter(f, 2)), n[0], list(zip(iter(f, 99), 'ab')), n[0])",
      "i = iter((1, 2))\nprint(list(zip(i, i)))", "i = iter(P(5))\nprint(list(zip(i, i)))",
    ]
    out = []
    for pn, ps in prods.items():
        for c in cons:
            out.append((ps + c + "\n", dict(producer=pn, consumer=c.split("\n")[0][:50])))
    return out

# ---------------------------------------------------------------- an exit from each clause of try/except/else/finally inside a loop
def try_clause_exit_programs():
    """the abrupt exit (continue, break, return, raise) sits in the try body, in the handler or in the else clause of a
    try statement with every combination of handler / else / finally, inside a for or while loop, alone or nested in an
    outer try/finally; the finally bodies must run exactly once on the way out and the loop must go on correctly"""
    out = []
    exits = ["continue", "break", "return ('ret', i)", "raise KeyError('k')", "pass"]
    shapes = [("except", "else", "finally"), ("except", "else"), ("except", "finally"), ("finally",), ("except",)]
    for shape in shapes:
        for clause in ("body", "except", "else"):
            if clause != "body" and clause not in shape: continue
            for ex in exits:
                for loop in ("for", "while"):
                    for nest in (False, True):
                        L = ["def f():", "    out = []"]
                        L += ["    for i in range(4):"] if loop == "for" else ["    i = -1", "    while i < 3:", "        i += 1"]
                        ind = "        "
                        if nest:
                            L += [ind + "try:"]; ind += "    "
                        L += [ind + "try:", ind + "    out.append(('try', i))", ind + "    if i == 0:", ind + "        raise ValueError('v')"]
                        if clause == "body": L += [ind + "    if i == 2:", ind + "        " + ex]
                        if "except" in shape:
                            L += [ind + "except ValueError:", ind + "    out.append(('except', i))"]
                            if clause == "except": L += [ind + "    " + ex]
                        if "else" in shape:
                            L += [ind + "else:", ind + "    out.append(('else', i))"]
                            if clause == "else": L += [ind + "    if i == 2:", ind + "        " + ex]
                        if "finally" in shape:
                            L += [ind + "finally:", ind + "    out.append(('finally', i))"]
                        if nest:
                            ind = ind[:-4]; L += [ind + "finally:", ind + "    out.append(('outer-finally', i))"]
                        L += ["        out.append(('after', i))", "    else:", "        out.append('loop-else')", "    return out"]
                        L += ["try:", "    print(f())", "except KeyError:", "    print('KeyError')", "except ValueError:", "    print('ValueError')"]
                        out.append(("\n".join(L) + "\n", dict(shape="/".join(shape), clause=clause, exit=ex, loop=loop, nested=nest)))
    return out
