module verifharness

go 1.18

require github.com/go-python/gpython v0.0.0

replace github.com/go-python/gpython => /repo
