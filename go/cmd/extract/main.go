package main

import (
	"flag"
	"fmt"
	"os"
	"path/filepath"
)

func main() {
	repo := flag.String("repo", "/repo", "repository root")
	out := flag.String("out", "", "output directory (coq/Gen)")
	what := flag.String("what", "lifecycle", "which inventory")
	flag.Parse()
	write := func(name, text string, unsup []string) {
		if len(unsup) > 0 {
			for _, u := range unsup {
				fmt.Fprintf(os.Stderr, "UNSUPPORTED %s: %s\n", name, u)
			}
		}
		if text == "" {
			text = "(* extraction failed: see UNSUPPORTED lines *)\nDefinition extraction_failed := tt.\n"
		}
		p := filepath.Join(*out, name)
		old, _ := os.ReadFile(p)
		if string(old) != text {
			if err := os.WriteFile(p, []byte(text), 0o644); err != nil {
				fmt.Fprintln(os.Stderr, err)
				os.Exit(2)
			}
		}
	}
	switch *what {
	case "lifecycle":
		t, u := extractLifecycle(*repo)
		write("Lifecycle.v", t, u)
		if len(u) > 0 {
			os.Exit(3)
		}
	case "inventories":
		t, u := extractInventories(*repo)
		write("Inventories.v", t, u)
		if len(u) > 0 {
			os.Exit(3)
		}
	case "itertests":
		t, u := extractIterTests(*repo)
		write("IterTests.v", t, u)
		if len(u) > 0 {
			os.Exit(3)
		}
	case "opcodes":
		t, u := extractOpcodes(*repo)
		write("Opcodes.v", t, u)
		if len(u) > 0 {
			os.Exit(3)
		}
	default:
		fmt.Fprintln(os.Stderr, "unknown -what")
		os.Exit(2)
	}
}
