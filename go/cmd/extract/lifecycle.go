package main

// Extraction of the context lifecycle (stdlib/stdlib.go) as lists of atomic actions for
// coq/Model/Lifecycle.v.  Anything the extractor does not understand is reported as
// Unsupported (the tie is then broken, never silently approximated).

import (
	"fmt"
	"go/ast"
	"go/parser"
	"go/token"
	"path/filepath"
	"strings"
)

type lcAct struct {
	kind  string   // "step", "wait", "onceenter", "onceexit"
	prims []string // for step
	skip  int
	refus bool // contains a PTestRefuse
}

type lcExtract struct {
	fset        *token.FileSet
	funcs       map[string]*ast.FuncDecl
	unsupported []string
	lockedWrite map[string]bool // flag -> every write is under ctx.mu
}

func (x *lcExtract) unsup(n ast.Node, msg string) {
	pos := ""
	if n != nil {
		pos = x.fset.Position(n.Pos()).String() + ": "
	}
	x.unsupported = append(x.unsupported, pos+msg)
}

func selPath(e ast.Expr) string {
	switch v := e.(type) {
	case *ast.Ident:
		return v.Name
	case *ast.SelectorExpr:
		return selPath(v.X) + "." + v.Sel.Name
	}
	return "?"
}

func callPath(s ast.Stmt) (string, *ast.CallExpr) {
	es, ok := s.(*ast.ExprStmt)
	if !ok {
		return "", nil
	}
	c, ok := es.X.(*ast.CallExpr)
	if !ok {
		return "", nil
	}
	return selPath(c.Fun), c
}

func flagOf(name string) string {
	switch name {
	case "ctx.closing":
		return "FClosing"
	case "ctx.closed":
		return "FClosed"
	}
	return ""
}

// seq translates a statement list made of lifecycle operations into actions.
type seqState struct {
	acts   []lcAct
	cur    []string
	inLock bool
	refus  bool
	locked map[string]bool // flag -> all its writes are under the mutex
}

func (q *seqState) flush() {
	if len(q.cur) > 0 {
		q.acts = append(q.acts, lcAct{kind: "step", prims: q.cur, refus: q.refus})
	}
	q.cur = nil
	q.refus = false
}
func (q *seqState) prim(p string) {
	q.cur = append(q.cur, p)
	if strings.HasPrefix(p, "PTestRefuse") {
		q.refus = true
	}
	// a flag test under the mutex is atomic with what follows only if every write of that
	// flag is under the mutex too
	if !q.inLock || (strings.HasPrefix(p, "PTestRefuse ") && q.locked != nil && !q.locked[strings.TrimPrefix(p, "PTestRefuse ")]) {
		q.flush()
	}
}

func (x *lcExtract) lifecycleStmt(q *seqState, s ast.Stmt, allowBlocking bool) bool {
	if p, c := callPath(s); c != nil {
		switch p {
		case "verifYield":
			return true
		case "ctx.mu.Lock":
			q.flush()
			q.inLock = true
			return true
		case "ctx.mu.Unlock":
			q.flush()
			q.inLock = false
			return true
		case "ctx.running.Add":
			if len(c.Args) == 1 {
				if bl, ok := c.Args[0].(*ast.BasicLit); ok && bl.Value == "1" {
					q.prim("PWgAdd")
					return true
				}
			}
			x.unsup(s, "running.Add with an argument other than 1")
			return true
		case "ctx.running.Done":
			q.prim("PWgDone")
			return true
		case "ctx.running.Wait":
			if q.inLock {
				x.unsup(s, "running.Wait inside the mutex")
			}
			q.flush()
			q.acts = append(q.acts, lcAct{kind: "wait"})
			return true
		case "ctx.store.OnContextClosed":
			q.prim("PCallbacks")
			return true
		case "close":
			if len(c.Args) == 1 && selPath(c.Args[0]) == "ctx.done" {
				q.prim("PCloseDone")
				return true
			}
		}
		return false
	}
	switch v := s.(type) {
	case *ast.DeferStmt:
		if selPath(v.Call.Fun) == "ctx.mu.Unlock" {
			return true // lock held to the end of the function
		}
	case *ast.AssignStmt:
		if len(v.Lhs) == 1 && len(v.Rhs) == 1 {
			if f := flagOf(selPath(v.Lhs[0])); f != "" {
				if id, ok := v.Rhs[0].(*ast.Ident); ok && id.Name == "true" {
					if !q.inLock {
						x.lockedWrite[f] = false
					}
					q.prim("PSet " + f)
					return true
				}
				x.unsup(s, "lifecycle flag assigned something other than true")
				return true
			}
		}
	case *ast.IfStmt:
		if v.Init == nil && v.Else == nil {
			if f := flagOf(selPath(v.Cond)); f != "" && len(v.Body.List) == 1 {
				if r, ok := v.Body.List[0].(*ast.ReturnStmt); ok && len(r.Results) == 1 {
					if id, ok := r.Results[0].(*ast.Ident); !ok || id.Name != "nil" {
						q.prim("PTestRefuse " + f)
						return true
					}
				}
			}
		}
	case *ast.ReturnStmt:
		return true
	}
	return false
}

func (x *lcExtract) seqOf(name string, body []ast.Stmt) []lcAct {
	q := &seqState{locked: x.lockedWrite}
	for _, s := range body {
		if !x.lifecycleStmt(q, s, true) {
			x.unsup(s, "statement not understood in "+name)
		}
	}
	q.flush()
	return q.acts
}

// frame builds the action list of one execution entry point.
func (x *lcExtract) frame(name string, depth int) []lcAct {
	fd := x.funcs[name]
	if fd == nil {
		x.unsup(nil, "missing method "+name)
		return nil
	}
	body := fd.Body.List
	// prologue: err := ctx.pushBusy()  [defer ctx.popBusy()]  if err != nil { return }  [defer ctx.popBusy()]
	idx := 0
	isPush := func(s ast.Stmt) bool {
		a, ok := s.(*ast.AssignStmt)
		if !ok || len(a.Rhs) != 1 {
			return false
		}
		c, ok := a.Rhs[0].(*ast.CallExpr)
		return ok && selPath(c.Fun) == "ctx.pushBusy"
	}
	isDeferPop := func(s ast.Stmt) bool {
		d, ok := s.(*ast.DeferStmt)
		return ok && selPath(d.Call.Fun) == "ctx.popBusy"
	}
	isErrCheck := func(s ast.Stmt) bool {
		i, ok := s.(*ast.IfStmt)
		if !ok {
			return false
		}
		b, ok := i.Cond.(*ast.BinaryExpr)
		if !ok || b.Op != token.NEQ || selPath(b.X) != "err" || selPath(b.Y) != "nil" {
			return false
		}
		if len(i.Body.List) != 1 {
			return false
		}
		_, ok = i.Body.List[0].(*ast.ReturnStmt)
		return ok
	}
	if idx >= len(body) || !isPush(body[idx]) {
		x.unsup(fd, name+": does not start with err := ctx.pushBusy()")
		return nil
	}
	idx++
	deferBefore := false
	if idx < len(body) && isDeferPop(body[idx]) {
		deferBefore = true
		idx++
	}
	if idx >= len(body) || !isErrCheck(body[idx]) {
		x.unsup(fd, name+": admission result not checked")
		return nil
	}
	idx++
	hasPop := deferBefore
	if !deferBefore && idx < len(body) && isDeferPop(body[idx]) {
		hasPop = true
		idx++
	}
	if !hasPop {
		x.unsup(fd, name+": popBusy is not deferred in the prologue")
	}
	// the rest must not touch the lifecycle directly; nested ctx.RunCode is inlined once
	nested := false
	for _, s := range body[idx:] {
		ast.Inspect(s, func(n ast.Node) bool {
			switch v := n.(type) {
			case *ast.CallExpr:
				p := selPath(v.Fun)
				if p == "ctx.RunCode" {
					nested = true
				}
				if p == "ctx.pushBusy" || p == "ctx.popBusy" || strings.HasPrefix(p, "ctx.running.") ||
					p == "ctx.Close" || strings.HasPrefix(p, "ctx.mu.") || strings.HasPrefix(p, "ctx.closeOnce.") {
					x.unsup(v, name+": lifecycle operation in the body")
				}
			case *ast.SelectorExpr:
				if flagOf(selPath(v)) != "" {
					x.unsup(v, name+": lifecycle flag accessed in the body")
				}
			}
			return true
		})
	}
	push := x.seqOf("pushBusy", x.funcs["pushBusy"].Body.List)
	pop := x.seqOf("popBusy", x.funcs["popBusy"].Body.List)
	var inner []lcAct
	if nested && depth == 0 {
		inner = x.frame("RunCode", depth+1)
	} else {
		inner = []lcAct{{kind: "step", prims: []string{"PBody"}}}
	}
	var out []lcAct
	out = append(out, push...)
	out = append(out, inner...)
	out = append(out, pop...)
	// refusal skips: the rest of this frame (except the pop when it was deferred first)
	for i := range push {
		if out[i].refus {
			rest := len(out) - (i + 1)
			if deferBefore {
				rest -= len(pop)
			}
			out[i].skip = rest
		}
	}
	return out
}

func (x *lcExtract) closeProg() []lcAct {
	fd := x.funcs["Close"]
	if fd == nil {
		x.unsup(nil, "missing method Close")
		return nil
	}
	var out []lcAct
	for _, s := range fd.Body.List {
		if p, c := callPath(s); c != nil && p == "ctx.closeOnce.Do" && len(c.Args) == 1 {
			fl, ok := c.Args[0].(*ast.FuncLit)
			if !ok {
				x.unsup(s, "closeOnce.Do argument is not a function literal")
				continue
			}
			body := x.seqOf("Close", fl.Body.List)
			out = append(out, lcAct{kind: "onceenter", skip: len(body) + 1})
			out = append(out, body...)
			out = append(out, lcAct{kind: "onceexit"})
			continue
		}
		if _, ok := s.(*ast.ReturnStmt); ok {
			continue
		}
		q := &seqState{}
		if x.lifecycleStmt(q, s, true) {
			q.flush()
			out = append(out, q.acts...)
			continue
		}
		x.unsup(s, "statement not understood in Close")
	}
	return out
}

func renderActs(as []lcAct) string {
	var parts []string
	for _, a := range as {
		switch a.kind {
		case "step":
			parts = append(parts, fmt.Sprintf("AStep [%s] %d", strings.Join(a.prims, "; "), a.skip))
		case "wait":
			parts = append(parts, "AWgWait")
		case "onceenter":
			parts = append(parts, fmt.Sprintf("AOnceEnter %d", a.skip))
		case "onceexit":
			parts = append(parts, "AOnceExit")
		}
	}
	return "[" + strings.Join(parts, "; ") + "]"
}

func extractLifecycle(repo string) (string, []string) {
	x := &lcExtract{fset: token.NewFileSet(), funcs: map[string]*ast.FuncDecl{},
		lockedWrite: map[string]bool{"FClosing": true, "FClosed": true}}
	f, err := parser.ParseFile(x.fset, filepath.Join(repo, "stdlib", "stdlib.go"), nil, 0)
	if err != nil {
		return "", []string{err.Error()}
	}
	for _, d := range f.Decls {
		if fd, ok := d.(*ast.FuncDecl); ok && fd.Recv != nil && fd.Body != nil {
			x.funcs[fd.Name.Name] = fd
		}
	}
	for _, n := range []string{"pushBusy", "popBusy", "Close", "RunCode", "ModuleInit", "ResolveAndCompile", "Done"} {
		if x.funcs[n] == nil {
			x.unsup(nil, "missing method "+n)
		}
	}
	if len(x.unsupported) > 0 {
		return "", x.unsupported
	}
	closeP := x.closeProg() // first: records whether flag writes are under the mutex
	run := x.frame("RunCode", 0)
	mod := x.frame("ModuleInit", 0)
	res := x.frame("ResolveAndCompile", 0)
	// Done(): must return ctx.done
	okDone := false
	if fd := x.funcs["Done"]; fd != nil && len(fd.Body.List) == 1 {
		if r, ok := fd.Body.List[0].(*ast.ReturnStmt); ok && len(r.Results) == 1 && selPath(r.Results[0]) == "ctx.done" {
			okDone = true
		}
	}
	if !okDone {
		x.unsup(nil, "Done() is not `return ctx.done`")
	}
	var b strings.Builder
	b.WriteString("(* GENERATED by go/cmd/extract from /repo/stdlib/stdlib.go -- do not edit *)\n")
	b.WriteString("From Coq Require Import List. Import ListNotations.\nFrom GP Require Import Model.Lifecycle.\n\n")
	b.WriteString("Definition prog : program := {|\n")
	fmt.Fprintf(&b, "  p_run := %s;\n  p_mod := %s;\n  p_res := %s;\n  p_close := %s;\n  p_wait := [AWaitDone] |}.\n",
		renderActs(run), renderActs(mod), renderActs(res), renderActs(closeP))
	return b.String(), x.unsupported
}
