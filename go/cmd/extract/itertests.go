package main

// Inventory of the places where an error returned by __next__ decides whether an iteration
// is over (C05).  Each call of Next / M__next__ whose error result is bound to a variable
// is classified by the test applied to that variable.

import (
	"fmt"
	"go/ast"
	"go/parser"
	"go/printer"
	"go/token"
	"os"
	"path/filepath"
	"sort"
	"strings"
)

func exprString(fset *token.FileSet, e ast.Node) string {
	var b strings.Builder
	printer.Fprint(&b, fset, e)
	return b.String()
}

func isNextCall(e ast.Expr) bool {
	c, ok := e.(*ast.CallExpr)
	if !ok {
		return false
	}
	switch f := c.Fun.(type) {
	case *ast.Ident:
		return f.Name == "Next"
	case *ast.SelectorExpr:
		return f.Sel.Name == "Next" || f.Sel.Name == "M__next__"
	}
	return false
}

func mentions(fset *token.FileSet, n ast.Node, v string) bool {
	found := false
	ast.Inspect(n, func(x ast.Node) bool {
		if id, ok := x.(*ast.Ident); ok && id.Name == v {
			found = true
		}
		return !found
	})
	return found
}

func classifyCond(fset *token.FileSet, cond ast.Expr, body *ast.BlockStmt, v string) string {
	cs := exprString(fset, cond)
	if strings.Contains(cs, "IsException(") && strings.Contains(cs, "StopIteration") {
		return "ByIsException"
	}
	if strings.Contains(cs, "StopIteration") && (strings.Contains(cs, "==") || strings.Contains(cs, "!=")) {
		return "ByIdentity"
	}
	if body != nil {
		bs := exprString(fset, body)
		if strings.Contains(bs, "IsException(") && strings.Contains(bs, "StopIteration") {
			return "ByIsException"
		}
		if strings.Contains(bs, "== StopIteration") || strings.Contains(bs, "== py.StopIteration") || strings.Contains(bs, "!= StopIteration") || strings.Contains(bs, "!= py.StopIteration") {
			return "ByIdentity"
		}
		if len(body.List) > 0 {
			if r, ok := body.List[0].(*ast.ReturnStmt); ok && len(r.Results) > 0 {
				last := r.Results[len(r.Results)-1]
				if id, ok := last.(*ast.Ident); ok && id.Name == v {
					return "Propagate"
				}
			}
		}
	}
	return "AnyError"
}

type iterSite struct{ file, fn, style, detail string }

func scanBlockForNext(fset *token.FileSet, file, fn string, list []ast.Stmt, out *[]iterSite, parentTail ...ast.Stmt) {
	for i, s := range list {
		tail := append(append([]ast.Stmt{}, list[i:]...), parentTail...) // the statement itself (a loop re-tests its condition) and what follows
		// recurse into nested blocks
		ast.Inspect(s, func(n ast.Node) bool {
			switch b := n.(type) {
			case *ast.BlockStmt:
				if n != s {
					scanBlockForNext(fset, file, fn, b.List, out, tail...)
					return false
				}
			case *ast.FuncLit:
				scanBlockForNext(fset, file, fn, b.Body.List, out)
				return false
			}
			return true
		})
		var as *ast.AssignStmt
		switch v := s.(type) {
		case *ast.AssignStmt:
			as = v
		case *ast.IfStmt:
			if a, ok := v.Init.(*ast.AssignStmt); ok {
				as = a
			}
		}
		if as == nil || len(as.Rhs) != 1 || !isNextCall(as.Rhs[0]) || len(as.Lhs) != 2 {
			continue
		}
		ev, ok := as.Lhs[1].(*ast.Ident)
		if !ok {
			continue
		}
		pos := fset.Position(as.Pos())
		detail := fmt.Sprintf("%s:%d", file, pos.Line)
		if ev.Name == "_" {
			*out = append(*out, iterSite{file, fn, "AnyError", detail + " (error discarded)"})
			continue
		}
		style := ""
		if ifs, ok := s.(*ast.IfStmt); ok && as == ifs.Init {
			style = classifyCond(fset, ifs.Cond, ifs.Body, ev.Name)
		}
		follow := append(append([]ast.Stmt{}, list[i+1:]...), parentTail...)
		for j := 0; style == "" && j < len(follow) && j <= 4; j++ {
			switch t := follow[j].(type) {
			case *ast.IfStmt:
				if mentions(fset, t.Cond, ev.Name) {
					style = classifyCond(fset, t.Cond, t.Body, ev.Name)
				}
			case *ast.ForStmt:
				if t.Cond != nil && mentions(fset, t.Cond, ev.Name) {
					// loop while err == nil; the decisive test follows the loop
					for k := j + 1; k < len(follow) && k <= j+2; k++ {
						if ifs, ok := follow[k].(*ast.IfStmt); ok && mentions(fset, ifs.Cond, ev.Name) {
							style = classifyCond(fset, ifs.Cond, ifs.Body, ev.Name)
						}
					}
					if style == "" {
						style = "AnyError"
					}
				}
			case *ast.ReturnStmt:
				if mentions(fset, t, ev.Name) {
					style = "Propagate"
				}
			}
		}
		if style == "" {
			style = "AnyError"
		}
		*out = append(*out, iterSite{file, fn, style, detail})
	}
}

func extractIterTests(repo string) (string, []string) {
	var sites []iterSite
	fset := token.NewFileSet()
	for _, dir := range []string{"py", "vm", "stdlib/builtin", "stdlib/array", "stdlib/string", "stdlib/math"} {
		files, _ := filepath.Glob(filepath.Join(repo, dir, "*.go"))
		sort.Strings(files)
		for _, f := range files {
			if strings.HasSuffix(f, "_test.go") {
				continue
			}
			af, err := parser.ParseFile(fset, f, nil, 0)
			if err != nil {
				return "", []string{err.Error()}
			}
			rel, _ := filepath.Rel(repo, f)
			for _, d := range af.Decls {
				if fd, ok := d.(*ast.FuncDecl); ok && fd.Body != nil {
					scanBlockForNext(fset, rel, fd.Name.Name, fd.Body.List, &sites)
				}
			}
		}
	}
	var b strings.Builder
	b.WriteString("(* GENERATED by go/cmd/extract from /repo -- do not edit *)\nFrom Coq Require Import List String. Import ListNotations.\nFrom GP Require Import Model.Iter.\nOpen Scope string_scope.\n\n")
	b.WriteString("Definition sites : list (string * string * style) := [\n")
	for i, s := range sites {
		sep := ";"
		if i == len(sites)-1 {
			sep = ""
		}
		fmt.Fprintf(&b, "  (%q, %q, %s)%s\n", s.detail, s.fn, s.style, sep)
	}
	b.WriteString("].\n")
	for _, s := range sites {
		fmt.Fprintf(os.Stderr, "ITERSITE %s %s %s\n", s.detail, s.fn, s.style)
	}
	return b.String(), nil
}
