// go2v: translator from a small first-order subset of Go (64-bit integer arithmetic,
// booleans, math/big values, if/else, goto to a trailing label, early returns) to Gallina.
// Semantics written into the output: every + - * unary- << on a 64-bit integer is wrapped
// (wrap64), / and % truncate (Z.quot/Z.rem) and are partial (None = run-time panic on zero),
// shifts follow Go's rules for counts >= 64, math/big operations are exact Z operations.
// A function outside the subset is emitted as a comment and reported on stderr
// (UNSUPPORTED <name>: <reason>); the build of the proofs that need it then fails.
package main

import (
	"flag"
	"fmt"
	"go/ast"
	"go/parser"
	"go/token"
	"os"
	"path/filepath"
	"sort"
	"strings"
)

type kind int

const (
	kZ kind = iota
	kBool
	kBig
	kOptZ  // Object parameter consumed by convertToInt (Some z = Int/Bool operand)
	kValue // Object / error result
	kU64   // unsigned (only as shift count / comparison)
)

func (k kind) coq() string {
	switch k {
	case kZ, kBig, kU64:
		return "Z"
	case kBool:
		return "bool"
	case kOptZ:
		return "option Z"
	}
	return "value"
}

type unsup struct{ msg string }

func fail(n ast.Node, fset *token.FileSet, f string, a ...interface{}) {
	pos := ""
	if n != nil {
		pos = fset.Position(n.Pos()).String() + ": "
	}
	panic(unsup{pos + fmt.Sprintf(f, a...)})
}

var consts = map[string]string{
	"IntMax": "9223372036854775807", "IntMin": "(-9223372036854775808)",
	"sqrtIntMax": "3037000499", "PY_SSIZE_T_MAX": "9223372036854775807",
	"GoIntMax": "9223372036854775807", "GoIntMin": "(-9223372036854775808)",
}

var errVars = map[string]string{
	"negativeShiftCount": "ValueError:negative shift count",
	"divisionByZero":     "ZeroDivisionError:division by zero",
	"overflowError":      "OverflowError:Python int too large to convert to int64",
}

type tr struct {
	fset   *token.FileSet
	funcs  map[string]*ast.FuncDecl // "Recv.Name" or "Name"
	env    map[string]kind
	fresh  int
	ret    []kind            // result kinds of the current function
	named  []string          // named results
	labels map[string]string // label -> continuation name
	known  map[string][]kind // translated function -> result kinds
	knownP map[string][]kind // translated function -> param kinds
}

func (t *tr) tmp(p string) string { t.fresh++; return fmt.Sprintf("%s_%d", p, t.fresh) }

func typeKind(e ast.Expr) (kind, bool) {
	switch v := e.(type) {
	case *ast.Ident:
		switch v.Name {
		case "Int", "int", "int64", "int32", "rune":
			return kZ, true
		case "uint", "uint64", "uint32", "uint8", "byte":
			return kU64, true
		case "bool":
			return kBool, true
		case "Object", "error":
			return kValue, true
		}
	case *ast.StarExpr:
		if s, ok := v.X.(*ast.Ident); ok && s.Name == "BigInt" {
			return kBig, true
		}
		if s, ok := v.X.(*ast.SelectorExpr); ok && s.Sel.Name == "Int" {
			return kBig, true
		}
	}
	return 0, false
}

type binds struct{ lines []string }

func (b *binds) wrap(body string) string {
	out := body
	for i := len(b.lines) - 1; i >= 0; i-- {
		out = b.lines[i] + "\n" + out
	}
	return out
}

// expr translates an expression to a pure term; partial operations are hoisted into b.
func (t *tr) expr(e ast.Expr, b *binds, hoistOK bool) (string, kind) {
	switch v := e.(type) {
	case *ast.ParenExpr:
		s, k := t.expr(v.X, b, hoistOK)
		return "(" + s + ")", k
	case *ast.BasicLit:
		if v.Kind == token.INT {
			return v.Value, kZ
		}
	case *ast.Ident:
		if v.Name == "true" || v.Name == "false" {
			return v.Name, kBool
		}
		if c, ok := consts[v.Name]; ok {
			return c, kZ
		}
		if k, ok := t.env[v.Name]; ok {
			return v.Name, k
		}
		fail(e, t.fset, "unknown identifier %s", v.Name)
	case *ast.SelectorExpr:
		if x, ok := v.X.(*ast.Ident); ok {
			if x.Name == "math" && v.Sel.Name == "MaxInt64" {
				return consts["IntMax"], kZ
			}
			if x.Name == "math" && v.Sel.Name == "MinInt64" {
				return consts["IntMin"], kZ
			}
			n := x.Name + "_" + v.Sel.Name
			if k, ok := t.env[n]; ok {
				return n, k
			}
		}
	case *ast.UnaryExpr:
		s, k := t.expr(v.X, b, hoistOK)
		switch v.Op {
		case token.SUB:
			if k == kZ {
				return "(wrap64 (- " + s + "))", kZ
			}
		case token.XOR:
			if k == kZ {
				return "(Z.lnot " + s + ")", kZ
			}
		case token.NOT:
			if k == kBool {
				return "(negb " + s + ")", kBool
			}
		case token.ADD:
			return s, k
		}
	case *ast.BinaryExpr:
		if v.Op == token.LAND || v.Op == token.LOR {
			l, lk := t.expr(v.X, b, hoistOK)
			r, rk := t.expr(v.Y, b, false)
			if lk != kBool || rk != kBool {
				fail(e, t.fset, "non-boolean operand of && / ||")
			}
			if v.Op == token.LAND {
				return "(" + l + " && " + r + ")", kBool
			}
			return "(" + l + " || " + r + ")", kBool
		}
		if id, ok := v.Y.(*ast.Ident); ok && id.Name == "None" && (v.Op == token.EQL || v.Op == token.NEQ) {
			l, lk := t.expr(v.X, b, hoistOK)
			if lk == kOptZ {
				if v.Op == token.EQL {
					return "(match " + l + " with None => true | Some _ => false end)", kBool
				}
				return "(match " + l + " with None => false | Some _ => true end)", kBool
			}
		}
		l, lk := t.expr(v.X, b, hoistOK)
		r, rk := t.expr(v.Y, b, hoistOK)
		cmp := map[token.Token]string{token.LSS: "<?", token.LEQ: "<=?", token.GTR: ">?", token.GEQ: ">=?", token.EQL: "=?"}
		if op, ok := cmp[v.Op]; ok && (lk == kZ || lk == kU64 || lk == kBig) && (rk == kZ || rk == kU64 || rk == kBig) {
			return "(" + l + " " + op + " " + r + ")", kBool
		}
		if v.Op == token.NEQ && lk != kBool && lk != kValue {
			return "(negb (" + l + " =? " + r + "))", kBool
		}
		if lk == kBool && rk == kBool && (v.Op == token.EQL || v.Op == token.NEQ) {
			if v.Op == token.EQL {
				return "(Bool.eqb " + l + " " + r + ")", kBool
			}
			return "(negb (Bool.eqb " + l + " " + r + "))", kBool
		}
		if lk == kZ && (v.Op == token.SHL || v.Op == token.SHR) && (rk == kU64) {
			if v.Op == token.SHL {
				return "(shl64 " + l + " " + r + ")", kZ
			}
			return "(shr64 " + l + " " + r + ")", kZ
		}
		if lk == kZ && rk == kZ {
			switch v.Op {
			case token.ADD:
				return "(wrap64 (" + l + " + " + r + "))", kZ
			case token.SUB:
				return "(wrap64 (" + l + " - " + r + "))", kZ
			case token.MUL:
				return "(wrap64 (" + l + " * " + r + "))", kZ
			case token.AND:
				return "(Z.land " + l + " " + r + ")", kZ
			case token.OR:
				return "(Z.lor " + l + " " + r + ")", kZ
			case token.XOR:
				return "(Z.lxor " + l + " " + r + ")", kZ
			case token.QUO, token.REM:
				if !hoistOK {
					fail(e, t.fset, "division inside a short-circuit operand")
				}
				x := t.tmp("q")
				f := "quot64"
				if v.Op == token.REM {
					f = "rem64"
				}
				b.lines = append(b.lines, fmt.Sprintf("match %s %s %s with None => None | Some %s =>", f, l, r, x))
				b.lines = append(b.lines, "") // marker handled by closing paren count
				return x, kZ
			}
		}
		fail(e, t.fset, "unsupported binary operation %s on these operand kinds", v.Op)
	case *ast.CallExpr:
		// conversions
		if id, ok := v.Fun.(*ast.Ident); ok && len(v.Args) == 1 {
			switch id.Name {
			case "Int", "int", "int64":
				s, k := t.expr(v.Args[0], b, hoistOK)
				if k == kZ {
					return s, kZ
				}
				if k == kU64 {
					return "(wrap64 " + s + ")", kZ
				}
			case "uint", "uint64":
				s, k := t.expr(v.Args[0], b, hoistOK)
				if k == kZ {
					return "(u64 " + s + ")", kU64
				}
				if k == kU64 {
					return s, kU64
				}
			}
		}
		// big.NewInt(x)
		if sel, ok := v.Fun.(*ast.SelectorExpr); ok {
			if x, ok := sel.X.(*ast.Ident); ok && x.Name == "big" && sel.Sel.Name == "NewInt" && len(v.Args) == 1 {
				s, k := t.expr(v.Args[0], b, hoistOK)
				if k == kZ {
					return s, kBig
				}
			}
		}
		// call of a translated function / method
		name, args := "", v.Args
		if id, ok := v.Fun.(*ast.Ident); ok {
			name = id.Name
		} else if sel, ok := v.Fun.(*ast.SelectorExpr); ok {
			name = sel.Sel.Name
			args = append([]ast.Expr{sel.X}, v.Args...)
		}
		if rk, ok := t.known[name]; ok && len(rk) == 1 {
			if !hoistOK {
				fail(e, t.fset, "call inside a short-circuit operand")
			}
			var as []string
			for _, a := range args {
				s, _ := t.expr(a, b, hoistOK)
				as = append(as, s)
			}
			x := t.tmp("c")
			b.lines = append(b.lines, fmt.Sprintf("match %s %s with None => None | Some %s =>", name, strings.Join(as, " "), x))
			b.lines = append(b.lines, "")
			return x, rk[0]
		}
	}
	fail(e, t.fset, "unsupported expression")
	return "", 0
}

// value translates an expression in Object/error result position
func (t *tr) value(e ast.Expr, b *binds) string {
	switch v := e.(type) {
	case *ast.Ident:
		if v.Name == "nil" {
			return "VNil"
		}
		if v.Name == "NotImplemented" {
			return "VNotImpl"
		}
		if m, ok := errVars[v.Name]; ok {
			return fmt.Sprintf("(VErr %q)", m)
		}
		if k, ok := t.env[v.Name]; ok {
			switch k {
			case kZ:
				return "(VInt " + v.Name + ")"
			case kBig:
				return "(VBig " + v.Name + ")"
			case kValue:
				return v.Name
			}
		}
	case *ast.CallExpr:
		// (*BigInt)(x)   (*BigInt)(x).MaybeInt()   NewBool(e)   ExceptionNewf(T, ...)   Int(e)
		if sel, ok := v.Fun.(*ast.SelectorExpr); ok && sel.Sel.Name == "MaybeInt" && len(v.Args) == 0 {
			if c, ok := sel.X.(*ast.CallExpr); ok && len(c.Args) == 1 {
				s, k := t.expr(c.Args[0], b, true)
				if k == kBig {
					return "(maybe_int " + s + ")"
				}
			}
		}
		if p, ok := v.Fun.(*ast.ParenExpr); ok && len(v.Args) == 1 {
			if st, ok := p.X.(*ast.StarExpr); ok {
				if id, ok := st.X.(*ast.Ident); ok && id.Name == "BigInt" {
					s, k := t.expr(v.Args[0], b, true)
					if k == kBig {
						return "(VBig " + s + ")"
					}
				}
			}
		}
		if id, ok := v.Fun.(*ast.Ident); ok {
			switch id.Name {
			case "NewBool":
				s, k := t.expr(v.Args[0], b, true)
				if k == kBool {
					return "(VBool " + s + ")"
				}
			case "ExceptionNewf":
				if tn, ok := v.Args[0].(*ast.Ident); ok {
					return fmt.Sprintf("(VErr %q)", tn.Name)
				}
			}
		}
		// call of a translated function with a single Object result
		{
			name, args := "", v.Args
			if id, ok := v.Fun.(*ast.Ident); ok {
				name = id.Name
			} else if sel, ok := v.Fun.(*ast.SelectorExpr); ok {
				name = sel.Sel.Name
				args = append([]ast.Expr{sel.X}, v.Args...)
			}
			if rk, ok := t.known[name]; ok && len(rk) == 1 && rk[0] == kValue {
				var as []string
				for _, a := range args {
					s, _ := t.expr(a, b, true)
					as = append(as, s)
				}
				x := t.tmp("c")
				b.lines = append(b.lines, fmt.Sprintf("match %s %s with None => None | Some %s =>", name, strings.Join(as, " "), x))
				b.lines = append(b.lines, "")
				return x
			}
		}
	}
	s, k := t.expr(e, b, true)
	switch k {
	case kZ:
		return "(VInt " + s + ")"
	case kBig:
		return "(VBig " + s + ")"
	case kBool:
		return "(VBool " + s + ")"
	}
	fail(e, t.fset, "unsupported result expression")
	return ""
}

func closeBinds(b *binds, body string) string {
	// each hoisted partial op contributed "match .. with None => None | Some x =>" + "" ; close with "end"
	n := 0
	var lines []string
	for _, l := range b.lines {
		if l == "" {
			n++
			continue
		}
		lines = append(lines, l)
	}
	return strings.Join(lines, "\n") + "\n" + body + strings.Repeat(" end", n)
}

func withBinds(f func(b *binds) string) string {
	b := &binds{}
	body := f(b)
	if len(b.lines) == 0 {
		return body
	}
	return closeBinds(b, body)
}

func (t *tr) retTerm(results []ast.Expr) string {
	return withBinds(func(b *binds) string {
		if len(results) == 0 {
			// named results
			var parts []string
			for i, n := range t.named {
				parts = append(parts, t.resultOf(&ast.Ident{Name: n}, t.ret[i], b))
			}
			return "Some (" + strings.Join(parts, ", ") + ")"
		}
		if len(results) == 1 && len(t.ret) > 1 {
			// return f(x) forwarding a multi-value call
			if c, ok := results[0].(*ast.CallExpr); ok {
				name, args := "", c.Args
				if id, ok := c.Fun.(*ast.Ident); ok {
					name = id.Name
				} else if sel, ok := c.Fun.(*ast.SelectorExpr); ok {
					name = sel.Sel.Name
					args = append([]ast.Expr{sel.X}, c.Args...)
				}
				if rk, ok := t.known[name]; ok && len(rk) == len(t.ret) {
					var as []string
					for _, a := range args {
						s, _ := t.expr(a, b, true)
						as = append(as, s)
					}
					return "(" + name + " " + strings.Join(as, " ") + ")"
				}
			}
			fail(results[0], t.fset, "unsupported multi-value return")
		}
		if len(results) != len(t.ret) {
			fail(results[0], t.fset, "result count mismatch")
		}
		var parts []string
		for i, r := range results {
			parts = append(parts, t.resultOf(r, t.ret[i], b))
		}
		return "Some (" + strings.Join(parts, ", ") + ")"
	})
}

func (t *tr) resultOf(e ast.Expr, k kind, b *binds) string {
	if k == kValue {
		return t.value(e, b)
	}
	s, ek := t.expr(e, b, true)
	if ek != k && !(k == kZ && ek == kZ) {
		if id, ok := e.(*ast.Ident); ok && id.Name == "nil" {
			return "VNil"
		}
		fail(e, t.fset, "result kind mismatch")
	}
	return s
}

func terminates(s ast.Stmt) bool {
	switch v := s.(type) {
	case *ast.ReturnStmt:
		return true
	case *ast.BranchStmt:
		return v.Tok == token.GOTO
	case *ast.BlockStmt:
		return len(v.List) > 0 && terminates(v.List[len(v.List)-1])
	case *ast.IfStmt:
		if v.Else == nil {
			return false
		}
		return terminates(v.Body) && terminates(v.Else)
	}
	return false
}

func (t *tr) assigned(s ast.Stmt, out map[string]bool) {
	ast.Inspect(s, func(n ast.Node) bool {
		switch v := n.(type) {
		case *ast.AssignStmt:
			if v.Tok != token.DEFINE {
				for _, l := range v.Lhs {
					if id, ok := l.(*ast.Ident); ok {
						if _, ok := t.env[id.Name]; ok {
							out[id.Name] = true
						}
					}
				}
			}
		case *ast.IncDecStmt:
			if id, ok := v.X.(*ast.Ident); ok {
				out[id.Name] = true
			}
		case *ast.ExprStmt: // x.Add(x, y) mutates x
			if c, ok := v.X.(*ast.CallExpr); ok {
				if sel, ok := c.Fun.(*ast.SelectorExpr); ok {
					if id, ok := sel.X.(*ast.Ident); ok && t.env[id.Name] == kBig {
						out[id.Name] = true
					}
				}
			}
		}
		return true
	})
}

// stmts translates a statement list followed by continuation k (a term, or "" when the
// list must terminate on its own).
func (t *tr) stmts(list []ast.Stmt, k string) string {
	if len(list) == 0 {
		if k == "" {
			fail(nil, t.fset, "control reaches the end of a function without return")
		}
		return k
	}
	s, rest := list[0], list[1:]
	switch v := s.(type) {
	case *ast.ReturnStmt:
		return t.retTerm(v.Results)
	case *ast.BranchStmt:
		if v.Tok == token.GOTO {
			if c, ok := t.labels[v.Label.Name]; ok {
				return c + " tt"
			}
		}
		fail(s, t.fset, "unsupported branch statement")
	case *ast.BlockStmt:
		return t.stmts(append(append([]ast.Stmt{}, v.List...), rest...), k)
	case *ast.DeclStmt:
		gd := v.Decl.(*ast.GenDecl)
		if gd.Tok == token.CONST {
			return t.stmts(rest, k)
		}
		if gd.Tok == token.VAR {
			out := ""
			for _, sp := range gd.Specs {
				vs := sp.(*ast.ValueSpec)
				kd, ok := typeKind(vs.Type)
				if !ok || len(vs.Values) != 0 {
					fail(s, t.fset, "unsupported var declaration")
				}
				for _, n := range vs.Names {
					t.env[n.Name] = kd
					zero := "0"
					if kd == kBool {
						zero = "false"
					}
					out += fmt.Sprintf("let %s := %s in\n", n.Name, zero)
				}
			}
			return out + t.stmts(rest, k)
		}
	case *ast.IncDecStmt:
		id, ok := v.X.(*ast.Ident)
		if ok && t.env[id.Name] == kZ {
			op := "+"
			if v.Tok == token.DEC {
				op = "-"
			}
			return fmt.Sprintf("let %s := wrap64 (%s %s 1) in\n", id.Name, id.Name, op) + t.stmts(rest, k)
		}
	case *ast.ExprStmt:
		// big-int mutation: x.Add(x, y) / x.Sub / x.Mul / x.Neg(x) / x.Lsh(x, n)
		if c, ok := v.X.(*ast.CallExpr); ok {
			if sel, ok := c.Fun.(*ast.SelectorExpr); ok {
				if id, ok := sel.X.(*ast.Ident); ok && t.env[id.Name] == kBig {
					return withBinds(func(b *binds) string {
						var as []string
						for _, a := range c.Args {
							x, _ := t.expr(a, b, true)
							as = append(as, x)
						}
						var rhs string
						switch sel.Sel.Name {
						case "Add":
							rhs = as[0] + " + " + as[1]
						case "Sub":
							rhs = as[0] + " - " + as[1]
						case "Mul":
							rhs = as[0] + " * " + as[1]
						case "Neg":
							rhs = "- " + as[0]
						case "Abs":
							rhs = "Z.abs " + as[0]
						case "Lsh":
							rhs = as[0] + " * 2 ^ " + as[1]
						default:
							fail(s, t.fset, "unsupported big.Int method %s", sel.Sel.Name)
						}
						return fmt.Sprintf("let %s := %s in\n", id.Name, rhs) + t.stmts(rest, k)
					})
				}
			}
		}
	case *ast.AssignStmt:
		// x, err = sliceIndex(obj) / IndexInt(obj)   followed by   if err != nil { return ... }
		if len(v.Rhs) == 1 && len(v.Lhs) == 2 && len(rest) > 0 {
			if c, ok := v.Rhs[0].(*ast.CallExpr); ok {
				if fn, ok := c.Fun.(*ast.Ident); ok && (fn.Name == "sliceIndex" || fn.Name == "IndexInt") && len(c.Args) == 1 {
					if ifs, ok := rest[0].(*ast.IfStmt); ok && ifs.Init == nil && ifs.Else == nil && terminates(ifs.Body) {
						if be, ok := ifs.Cond.(*ast.BinaryExpr); ok && be.Op == token.NEQ {
							xv, ok1 := v.Lhs[0].(*ast.Ident)
							ev, ok2 := v.Lhs[1].(*ast.Ident)
							ce, ok3 := be.X.(*ast.Ident)
							if ok1 && ok2 && ok3 && ce.Name == ev.Name {
								return withBinds(func(b *binds) string {
									obj, ok := t.expr(c.Args[0], b, true)
									if ok != kOptZ {
										fail(s, t.fset, "index conversion of a non-object")
									}
									t.env[xv.Name] = kZ
									conv := "clip64"
									if fn.Name == "IndexInt" {
										conv = "index_int"
									}
									vn := t.tmp("o")
									// failure branch: the error variable holds the exception, then the if-body runs
									saved := map[string]kind{}
									for a, bb := range t.env {
										saved[a] = bb
									}
									t.env[ev.Name] = kValue
									failT := fmt.Sprintf("let %s := VErr \"TypeError\" in\n%s", ev.Name, t.stmts(ifs.Body.List, ""))
									t.env = saved
									okT := fmt.Sprintf("let %s := %s %s in\n%s", xv.Name, conv, vn, t.stmts(rest[1:], k))
									return fmt.Sprintf("match %s with\n| Some %s =>\n%s\n| None =>\n%s\nend", obj, vn, okT, failT)
								})
							}
						}
					}
				}
			}
		}
		// x, y := f(args)  for a translated multi-value function
		if len(v.Rhs) == 1 && len(v.Lhs) > 1 && (v.Tok == token.DEFINE || v.Tok == token.ASSIGN) {
			if c, ok := v.Rhs[0].(*ast.CallExpr); ok {
				name, args := "", c.Args
				if id, ok := c.Fun.(*ast.Ident); ok {
					name = id.Name
				} else if sel, ok := c.Fun.(*ast.SelectorExpr); ok {
					name = sel.Sel.Name
					args = append([]ast.Expr{sel.X}, c.Args...)
				}
				if rk, ok := t.known[name]; ok && len(rk) == len(v.Lhs) {
					return withBinds(func(b *binds) string {
						var as []string
						for _, a := range args {
							x, _ := t.expr(a, b, true)
							as = append(as, x)
						}
						var names []string
						for i, l := range v.Lhs {
							id, ok := l.(*ast.Ident)
							if !ok {
								fail(s, t.fset, "assignment to a non-variable")
							}
							n := id.Name
							if n == "_" {
								n = t.tmp("u")
							} else {
								t.env[n] = rk[i]
							}
							names = append(names, n)
						}
						pat := names[0]
						for _, n := range names[1:] {
							pat = "(" + pat + ", " + n + ")"
						}
						return fmt.Sprintf("match %s %s with None => None | Some %s =>\n%s end", name, strings.Join(as, " "), pat, t.stmts(rest, k))
					})
				}
			}
		}
		return withBinds(func(b *binds) string {
			if len(v.Lhs) != len(v.Rhs) {
				fail(s, t.fset, "unsupported assignment shape")
			}
			var rhs []string
			var kinds []kind
			for i, r := range v.Rhs {
				if v.Tok != token.DEFINE && v.Tok != token.ASSIGN {
					// op-assign: x op= e
					be := &ast.BinaryExpr{X: v.Lhs[i], Y: r}
					switch v.Tok {
					case token.ADD_ASSIGN:
						be.Op = token.ADD
					case token.SUB_ASSIGN:
						be.Op = token.SUB
					case token.MUL_ASSIGN:
						be.Op = token.MUL
					default:
						fail(s, t.fset, "unsupported op-assignment")
					}
					x, kd := t.expr(be, b, true)
					rhs = append(rhs, x)
					kinds = append(kinds, kd)
					continue
				}
				if id, ok := v.Lhs[i].(*ast.Ident); ok && t.env[id.Name] == kValue && v.Tok == token.ASSIGN {
					rhs = append(rhs, t.value(r, b))
					kinds = append(kinds, kValue)
					continue
				}
				x, kd := t.expr(r, b, true)
				rhs = append(rhs, x)
				kinds = append(kinds, kd)
			}
			out := ""
			var tmps []string
			if len(rhs) > 1 { // parallel assignment
				for i := range rhs {
					tn := t.tmp("p")
					tmps = append(tmps, tn)
					out += fmt.Sprintf("let %s := %s in\n", tn, rhs[i])
				}
			} else {
				tmps = rhs
			}
			for i, l := range v.Lhs {
				id, ok := l.(*ast.Ident)
				if !ok {
					fail(s, t.fset, "assignment to a non-variable")
				}
				if id.Name == "_" {
					continue
				}
				if v.Tok == token.DEFINE {
					t.env[id.Name] = kinds[i]
				} else if ek, ok := t.env[id.Name]; !ok || (ek != kinds[i]) {
					fail(s, t.fset, "assignment changes the kind of %s", id.Name)
				}
				out += fmt.Sprintf("let %s := %s in\n", id.Name, tmps[i])
			}
			return out + t.stmts(rest, k)
		})
	case *ast.IfStmt:
		// if b, ok := convertToInt(other); ok { A } [else B]
		if as, ok := v.Init.(*ast.AssignStmt); ok && len(as.Lhs) == 2 && len(as.Rhs) == 1 {
			if c, ok := as.Rhs[0].(*ast.CallExpr); ok {
				if fn, ok := c.Fun.(*ast.Ident); ok && fn.Name == "convertToInt" && len(c.Args) == 1 {
					arg, ok1 := c.Args[0].(*ast.Ident)
					bv, ok2 := as.Lhs[0].(*ast.Ident)
					cond, ok3 := v.Cond.(*ast.Ident)
					okv, ok4 := as.Lhs[1].(*ast.Ident)
					if ok1 && ok2 && ok3 && ok4 && cond.Name == okv.Name && t.env[arg.Name] == kOptZ {
						t.env[bv.Name] = kZ
						thenT := t.stmts(v.Body.List, "")
						var elseT string
						if v.Else != nil {
							elseT = t.stmts([]ast.Stmt{v.Else}, "")
						} else {
							elseT = t.stmts(rest, k)
						}
						return fmt.Sprintf("match %s with\n| Some %s =>\n%s\n| None =>\n%s\nend", arg.Name, bv.Name, thenT, elseT)
					}
				}
			}
			fail(s, t.fset, "unsupported if-initialiser")
		}
		if v.Init != nil {
			fail(s, t.fset, "unsupported if-initialiser")
		}
		return withBinds(func(b *binds) string {
			c, ck := t.expr(v.Cond, b, true)
			if ck != kBool {
				fail(s, t.fset, "non-boolean condition")
			}
			var elseList []ast.Stmt
			if v.Else != nil {
				elseList = []ast.Stmt{v.Else}
			}
			thenTerm := terminates(v.Body)
			elseTerm := v.Else != nil && terminates(v.Else)
			if thenTerm && elseTerm {
				return fmt.Sprintf("if %s then\n%s\nelse\n%s", c, t.stmts(v.Body.List, ""), t.stmts(elseList, ""))
			}
			// join point over the variables assigned in either branch
			set := map[string]bool{}
			t.assigned(v.Body, set)
			if v.Else != nil {
				t.assigned(v.Else, set)
			}
			var vars []string
			for n := range set {
				vars = append(vars, n)
			}
			sort.Strings(vars)
			kn := t.tmp("k")
			var params, args string
			for _, n := range vars {
				params += fmt.Sprintf(" (%s : %s)", n, t.env[n].coq())
				args += " " + n
			}
			if len(vars) == 0 {
				params, args = " (_ : unit)", " tt"
			}
			// the continuation is translated first, in a copy of the environment
			saved := map[string]kind{}
			for a, b := range t.env {
				saved[a] = b
			}
			restT := t.stmts(rest, k)
			t.env = saved
			call := kn + args
			thenT := t.stmts(v.Body.List, call)
			t.env = map[string]kind{}
			for a, b := range saved {
				t.env[a] = b
			}
			elseT := t.stmts(elseList, call)
			t.env = saved
			return fmt.Sprintf("let %s := fun%s =>\n%s in\nif %s then\n%s\nelse\n%s", kn, params, restT, c, thenT, elseT)
		})
	case *ast.LabeledStmt:
		fail(s, t.fset, "label in the middle of a function")
	}
	fail(s, t.fset, "unsupported statement")
	return ""
}

func (t *tr) function(key, outName string, objParams map[string]bool) (text string, err string) {
	defer func() {
		if r := recover(); r != nil {
			if u, ok := r.(unsup); ok {
				err = u.msg
				text = ""
				return
			}
			panic(r)
		}
	}()
	fd := t.funcs[key]
	if fd == nil {
		return "", "function not found"
	}
	t.env = map[string]kind{}
	t.labels = map[string]string{}
	t.fresh = 0
	var params []string
	var pk []kind
	addParam := func(name string, ty ast.Expr) {
		kd, ok := typeKind(ty)
		if !ok {
			fail(ty, t.fset, "unsupported parameter type")
		}
		if kd == kValue {
			kd = kOptZ
		}
		t.env[name] = kd
		params = append(params, fmt.Sprintf("(%s : %s)", name, kd.coq()))
		pk = append(pk, kd)
	}
	if fd.Recv != nil {
		f := fd.Recv.List[0]
		if st, ok := f.Type.(*ast.StarExpr); ok {
			if id, ok := st.X.(*ast.Ident); ok && id.Name == "Slice" {
				for _, fld := range []string{"Start", "Stop", "Step"} {
					n := f.Names[0].Name + "_" + fld
					t.env[n] = kOptZ
					params = append(params, fmt.Sprintf("(%s : option Z)", n))
					pk = append(pk, kOptZ)
				}
				goto recvDone
			}
		}
		addParam(f.Names[0].Name, f.Type)
	}
recvDone:
	for _, f := range fd.Type.Params.List {
		for _, n := range f.Names {
			addParam(n.Name, f.Type)
		}
	}
	t.ret, t.named = nil, nil
	if fd.Type.Results != nil {
		for _, f := range fd.Type.Results.List {
			kd, ok := typeKind(f.Type)
			if !ok {
				fail(f.Type, t.fset, "unsupported result type")
			}
			if len(f.Names) == 0 {
				t.ret = append(t.ret, kd)
			}
			for _, n := range f.Names {
				t.ret = append(t.ret, kd)
				t.named = append(t.named, n.Name)
				t.env[n.Name] = kd
			}
		}
	}
	body := fd.Body.List
	// trailing labelled block:  ...; return x \n label: stmts
	labelDefs := ""
	for i, s := range body {
		if ls, ok := s.(*ast.LabeledStmt); ok {
			blk := append([]ast.Stmt{ls.Stmt}, body[i+1:]...)
			body = body[:i]
			cn := "lbl_" + ls.Label.Name
			saved := map[string]kind{}
			for a, b := range t.env {
				saved[a] = b
			}
			labelDefs = fmt.Sprintf("let %s := fun (_ : unit) =>\n%s in\n", cn, t.stmts(blk, ""))
			t.env = saved
			t.labels[ls.Label.Name] = cn
			break
		}
	}
	term := t.stmts(body, "")
	for i := len(t.named) - 1; i >= 0; i-- {
		zero := "0"
		switch t.ret[i] {
		case kBool:
			zero = "false"
		case kValue:
			zero = "VNil"
		}
		term = fmt.Sprintf("let %s := %s in\n", t.named[i], zero) + term
	}
	var rk []string
	for _, k := range t.ret {
		rk = append(rk, k.coq())
	}
	t.known[outName] = t.ret
	t.knownP[outName] = pk
	return fmt.Sprintf("Definition %s %s : option (%s) :=\n%s%s.\n", outName, strings.Join(params, " "),
		strings.Join(rk, " * "), labelDefs, term), ""
}

type job struct {
	file, key, out string
}

func main() {
	repo := flag.String("repo", "/repo", "repository root")
	outDir := flag.String("out", "", "output directory (coq/Gen)")
	flag.Parse()
	jobs := map[string][]job{
		"py_int.v": {
			{"py/int.go", "intAdd", "intAdd"}, {"py/int.go", "intSub", "intSub"}, {"py/int.go", "intMul", "intMul"},
			{"py/int.go", "intLshift", "intLshift"},
			{"py/int.go", "Int.M__neg__", "M__neg__"}, {"py/int.go", "Int.divMod", "divMod"}, {"py/int.go", "Int.M__abs__", "M__abs__"},
			{"py/int.go", "Int.M__invert__", "M__invert__"},
			{"py/int.go", "Int.M__rshift__", "M__rshift__"}, {"py/int.go", "Int.M__rrshift__", "M__rrshift__"},
			{"py/int.go", "Int.M__and__", "M__and__"}, {"py/int.go", "Int.M__or__", "M__or__"}, {"py/int.go", "Int.M__xor__", "M__xor__"},
			{"py/int.go", "Int.M__lt__", "M__lt__"}, {"py/int.go", "Int.M__le__", "M__le__"}, {"py/int.go", "Int.M__eq__", "M__eq__"},
			{"py/int.go", "Int.M__ne__", "M__ne__"}, {"py/int.go", "Int.M__gt__", "M__gt__"}, {"py/int.go", "Int.M__ge__", "M__ge__"},
			{"py/int.go", "Int.M__bool__", "M__bool__"},
			{"py/int.go", "Int.M__add__", "M__add__"}, {"py/int.go", "Int.M__sub__", "M__sub__"}, {"py/int.go", "Int.M__rsub__", "M__rsub__"},
			{"py/int.go", "Int.M__mul__", "M__mul__"}, {"py/int.go", "Int.M__lshift__", "M__lshift__"}, {"py/int.go", "Int.M__rlshift__", "M__rlshift__"},
			{"py/int.go", "Int.M__divmod__", "M__divmod__"}, {"py/int.go", "Int.M__rdivmod__", "M__rdivmod__"},
		},
		"py_slice.v": {
			{"py/slice.go", "Slice.GetIndices", "GetIndices"},
		},
		"py_range.v": {
			{"py/range.go", "computeRangeLength", "computeRangeLength"},
			{"py/range.go", "computeNegativeIndex", "computeNegativeIndex"},
			{"py/range.go", "computeBoundIndex", "computeBoundIndex"},
		},
	}
	status := 0
	var names []string
	for n := range jobs {
		names = append(names, n)
	}
	sort.Strings(names)
	for _, outFile := range names {
		t := &tr{fset: token.NewFileSet(), funcs: map[string]*ast.FuncDecl{}, known: map[string][]kind{}, knownP: map[string][]kind{}}
		parsed := map[string]bool{}
		var b strings.Builder
		b.WriteString("(* GENERATED by go/cmd/go2v from /repo -- do not edit *)\nFrom Coq Require Import ZArith Bool String.\nFrom GP Require Import Base.Go2v.\nOpen Scope Z_scope.\n\n")
		var unsupNames []string
		for _, j := range jobs[outFile] {
			if !parsed[j.file] {
				f, err := parser.ParseFile(t.fset, filepath.Join(*repo, j.file), nil, 0)
				if err != nil {
					fmt.Fprintln(os.Stderr, err)
					os.Exit(2)
				}
				for _, d := range f.Decls {
					if fd, ok := d.(*ast.FuncDecl); ok && fd.Body != nil {
						key := fd.Name.Name
						if fd.Recv != nil {
							rt := fd.Recv.List[0].Type
							if st, ok := rt.(*ast.StarExpr); ok {
								rt = st.X
							}
							if id, ok := rt.(*ast.Ident); ok {
								key = id.Name + "." + key
							}
						}
						t.funcs[key] = fd
					}
				}
				parsed[j.file] = true
			}
			text, err := t.function(j.key, j.out, nil)
			if err != "" {
				fmt.Fprintf(os.Stderr, "UNSUPPORTED %s: %s\n", j.key, err)
				fmt.Fprintf(&b, "(* UNSUPPORTED %s: %s *)\n\n", j.key, strings.ReplaceAll(err, "*)", "* )"))
				unsupNames = append(unsupNames, j.out)
				status = 3
				continue
			}
			b.WriteString(text + "\n")
		}
		fmt.Fprintf(&b, "Definition go2v_unsupported : list string := %s nil.\n", func() string {
			s := ""
			for _, n := range unsupNames {
				s += fmt.Sprintf("cons %q (", n)
			}
			return s
		}()+strings.Repeat(")", 0))
		text := b.String()
		// close the cons chain
		text = strings.Replace(text, " nil.\n", " nil"+strings.Repeat(")", len(unsupNames))+".\n", 1)
		p := filepath.Join(*outDir, outFile)
		old, _ := os.ReadFile(p)
		if string(old) != text {
			os.WriteFile(p, []byte(text), 0o644)
		}
	}
	os.Exit(status)
}
