package main

// C20: drive repl.REPL line by line with a recording UI.  Input: one JSON object per line
// {"lines": [...]}.  Output: per fed line the prompt in force afterwards, the UI prints of
// that call, the captured stdout of that call, and the verdict of py.Compile on the text the
// REPL model predicts it compiled (the classify table for the Coq model); finally selected
// session globals.

import (
	"bufio"
	"encoding/json"
	"fmt"
	"os"
	"sort"
	"strings"

	"github.com/go-python/gpython/py"
	"github.com/go-python/gpython/repl"
)

func init() { commands["c20"] = c20Main }

type c20UI struct {
	prompt string
	prints []string
}

func (u *c20UI) SetPrompt(p string) { u.prompt = p }
func (u *c20UI) Print(s string)     { u.prints = append(u.prints, s) }

type c20Line struct {
	Prompt  string   `json:"prompt"`
	Prints  []string `json:"prints"`
	Stdout  string   `json:"stdout"`
	Verdict string   `json:"verdict"` // "", complete, incomplete, error
}
type c20Out struct {
	Lines   []c20Line         `json:"lines"`
	Globals map[string]string `json:"globals"`
	Panic   string            `json:"panic,omitempty"`
}

func c20One(lines []string) (res c20Out) {
	defer func() {
		if r := recover(); r != nil {
			res.Panic = strings.ReplaceAll(fmt.Sprint(r), "\n", " ")
		}
	}()
	ctx := py.NewContext(py.DefaultContextOpts())
	defer ctx.Close()
	var sb strings.Builder
	write := py.MustNewMethod("write", func(self py.Object, arg py.Object) (py.Object, error) {
		s, _ := py.Str(arg)
		sb.WriteString(string(s.(py.String)))
		return py.None, nil
	}, 0, "")
	outMod, _ := ctx.ModuleInit(&py.ModuleImpl{Info: py.ModuleInfo{Name: "verif_stdout"}, Methods: []*py.Method{write}})
	sys, _ := ctx.GetModule("sys")
	sys.Globals["stdout"] = outMod
	r := repl.New(ctx)
	ui := &c20UI{}
	r.SetUI(ui)
	// mirror of the model state, to know which text the REPL compiles at each call
	cont := false
	prev := ""
	for _, line := range lines {
		verdict := ""
		if !(cont && line != "") {
			text := prev + line
			if strings.TrimSpace(text) != "" {
				_, err := py.Compile(text+"\n", "<stdin>", py.SingleMode, 0, true)
				switch {
				case err == nil:
					verdict = "complete"
				case strings.Contains(err.Error(), "unexpected EOF while parsing") || strings.Contains(err.Error(), "EOF while scanning triple-quoted string literal"):
					st := strings.TrimSpace(text)
					if len(st) > 0 && st[0] == '#' {
						verdict = "error"
					} else {
						verdict = "incomplete"
					}
				default:
					verdict = "error"
				}
			}
		}
		switch {
		case cont && line != "":
			prev += line + "\n"
		case verdict == "incomplete":
			cont = true
			prev += line + "\n"
		case verdict != "":
			cont = false
			prev = ""
		}
		ui.prints = nil
		sb.Reset()
		r.Run(line)
		res.Lines = append(res.Lines, c20Line{Prompt: ui.prompt, Prints: append([]string{}, ui.prints...), Stdout: sb.String(), Verdict: verdict})
	}
	res.Globals = map[string]string{}
	var keys []string
	for k := range r.Module.Globals {
		if !strings.HasPrefix(k, "__") {
			keys = append(keys, k)
		}
	}
	sort.Strings(keys)
	for _, k := range keys {
		v := r.Module.Globals[k]
		switch v.(type) {
		case py.Int, py.String, py.Float, py.Bool, *py.List, py.Tuple, py.NoneType, *py.BigInt:
			s, err := py.ReprAsString(v)
			if err == nil {
				res.Globals[k] = s
			}
		default:
			res.Globals[k] = "<" + v.Type().Name + ">"
		}
	}
	return
}

func c20Main(args []string) int {
	in := bufio.NewScanner(os.Stdin)
	in.Buffer(make([]byte, 1<<20), 1<<26)
	out := bufio.NewWriter(os.Stdout)
	defer out.Flush()
	for in.Scan() {
		var c struct {
			Lines []string `json:"lines"`
		}
		if err := json.Unmarshal([]byte(in.Text()), &c); err != nil {
			fmt.Fprintln(out, `{"panic":"BadCase"}`)
			continue
		}
		b, _ := json.Marshal(c20One(c.Lines))
		out.Write(b)
		out.WriteByte('\n')
	}
	return 0
}
