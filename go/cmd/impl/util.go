package main

import (
	"fmt"
	"math/big"
	"strings"

	"github.com/go-python/gpython/py"
)

// errClass maps an error returned by the py API to the Python exception class name.
func errClass(err error) string {
	switch e := err.(type) {
	case *py.Exception:
		return e.Type().Name
	case py.ExceptionInfo:
		if e.Type != nil {
			return e.Type.Name
		}
	case *py.ExceptionInfo:
		if e != nil && e.Type != nil {
			return e.Type.Name
		}
	}
	return "GoError:" + err.Error()
}

// mkInt builds an integer operand in the requested representation.
func mkInt(rep, val string) (py.Object, error) {
	z, ok := new(big.Int).SetString(val, 10)
	if !ok {
		return nil, fmt.Errorf("bad int %q", val)
	}
	switch rep {
	case "W":
		if !z.IsInt64() {
			return nil, fmt.Errorf("%s does not fit a word", val)
		}
		return py.Int(z.Int64()), nil
	case "B":
		return (*py.BigInt)(z), nil
	}
	return nil, fmt.Errorf("bad rep %q", rep)
}

// showNum renders a numeric result with its representation.
func showNum(o py.Object) string {
	switch v := o.(type) {
	case py.Int:
		return fmt.Sprintf("W:%d", int64(v))
	case *py.BigInt:
		return "B:" + (*big.Int)(v).String()
	case py.Bool:
		if v {
			return "T"
		}
		return "F"
	case py.Float:
		return fmt.Sprintf("FL:%x", floatBits(float64(v)))
	case py.Tuple:
		var parts []string
		for _, x := range v {
			parts = append(parts, showNum(x))
		}
		return "P:" + strings.Join(parts, ",")
	case nil:
		return "NIL"
	}
	if o == py.NotImplemented {
		return "NOTIMPL"
	}
	if o == py.None {
		return "NONE"
	}
	return "OBJ:" + o.Type().Name
}

// guard runs f converting a Go panic into an observation.
func guard(f func() string) (out string) {
	defer func() {
		if r := recover(); r != nil {
			out = "PANIC:" + strings.ReplaceAll(fmt.Sprint(r), "\n", " ")
		}
	}()
	return f()
}
