package main

// C12: dump every code object the compiler emits for a program and the (pc, stack depth,
// block depth) the VM reaches at each executed instruction (verif hook 1).

import (
	"bufio"
	"encoding/json"
	"fmt"
	"os"
	"strings"
	"time"

	"github.com/go-python/gpython/py"
	"github.com/go-python/gpython/vm"
)

func init() { commands["c12"] = c12Main }

type c12Obj struct {
	Name      string  `json:"name"`
	Code      []int   `json:"code"`
	NConsts   int     `json:"nconsts"`
	Nones     []bool  `json:"nones"`
	NNames    int     `json:"nnames"`
	NVars     int     `json:"nvars"`
	NCells    int     `json:"ncells"`
	Stacksize int     `json:"stacksize"`
	Lnotab    []int   `json:"lnotab"`
	Obs       [][3]int `json:"obs"`
}
type c12Out struct {
	Objs  []*c12Obj `json:"objs"`
	Err   string    `json:"err"`
	Panic string    `json:"panic,omitempty"`
	Hang  bool      `json:"hang,omitempty"`
}

func c12Walk(code *py.Code, ids map[*py.Code]int, out *[]*c12Obj) {
	if _, ok := ids[code]; ok {
		return
	}
	o := &c12Obj{Name: code.Name, NConsts: len(code.Consts), NNames: len(code.Names), NVars: len(code.Varnames),
		NCells: len(code.Cellvars) + len(code.Freevars), Stacksize: int(code.Stacksize)}
	for _, b := range []byte(code.Code) {
		o.Code = append(o.Code, int(b))
	}
	for _, b := range []byte(code.Lnotab) {
		o.Lnotab = append(o.Lnotab, int(b))
	}
	for _, c := range code.Consts {
		o.Nones = append(o.Nones, c == py.None)
	}
	ids[code] = len(*out)
	*out = append(*out, o)
	for _, c := range code.Consts {
		if sub, ok := c.(*py.Code); ok {
			c12Walk(sub, ids, out)
		}
	}
}

func c12One(src string, run bool) (res c12Out) {
	defer func() {
		if r := recover(); r != nil {
			res.Panic = strings.ReplaceAll(fmt.Sprint(r), "\n", " ")
		}
	}()
	obj, err := py.Compile(src, "<c12>", py.ExecMode, 0, true)
	if err != nil {
		res.Err = "compile:" + errClass(err)
		return
	}
	code := obj
	ids := map[*py.Code]int{}
	c12Walk(code, ids, &res.Objs)
	if !run {
		return
	}
	seen := map[[4]int]bool{}
	vm.VerifInstr = func(f *py.Frame, op vm.OpCode, arg int32, addr int32) {
		id, ok := ids[f.Code]
		if !ok {
			return
		}
		k := [4]int{id, int(addr), len(f.Stack), len(f.Blockstack)}
		if !seen[k] {
			seen[k] = true
			if len(res.Objs[id].Obs) < 4000 {
				res.Objs[id].Obs = append(res.Objs[id].Obs, [3]int{k[1], k[2], k[3]})
			}
		}
	}
	defer func() { vm.VerifInstr = nil }()
	ctx := py.NewContext(py.DefaultContextOpts())
	defer ctx.Close()
	var sb strings.Builder
	write := py.MustNewMethod("write", func(self py.Object, arg py.Object) (py.Object, error) {
		sb.WriteString(fmt.Sprint(arg))
		return py.None, nil
	}, 0, "")
	outMod, _ := ctx.ModuleInit(&py.ModuleImpl{Info: py.ModuleInfo{Name: "verif_stdout"}, Methods: []*py.Method{write}})
	sys, _ := ctx.GetModule("sys")
	sys.Globals["stdout"] = outMod
	mainImpl := py.ModuleImpl{Info: py.ModuleInfo{Name: "__main__"}, Code: code}
	_, err = ctx.ModuleInit(&mainImpl)
	if err != nil {
		res.Err = "run:" + errClass(err)
	}
	return
}

func c12Main(args []string) int {
	in := bufio.NewScanner(os.Stdin)
	in.Buffer(make([]byte, 1<<20), 1<<28)
	out := bufio.NewWriter(os.Stdout)
	defer out.Flush()
	for in.Scan() {
		var c struct {
			Src string `json:"src"`
			Run bool   `json:"run"`
		}
		if err := json.Unmarshal([]byte(in.Text()), &c); err != nil {
			fmt.Fprintln(out, `{"err":"BadCase"}`)
			continue
		}
		done := make(chan c12Out, 1)
		go func() { done <- c12One(c.Src, c.Run) }()
		select {
		case r := <-done:
			b, _ := json.Marshal(r)
			out.Write(b)
			out.WriteByte('\n')
		case <-time.After(10 * time.Second):
			fmt.Fprintln(out, `{"err":"Hang","hang":true}`)
			out.Flush()
			return 7
		}
	}
	return 0
}
