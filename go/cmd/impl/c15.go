package main

// C15 correspondence: gpython's own float algorithms on bit patterns and ints of any size.
// One operation per line; floats are given and printed as IEEE-754 bit patterns (decimal uint64).
//   i2f <int>            float(int)                 -> bits | ERR class
//   f2i <bits>           int(float)                 -> int  | ERR class
//   cmp <bits> <int>     float vs int               -> lt eq gt as three 0/1 digits (le/ne/ge follow), all 0 if unordered
//   rnd <bits>           round(float)               -> int | ERR
//   rndn <bits> <n>      round(float, n)            -> bits | ERR
//   divmod <bits> <bits> divmod(float, float)       -> bits bits | ERR
//   idiv <int> <int>     int / int                  -> bits | ERR
//   irnd <int> <n>       round(int, n)              -> int

import (
	"bufio"
	"fmt"
	"math"
	"math/big"
	"os"
	"strconv"
	"strings"

	"github.com/go-python/gpython/py"
)

func init() { commands["c15"] = c15Main }

func c15Int(s string) py.Object {
	z, _ := new(big.Int).SetString(s, 10)
	return (*py.BigInt)(z).MaybeInt()
}

func c15Float(s string) py.Float {
	u, _ := strconv.ParseUint(s, 10, 64)
	return py.Float(math.Float64frombits(u))
}

func c15Show(o py.Object, err error) string {
	if err != nil {
		return "ERR " + errClass(err)
	}
	switch v := o.(type) {
	case py.Float:
		return fmt.Sprintf("F %d", math.Float64bits(float64(v)))
	case py.Int:
		return fmt.Sprintf("I %d", int64(v))
	case *py.BigInt:
		return "I " + (*big.Int)(v).String()
	case py.Bool:
		if v {
			return "B 1"
		}
		return "B 0"
	}
	if o == py.NotImplemented {
		return "NOTIMPL"
	}
	return "OTHER " + o.Type().Name
}

func c15Main(args []string) int {
	in := bufio.NewScanner(os.Stdin)
	in.Buffer(make([]byte, 1<<20), 1<<26)
	out := bufio.NewWriter(os.Stdout)
	defer out.Flush()
	for in.Scan() {
		f := strings.Fields(in.Text())
		res := guard(func() string {
			switch f[0] {
			case "i2f":
				return c15Show(py.MakeFloat(c15Int(f[1])))
			case "f2i":
				return c15Show(py.MakeInt(c15Float(f[1])))
			case "cmp":
				a := c15Float(f[1])
				b := c15Int(f[2])
				lt, e1 := a.M__lt__(b)
				eq, e2 := a.M__eq__(b)
				gt, e3 := a.M__gt__(b)
				if e1 != nil || e2 != nil || e3 != nil {
					return "ERR"
				}
				// the reflected direction must agree
				rlt, _ := py.Lt(b, a)
				rgt, _ := py.Gt(b, a)
				bit := func(o py.Object) string {
					if o == py.True {
						return "1"
					}
					return "0"
				}
				return "C " + bit(lt) + bit(eq) + bit(gt) + " " + bit(rgt) + bit(rlt)
			case "rnd":
				return c15Show(c15Float(f[1]).M__round__(py.None))
			case "rndn":
				n, _ := strconv.Atoi(f[2])
				return c15Show(c15Float(f[1]).M__round__(py.Int(n)))
			case "divmod":
				q, r, err := c15Float(f[1]).M__divmod__(c15Float(f[2]))
				if err != nil {
					return "ERR " + errClass(err)
				}
				return c15Show(q, nil) + " " + c15Show(r, nil)
			case "idiv":
				return c15Show(py.TrueDiv(c15Int(f[1]), c15Int(f[2])))
			case "irnd":
				n, _ := strconv.Atoi(f[2])
				switch v := c15Int(f[1]).(type) {
				case py.Int:
					return c15Show(v.M__round__(py.Int(n)))
				case *py.BigInt:
					return c15Show(v.M__round__(py.Int(n)))
				}
			}
			return "BadOp"
		})
		fmt.Fprintln(out, res)
	}
	return 0
}
