package main

// C08: contexts in isolation.
//   c08 inventory <names...> : mutable values reachable from the registered module implementations
//   c08 run                  : stdin = {"programs":[src...], "jobs":[{"prog":i,"tag":"..."}...], "goroutines":G,
//                              "dir": module dir}; every job runs in its own context, the code objects are
//                              shared; prints one line per job: repr of the module global `obs` (or the error)

import (
	"encoding/json"
	"fmt"
	"io"
	"os"
	"sort"
	"strings"
	"sync"

	"github.com/go-python/gpython/py"
	"github.com/go-python/gpython/repl"
)

func init() { commands["c08"] = c08Main }

func mutableKind(o py.Object) string {
	switch v := o.(type) {
	case *py.List:
		return "list"
	case py.StringDict:
		return "dict"
	case *py.Set:
		return "set"
	case *py.Type:
		return "type"
	case *py.Module:
		return "module"
	case py.Int, *py.BigInt, py.Float, py.Complex, py.String, py.Bytes, py.Bool, py.NoneType, py.Tuple, *py.Method, *py.FrozenSet:
		_ = v
		return ""
	}
	if o == nil {
		return "nil"
	}
	return "other:" + o.Type().Name
}

type c08Job struct {
	Prog int    `json:"prog"`
	Tag  string `json:"tag"`
}

// history correspondence: operations on module stores through the Go API, sequentially, in the
// interleaved order given; prints the final observation of every (context, module, key)
var c08Mods = []string{"tmod1", "tmod2"}
var c08Keys = []string{"a", "items", "conf", "x", "y"}

func c08Register() {
	py.RegisterModule(&py.ModuleImpl{Info: py.ModuleInfo{Name: "tmod1"},
		Globals: py.StringDict{"a": py.Int(7), "items": py.NewListFromItems([]py.Object{py.Int(1), py.Int(2), py.Int(3)}), "conf": py.StringDict{"p": py.Int(1)}}})
	py.RegisterModule(&py.ModuleImpl{Info: py.ModuleInfo{Name: "tmod2"},
		Globals: py.StringDict{"x": py.NewListFromItems(nil), "y": py.Int(5)}})
}

func c08Obs(o py.Object) string {
	switch v := o.(type) {
	case py.Int:
		return fmt.Sprintf("A %d", int64(v))
	case *py.List:
		parts := []string{"L"}
		for _, it := range v.Items {
			parts = append(parts, fmt.Sprint(it))
		}
		return strings.Join(parts, " ")
	case py.StringDict:
		var vals []int
		for _, it := range v {
			if n, ok := it.(py.Int); ok {
				vals = append(vals, int(n))
			}
		}
		sort.Ints(vals)
		parts := []string{"L"}
		for _, n := range vals {
			parts = append(parts, fmt.Sprint(n))
		}
		return strings.Join(parts, " ")
	}
	return "?"
}

func c08Hist() int {
	c08Register()
	raw, _ := io.ReadAll(os.Stdin)
	var cases []struct {
		Contexts int               `json:"contexts"`
		Ops      [][]json.RawMessage `json:"ops"`
	}
	if err := json.Unmarshal(raw, &cases); err != nil {
		fmt.Println("BadCase", err)
		return 2
	}
	for _, cs := range cases {
		ctxs := make([]py.Context, cs.Contexts)
		for i := range ctxs {
			ctxs[i] = py.NewContext(py.DefaultContextOpts())
		}
		num := func(r json.RawMessage) int { var n int; _ = json.Unmarshal(r, &n); return n }
		for _, op := range cs.Ops {
			c := ctxs[num(op[0])]
			var kind string
			_ = json.Unmarshal(op[1], &kind)
			m := c08Mods[num(op[2])]
			if kind == "import" {
				if _, err := c.GetModule(m); err != nil {
					_ = py.Import(c, m)
				}
				continue
			}
			mod, err := c.GetModule(m)
			k := c08Keys[num(op[3])]
			switch kind {
			case "setatom":
				if err == nil {
					mod.Globals[k] = py.Int(num(op[4]))
				}
			case "newlist":
				if err == nil {
					var l []int
					_ = json.Unmarshal(op[4], &l)
					items := []py.Object{}
					for _, n := range l {
						items = append(items, py.Int(n))
					}
					mod.Globals[k] = py.NewListFromItems(items)
				}
			case "append":
				if err == nil {
					switch v := mod.Globals[k].(type) {
					case *py.List:
						v.Append(py.Int(num(op[4])))
					case py.StringDict:
						v[fmt.Sprintf("k%d", num(op[4]))] = py.Int(num(op[4]))
					}
				}
			case "alias":
				src, err2 := c.GetModule(c08Mods[num(op[4])])
				if err == nil && err2 == nil {
					if v, ok := src.Globals[c08Keys[num(op[5])]]; ok {
						mod.Globals[k] = v
					}
				}
			case "del":
				if err == nil {
					delete(mod.Globals, k)
				}
			}
		}
		var parts []string
		for _, c := range ctxs {
			for _, m := range c08Mods {
				mod, err := c.GetModule(m)
				for _, k := range c08Keys {
					if err != nil {
						parts = append(parts, "-")
					} else if v, ok := mod.Globals[k]; ok {
						parts = append(parts, c08Obs(v))
					} else {
						parts = append(parts, "-")
					}
				}
			}
			c.Close()
		}
		fmt.Println(strings.Join(parts, "|"))
	}
	return 0
}

type c08UI struct {
	mu  sync.Mutex
	out []string
}

func (u *c08UI) SetPrompt(string) {}
func (u *c08UI) Print(s string) {
	u.mu.Lock()
	u.out = append(u.out, s)
	u.mu.Unlock()
}

// two interactive sessions in two contexts, each evaluating expressions that name the session;
// prints how many results each session's UI received and how many of them belong to the other
func c08Repl() int {
	const n = 300
	uis := []*c08UI{{}, {}}
	var wg sync.WaitGroup
	for i := 0; i < 2; i++ {
		wg.Add(1)
		go func(i int) {
			defer wg.Done()
			ctx := py.NewContext(py.DefaultContextOpts())
			defer ctx.Close()
			r := repl.New(ctx)
			r.SetUI(uis[i])
			for k := 0; k < n; k++ {
				_ = r.Run(fmt.Sprintf("'session%d-%d'", i, k))
			}
		}(i)
	}
	wg.Wait()
	for i, u := range uis {
		foreign := 0
		for _, o := range u.out {
			if !strings.Contains(o, fmt.Sprintf("session%d-", i)) {
				foreign++
			}
		}
		fmt.Printf("session %d received %d of %d results, %d from the other session\n", i, len(u.out), n, foreign)
	}
	return 0
}

func c08Main(args []string) int {
	if len(args) > 0 && args[0] == "hist" {
		return c08Hist()
	}
	if len(args) > 0 && args[0] == "repl" {
		return c08Repl()
	}
	if len(args) > 0 && args[0] == "inventory" {
		var rows []string
		for _, name := range args[1:] {
			impl := py.GetModuleImpl(name)
			if impl == nil {
				rows = append(rows, fmt.Sprintf("%s <not registered>", name))
				continue
			}
			var keys []string
			for k := range impl.Globals {
				keys = append(keys, k)
			}
			sort.Strings(keys)
			for _, k := range keys {
				if mk := mutableKind(impl.Globals[k]); mk != "" {
					rows = append(rows, fmt.Sprintf("%s %s %s", name, k, mk))
				}
			}
		}
		fmt.Println(strings.Join(rows, "\n"))
		return 0
	}
	// a registered module whose body is source text: compiled lazily, on the first import by any context
	py.RegisterModule(&py.ModuleImpl{Info: py.ModuleInfo{Name: "tsrc", FileDesc: "<tsrc>"},
		CodeSrc: "counter = [0]\nitems = []\ndef bump():\n    counter[0] += 1\n    return counter[0]\n"})
	raw, _ := io.ReadAll(os.Stdin)
	var in struct {
		Programs   []string `json:"programs"`
		Jobs       []c08Job `json:"jobs"`
		Goroutines int      `json:"goroutines"`
		Dir        string   `json:"dir"`
		Compile    bool     `json:"compile_concurrently"`
	}
	if err := json.Unmarshal(raw, &in); err != nil {
		fmt.Println("BadCase", err)
		return 2
	}
	codes := make([]*py.Code, len(in.Programs))
	for i, src := range in.Programs {
		c, err := py.Compile(src, fmt.Sprintf("<p%d>", i), py.ExecMode, 0, true)
		if err != nil {
			fmt.Printf("compile error in program %d: %v\n", i, err)
			return 2
		}
		codes[i] = c
	}
	out := make([]string, len(in.Jobs))
	runJob := func(j int) {
		job := in.Jobs[j]
		out[j] = func() (r string) {
			defer func() {
				if e := recover(); e != nil {
					r = "PANIC:" + strings.ReplaceAll(fmt.Sprint(e), "\n", " ")
				}
			}()
			opts := py.DefaultContextOpts()
			opts.SysArgs = []string{"prog", "arg-" + job.Tag}
			if in.Dir != "" {
				opts.SysPaths = []string{in.Dir}
			}
			ctx := py.NewContext(opts)
			defer ctx.Close()
			if in.Compile {
				// concurrent compilation alongside execution
				if _, err := py.Compile(in.Programs[job.Prog], "<again>", py.ExecMode, 0, true); err != nil {
					return "ERR:recompile"
				}
			}
			mod, err := ctx.ModuleInit(&py.ModuleImpl{
				Info:    py.ModuleInfo{Name: "__main__", FileDesc: "<c08>"},
				Code:    codes[job.Prog],
				Globals: py.StringDict{"TAG": py.String(job.Tag)},
			})
			if err != nil {
				return "ERR:" + errClass(err)
			}
			obs, ok := mod.Globals["obs"]
			if !ok {
				return "ERR:no obs"
			}
			s, err := py.ReprAsString(obs)
			if err != nil {
				return "ERR:repr " + errClass(err)
			}
			return s
		}()
	}
	g := in.Goroutines
	if g < 1 {
		g = 1
	}
	var wg sync.WaitGroup
	next := make(chan int, len(in.Jobs))
	for j := range in.Jobs {
		next <- j
	}
	close(next)
	for w := 0; w < g; w++ {
		wg.Add(1)
		go func() {
			defer wg.Done()
			for j := range next {
				runJob(j)
			}
		}()
	}
	wg.Wait()
	for _, o := range out {
		fmt.Println(strings.ReplaceAll(o, "\n", "\\n"))
	}
	return 0
}
