package main

// C09: replay of model traces against the real context lifecycle through the yield hooks.
// Scheduling is model-driven: "thread t takes a step" = release t from the yield point it
// is parked at and wait until it parks again or returns.

import (
	"bufio"
	"bytes"
	"encoding/json"
	"fmt"
	"math/rand"
	"os"
	"path/filepath"
	"runtime"
	"strconv"
	"strings"
	"sync"
	"time"

	"github.com/go-python/gpython/py"
	"github.com/go-python/gpython/stdlib"
)

func init() { commands["c09"] = c09Main }

func goid() int64 {
	var buf [64]byte
	n := runtime.Stack(buf[:], false)
	f := bytes.Fields(buf[:n])
	id, _ := strconv.ParseInt(string(f[1]), 10, 64)
	return id
}

type c09Event struct {
	tid   int
	point string // yield point name, or "return"
}

type c09Thread struct {
	kind     byte
	resume   chan struct{}
	parked   string // current yield point ("" = running / returned)
	returned bool
	err      error
	panicked string
	depth    int // admissions held, as seen from the yield events
	virtual  int // pending model-only body steps
	from     string // yield point it was last released from
}

type c09Sched struct {
	mu      sync.Mutex
	byGid   map[int64]int
	threads []*c09Thread
	events  chan c09Event
	free    bool // pass-through mode (setup / teardown)
}

func (s *c09Sched) yield(ctx py.Context, point string) {
	s.mu.Lock()
	tid, ok := s.byGid[goid()]
	free := s.free
	s.mu.Unlock()
	if !ok || free {
		return
	}
	t := s.threads[tid]
	s.events <- c09Event{tid, point}
	<-t.resume
}

type c09Obs struct {
	Case       string   `json:"case"`
	Finished   []bool   `json:"finished"`
	Refused    []bool   `json:"refused"`
	Errs       []string `json:"errs"`
	Callbacks  int      `json:"cb"`
	Done       bool     `json:"done"`
	Panic      string   `json:"panic"`
	Violations []string `json:"violations"`
	Disagree   string   `json:"disagree"`
}

func doneClosed(ctx py.Context) bool {
	select {
	case <-ctx.Done():
		return true
	default:
		return false
	}
}

func c09Run(kinds string, trace []int, scratch string, explore *rand.Rand) c09Obs {
	obs := c09Obs{Case: kinds + ";" + fmt.Sprint(trace)}
	s := &c09Sched{byGid: map[int64]int{}, events: make(chan c09Event, 64), free: true}
	stdlib.VerifYield = s.yield
	defer func() { stdlib.VerifYield = nil }()
	ctx := py.NewContext(py.DefaultContextOpts())
	cb := 0
	viol := func(f string, a ...interface{}) { obs.Violations = append(obs.Violations, fmt.Sprintf(f, a...)) }
	anyInside := func() bool {
		for _, t := range s.threads {
			if t.depth > 0 {
				return true
			}
		}
		return false
	}
	_, err := ctx.ModuleInit(&py.ModuleImpl{Info: py.ModuleInfo{Name: "verif_cb"},
		OnContextClosed: func(*py.Module) {
			cb++
			if anyInside() {
				viol("close callbacks ran while an admitted execution had not finished")
			}
		}})
	if err != nil {
		obs.Disagree = "setup: " + err.Error()
		return obs
	}
	park := func(self py.Object) (py.Object, error) {
		s.yield(ctx, "body")
		return py.None, nil
	}
	parkM := py.MustNewMethod("park", park, 0, "")
	code, err := py.Compile("park()\n", "<c09>", py.ExecMode, 0, true)
	if err != nil {
		obs.Disagree = "setup: " + err.Error()
		return obs
	}
	var wg sync.WaitGroup
	for i := 0; i < len(kinds); i++ {
		t := &c09Thread{kind: kinds[i], resume: make(chan struct{})}
		s.threads = append(s.threads, t)
	}
	s.free = false
	for i := range s.threads {
		i, t := i, s.threads[i]
		wg.Add(1)
		ready := make(chan struct{})
		go func() {
			defer wg.Done()
			s.mu.Lock()
			s.byGid[goid()] = i
			s.mu.Unlock()
			close(ready)
			defer func() {
				if r := recover(); r != nil {
					t.panicked = fmt.Sprint(r)
				}
				s.mu.Lock()
				free := s.free
				s.mu.Unlock()
				if !free {
					s.events <- c09Event{i, "return"}
				}
			}()
			switch t.kind {
			case 'R':
				_, t.err = ctx.RunCode(code, py.StringDict{"park": parkM}, nil, nil)
			case 'M':
				_, t.err = ctx.ModuleInit(&py.ModuleImpl{Info: py.ModuleInfo{Name: fmt.Sprintf("verif_m%d", i)},
					Methods: []*py.Method{parkM}, Code: code})
			case 'S':
				_, t.err = ctx.ResolveAndCompile("c09mod.py", py.CompileOpts{CurDir: scratch})
			case 'C':
				t.err = ctx.Close()
			case 'W':
				s.yield(ctx, "wait")
				<-ctx.Done()
			}
		}()
		<-ready
		// run to the first yield point
		if !c09Await(s, i, &obs) {
			break
		}
	}
	timeoutMsg := ""
	var book func(t *c09Thread)
	step := func(tid int) bool {
		t := s.threads[tid]
		if t.virtual > 0 { // model-only body step of a kind whose body cannot park
			t.virtual--
			return true
		}
		if t.returned || t.parked == "" {
			timeoutMsg = fmt.Sprintf("model schedules thread %d but it is not parked (returned=%v)", tid, t.returned)
			return false
		}
		from := t.parked
		t.from = from
		t.parked = ""
		t.resume <- struct{}{}
		if !c09Await(s, tid, &obs) {
			timeoutMsg = fmt.Sprintf("thread %d released from %q did not reach a yield point or return", tid, from)
			return false
		}
		book(t)
		return true
	}
	book = func(t *c09Thread) {
		from := t.from
		// bookkeeping of admissions from the event sequence
		switch from {
		case "push":
			if !(t.returned) && t.parked != "pop" || (t.kind == 'S' && t.parked == "pop") {
				t.depth++
				if t.kind == 'S' {
					t.virtual = 1
				}
			} else if t.parked == "pop" && t.kind == 'M' && t.depth > 0 {
				// nested admission refused: ModuleInit goes straight to its own pop
			}
		case "pop":
			t.depth--
		}
		if doneClosed(ctx) {
			if cb != 1 {
				viol("Done signalled with %d callback runs", cb)
			}
			if anyInside() {
				viol("Done signalled while an admitted execution had not finished")
			}
		}
		if t.kind == 'C' && t.returned {
			if anyInside() {
				viol("Close returned while an admitted execution had not finished")
			}
		}
	}
	if explore != nil && obs.Disagree == "" {
		// implementation-driven random exploration (search only): release a random parked
		// thread, then collect whatever events arrive within a short window
		for steps := 0; steps < 200; steps++ {
			var parked []int
			inflight := 0
			for i, t := range s.threads {
				if t.parked != "" {
					parked = append(parked, i)
				} else if !t.returned {
					inflight++
				}
			}
			if len(parked) == 0 && inflight == 0 {
				break
			}
			if len(parked) > 0 {
				tid := parked[explore.Intn(len(parked))]
				t := s.threads[tid]
				obs.Case += fmt.Sprintf(" %d", tid)
				if t.virtual > 0 {
					t.virtual--
					continue
				}
				t.from = t.parked
				t.parked = ""
				t.resume <- struct{}{}
			}
			wait := 20 * time.Millisecond
			if len(parked) == 0 {
				wait = 300 * time.Millisecond
			}
			got := false
		collect:
			for {
				select {
				case ev := <-s.events:
					t := s.threads[ev.tid]
					if ev.point == "return" {
						t.returned = true
					} else {
						t.parked = ev.point
					}
					book(t)
					got = true
					wait = 2 * time.Millisecond
				case <-time.After(wait):
					break collect
				}
			}
			if !got && len(parked) == 0 {
				obs.Disagree = "explore: all unfinished threads are blocked (deadlock)"
				viol("deadlock: unfinished threads are all blocked")
				break
			}
		}
	} else if obs.Disagree == "" {
		for _, tid := range trace {
			if tid < 0 || tid >= len(s.threads) || !step(tid) {
				obs.Disagree = timeoutMsg
				break
			}
		}
	}
	obs.Callbacks = cb
	obs.Done = doneClosed(ctx)
	for _, t := range s.threads {
		obs.Finished = append(obs.Finished, t.returned)
		obs.Refused = append(obs.Refused, t.err != nil)
		e := ""
		if t.err != nil {
			e = t.err.Error()
			if ex, ok := t.err.(*py.Exception); ok {
				e = ex.Type().Name
			} else if ex, ok := t.err.(py.ExceptionInfo); ok && ex.Type != nil {
				e = ex.Type.Name
			}
		}
		obs.Errs = append(obs.Errs, e)
		if t.panicked != "" {
			obs.Panic = t.panicked
		}
	}
	// teardown: let everything run freely to completion
	s.mu.Lock()
	s.free = true
	s.mu.Unlock()
	for _, t := range s.threads {
		if !t.returned && t.parked != "" {
			t.parked = ""
			t.resume <- struct{}{}
		}
	}
	fin := make(chan struct{})
	go func() { ctx.Close(); wg.Wait(); close(fin) }()
	select {
	case <-fin:
	case <-time.After(5 * time.Second):
		if obs.Disagree == "" {
			obs.Disagree = "teardown: goroutines did not finish (deadlock)"
		}
	}
	// drain
	for {
		select {
		case <-s.events:
			continue
		default:
		}
		break
	}
	return obs
}

// c09Await waits for the next event of thread tid.
func c09Await(s *c09Sched, tid int, obs *c09Obs) bool {
	select {
	case ev := <-s.events:
		if ev.tid != tid {
			obs.Disagree = fmt.Sprintf("event from thread %d while waiting for %d", ev.tid, tid)
			return false
		}
		t := s.threads[tid]
		if ev.point == "return" {
			t.returned = true
			t.parked = ""
		} else {
			t.parked = ev.point
		}
		return true
	case <-time.After(3 * time.Second):
		return false
	}
}

func c09Main(args []string) int {
	scratch, err := os.MkdirTemp("", "verif-c09-")
	if err != nil {
		fmt.Fprintln(os.Stderr, err)
		return 2
	}
	defer os.RemoveAll(scratch)
	os.WriteFile(filepath.Join(scratch, "c09mod.py"), []byte("x = 1\n"), 0o644)
	in := bufio.NewScanner(os.Stdin)
	in.Buffer(make([]byte, 1<<20), 1<<26)
	out := bufio.NewWriter(os.Stdout)
	defer out.Flush()
	for in.Scan() {
		line := strings.TrimSpace(in.Text())
		if line == "" {
			continue
		}
		parts := strings.SplitN(line, ";", 2)
		var trace []int
		var explore *rand.Rand
		if strings.HasPrefix(parts[1], "explore") {
			seed, _ := strconv.ParseInt(strings.TrimSpace(strings.TrimPrefix(parts[1], "explore")), 10, 64)
			explore = rand.New(rand.NewSource(seed))
		} else {
			for _, f := range strings.Fields(parts[1]) {
				n, _ := strconv.Atoi(f)
				trace = append(trace, n)
			}
		}
		o := c09Run(parts[0], trace, scratch, explore)
		b, _ := json.Marshal(o)
		out.Write(b)
		out.WriteByte('\n')
	}
	return 0
}
