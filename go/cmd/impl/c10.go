package main

// C10: apply every callable reachable from builtins and from every builtin type's attribute table,
// every operator and subscript form, to argument tuples over a universe of representative values;
// recover() around each call; print every panic with the innermost gpython frame.
//   c10 list                      : the callables and the universe
//   c10 run <from> <to> <arity>   : calls with index in [from, to) of the enumeration for that arity

import (
	"bufio"
	"encoding/json"
	"fmt"
	"os"
	"runtime"
	"sort"
	"strconv"
	"strings"

	"github.com/go-python/gpython/py"
)

func init() { commands["c10"] = c10Main }

type c10Callable struct {
	name string
	obj  py.Object
	self int // -1: plain callable; otherwise the attribute is looked up on universe value `self` first
}

func c10Universe(ctx py.Context) ([]string, []func() py.Object) {
	src := map[string]string{
		"None": "None", "True": "True", "False": "False", "0": "0", "1": "1", "-1": "-1", "7": "7", "255": "255", "1000": "1000", "-1000000": "-1000000",
		"2**62": "2**62", "2**63": "2**63", "-2**63": "-2**63", "2**64": "2**64", "0.0": "0.0", "-0.0": "-0.0", "1.5": "1.5", "-2.5": "-2.5", "inf": "float('inf')", "nan": "float('nan')", "1e308": "1e308",
		"1j": "1j", "''": "''", "'a'": "'a'", "'abc'": "'abc'", "'%s'": "'%s'", "'{}'": "'{}'", "'\\u00e9x'": "'\\u00e9x'", "b''": "b''", "b'ab'": "b'ab'",
		"()": "()", "(1,)": "(1,)", "(1,'a')": "(1, 'a')", "[]": "[]", "[1,2,3]": "[1, 2, 3]", "['b','a']": "['b', 'a']", "[[]]": "[[]]", "{}": "{}", "{'a':1}": "{'a': 1}", 
		"set()": "set()", "{1,2}": "{1, 2}", "range(3)": "range(3)", "range(0)": "range(0)", "slice": "slice(1, 2)", "slice(None)": "slice(None)", "iter": "iter([1, 2])",
		"lambda": "(lambda *a, **k: 1)", "lambda1": "(lambda x: x)", "int": "int", "str": "str", "object()": "object()", "len": "len", "Exception": "Exception", "ValueError()": "ValueError('x')",
		"gen": "(i for i in [1, 2])", "Ellipsis": "...", "NotImplemented": "NotImplemented", "type": "type", "bytesobj": "bytes(3)", "cls": "type('K', (), {})", "inst": "type('K', (), {'__len__': lambda s: -1, '__index__': lambda s: 'x', '__iter__': lambda s: 5})()",
	}
	var all []string
	for k := range src {
		all = append(all, k)
	}
	sort.Strings(all)
	var names []string
	var mk []func() py.Object
	for _, n := range all {
		code, err := py.Compile(src[n]+"\n", "<u>", py.EvalMode, 0, true)
		if err != nil {
			panic("universe " + n + ": " + err.Error())
		}
		mod, _ := ctx.GetModule("builtins")
		c := code
		if _, err := ctx.RunCode(c, py.StringDict{"__builtins__": mod}, py.StringDict{}, nil); err != nil {
			fmt.Fprintf(os.Stderr, "universe value %s unavailable: %v\n", n, err)
			continue
		}
		names = append(names, n)
		mk = append(mk, func() py.Object {
			v, err := ctx.RunCode(c, py.StringDict{"__builtins__": mod}, py.StringDict{}, nil)
			if err != nil {
				panic("universe value failed: " + err.Error())
			}
			return v
		})
	}
	return names, mk
}

func gpyFrame() string {
	pcs := make([]uintptr, 40)
	n := runtime.Callers(3, pcs)
	frames := runtime.CallersFrames(pcs[:n])
	for {
		f, more := frames.Next()
		if strings.Contains(f.Function, "go-python/gpython/") {
			fn := f.Function[strings.LastIndex(f.Function, "/")+1:]
			file := f.File[strings.LastIndex(f.File, "/repo/")+6:]
			return fmt.Sprintf("%s %s:%d", fn, file, f.Line)
		}
		if !more {
			break
		}
	}
	return "?"
}

// argument-helper correspondence: one JSON case per line
//   {"fn":"ptak","format":"Oi|O$O:name","nargs":2,"kwargs":["a"],"kwlist":["a","b"],"nresults":3}
//   {"fn":"unpack","nargs":2,"nkwargs":0,"min":1,"max":3,"nresults":3}
// prints "E|" or "-|" (error or not) followed by the written result indices, or PANIC
func c10Args() int {
	in := bufio.NewScanner(os.Stdin)
	in.Buffer(make([]byte, 1<<20), 1<<26)
	out := bufio.NewWriter(os.Stdout)
	defer out.Flush()
	for in.Scan() {
		var c struct {
			Fn       string   `json:"fn"`
			Format   string   `json:"format"`
			Nargs    int      `json:"nargs"`
			Kwargs   []string `json:"kwargs"`
			Kwlist   []string `json:"kwlist"`
			Nkwargs  int      `json:"nkwargs"`
			Min      int      `json:"min"`
			Max      int      `json:"max"`
			Nresults int      `json:"nresults"`
		}
		if err := json.Unmarshal([]byte(in.Text()), &c); err != nil {
			fmt.Fprintln(out, "BadCase")
			continue
		}
		res := func() (r string) {
			defer func() {
				if e := recover(); e != nil {
					r = "PANIC " + strings.ReplaceAll(fmt.Sprint(e), "\n", " ")
				}
			}()
			args := make(py.Tuple, c.Nargs)
			for i := range args {
				args[i] = py.Int(i)
			}
			results := make([]py.Object, c.Nresults)
			ptrs := make([]*py.Object, c.Nresults)
			for i := range ptrs {
				ptrs[i] = &results[i]
			}
			var err error
			if c.Fn == "ptak" {
				var kwargs py.StringDict
				if c.Kwargs != nil {
					kwargs = py.StringDict{}
					for _, k := range c.Kwargs {
						kwargs[k] = py.Int(100)
					}
				}
				err = py.ParseTupleAndKeywords(args, kwargs, c.Format, c.Kwlist, ptrs...)
			} else {
				var kwargs py.StringDict
				if c.Nkwargs > 0 {
					kwargs = py.StringDict{}
					for i := 0; i < c.Nkwargs; i++ {
						kwargs[fmt.Sprintf("k%d", i)] = py.Int(1)
					}
				}
				err = py.UnpackTuple(args, kwargs, "f", c.Min, c.Max, ptrs...)
			}
			r = "-|"
			if err != nil {
				r = "E|"
			}
			var w []string
			for i, v := range results {
				if v != nil {
					w = append(w, strconv.Itoa(i))
				}
			}
			return r + strings.Join(w, " ")
		}()
		fmt.Fprintln(out, res)
	}
	return 0
}

func c10Main(args []string) int {
	if len(args) > 0 && args[0] == "args" {
		return c10Args()
	}
	ctx := py.NewContext(py.DefaultContextOpts())
	defer ctx.Close()
	unames, umk := c10Universe(ctx)
	// callables
	var calls []c10Callable
	bi, _ := ctx.GetModule("builtins")
	var bnames []string
	for k := range bi.Globals {
		bnames = append(bnames, k)
	}
	sort.Strings(bnames)
	skip := map[string]bool{"input": true, "exit": true, "quit": true, "open": true, "print": true, "exec": true, "eval": true, "compile": true, "__import__": true, "breakpoint": true, "help": true}
	seenType := map[*py.Type]bool{}
	var types []*py.Type
	for _, k := range bnames {
		v := bi.Globals[k]
		if skip[k] {
			continue
		}
		if _, err := py.GetAttrString(v, "__call__"); err == nil || isCallable(v) {
			calls = append(calls, c10Callable{"builtins." + k, v, -1})
		}
		if t, ok := v.(*py.Type); ok && !seenType[t] {
			seenType[t] = true
			types = append(types, t)
		}
	}
	for i := range umk {
		t := umk[i]().Type()
		if !seenType[t] {
			seenType[t] = true
			types = append(types, t)
		}
	}
	for _, t := range types {
		var ks []string
		for k := range t.Dict {
			ks = append(ks, k)
		}
		sort.Strings(ks)
		for _, k := range ks {
			calls = append(calls, c10Callable{t.Name + "." + k, t.Dict[k], -1})
		}
	}
	// operators and subscript forms, as Python functions
	opsSrc := ""
	for i, op := range []string{"-a", "+a", "~a", "not a", "a.x", "a()", "len(a)", "iter(a)", "next(a)", "str(a)", "repr(a)", "hash(a)", "bool(a)", "int(a)", "float(a)", "list(a)", "tuple(a)", "dict(a)", "set(a)", "sorted(a)", "sum(a)", "max(a)", "a[:]", "a[::-1]", "{a: 1}", "{a}", "f'{a}'" + ""} {
		if strings.HasPrefix(op, "f'") {
			continue
		}
		opsSrc += fmt.Sprintf("def op1_%d(a): return %s\n", i, op)
	}
	bin := []string{"a + b", "a - b", "a * b", "a / b", "a // b", "a % b", "a ** b", "a << b", "a >> b", "a & b", "a | b", "a ^ b", "a == b", "a != b", "a < b", "a <= b", "a > b", "a >= b", "a in b", "a not in b", "a is b", "a and b", "a[b]", "a[b:]", "a[:b]", "a[::b]", "a(b)", "a(*b)", "a(**b)", "getattr(a, b)", "divmod(a, b)", "a if b else a", "[x for x in a if x == b]", "a.join(b) if isinstance(a, str) else a.index(b)", "a.count(b)", "a.format(b)", "a % (b,)", "(a, b) < (b, a)", "[a] * b", "[a] + b", "{a: b}", "dict(a=b)", "dict(a, **b)"}
	for i, op := range bin {
		opsSrc += fmt.Sprintf("def op2_%d(a, b): return %s\n", i, op)
	}
	for i, op := range []string{"a += b", "a -= b", "a *= b", "a /= b", "a //= b", "a %= b", "a **= b", "a <<= b", "a >>= b", "a &= b", "a |= b", "a ^= b", "del a[b]", "a.x = b", "del a.x", "a[b] = a", "a[b:] = a", "a[:] = b", "a[::2] = b", "del a[b:]", "a.append(b)", "a.extend(b)", "a.update(b)", "a.add(b)", "a.insert(b, b)", "a.pop(b)", "a.remove(b)", "a.sort(key=b)", "x, y = a, b; x, *y = a", "for x in a: b", "with a: b", "raise a from b", "assert a, b", "import a", "class K(a, metaclass=b): pass", "yield a"} {
		if op == "import a" || op == "yield a" {
			continue
		}
		opsSrc += fmt.Sprintf("def st2_%d(a, b):\n    %s\n    return a\n", i, op)
	}
	for i, op := range []string{"a[b:c]", "pow(a, b, c)", "a(b, c)", "a(b, *c)", "a(b, **c)", "a(*b, **c)", "a if b else c", "a < b < c", "slice(a, b, c)", "range(a, b, c)", "a.replace(b, c)", "a.find(b, c)", "a.split(b, c)", "getattr(a, b, c)", "setattr(a, b, c)", "a[b][c]", "a.get(b, c)", "a.setdefault(b, c)", "a.insert(b, c)", "a.startswith(b, c)", "sorted(a, key=b, reverse=c)", "max(a, b, key=c)", "sum(a, b) + c", "isinstance(a, (b, c))", "type(a, b, c)", "str(a, b, c)", "int(a, b) + c", "bytes(a, b, c)", "a[b::c]", "list(map(a, b, c))", "list(zip(a, b, c))", "list(filter(a, b)) + c", "enumerate(a, b)", "round(a, b) + c", "divmod(a, b)[c]", "{a: b}[c]", "[a, b][c]", "(a, b)[c:]", "a.format(b, c)", "a % (b, c)", "a.join([b, c])", "print(a, b, sep=c, file=None) if False else 0", "complex(a, b) * c", "a * b ** c", "-a ** b % c", "a << b >> c", "a & b | c ^ a"} {
		opsSrc += fmt.Sprintf("def op3_%d(a, b, c): return %s\n", i, op)
	}
	for i, op := range []string{"a[b] = c", "a[b:c] = a", "del a[b:c]", "a[b:c:2] = c", "a.x = b; c.x", "a[b] += c", "a.x = b; a.x += c", "for a[b] in c: pass", "a, *b = c", "with a as b: c"} {
		opsSrc += fmt.Sprintf("def st3_%d(a, b, c):\n    %s\n    return a\n", i, op)
	}
	opsCode, err := py.Compile(opsSrc, "<ops>", py.ExecMode, 0, true)
	if err != nil {
		fmt.Println("ops source does not compile:", err)
		for i, l := range strings.Split(opsSrc, "\n") {
			if i >= 170 && i < 178 {
				fmt.Println(i+1, l)
			}
		}
		return 2
	}
	opsGlobals := py.StringDict{"__builtins__": bi}
	if _, err := ctx.RunCode(opsCode, opsGlobals, opsGlobals, nil); err != nil {
		fmt.Println("ops source failed:", err)
		return 2
	}
	var opNames []string
	for k, v := range opsGlobals {
		if _, ok := v.(*py.Function); ok {
			opNames = append(opNames, k)
		}
	}
	sort.Strings(opNames)
	opText := map[string]string{}
	for _, l := range strings.Split(opsSrc, "def ") {
		if i := strings.Index(l, "("); i > 0 {
			opText[l[:i]] = strings.TrimSpace(strings.ReplaceAll(l[strings.Index(l, ":")+1:], "\n", " "))
		}
	}
	for _, k := range opNames {
		calls = append(calls, c10Callable{"ops." + k + "[" + opText[k] + "]", opsGlobals[k], -1})
	}
	if len(args) > 0 && args[0] == "list" {
		fmt.Println(len(calls), "callables;", len(unames), "values")
		for _, c := range calls {
			fmt.Println(c.name)
		}
		return 0
	}
	from, _ := strconv.Atoi(args[1])
	to, _ := strconv.Atoi(args[2])
	arity, _ := strconv.Atoi(args[3])
	nu := len(unames)
	pow := 1
	for i := 0; i < arity; i++ {
		pow *= nu
	}
	total := len(calls) * pow
	if to > total {
		to = total
	}
	out := bufio.NewWriter(os.Stdout)
	defer out.Flush()
	fmt.Fprintf(out, "TOTAL %d\n", total)
	stride := 1
	if len(args) > 4 {
		stride, _ = strconv.Atoi(args[4])
	}
	done := 0
	for idx := from; idx < to; idx += stride {
		ci := idx / pow
		rest := idx % pow
		argv := make(py.Tuple, arity)
		var an []string
		for a := 0; a < arity; a++ {
			argv[a] = umk[rest%nu]()
			an = append(an, unames[rest%nu])
			rest /= nu
		}
		c := calls[ci]
		if want := map[string]int{"op1_": 1, "op2_": 2, "st2_": 2, "op3_": 3, "st3_": 3}[strings.TrimPrefix(c.name+"    ", "ops.")[:4]]; strings.HasPrefix(c.name, "ops.") && want != arity {
			continue // operator functions only at their own arity
		}
		fmt.Fprintf(out, "AT %d\n", idx)
		out.Flush()
		func() {
			defer func() {
				if r := recover(); r != nil {
					fmt.Fprintf(out, "PANIC %s(%s) :: %s :: %s\n", c.name, strings.Join(an, ", "), gpyFrame(), strings.ReplaceAll(fmt.Sprint(r), "\n", " "))
				}
			}()
			res, err := py.Call(c.obj, argv, nil)
			if err == nil && res != nil {
				// results must be printable and iterable results drainable (bounded)
				_, _ = py.ReprAsString(res)
			}
		}()
		done++
	}
	fmt.Fprintf(out, "DONE %d\n", done)
	return 0
}

func isCallable(o py.Object) bool {
	switch o.(type) {
	case *py.Method, *py.Function, *py.Type, *py.BoundMethod:
		return true
	}
	_, ok := o.(py.I__call__)
	return ok
}
