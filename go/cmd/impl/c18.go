package main

// C18: compile the same (source, file name, mode) many times -- sequentially, interleaved with
// other compilations, and from many goroutines at once -- and compare deep structural dumps.
// C11: compile arbitrary byte sequences in all three modes and classify the outcome.

import (
	"bufio"
	"crypto/sha1"
	"encoding/json"
	"fmt"
	"os"
	"sort"
	"strings"
	"sync"
	"time"

	"github.com/go-python/gpython/py"
)

func init() { commands["c18"] = c18Main; commands["c18dump"] = c18Dump; commands["c11"] = c11Main }

func dumpCode(c *py.Code, b *strings.Builder) {
	fmt.Fprintf(b, "code(%q,%q,argc=%d,kwonly=%d,nlocals=%d,stack=%d,flags=%d,first=%d,code=%x,lnotab=%x,names=%q,vars=%q,free=%q,cell=%q,cell2arg=%v,consts=[",
		c.Name, c.Filename, c.Argcount, c.Kwonlyargcount, c.Nlocals, c.Stacksize, c.Flags, c.Firstlineno, c.Code, c.Lnotab, c.Names, c.Varnames, c.Freevars, c.Cellvars, c.Cell2arg)
	for _, k := range c.Consts {
		if sub, ok := k.(*py.Code); ok {
			dumpCode(sub, b)
		} else {
			s, err := py.ReprAsString(k)
			if err != nil {
				s = "<repr error>"
			}
			fmt.Fprintf(b, "%s:%s,", k.Type().Name, s)
		}
	}
	b.WriteString("])")
}

func compileDump(src, mode string) (out string) {
	defer func() {
		if r := recover(); r != nil {
			out = "PANIC:" + strings.ReplaceAll(fmt.Sprint(r), "\n", " ")
		}
	}()
	code, err := py.Compile(src, "<c18>", py.CompileMode(mode), 0, true)
	if err != nil {
		return "ERR:" + errClass(err) + ":" + strings.ReplaceAll(fmt.Sprint(err), "\n", " | ")
	}
	var b strings.Builder
	dumpCode(code, &b)
	return b.String()
}

// errDump renders everything an embedder can read from a failed compilation: class, message and the
// location attributes stamped on the exception
func errDump(err error) string {
	var e *py.Exception
	switch x := err.(type) {
	case *py.Exception:
		e = x
	case py.ExceptionInfo:
		e, _ = x.Value.(*py.Exception)
	case *py.ExceptionInfo:
		if x != nil {
			e, _ = x.Value.(*py.Exception)
		}
	}
	if e == nil {
		return "ERR:" + errClass(err) + ":" + fmt.Sprint(err)
	}
	var b strings.Builder
	fmt.Fprintf(&b, "ERR:%s args=", e.Type().Name)
	if s, rerr := py.ReprAsString(e.Args); rerr == nil {
		b.WriteString(s)
	}
	keys := make([]string, 0, len(e.Dict))
	for k := range e.Dict {
		keys = append(keys, k)
	}
	sort.Strings(keys)
	for _, k := range keys {
		s, rerr := py.ReprAsString(e.Dict[k])
		if rerr != nil {
			s = "<repr error>"
		}
		fmt.Fprintf(&b, " %s=%s", k, s)
	}
	return b.String()
}

// errIdentity is the address of the exception object a failed compilation returned (0 if none)
func errIdentity(err error) *py.Exception {
	switch x := err.(type) {
	case *py.Exception:
		return x
	case py.ExceptionInfo:
		e, _ := x.Value.(*py.Exception)
		return e
	case *py.ExceptionInfo:
		if x != nil {
			e, _ := x.Value.(*py.Exception)
			return e
		}
	}
	return nil
}

// heldResult compiles src under its own file name and keeps the RESULT OBJECT (code or error) together
// with its dump at that moment: a later compilation must not be able to change what this one returned
type heldResult struct {
	code *py.Code
	err  error
	dump string
}

func (h *heldResult) redump() (out string) {
	defer func() {
		if r := recover(); r != nil {
			out = "PANIC:" + strings.ReplaceAll(fmt.Sprint(r), "\n", " ")
		}
	}()
	if h.err != nil {
		return errDump(h.err)
	}
	if h.code == nil {
		return "nil"
	}
	var b strings.Builder
	dumpCode(h.code, &b)
	return b.String()
}

func compileHeld(src, file string) (h *heldResult) {
	h = &heldResult{}
	defer func() {
		if r := recover(); r != nil {
			h.dump = "PANIC:" + strings.ReplaceAll(fmt.Sprint(r), "\n", " ")
		}
	}()
	h.code, h.err = py.Compile(src, file, py.ExecMode, 0, true)
	h.dump = h.redump()
	return h
}

// c18Dump prints one digest line per source (compared across processes)
func c18Dump(args []string) int {
	in := bufio.NewScanner(os.Stdin)
	in.Buffer(make([]byte, 1<<20), 1<<28)
	out := bufio.NewWriter(os.Stdout)
	defer out.Flush()
	for in.Scan() {
		var c struct {
			Src string `json:"src"`
		}
		if json.Unmarshal([]byte(in.Text()), &c) != nil {
			fmt.Fprintln(out, "badcase")
			continue
		}
		fmt.Fprintf(out, "%x\n", sha1.Sum([]byte(compileDump(c.Src, "exec"))))
	}
	return 0
}

type c18Out struct {
	Index  int    `json:"index"`
	Result string `json:"result"` // "same" or a description of the difference
}

func c18Main(args []string) int {
	in := bufio.NewScanner(os.Stdin)
	in.Buffer(make([]byte, 1<<20), 1<<28)
	var srcs []string
	for in.Scan() {
		var c struct {
			Src string `json:"src"`
		}
		if json.Unmarshal([]byte(in.Text()), &c) == nil {
			srcs = append(srcs, c.Src)
		}
	}
	out := bufio.NewWriter(os.Stdout)
	defer out.Flush()
	reps := 64
	ref := make([]string, len(srcs))
	for i, s := range srcs {
		ref[i] = compileDump(s, "exec")
	}
	report := func(i int, msg string) {
		b, _ := json.Marshal(c18Out{i, msg})
		out.Write(b)
		out.WriteByte('\n')
		out.Flush() // a later phase may abort the process (concurrent map writes): what was seen so far must get out
	}
	bad := map[int]bool{}
	// results held across everything that follows: each source compiled once under its own file name,
	// the returned object kept; re-dumped at the end
	held := make([]*heldResult, len(srcs))
	for i, s := range srcs {
		held[i] = compileHeld(s, fmt.Sprintf("<held-%d>", i))
	}
	heldErr := map[*py.Exception]int{}
	for i, h := range held {
		if e := errIdentity(h.err); e != nil {
			if j, dup := heldErr[e]; dup && !bad[i] {
				bad[i] = true
				report(i, fmt.Sprintf("failed compilations %d and %d returned the very same exception object: %.200s", j, i, h.redump()))
			}
			heldErr[e] = i
		}
	}
	// sequential repetition, interleaved with the neighbours
	for i, s := range srcs {
		for k := 0; k < reps; k++ {
			if k%8 == 3 && len(srcs) > 1 {
				compileDump(srcs[(i+k)%len(srcs)], "exec")
			}
			if d := compileDump(s, "exec"); d != ref[i] && !bad[i] {
				bad[i] = true
				report(i, fmt.Sprintf("repetition %d differs: %.300s  VS  %.300s", k, d, ref[i]))
			}
		}
	}
	// concurrent: 16 goroutines compile every source
	var wg sync.WaitGroup
	var mu sync.Mutex
	for g := 0; g < 16; g++ {
		wg.Add(1)
		go func(g int) {
			defer wg.Done()
			for j := range srcs {
				i := (j*7 + g*13) % len(srcs)
				if d := compileDump(srcs[i], "exec"); d != ref[i] {
					mu.Lock()
					if !bad[i] {
						bad[i] = true
						report(i, fmt.Sprintf("concurrent compile differs: %.300s  VS  %.300s", d, ref[i]))
					}
					mu.Unlock()
				}
			}
		}(g)
	}
	wg.Wait()
	// concurrent failing compilations under distinct file names: each must report its own location
	var wg2 sync.WaitGroup
	for g := 0; g < 16; g++ {
		wg2.Add(1)
		go func(g int) {
			defer wg2.Done()
			for i, s := range srcs {
				if held[i].err == nil || i%16 != g {
					continue
				}
				for k := 0; k < 4; k++ {
					file := fmt.Sprintf("<held-%d>", i)
					h := compileHeld(s, file)
					if h.dump != held[i].dump {
						mu.Lock()
						if !bad[i] {
							bad[i] = true
							report(i, fmt.Sprintf("concurrent failing compile differs: %.300s  VS  %.300s", h.dump, held[i].dump))
						}
						mu.Unlock()
					}
				}
			}
		}(g)
	}
	wg2.Wait()
	// nothing a later compilation did may have changed what an earlier one returned
	for i, h := range held {
		if d := h.redump(); d != h.dump && !bad[i] {
			bad[i] = true
			report(i, fmt.Sprintf("result held since the first compilation changed afterwards: was %.300s  NOW  %.300s", h.dump, d))
		}
	}
	for i := range srcs {
		if !bad[i] {
			report(i, "same")
		}
	}
	return 0
}

// C11: one JSON per line {"src": base64?...}: sources are given as JSON strings (arbitrary bytes
// are passed as \u00XX escapes and re-encoded byte-wise by the caller using latin-1 mapping).
func c11Main(args []string) int {
	in := bufio.NewScanner(os.Stdin)
	in.Buffer(make([]byte, 1<<20), 1<<28)
	out := bufio.NewWriter(os.Stdout)
	defer out.Flush()
	for in.Scan() {
		var c struct {
			Bytes   []int  `json:"bytes"`
			Src     string `json:"src"`
			Timeout int    `json:"timeout"`
		}
		if json.Unmarshal([]byte(in.Text()), &c) != nil {
			fmt.Fprintln(out, `["BadCase"]`)
			continue
		}
		src := c.Src
		if c.Bytes != nil {
			bs := make([]byte, len(c.Bytes))
			for i, v := range c.Bytes {
				bs[i] = byte(v)
			}
			src = string(bs)
		}
		var res []string
		wd := c.Timeout
		if wd == 0 {
			wd = 20
		}
		for _, mode := range []string{"exec", "eval", "single"} {
			done := make(chan string, 1)
			go func() {
				done <- func() (o string) {
					defer func() {
						if r := recover(); r != nil {
							o = "PANIC:" + strings.ReplaceAll(fmt.Sprint(r), "\n", " ")
						}
					}()
					_, err := py.Compile(src, "<c11>", py.CompileMode(mode), 0, true)
					if err == nil {
						return "code"
					}
					cls := errClass(err)
					loc := ""
					if e, ok := err.(*py.Exception); ok {
						_, hasFile := e.Dict["filename"]
						_, hasLine := e.Dict["lineno"]
						_, hasOff := e.Dict["offset"]
						if hasFile && hasLine && hasOff {
							loc = "+loc"
						}
					}
					if cls != "SyntaxError" && cls != "IndentationError" && cls != "TabError" {
						if e, ok := err.(*py.Exception); ok {
							if a, ok := e.Args.(py.Tuple); ok && len(a) > 0 {
								m, _ := py.StrAsString(a[0])
								if len(m) > 120 {
									m = m[:120]
								}
								return cls + loc + ":" + strings.ReplaceAll(m, "\n", " ")
							}
						}
					}
					return cls + loc
				}()
			}()
			select {
			case r := <-done:
				res = append(res, r)
			case <-time.After(time.Duration(wd) * time.Second):
				res = append(res, "HANG")
				b, _ := json.Marshal(res)
				out.Write(b)
				out.WriteByte('\n')
				out.Flush()
				return 7
			}
		}
		b, _ := json.Marshal(res)
		out.Write(b)
		out.WriteByte('\n')
	}
	return 0
}
