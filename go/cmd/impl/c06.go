package main

// C06: parse a text and print the ast dump (Python 3.4 ast.dump format) or the error class.
// One JSON object per line {"src": ..., "mode": "exec"|"eval"|"single"} -> {"dump": ...} | {"error": class, "msg": ...}
// Also: {"escape": <string>, "bytes": bool} -> DecodeEscape result as a list of code points / bytes.

import (
	"bufio"
	"bytes"
	"encoding/json"
	"fmt"
	"os"
	"unicode/utf8"

	"github.com/go-python/gpython/ast"
	"github.com/go-python/gpython/parser"
	"github.com/go-python/gpython/py"
)

func init() { commands["c06"] = c06Main }

func c06Main(args []string) int {
	in := bufio.NewScanner(os.Stdin)
	in.Buffer(make([]byte, 1<<20), 1<<28)
	out := bufio.NewWriter(os.Stdout)
	defer out.Flush()
	for in.Scan() {
		var c struct {
			Src    *string `json:"src"`
			Mode   string  `json:"mode"`
			Escape []int   `json:"escape"`
			Bytes  bool    `json:"bytes"`
		}
		if json.Unmarshal([]byte(in.Text()), &c) != nil {
			fmt.Fprintln(out, `{"error":"BadCase"}`)
			continue
		}
		res := guard(func() string {
			if c.Src == nil {
				var buf bytes.Buffer
				for _, r := range c.Escape {
					buf.WriteRune(rune(r))
				}
				o, err := parser.DecodeEscape(&buf, c.Bytes)
				if err != nil {
					b, _ := json.Marshal(map[string]interface{}{"error": errClass(err)})
					return string(b)
				}
				var vals []int
				if c.Bytes {
					for _, x := range o.Bytes() {
						vals = append(vals, int(x))
					}
				} else {
					bs := o.Bytes()
					for len(bs) > 0 {
						r, n := utf8.DecodeRune(bs)
						if r == utf8.RuneError && n == 1 {
							vals = append(vals, -1)
						} else {
							vals = append(vals, int(r))
						}
						bs = bs[n:]
					}
				}
				if vals == nil {
					vals = []int{}
				}
				b, _ := json.Marshal(map[string]interface{}{"out": vals})
				return string(b)
			}
			tree, err := parser.ParseString(*c.Src, py.CompileMode(c.Mode))
			if err != nil {
				msg := ""
				if e, ok := err.(*py.Exception); ok {
					if a, ok := e.Args.(py.Tuple); ok && len(a) > 0 {
						msg, _ = py.StrAsString(a[0])
					}
				}
				b, _ := json.Marshal(map[string]interface{}{"error": errClass(err), "msg": msg})
				return string(b)
			}
			b, _ := json.Marshal(map[string]interface{}{"dump": ast.Dump(tree)})
			return string(b)
		})
		fmt.Fprintln(out, res)
	}
	return 0
}
