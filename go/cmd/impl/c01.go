package main

// C01: disassemble what compile.go emits for an expression (eval mode) or a statement (exec mode)
// into the instruction vocabulary of Model/ExprOrder.v.  One JSON object per line:
//   {"src": "...", "mode": "eval"|"exec"}  ->  [["leaf",i],["prim",tag,n],["jfop",skip],...] | {"error": class}
// Leaves are calls t(<int>): LOAD_NAME t; LOAD_CONST i; CALL_FUNCTION 1 collapses into one "leaf".
// Tags: unary/binary/in-place operators and BINARY_SUBSCR = the opcode number; COMPARE_OP = 300 + arg;
// LOAD_ATTR aK = 400 + K; CALL_FUNCTION = 500; BUILD_TUPLE 501, BUILD_LIST 502, BUILD_SLICE 503, BUILD_SET 504.

import (
	"bufio"
	"encoding/json"
	"fmt"
	"os"
	"strconv"
	"strings"

	"github.com/go-python/gpython/py"
	"github.com/go-python/gpython/vm"
)

func init() { commands["c01"] = c01Main }

type c01Raw struct {
	off  int
	next int
	op   vm.OpCode
	arg  int
}

func c01Decode(code string) []c01Raw {
	var out []c01Raw
	ext := 0
	for i := 0; i < len(code); {
		off := i
		op := vm.OpCode(code[i])
		i++
		arg := 0
		if op.HAS_ARG() {
			arg = int(code[i]) | int(code[i+1])<<8 | ext<<16
			i += 2
		}
		if op == vm.EXTENDED_ARG {
			ext = arg
			continue
		}
		ext = 0
		out = append(out, c01Raw{off, i, op, arg})
	}
	return out
}

func nameNum(s string, prefix string) (int, bool) {
	if strings.HasPrefix(s, prefix) {
		n, err := strconv.Atoi(s[len(prefix):])
		return n, err == nil
	}
	return 0, false
}

func c01Abstract(c *py.Code) ([][]interface{}, string) {
	raw := c01Decode(c.Code)
	type item struct {
		ins    []interface{}
		off    int
		target int // byte offset of the jump target, -1 if none
	}
	var items []item
	for k := 0; k < len(raw); k++ {
		r := raw[k]
		// leaf: LOAD_NAME t; LOAD_CONST int; CALL_FUNCTION 1
		if r.op == vm.LOAD_NAME && c.Names[r.arg] == "t" && k+2 < len(raw) && raw[k+1].op == vm.LOAD_CONST && raw[k+2].op == vm.CALL_FUNCTION && raw[k+2].arg == 1 {
			if v, ok := c.Consts[raw[k+1].arg].(py.Int); ok {
				items = append(items, item{[]interface{}{"leaf", int(v)}, r.off, -1})
				k += 2
				continue
			}
		}
		it := item{nil, r.off, -1}
		// a keyword name: LOAD_CONST 'k<digits>' (no event in the model)
		if r.op == vm.LOAD_CONST {
			if s, ok := c.Consts[r.arg].(py.String); ok && len(s) > 1 && s[0] == 'k' {
				if n, err := strconv.Atoi(string(s[1:])); err == nil {
					items = append(items, item{[]interface{}{"const", 9000 + n}, r.off, -1})
					continue
				}
			}
		}
		switch r.op {
		case vm.JUMP_IF_FALSE_OR_POP:
			it.ins, it.target = []interface{}{"jfop"}, r.arg
		case vm.JUMP_IF_TRUE_OR_POP:
			it.ins, it.target = []interface{}{"jtop"}, r.arg
		case vm.POP_JUMP_IF_FALSE:
			it.ins, it.target = []interface{}{"pjif"}, r.arg
		case vm.JUMP_FORWARD:
			it.ins, it.target = []interface{}{"jf"}, r.next+r.arg
		case vm.DUP_TOP:
			it.ins = []interface{}{"dup"}
		case vm.DUP_TOP_TWO:
			it.ins = []interface{}{"dup2"}
		case vm.ROT_TWO:
			it.ins = []interface{}{"rot2"}
		case vm.ROT_THREE:
			it.ins = []interface{}{"rot3"}
		case vm.POP_TOP:
			it.ins = []interface{}{"pop"}
		case vm.COMPARE_OP:
			it.ins = []interface{}{"prim", 300 + r.arg, 2}
		case vm.LOAD_ATTR:
			if n, ok := nameNum(c.Names[r.arg], "a"); ok {
				it.ins = []interface{}{"prim", 400 + n, 1}
			}
		case vm.STORE_ATTR:
			if n, ok := nameNum(c.Names[r.arg], "a"); ok {
				it.ins = []interface{}{"storeattr", 400 + n}
			}
		case vm.LOAD_NAME:
			if n, ok := nameNum(c.Names[r.arg], "x"); ok {
				it.ins = []interface{}{"loadname", n}
			}
		case vm.STORE_NAME:
			if n, ok := nameNum(c.Names[r.arg], "x"); ok {
				it.ins = []interface{}{"storename", n}
			}
		case vm.STORE_SUBSCR:
			it.ins = []interface{}{"storesub"}
		case vm.CALL_FUNCTION:
			if nkw := (r.arg >> 8) & 0xff; nkw != 0 {
				// callable, positional arguments, then (name, value) pairs
				it.ins = []interface{}{"prim", 600 + nkw, (r.arg & 0xff) + 2*nkw + 1}
			} else {
				it.ins = []interface{}{"prim", 500, r.arg + 1}
			}
		case vm.BUILD_TUPLE:
			it.ins = []interface{}{"prim", 501, r.arg}
		case vm.BUILD_LIST:
			it.ins = []interface{}{"prim", 502, r.arg}
		case vm.BUILD_SLICE:
			it.ins = []interface{}{"prim", 503, r.arg}
		case vm.BUILD_SET:
			it.ins = []interface{}{"prim", 504, r.arg}
		case vm.BINARY_SUBSCR:
			it.ins = []interface{}{"prim", int(r.op), 2}
		case vm.UNARY_POSITIVE, vm.UNARY_NEGATIVE, vm.UNARY_NOT, vm.UNARY_INVERT:
			it.ins = []interface{}{"prim", int(r.op), 1}
		default:
			name := r.op.String()
			if strings.HasPrefix(name, "BINARY_") || strings.HasPrefix(name, "INPLACE_") {
				it.ins = []interface{}{"prim", int(r.op), 2}
			}
		}
		if it.ins == nil {
			it.ins = []interface{}{"other", r.op.String(), r.arg}
		}
		items = append(items, it)
	}
	// jump targets -> number of model instructions skipped
	idxOf := map[int]int{}
	for i, it := range items {
		idxOf[it.off] = i
	}
	idxOf[len(c.Code)] = len(items)
	var out [][]interface{}
	for i, it := range items {
		if it.target >= 0 {
			ti, ok := idxOf[it.target]
			if !ok || ti <= i {
				return nil, fmt.Sprintf("jump at %d to %d does not land on an instruction boundary after it", it.off, it.target)
			}
			it.ins = append(it.ins, ti-i-1)
		}
		out = append(out, it.ins)
	}
	return out, ""
}

func c01Main(args []string) int {
	in := bufio.NewScanner(os.Stdin)
	in.Buffer(make([]byte, 1<<20), 1<<26)
	out := bufio.NewWriter(os.Stdout)
	defer out.Flush()
	for in.Scan() {
		var c struct {
			Src  string `json:"src"`
			Mode string `json:"mode"`
		}
		if json.Unmarshal([]byte(in.Text()), &c) != nil {
			fmt.Fprintln(out, `{"error":"BadCase"}`)
			continue
		}
		res := guard(func() string {
			code, err := py.Compile(c.Src, "<c01>", py.CompileMode(c.Mode), 0, true)
			if err != nil {
				return fmt.Sprintf(`{"error":%q}`, errClass(err))
			}
			ins, msg := c01Abstract(code)
			if msg != "" {
				return fmt.Sprintf(`{"error":%q}`, msg)
			}
			// strip the epilogue: RETURN_VALUE (eval) / LOAD_CONST None; RETURN_VALUE (exec)
			n := len(ins)
			if n > 0 && ins[n-1][0] == "other" && ins[n-1][1] == "RETURN_VALUE" {
				ins = ins[:n-1]
				n--
				if c.Mode == "exec" && n > 0 && ins[n-1][0] == "other" && ins[n-1][1] == "LOAD_CONST" {
					ins = ins[:n-1]
				}
			}
			b, _ := json.Marshal(ins)
			return string(b)
		})
		fmt.Fprintln(out, res)
	}
	return 0
}
