package main

// C03: exhaustive table of the real symtable.AnalyzeName over every flag byte, every
// membership of the name in the bound/local/free/global sets, bound == nil, and Nested.

import (
	"bufio"
	"fmt"
	"os"

	"github.com/go-python/gpython/symtable"
)

func init() { commands["c03"] = c03Main }

func c03Main(args []string) int {
	out := bufio.NewWriter(os.Stdout)
	defer out.Flush()
	for flags := 0; flags < 256; flags++ {
		for boundState := 0; boundState < 3; boundState++ { // 0 nil, 1 absent, 2 present
			for mask := 0; mask < 8; mask++ { // local, free, global membership
				for nested := 0; nested < 2; nested++ {
					line := guard(func() string {
						st := &symtable.SymTable{Nested: nested == 1, Symbols: symtable.Symbols{}}
						scopes := symtable.Scopes{}
						var bound symtable.StringSet
						if boundState > 0 {
							bound = symtable.StringSet{}
							if boundState == 2 {
								bound.Add("x")
							}
						}
						local, free, global := symtable.StringSet{}, symtable.StringSet{}, symtable.StringSet{}
						if mask&1 != 0 {
							local.Add("x")
						}
						if mask&2 != 0 {
							free.Add("x")
						}
						if mask&4 != 0 {
							global.Add("x")
						}
						st.AnalyzeName(scopes, "x", symtable.Symbol{Flags: symtable.DefUseFlags(flags)}, bound, local, free, global)
						b := 0
						if bound != nil && bound.Contains("x") {
							b = 1
						}
						bi := func(v bool) int {
							if v {
								return 1
							}
							return 0
						}
						return fmt.Sprintf("OK %d %d %d %d %d %d", int(scopes["x"]), b, bi(local.Contains("x")), bi(free.Contains("x")), bi(global.Contains("x")), bi(st.Free))
					})
					fmt.Fprintf(out, "%d %d %d %d %s\n", flags, boundState, mask, nested, line)
				}
			}
		}
	}
	return 0
}
