// impl runs the implementation (built from /repo's working tree with -tags verif) on
// generated cases and prints canonical observations, one JSON line per case.
package main

import (
	"fmt"
	"os"
)

var commands = map[string]func(args []string) int{}

func main() {
	if len(os.Args) < 2 {
		fmt.Fprintln(os.Stderr, "usage: impl <command> [args]")
		os.Exit(2)
	}
	f, ok := commands[os.Args[1]]
	if !ok {
		fmt.Fprintln(os.Stderr, "unknown command", os.Args[1])
		os.Exit(2)
	}
	os.Exit(f(os.Args[2:]))
}
