package main

// runpy: run small Python programs on the implementation, one JSON object per input line:
//   {"src": "...", "mode": "exec"}            -> {"out": stdout, "err": exception class or "", "panic": "...", "tb": [line numbers]}
// Each program runs in a fresh context with captured stdout; Go panics are recovered and
// reported; a program that does not finish within the watchdog is reported as "hang" and the
// worker exits (the orchestrator restarts it on the remaining cases).

import (
	"bufio"
	"encoding/json"
	"fmt"
	"os"
	"path/filepath"
	"strings"
	"time"

	"github.com/go-python/gpython/py"
)

func init() { commands["runpy"] = runpyMain }

type runpyIn struct {
	Src   string            `json:"src"`
	Mode  string            `json:"mode"`
	Files map[string]string `json:"files"` // module files written to a scratch dir that is put on sys.path
}
type runpyOut struct {
	Out   string `json:"out"`
	Err   string `json:"err"`
	Msg   string `json:"msg,omitempty"`
	Panic string `json:"panic,omitempty"`
	Tb    []int  `json:"tb,omitempty"`
	Hang  bool   `json:"hang,omitempty"`
}

func runOne(in runpyIn) (res runpyOut) {
	opts := py.DefaultContextOpts()
	if len(in.Files) > 0 {
		dir, err := os.MkdirTemp("", "verif-mods-")
		if err != nil {
			return runpyOut{Err: "SetupError"}
		}
		defer os.RemoveAll(dir)
		for name, text := range in.Files {
			os.WriteFile(filepath.Join(dir, name), []byte(text), 0o644)
		}
		opts.SysPaths = append([]string{dir}, opts.SysPaths...)
	}
	ctx := py.NewContext(opts)
	defer ctx.Close()
	return runIn(ctx, in)
}

func runOneIn(ctx py.Context, src string) runpyOut { return runIn(ctx, runpyIn{Src: src}) }

var runSeq int

func runIn(ctx py.Context, in runpyIn) (res runpyOut) {
	defer func() {
		if r := recover(); r != nil {
			res.Panic = strings.ReplaceAll(fmt.Sprint(r), "\n", " ")
		}
	}()
	var sb strings.Builder
	write := py.MustNewMethod("write", func(self py.Object, arg py.Object) (py.Object, error) {
		s, err := py.Str(arg)
		if err != nil {
			return nil, err
		}
		sb.WriteString(string(s.(py.String)))
		return py.None, nil
	}, 0, "")
	runSeq++
	outMod, err := ctx.ModuleInit(&py.ModuleImpl{Info: py.ModuleInfo{Name: fmt.Sprintf("verif_stdout%d", runSeq)}, Methods: []*py.Method{write}})
	if err != nil {
		res.Err = "SetupError"
		return
	}
	sys, _ := ctx.GetModule("sys")
	sys.Globals["stdout"] = outMod
	sys.Globals["stderr"] = outMod
	mode := py.ExecMode
	if in.Mode == "eval" {
		mode = py.EvalMode
	} else if in.Mode == "single" {
		mode = py.SingleMode
	}
	code, err := py.Compile(in.Src, "<case>", mode, 0, true)
	if err == nil {
		mainImpl := py.ModuleImpl{Info: py.ModuleInfo{Name: "__main__"}, Code: code}
		_, err = ctx.ModuleInit(&mainImpl)
	}
	res.Out = sb.String()
	if err != nil {
		res.Err = errClass(err)
		if ei, ok := err.(py.ExceptionInfo); ok {
			for tb := ei.Traceback; tb != nil; tb = tb.Next {
				res.Tb = append(res.Tb, int(tb.Lineno))
			}
			if e, ok := ei.Value.(*py.Exception); ok && len(e.Args.(py.Tuple)) > 0 {
				res.Msg = fmt.Sprint(e.Args.(py.Tuple)[0])
			}
		}
	}
	return
}

func runpyMain(args []string) int {
	in := bufio.NewScanner(os.Stdin)
	in.Buffer(make([]byte, 1<<20), 1<<28)
	out := bufio.NewWriter(os.Stdout)
	defer out.Flush()
	for in.Scan() {
		line := in.Text()
		if strings.TrimSpace(line) == "" {
			continue
		}
		var c runpyIn
		if err := json.Unmarshal([]byte(line), &c); err != nil {
			fmt.Fprintln(out, `{"err":"BadCase"}`)
			continue
		}
		done := make(chan runpyOut, 1)
		go func() { done <- runOne(c) }()
		select {
		case r := <-done:
			b, _ := json.Marshal(r)
			out.Write(b)
			out.WriteByte('\n')
		case <-time.After(10 * time.Second):
			b, _ := json.Marshal(runpyOut{Hang: true, Err: "Hang"})
			out.Write(b)
			out.WriteByte('\n')
			out.Flush()
			return 7
		}
	}
	return 0
}
