package main

// C11 assembler correspondence: build compile.Instructions from a description, call Assemble and
// print the bytes (or the panic).  One JSON array per line: [[kind, op, x], ...] with kind
// 0 Op, 1 OpArg(arg=x), 2 Label, 3 JumpAbs(dest index x), 4 JumpRel(dest index x).

import (
	"bufio"
	"encoding/json"
	"fmt"
	"os"
	"strings"

	"github.com/go-python/gpython/compile"
	"github.com/go-python/gpython/vm"
)

func init() { commands["c11asm"] = c11asmMain }

func c11asmMain(args []string) int {
	in := bufio.NewScanner(os.Stdin)
	in.Buffer(make([]byte, 1<<20), 1<<30)
	out := bufio.NewWriter(os.Stdout)
	defer out.Flush()
	for in.Scan() {
		var prog [][3]int64
		if err := json.Unmarshal([]byte(in.Text()), &prog); err != nil {
			fmt.Fprintln(out, "BadCase")
			continue
		}
		res := func() (r string) {
			defer func() {
				if e := recover(); e != nil {
					r = "PANIC:" + strings.ReplaceAll(fmt.Sprint(e), "\n", " ")
				}
			}()
			is := make(compile.Instructions, len(prog))
			labels := map[int]*compile.Label{}
			for i, p := range prog {
				if p[0] == 2 {
					labels[i] = &compile.Label{}
					is[i] = labels[i]
				}
			}
			for i, p := range prog {
				switch p[0] {
				case 0:
					is[i] = &compile.Op{Op: vm.OpCode(p[1])}
				case 1:
					is[i] = &compile.OpArg{Op: vm.OpCode(p[1]), Arg: uint32(p[2])}
				case 3:
					is[i] = &compile.JumpAbs{OpArg: compile.OpArg{Op: vm.OpCode(p[1])}, Dest: labels[int(p[2])]}
				case 4:
					is[i] = &compile.JumpRel{OpArg: compile.OpArg{Op: vm.OpCode(p[1])}, Dest: labels[int(p[2])]}
				}
			}
			code := is.Assemble()
			if len(code) > 400 {
				h := uint64(0)
				for i := 0; i < len(code); i++ {
					h = (h*257 + uint64(code[i]) + 1) % 1000000007
				}
				return fmt.Sprintf("LEN %d CHK %d", len(code), h)
			}
			var sb strings.Builder
			for i := 0; i < len(code); i++ {
				fmt.Fprintf(&sb, "%d ", code[i])
			}
			return "BYTES " + strings.TrimSpace(sb.String())
		}()
		fmt.Fprintln(out, res)
	}
	return 0
}
