package main

// C14: repr of a str and the way back through the lexer and the escape decoder.
// One line of space-separated code points (scalar values; "-" = the empty string), optionally followed by
// "| <code points that follow the literal on the line>":
//   -> R <repr text as code points> ; P <0/1 per input code point: strconv.IsPrint> ; V <code points of the
//      value of the first token of repr+rest, parsed as an expression> | E:<class>
// The parse goes through parser.ParseString in eval mode: readString finds the end of the literal and
// DecodeEscape produces the value; when rest is given the text is "<repr><rest>" and must still parse.

import (
	"bufio"
	"fmt"
	"os"
	"strconv"
	"strings"

	"github.com/go-python/gpython/ast"
	"github.com/go-python/gpython/parser"
	"github.com/go-python/gpython/py"
)

func init() { commands["c14repr"] = c14reprMain }

func cpsOf(s string) string {
	parts := []string{}
	for _, r := range s {
		parts = append(parts, strconv.Itoa(int(r)))
	}
	return strings.Join(parts, " ")
}

func c14reprMain(args []string) int {
	in := bufio.NewScanner(os.Stdin)
	in.Buffer(make([]byte, 1<<20), 1<<26)
	out := bufio.NewWriter(os.Stdout)
	defer out.Flush()
	for in.Scan() {
		line := in.Text()
		fmt.Fprintln(out, guard(func() string {
			rest := ""
			if i := strings.Index(line, "|"); i >= 0 {
				for _, f := range strings.Fields(line[i+1:]) {
					n, _ := strconv.Atoi(f)
					rest += string(rune(n))
				}
				line = line[:i]
			}
			var sb strings.Builder
			prints := []string{}
			for _, f := range strings.Fields(line) {
				if f == "-" {
					continue
				}
				n, _ := strconv.Atoi(f)
				sb.WriteRune(rune(n))
				if strconv.IsPrint(rune(n)) {
					prints = append(prints, "1")
				} else {
					prints = append(prints, "0")
				}
			}
			r, err := py.Repr(py.String(sb.String()))
			if err != nil {
				return "E:" + errClass(err)
			}
			text := string(r.(py.String))
			res := "R " + cpsOf(text) + " ; P " + strings.Join(prints, " ") + " ; "
			tree, err := parser.ParseString(text+rest, py.EvalMode)
			if err != nil {
				return res + "E:" + errClass(err)
			}
			var first ast.Expr
			if e, ok := tree.(*ast.Expression); ok {
				first = e.Body
			}
			// the literal is the leftmost leaf of the expression
			for {
				switch x := first.(type) {
				case *ast.BinOp:
					first = x.Left
					continue
				case *ast.Compare:
					first = x.Left
					continue
				case *ast.Tuple:
					if len(x.Elts) > 0 {
						first = x.Elts[0]
						continue
					}
				case *ast.Subscript:
					first = x.Value
					continue
				case *ast.Attribute:
					first = x.Value
					continue
				}
				break
			}
			if s, ok := first.(*ast.Str); ok {
				return res + "V " + cpsOf(string(s.S))
			}
			return res + fmt.Sprintf("E:NotAStr(%T)", first)
		}))
	}
	return 0
}
