package main

// C13: Slice.GetIndices / IndexIntCheck through the Go API.
//   gi <len> <start> <stop> <step>      (N = None, otherwise a decimal integer of any size)
//   ix <len> <index>

import (
	"bufio"
	"fmt"
	"math/big"
	"os"
	"strconv"
	"strings"

	"github.com/go-python/gpython/py"
)

func init() { commands["c13"] = c13Main }

func mkIdx(s string) py.Object {
	if s == "N" {
		return py.None
	}
	z, _ := new(big.Int).SetString(s, 10)
	if z.IsInt64() {
		return py.Int(z.Int64())
	}
	return (*py.BigInt)(z)
}

func c13Main(args []string) int {
	in := bufio.NewScanner(os.Stdin)
	in.Buffer(make([]byte, 1<<20), 1<<26)
	out := bufio.NewWriter(os.Stdout)
	defer out.Flush()
	for in.Scan() {
		f := strings.Fields(in.Text())
		if len(f) == 0 {
			continue
		}
		fmt.Fprintln(out, guard(func() string {
			n, _ := strconv.Atoi(f[1])
			switch f[0] {
			case "gi":
				sl := py.NewSlice(mkIdx(f[2]), mkIdx(f[3]), mkIdx(f[4]))
				a, b, s, k, err := sl.GetIndices(n)
				if err != nil {
					return "E:" + errClass(err)
				}
				return fmt.Sprintf("%d %d %d %d", a, b, s, k)
			case "ix":
				i, err := py.IndexIntCheck(mkIdx(f[2]), n)
				if err != nil {
					return "E:" + errClass(err)
				}
				return fmt.Sprintf("%d", i)
			}
			return "BADCASE"
		}))
	}
	return 0
}
