package main

// C13: Slice.GetIndices / IndexIntCheck through the Go API.
//   gi <len> <start> <stop> <step>      (N = None, otherwise a decimal integer of any size)
//   ix <len> <index>
// and the element operations of list / tuple on [10, 11, ..., 10+len-1]:
//   lg|tg <len> <start> <stop> <step>            x[start:stop:step]
//   ls <len> <start> <stop> <step> <rhslen>      x[start:stop:step] = [90, 91, ...]
//   ld <len> <start> <stop> <step>               del x[start:stop:step]
//   li|lS|lD <len> <index>                       x[i] / x[i] = 77 / del x[i]

import (
	"bufio"
	"fmt"
	"math/big"
	"os"
	"strconv"
	"strings"

	"github.com/go-python/gpython/py"
)

func init() { commands["c13"] = c13Main }

func mkIdx(s string) py.Object {
	if s == "N" {
		return py.None
	}
	z, _ := new(big.Int).SetString(s, 10)
	if z.IsInt64() {
		return py.Int(z.Int64())
	}
	return (*py.BigInt)(z)
}

func c13Main(args []string) int {
	in := bufio.NewScanner(os.Stdin)
	in.Buffer(make([]byte, 1<<20), 1<<26)
	out := bufio.NewWriter(os.Stdout)
	defer out.Flush()
	for in.Scan() {
		f := strings.Fields(in.Text())
		if len(f) == 0 {
			continue
		}
		fmt.Fprintln(out, guard(func() string {
			n, _ := strconv.Atoi(f[1])
			switch f[0] {
			case "gi":
				sl := py.NewSlice(mkIdx(f[2]), mkIdx(f[3]), mkIdx(f[4]))
				a, b, s, k, err := sl.GetIndices(n)
				if err != nil {
					return "E:" + errClass(err)
				}
				return fmt.Sprintf("%d %d %d %d", a, b, s, k)
			case "ix":
				i, err := py.IndexIntCheck(mkIdx(f[2]), n)
				if err != nil {
					return "E:" + errClass(err)
				}
				return fmt.Sprintf("%d", i)
			}
			mk := func(base, k int) []py.Object {
				items := make([]py.Object, k)
				for i := range items {
					items[i] = py.Int(base + i)
				}
				return items
			}
			show := func(o py.Object) string {
				var items []py.Object
				switch x := o.(type) {
				case *py.List:
					items = x.Items
				case py.Tuple:
					items = x
				default:
					return fmt.Sprintf("?%T", o)
				}
				parts := make([]string, len(items))
				for i, it := range items {
					parts[i] = fmt.Sprint(it)
				}
				return "[" + strings.Join(parts, " ") + "]"
			}
			// spare capacity behind the list, as after appends
			backing := append(mk(10, n), py.Int(-1), py.Int(-2))
			l := py.NewListFromItems(backing[:n])
			switch f[0] {
			case "lg", "tg":
				sl := py.NewSlice(mkIdx(f[2]), mkIdx(f[3]), mkIdx(f[4]))
				var r py.Object
				var err error
				if f[0] == "lg" {
					r, err = l.M__getitem__(sl)
				} else {
					r, err = py.Tuple(mk(10, n)).M__getitem__(sl)
				}
				if err != nil {
					return "E:" + errClass(err)
				}
				return show(r)
			case "ls":
				k, _ := strconv.Atoi(f[5])
				_, err := l.M__setitem__(py.NewSlice(mkIdx(f[2]), mkIdx(f[3]), mkIdx(f[4])), py.NewListFromItems(mk(90, k)))
				if err != nil {
					return "E:" + errClass(err)
				}
				return show(l)
			case "ld":
				_, err := l.M__delitem__(py.NewSlice(mkIdx(f[2]), mkIdx(f[3]), mkIdx(f[4])))
				if err != nil {
					return "E:" + errClass(err)
				}
				return show(l)
			case "li":
				r, err := l.M__getitem__(mkIdx(f[2]))
				if err != nil {
					return "E:" + errClass(err)
				}
				return "[" + fmt.Sprint(r) + "]"
			case "lS":
				_, err := l.M__setitem__(mkIdx(f[2]), py.Int(77))
				if err != nil {
					return "E:" + errClass(err)
				}
				return show(l)
			case "lD":
				_, err := l.M__delitem__(mkIdx(f[2]))
				if err != nil {
					return "E:" + errClass(err)
				}
				return show(l)
			}
			return "BADCASE"
		}))
	}
	return 0
}
