package main

// C04 (embedding boundary): Go callables of the four supported signatures, reached as module
// functions from two contexts, must receive exactly the receiver, positional and keyword
// arguments of the Python call; arity / keyword misuse must be a TypeError.

import (
	"fmt"
	"sort"
	"strings"

	"github.com/go-python/gpython/py"
)

func init() { commands["c04"] = c04Main }

type c04Rec struct {
	fn   string
	self py.Object
	args string
}

func c04Main(args []string) int {
	var log []c04Rec
	show := func(o py.Object) string {
		s, err := py.ReprAsString(o)
		if err != nil {
			return "<repr error>"
		}
		return s
	}
	showKw := func(k py.StringDict) string {
		var keys []string
		for n := range k {
			keys = append(keys, n)
		}
		sort.Strings(keys)
		var parts []string
		for _, n := range keys {
			parts = append(parts, n+"="+show(k[n]))
		}
		return "{" + strings.Join(parts, ",") + "}"
	}
	impl := &py.ModuleImpl{Info: py.ModuleInfo{Name: "c04mod"},
		Methods: []*py.Method{
			py.MustNewMethod("noargs", func(self py.Object) (py.Object, error) {
				log = append(log, c04Rec{"noargs", self, "()"})
				return py.None, nil
			}, 0, ""),
			py.MustNewMethod("onearg", func(self py.Object, a py.Object) (py.Object, error) {
				log = append(log, c04Rec{"onearg", self, "(" + show(a) + ")"})
				return py.None, nil
			}, 0, ""),
			py.MustNewMethod("varargs", func(self py.Object, a py.Tuple) (py.Object, error) {
				log = append(log, c04Rec{"varargs", self, show(a)})
				return py.None, nil
			}, 0, ""),
			py.MustNewMethod("kwargs", func(self py.Object, a py.Tuple, k py.StringDict) (py.Object, error) {
				log = append(log, c04Rec{"kwargs", self, show(a) + showKw(k)})
				return py.None, nil
			}, 0, ""),
		}}
	py.RegisterModule(impl)
	prog := `import c04mod
def t(f):
    try:
        f()
        print('ok')
    except TypeError:
        print('TypeError')
t(lambda: c04mod.noargs())
t(lambda: c04mod.noargs(1))
t(lambda: c04mod.noargs(x=1))
t(lambda: c04mod.onearg(7))
t(lambda: c04mod.onearg())
t(lambda: c04mod.onearg(7, 8))
t(lambda: c04mod.onearg(x=7))
t(lambda: c04mod.onearg(*(7,)))
t(lambda: c04mod.varargs())
t(lambda: c04mod.varargs(1, 2, 3))
t(lambda: c04mod.varargs(1, *(2, 3)))
t(lambda: c04mod.varargs(1, x=2))
t(lambda: c04mod.kwargs())
t(lambda: c04mod.kwargs(1, 2, x=3, y=4))
t(lambda: c04mod.kwargs(*(1,), **{'z': 5}))
t(lambda: c04mod.kwargs(1, x=2, **{'y': 3}))
`
	want := []string{"noargs ()", "onearg (7)", "onearg (7)", "varargs ()", "varargs (1, 2, 3)", "varargs (1, 2, 3)",
		"kwargs (){}", "kwargs (1, 2){x=3,y=4}", "kwargs (1,){z=5}", "kwargs (1,){x=2,y=3}"}
	wantOut := "ok\nTypeError\nTypeError\nok\nTypeError\nTypeError\nTypeError\nok\nok\nok\nok\nTypeError\nok\nok\nok\nok\n"
	fails := 0
	report := func(ok bool, f string, a ...interface{}) {
		if !ok {
			fails++
			fmt.Printf("FAIL "+f+"\n", a...)
		}
	}
	runIn := func(ctx py.Context, tag string) {
		log = nil
		r := runOneIn(ctx, prog)
		report(r.Err == "" && r.Panic == "", "%s: program error %s %s %s", tag, r.Err, r.Msg, r.Panic)
		report(r.Out == wantOut, "%s: outcomes\n%s\nwant\n%s", tag, r.Out, wantOut)
		mod, _ := ctx.GetModule("c04mod")
		report(len(log) == len(want), "%s: %d calls recorded, want %d", tag, len(log), len(want))
		for i := range log {
			if i < len(want) {
				report(log[i].fn+" "+log[i].args == want[i], "%s: call %d received %s %s, want %s", tag, i, log[i].fn, log[i].args, want[i])
			}
			report(log[i].self == py.Object(mod), "%s: call %d (%s) received a receiver that is not this context's module instance", tag, i, log[i].fn)
		}
	}
	ctx1 := py.NewContext(py.DefaultContextOpts())
	runIn(ctx1, "ctx1")
	ctx2 := py.NewContext(py.DefaultContextOpts())
	runIn(ctx2, "ctx2")
	runIn(ctx1, "ctx1 again, after ctx2 imported the module")
	if fails == 0 {
		fmt.Println("PASS c04 go callables")
		return 0
	}
	return 1
}
