package main

// C07: integer operators through the Go API.  One case per line:
//   <op> <rep> <val> [<rep> <val> [<rep> <val>]]
// output: one observation per line (same order).

import (
	"bufio"
	"fmt"
	"math"
	"os"
	"strings"

	"github.com/go-python/gpython/py"
)

func init() { commands["c07"] = c07Main }

func floatBits(f float64) uint64 { return math.Float64bits(f) }

var c07Bin = map[string]func(a, b py.Object) (py.Object, error){
	"add": py.Add, "sub": py.Sub, "mul": py.Mul, "floordiv": py.FloorDiv, "mod": py.Mod,
	"lshift": py.Lshift, "rshift": py.Rshift, "and": py.And, "or": py.Or, "xor": py.Xor,
	"lt": py.Lt, "le": py.Le, "eq": py.Eq, "ne": py.Ne, "gt": py.Gt, "ge": py.Ge,
	"iadd": py.IAdd, "isub": py.ISub, "imul": py.IMul, "ifloordiv": py.IFloorDiv, "imod": py.IMod,
	"ilshift": py.ILshift, "irshift": py.IRshift, "iand": py.IAnd, "ior": py.IOr, "ixor": py.IXor,
	"pow": func(a, b py.Object) (py.Object, error) { return py.Pow(a, b, py.None) },
	"divmod": func(a, b py.Object) (py.Object, error) {
		q, r, err := py.DivMod(a, b)
		if err != nil {
			return nil, err
		}
		return py.Tuple{q, r}, nil
	},
}
var c07Un = map[string]func(a py.Object) (py.Object, error){
	"neg": py.Neg, "abs": py.Abs, "invert": py.Invert, "truth": py.MakeBool, "not": py.Not,
	"str": py.Str, "repr": py.Repr,
}

func c07Eval(fields []string) string {
	return guard(func() string {
		op := fields[0]
		var args []py.Object
		for i := 1; i+1 < len(fields); i += 2 {
			o, err := mkInt(fields[i], fields[i+1])
			if err != nil {
				return "BADCASE:" + err.Error()
			}
			args = append(args, o)
		}
		var res py.Object
		var err error
		switch {
		case op == "pow3" && len(args) == 3:
			res, err = py.Pow(args[0], args[1], args[2])
		case c07Bin[op] != nil && len(args) == 2:
			res, err = c07Bin[op](args[0], args[1])
		case c07Un[op] != nil && len(args) == 1:
			res, err = c07Un[op](args[0])
		default:
			return "BADCASE:op"
		}
		if err != nil {
			return "E:" + errClass(err)
		}
		if s, ok := res.(py.String); ok {
			return "S:" + string(s)
		}
		return showNum(res)
	})
}

func c07Main(args []string) int {
	in := bufio.NewScanner(os.Stdin)
	in.Buffer(make([]byte, 1<<20), 1<<26)
	out := bufio.NewWriter(os.Stdout)
	defer out.Flush()
	for in.Scan() {
		f := strings.Fields(in.Text())
		if len(f) == 0 {
			continue
		}
		fmt.Fprintln(out, c07Eval(f))
	}
	return 0
}
