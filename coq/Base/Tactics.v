From Coq Require Import ZArith Bool Lia ZifyBool.
Open Scope Z_scope.
Ltac Zify.zify_post_hook ::= Z.to_euclidean_division_equations.

(* split on the boolean tests that occur in the goal, one at a time, turning each into a
   Z fact; never unfolds anything itself *)
Ltac split_if :=
  match goal with
  | |- context [if ?c then _ else _] =>
      lazymatch c with
      | context [if _ then _ else _] => fail
      | _ => let E := fresh "E" in destruct c eqn:E
      end
  end.
