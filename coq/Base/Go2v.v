(* Semantics of the Go machine that go2v writes into its output. *)
From Coq Require Import ZArith Bool String Lia.
Open Scope Z_scope.

Inductive value :=
| VInt (z : Z)        (* py.Int: a machine word *)
| VBig (z : Z)        (* *py.BigInt *)
| VBool (b : bool)
| VNil
| VErr (e : string)   (* a Python exception returned as error: "Class:message" *)
| VNotImpl.

Definition IntMax : Z := 9223372036854775807.
Definition IntMin : Z := -9223372036854775808.
Definition word (z : Z) : Prop := IntMin <= z <= IntMax.
Definition wordb (z : Z) : bool := (IntMin <=? z) && (z <=? IntMax).

Definition wrap64 (z : Z) : Z := (z + 9223372036854775808) mod 18446744073709551616 - 9223372036854775808.
Definition u64 (z : Z) : Z := z mod 18446744073709551616.

(* BigInt.MaybeInt: demote when the value fits a word *)
Definition maybe_int (z : Z) : value := if wordb z then VInt z else VBig z.

(* Go: x << s and x >> s for int64 x and unsigned count s (counts >= 64 are defined) *)
Definition shl64 (a s : Z) : Z := if 64 <=? s then 0 else wrap64 (a * 2 ^ s).
Definition shr64 (a s : Z) : Z := if 64 <=? s then (if a <? 0 then -1 else 0) else a / 2 ^ s.

(* Go: integer division truncates; division by zero is a run-time panic (None) *)
Definition quot64 (a b : Z) : option Z := if b =? 0 then None else Some (wrap64 (Z.quot a b)).
Definition rem64 (a b : Z) : option Z := if b =? 0 then None else Some (wrap64 (Z.rem a b)).

Lemma wordb_spec z : wordb z = true <-> word z.
Proof. unfold wordb, word, IntMin, IntMax. rewrite andb_true_iff, !Z.leb_le. tauto. Qed.

Lemma wrap64_id z : word z -> wrap64 z = z.
Proof. unfold word, wrap64, IntMin, IntMax. intros H.
  rewrite Z.mod_small by lia. lia. Qed.

Lemma wrap64_word z : word (wrap64 z).
Proof. unfold word, wrap64, IntMin, IntMax.
  pose proof (Z.mod_pos_bound (z + 9223372036854775808) 18446744073709551616 eq_refl). lia. Qed.

Lemma wrap64_eq_iff z : wrap64 z = z <-> word z.
Proof. split; [intros <-; apply wrap64_word | apply wrap64_id]. Qed.

(* sliceIndex: an integer object of any magnitude, clipped to the int range *)
Definition clip64 (z : Z) : Z := Z.max IntMin (Z.min IntMax z).
(* IndexInt on an integer object whose value fits an int *)
Definition index_int (z : Z) : Z := z.
