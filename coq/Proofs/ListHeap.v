From Coq Require Import List Arith Lia.
Import ListNotations.
From GP Require Import Model.ListHeap.

Lemma nth_upd_same l i h h0 : nth_error l i = Some h0 -> nth_error (upd_list l i h) i = Some h.
Proof. revert i. induction l as [|x r IH]; intros [|i] H; simpl in *; try discriminate; auto. Qed.
Lemma nth_upd_other l i j h : i <> j -> nth_error (upd_list l i h) j = nth_error l j.
Proof. revert i j. induction l as [|x r IH]; intros [|i] [|j] H; simpl; auto; try lia. Qed.

(* every operation on list i keeps the separation invariant and leaves the contents of every
   OTHER list object unchanged: mutations are visible only through the object mutated *)
Theorem append_sep w i v : separated w -> separated (append1 w i v) /\
  forall j, j <> i -> contents (append1 w i v) j = contents w j.
Proof.
  intros [S1 S2]. unfold append1. destruct (nth_error (lists w) i) as [h|] eqn:Hi; [|split; [split; auto|auto]].
  destruct (Nat.ltb (len h) (cap h)) eqn:E.
  - split; [split|]; simpl.
    + intros a b ha hb Ha Hb Hab.
      destruct (Nat.eq_dec a i) as [->|Na]; destruct (Nat.eq_dec b i) as [->|Nb]; try lia.
      * rewrite (nth_upd_same _ _ _ _ Hi) in Ha. rewrite nth_upd_other in Hb by auto. inversion Ha; subst; simpl. eapply S1; eauto.
      * rewrite (nth_upd_same _ _ _ _ Hi) in Hb. rewrite nth_upd_other in Ha by auto. inversion Hb; subst; simpl. eapply S1; eauto.
      * rewrite nth_upd_other in Ha, Hb by auto. eapply S1; eauto.
    + intros a ha Ha. destruct (Nat.eq_dec a i) as [->|Na].
      * rewrite (nth_upd_same _ _ _ _ Hi) in Ha. inversion Ha; subst; simpl. eapply S2; eauto.
      * rewrite nth_upd_other in Ha by auto. eapply S2; eauto.
    + intros j Hj. unfold contents. simpl. rewrite nth_upd_other by auto.
      destruct (nth_error (lists w) j) as [hj|] eqn:Hjj; auto. unfold upd_mem.
      assert (arr hj <> arr h) by (eapply S1; eauto). destruct (Nat.eqb (arr hj) (arr h)) eqn:Q; auto.
      apply Nat.eqb_eq in Q. congruence.
  - split; [split|]; simpl.
    + intros a b ha hb Ha Hb Hab.
      destruct (Nat.eq_dec a i) as [->|Na]; destruct (Nat.eq_dec b i) as [->|Nb]; try lia.
      * rewrite (nth_upd_same _ _ _ _ Hi) in Ha. rewrite nth_upd_other in Hb by auto. inversion Ha; subst; simpl.
        specialize (S2 _ _ Hb). lia.
      * rewrite (nth_upd_same _ _ _ _ Hi) in Hb. rewrite nth_upd_other in Ha by auto. inversion Hb; subst; simpl.
        specialize (S2 _ _ Ha). lia.
      * rewrite nth_upd_other in Ha, Hb by auto. eapply S1; eauto.
    + intros a ha Ha. destruct (Nat.eq_dec a i) as [->|Na].
      * rewrite (nth_upd_same _ _ _ _ Hi) in Ha. inversion Ha; subst; simpl. lia.
      * rewrite nth_upd_other in Ha by auto. specialize (S2 _ _ Ha). lia.
    + intros j Hj. unfold contents. simpl. rewrite nth_upd_other by auto.
      destruct (nth_error (lists w) j) as [hj|] eqn:Hjj; auto. unfold upd_mem.
      specialize (S2 _ _ Hjj). destruct (Nat.eqb (arr hj) (next w)) eqn:Q; auto. apply Nat.eqb_eq in Q. lia.
Qed.

Theorem setitem_sep w i k v : separated w -> separated (setitem w i k v) /\
  forall j, j <> i -> contents (setitem w i k v) j = contents w j.
Proof.
  intros [S1 S2]. unfold setitem. destruct (nth_error (lists w) i) as [h|] eqn:Hi; [|split; [split; auto|auto]].
  destruct (Nat.ltb k (len h)); [|split; [split; auto|auto]].
  split; [split; simpl; auto|].
  intros j Hj. unfold contents. simpl. destruct (nth_error (lists w) j) as [hj|] eqn:Hjj; auto. unfold upd_mem.
  assert (arr hj <> arr h) by (eapply S1; eauto). destruct (Nat.eqb (arr hj) (arr h)) eqn:Q; auto.
  apply Nat.eqb_eq in Q. congruence.
Qed.

Theorem delitem_sep w i k : separated w -> separated (delitem w i k) /\
  forall j, j <> i -> contents (delitem w i k) j = contents w j.
Proof.
  intros [S1 S2]. unfold delitem. destruct (nth_error (lists w) i) as [h|] eqn:Hi; [|split; [split; auto|auto]].
  destruct (Nat.ltb k (len h)); [|split; [split; auto|auto]].
  split; [split|]; simpl.
  - intros a b ha hb Ha Hb Hab.
    destruct (Nat.eq_dec a i) as [->|Na]; destruct (Nat.eq_dec b i) as [->|Nb]; try lia.
    + rewrite (nth_upd_same _ _ _ _ Hi) in Ha. rewrite nth_upd_other in Hb by auto. inversion Ha; subst; simpl. eapply S1; eauto.
    + rewrite (nth_upd_same _ _ _ _ Hi) in Hb. rewrite nth_upd_other in Ha by auto. inversion Hb; subst; simpl. eapply S1; eauto.
    + rewrite nth_upd_other in Ha, Hb by auto. eapply S1; eauto.
  - intros a ha Ha. destruct (Nat.eq_dec a i) as [->|Na].
    + rewrite (nth_upd_same _ _ _ _ Hi) in Ha. inversion Ha; subst; simpl. eapply S2; eauto.
    + rewrite nth_upd_other in Ha by auto. eapply S2; eauto.
  - intros j Hj. unfold contents. simpl. rewrite nth_upd_other by auto.
    destruct (nth_error (lists w) j) as [hj|] eqn:Hjj; auto. unfold upd_mem.
    assert (arr hj <> arr h) by (eapply S1; eauto). destruct (Nat.eqb (arr hj) (arr h)) eqn:Q; auto.
    apply Nat.eqb_eq in Q. congruence.
Qed.

(* a copy is a new object with the same contents whose storage is fresh: it is separated from
   everything, so later mutations of either side are invisible to the other *)
Theorem copy_sep w i : separated w -> i < length (lists w) ->
  separated (copy_of w i) /\
  contents (copy_of w i) (length (lists w)) = contents w i /\
  forall j, j < length (lists w) -> contents (copy_of w i) j = contents w j.
Proof.
  intros [S1 S2] Hi. unfold copy_of. split; [split|split]; simpl.
  - intros a b ha hb Ha Hb Hab.
    destruct (Nat.lt_ge_cases a (length (lists w))) as [La|La]; destruct (Nat.lt_ge_cases b (length (lists w))) as [Lb|Lb].
    + rewrite nth_error_app1 in Ha, Hb by auto. eapply S1; eauto.
    + rewrite nth_error_app1 in Ha by auto. rewrite nth_error_app2 in Hb by auto.
      destruct (b - length (lists w)) as [|n]; simpl in Hb; [|destruct n; discriminate]. inversion Hb; subst; simpl.
      specialize (S2 _ _ Ha). lia.
    + rewrite nth_error_app1 in Hb by auto. rewrite nth_error_app2 in Ha by auto.
      destruct (a - length (lists w)) as [|n]; simpl in Ha; [|destruct n; discriminate]. inversion Ha; subst; simpl.
      specialize (S2 _ _ Hb). lia.
    + rewrite nth_error_app2 in Ha, Hb by auto.
      destruct (a - length (lists w)) as [|n] eqn:Ea; simpl in Ha; [|destruct n; discriminate].
      destruct (b - length (lists w)) as [|m] eqn:Eb; simpl in Hb; [|destruct m; discriminate]. lia.
  - intros a ha Ha. destruct (Nat.lt_ge_cases a (length (lists w))) as [La|La].
    + rewrite nth_error_app1 in Ha by auto. specialize (S2 _ _ Ha). lia.
    + rewrite nth_error_app2 in Ha by auto. destruct (a - length (lists w)) as [|n]; simpl in Ha; [|destruct n; discriminate].
      inversion Ha; subst; simpl. lia.
  - unfold contents at 1. simpl. rewrite nth_error_app2 by lia. rewrite Nat.sub_diag. simpl. unfold upd_mem.
    rewrite Nat.eqb_refl. apply firstn_all.
  - intros j Hj. unfold contents. simpl. rewrite nth_error_app1 by auto.
    destruct (nth_error (lists w) j) as [hj|] eqn:Hjj; auto. unfold upd_mem.
    specialize (S2 _ _ Hjj). destruct (Nat.eqb (arr hj) (next w)) eqn:Q; auto. apply Nat.eqb_eq in Q. lia.
Qed.
