(* No loop over a Go map in the compile pipeline has a result that depends on the iteration order. *)
From Coq Require Import List Bool Arith NArith Permutation Lia.
Import ListNotations.
From GP Require Import Model.Symtable Model.MapOrder.

Section Fold.
  Variables (S K : Type) (eqv : S -> S -> Prop) (step : S -> K -> S) (ok : K -> K -> Prop).
  Hypothesis eqv_refl : forall a, eqv a a.
  Hypothesis eqv_trans : forall a b c, eqv a b -> eqv b c -> eqv a c.
  Hypothesis step_eqv : forall a b k, eqv a b -> eqv (step a k) (step b k).
  Hypothesis step_comm : forall a k1 k2, ok k1 k2 -> eqv (step (step a k1) k2) (step (step a k2) k1).

  Lemma fold_eqv l : forall a b, eqv a b -> eqv (fold_left step l a) (fold_left step l b).
  Proof. induction l as [|k r IH]; intros a b H; simpl; auto. Qed.

  (* all pairs of distinct positions of l are related by ok *)
  Fixpoint pairwise (l : list K) : Prop :=
    match l with [] => True | x :: r => (forall y, In y r -> ok x y /\ ok y x) /\ pairwise r end.

  Lemma pairwise_perm l l' : Permutation l l' -> pairwise l -> pairwise l'.
  Proof.
    intros P. induction P as [| x l l' P IH | x y l | l l' l'' P1 IH1 P2 IH2]; simpl; auto.
    - intros [H1 H2]. split; auto. intros y Hy. apply H1. eapply Permutation_in; [apply Permutation_sym; exact P|auto].
    - intros [H1 [H2 H3]]. split.
      { intros z [<-|Hz]; [destruct (H1 x (or_introl eq_refl)); split; tauto|apply H2; auto]. }
      split; [|exact H3]. intros z Hz. apply H1. right. auto.
  Qed.

  Theorem fold_perm l l' : Permutation l l' -> pairwise l ->
    forall a, eqv (fold_left step l a) (fold_left step l' a).
  Proof.
    intros P. induction P as [| x l l' P IH | x y l | l l' l'' P1 IH1 P2 IH2]; intros PW a.
    - apply eqv_refl.
    - simpl. apply IH. destruct PW; auto.
    - simpl. apply fold_eqv. apply step_comm. destruct PW as [H _]. apply H. left. auto.
    - eapply eqv_trans; [apply IH1; auto|]. apply IH2. eapply pairwise_perm; eauto.
  Qed.
End Fold.

Definition feq {V} (f g : nat -> V) : Prop := forall x, f x = g x.
Lemma feq_refl {V} (f : nat -> V) : feq f f. Proof. intros x; auto. Qed.
Lemma feq_trans {V} (f g h : nat -> V) : feq f g -> feq g h -> feq f h. Proof. intros A B x. rewrite A. apply B. Qed.

Lemma pairwise_true {K} (l : list K) : pairwise K (fun _ _ => True) l.
Proof. induction l; simpl; auto. Qed.

Lemma pairwise_neq (l : list nat) : NoDup l -> pairwise nat (fun a b => a <> b) l.
Proof. induction 1 as [|x l H ND IH]; simpl; auto. split; auto. intros y Hy. split; intros E; subst; auto. Qed.

(* ---- StringSet.Update *)
Theorem set_update_order_independent s l l' : Permutation l l' -> feq (set_update s l) (set_update s l').
Proof.
  intros P. unfold set_update.
  apply (fold_perm _ _ feq set_step (fun _ _ => True)); try apply feq_refl; try apply feq_trans; try apply pairwise_true; auto.
  - intros a b k H x. unfold set_step, upd. destruct (Nat.eqb x k); auto.
  - intros a k1 k2 _ x. unfold set_step, upd. destruct (Nat.eqb x k2), (Nat.eqb x k1); auto.
Qed.

(* ---- AnalyzeCells *)
Definition ceq (a b : (nat -> nat) * (nat -> bool)) : Prop := feq (fst a) (fst b) /\ feq (snd a) (snd b).

Lemma cells_step_eqv a b k : ceq a b -> ceq (cells_step a k) (cells_step b k).
Proof.
  destruct a as [sa fa], b as [sb fb]. intros [A B]. simpl in A, B. unfold cells_step.
  rewrite (A k), (B k). destruct (Nat.eqb (sb k) ScopeLocal && fb k); split; simpl; auto;
  intros x; unfold upd; destruct (Nat.eqb x k); auto.
Qed.

Lemma cells_step_comm a k1 k2 : ceq (cells_step (cells_step a k1) k2) (cells_step (cells_step a k2) k1).
Proof.
  destruct a as [sc fr].
  destruct (Nat.eq_dec k1 k2) as [->|Hne]; [split; apply feq_refl|].
  assert (N1 : Nat.eqb k2 k1 = false) by (apply Nat.eqb_neq; auto).
  assert (N2 : Nat.eqb k1 k2 = false) by (apply Nat.eqb_neq; auto).
  unfold cells_step at 2 4.
  destruct (Nat.eqb (sc k1) ScopeLocal && fr k1) eqn:E1; destruct (Nat.eqb (sc k2) ScopeLocal && fr k2) eqn:E2;
  unfold cells_step, upd; rewrite ?N1, ?N2, ?E1, ?E2; split; simpl; try apply feq_refl;
  intros x; destruct (Nat.eqb x k2) eqn:X2, (Nat.eqb x k1) eqn:X1; auto;
  apply Nat.eqb_eq in X1, X2; congruence.
Qed.

Theorem analyze_cells_order_independent st l l' : Permutation l l' -> ceq (analyze_cells st l) (analyze_cells st l').
Proof.
  intros P. unfold analyze_cells.
  apply (fold_perm _ _ ceq cells_step (fun _ _ => True)); auto using pairwise_true.
  - intros a; split; apply feq_refl.
  - intros a b c [A1 A2] [B1 B2]. split; eapply feq_trans; eauto.
  - apply cells_step_eqv.
  - intros a k1 k2 _. apply cells_step_comm.
Qed.

(* ---- Symbols.Update, both loops *)
Lemma upd_step_generic (f : (nat -> option sym) -> nat -> option sym) :
  (forall a b k, feq a b -> f a k = f b k) ->
  forall a b k, feq a b -> feq (match f a k with Some v => upd a k (Some v) | None => a end)
                               (match f b k with Some v => upd b k (Some v) | None => b end).
Proof.
  intros Hf a b k H. rewrite (Hf a b k H). destruct (f b k); auto. intros x. unfold upd. destruct (Nat.eqb x k); auto.
Qed.

Lemma upd1_eqv scopes a b k : feq a b -> feq (upd1_step scopes a k) (upd1_step scopes b k).
Proof.
  intros H x. unfold upd1_step. rewrite (H k). destruct (b k) as [[s f]|]; auto.
  unfold upd. destruct (Nat.eqb x k); auto.
Qed.

Lemma upd1_comm scopes a k1 k2 : feq (upd1_step scopes (upd1_step scopes a k1) k2) (upd1_step scopes (upd1_step scopes a k2) k1).
Proof.
  destruct (Nat.eq_dec k1 k2) as [->|Hne]; [apply feq_refl|].
  assert (N1 : Nat.eqb k2 k1 = false) by (apply Nat.eqb_neq; auto).
  assert (N2 : Nat.eqb k1 k2 = false) by (apply Nat.eqb_neq; auto).
  intros x. unfold upd1_step at 2 4.
  destruct (a k1) as [[s1 f1]|] eqn:E1; destruct (a k2) as [[s2 f2]|] eqn:E2;
  unfold upd1_step, upd; rewrite ?N1, ?N2, ?E1, ?E2; auto.
  destruct (Nat.eqb x k2) eqn:X2, (Nat.eqb x k1) eqn:X1; auto. apply Nat.eqb_eq in X1, X2; congruence.
Qed.

Theorem update1_order_independent scopes sy l l' : Permutation l l' -> feq (update1 scopes sy l) (update1 scopes sy l').
Proof.
  intros P. unfold update1.
  apply (fold_perm _ _ feq (upd1_step scopes) (fun _ _ => True)); try apply feq_refl; try apply feq_trans; try apply pairwise_true; auto.
  - apply upd1_eqv.
  - intros a k1 k2 _. apply upd1_comm.
Qed.

Lemma upd2_eqv cf bound a b k : feq a b -> feq (upd2_step cf bound a k) (upd2_step cf bound b k).
Proof.
  intros H x. unfold upd2_step. rewrite (H k). destruct (b k) as [[s f]|].
  - destruct (cf && has f (N.lor DefBound DefGlobal)); auto. unfold upd. destruct (Nat.eqb x k); auto.
  - destruct (bound k); auto. unfold upd. destruct (Nat.eqb x k); auto.
Qed.

Lemma upd2_comm cf bound a k1 k2 : feq (upd2_step cf bound (upd2_step cf bound a k1) k2) (upd2_step cf bound (upd2_step cf bound a k2) k1).
Proof.
  destruct (Nat.eq_dec k1 k2) as [->|Hne]; [apply feq_refl|].
  assert (N1 : Nat.eqb k2 k1 = false) by (apply Nat.eqb_neq; auto).
  assert (N2 : Nat.eqb k1 k2 = false) by (apply Nat.eqb_neq; auto).
  intros x. unfold upd2_step at 2 4.
  destruct (a k1) as [[s1 f1]|] eqn:E1; destruct (a k2) as [[s2 f2]|] eqn:E2;
  repeat match goal with
  | |- context [if ?c then _ else _] => lazymatch c with context [if _ then _ else _] => fail | _ => destruct c eqn:? end
  end; unfold upd2_step, upd; rewrite ?N1, ?N2, ?E1, ?E2;
  repeat match goal with H : ?c = _ |- context [?c] => rewrite H end; auto;
  destruct (Nat.eqb x k2) eqn:X2, (Nat.eqb x k1) eqn:X1; auto; apply Nat.eqb_eq in X1, X2; congruence.
Qed.

Theorem update2_order_independent cf bound sy l l' : Permutation l l' -> feq (update2 cf bound sy l) (update2 cf bound sy l').
Proof.
  intros P. unfold update2.
  apply (fold_perm _ _ feq (upd2_step cf bound) (fun _ _ => True)); try apply feq_refl; try apply feq_trans; try apply pairwise_true; auto.
  - apply upd2_eqv.
  - intros a k1 k2 _. apply upd2_comm.
Qed.

(* ---- Find: collecting in iteration order, then sorting *)
Lemma insert_comm x y l : insert x (insert y l) = insert y (insert x l).
Proof.
  induction l as [|z r IH]; simpl.
  - destruct (Nat.leb x y) eqn:A, (Nat.leb y x) eqn:B; auto.
    + apply Nat.leb_le in A, B. assert (x = y) by lia. subst. auto.
    + apply Nat.leb_gt in A, B. lia.
  - destruct (Nat.leb y z) eqn:A, (Nat.leb x z) eqn:B; simpl; rewrite ?A, ?B;
    destruct (Nat.leb x y) eqn:C, (Nat.leb y x) eqn:D; simpl; rewrite ?A, ?B; auto;
    try (apply Nat.leb_le in C); try (apply Nat.leb_le in D); try (apply Nat.leb_gt in C); try (apply Nat.leb_gt in D);
    try (apply Nat.leb_le in A); try (apply Nat.leb_le in B); try (apply Nat.leb_gt in A); try (apply Nat.leb_gt in B);
    try lia; try (assert (x = y) by lia; subst; auto); try (rewrite IH; auto).
Qed.

Lemma isort_perm l l' : Permutation l l' -> isort l = isort l'.
Proof.
  unfold isort. induction 1 as [| x l l' P IH | x y l | l l' l'' P1 IH1 P2 IH2]; simpl; auto.
  - rewrite IH. auto.
  - apply insert_comm.
  - congruence.
Qed.

Lemma filter_perm {A} (p : A -> bool) l l' : Permutation l l' -> Permutation (filter p l) (filter p l').
Proof.
  induction 1 as [| x l l' P IH | x y l | l l' l'' P1 IH1 P2 IH2]; simpl; auto.
  - destruct (p x); auto.
  - destruct (p x), (p y); auto. apply perm_swap.
  - eapply perm_trans; eauto.
Qed.

Theorem find_order_independent sy st fl l l' : Permutation l l' -> find_names sy st fl l = find_names sy st fl l'.
Proof. intros P. unfold find_names. apply isort_perm. apply filter_perm. exact P. Qed.

Theorem sorted_keys_order_independent l l' : Permutation l l' -> sorted_keys l = sorted_keys l'.
Proof. intros P. unfold sorted_keys. apply isort_perm. exact P. Qed.

(* ---- parser.init: inverting a map whose values are pairwise distinct *)
Theorem invert_order_independent m l l' : Permutation l l' -> NoDup (map snd l) -> feq (invert m l) (invert m l').
Proof.
  intros P ND. unfold invert.
  apply (fold_perm _ _ feq invert_step (fun a b => snd a <> snd b)); try apply feq_refl; try apply feq_trans; auto.
  - intros a b k H x. unfold invert_step, upd. destruct (Nat.eqb x (snd k)); auto.
  - intros a k1 k2 Hne x. unfold invert_step, upd.
    destruct (Nat.eqb x (snd k2)) eqn:X2, (Nat.eqb x (snd k1)) eqn:X1; auto. apply Nat.eqb_eq in X1, X2. congruence.
  - clear P. induction l as [|x r IH]; simpl; auto. simpl in ND. inversion ND as [|? ? Hn ND']; subst. split; auto.
    intros y Hy. assert (snd x <> snd y). { intros E. apply Hn. rewrite E. apply in_map. auto. } split; auto.
Qed.
