(* Nothing one context does can change what another context observes. *)
From Coq Require Import List Bool Arith Lia.
Import ListNotations.
From GP Require Import Model.Contexts.

Definition owns (st : state) (c : ctxid) (a : addr) : Prop := exists s, stores st c s = Some (Ref a).

(* every reference held by a context is allocated, and no container is reachable from two contexts *)
Definition Inv (st : state) : Prop :=
  (forall c s a, stores st c s = Some (Ref a) -> a < next st) /\
  (forall c d a, owns st c a -> owns st d a -> c = d).

Lemma inv_init : Inv init.
Proof. split; [intros c s a H; discriminate|intros c d a [s H]; discriminate]. Qed.

Lemma slot_eqb_eq a b : slot_eqb a b = true <-> a = b.
Proof.
  unfold slot_eqb. destruct a, b; simpl. rewrite andb_true_iff, !Nat.eqb_eq. split; [intros [-> ->]; auto|intros H; inversion H; auto].
Qed.

Lemma stores_bind c s v st d x :
  stores (bind c s v st) d x = if Nat.eqb d c && slot_eqb x s then v else stores st d x.
Proof. reflexivity. Qed.

(* binding a value that is not a reference *)
Lemma bind_plain_inv c s v st : (forall a, v <> Some (Ref a)) -> Inv st -> Inv (bind c s v st).
Proof.
  intros Hv [I1 I2]. split.
  - intros d x a H. rewrite stores_bind in H. destruct (Nat.eqb d c && slot_eqb x s); [subst; exfalso; eapply Hv; eauto|]. simpl. eapply I1; eauto.
  - intros d e a [x Hx] [y Hy]. rewrite stores_bind in Hx, Hy.
    destruct (Nat.eqb d c && slot_eqb x s); [subst; exfalso; eapply Hv; eauto|].
    destruct (Nat.eqb e c && slot_eqb y s); [subst; exfalso; eapply Hv; eauto|].
    eapply I2; eexists; eauto.
Qed.

(* binding a reference the same context already holds *)
Lemma bind_own_inv c s a st : owns st c a -> Inv st -> Inv (bind c s (Some (Ref a)) st).
Proof.
  intros O [I1 I2]. split.
  - intros d x b H. rewrite stores_bind in H. destruct (Nat.eqb d c && slot_eqb x s) eqn:E.
    + inversion H; subst. destruct O as [y Hy]. simpl. eapply I1; eauto.
    + simpl. eapply I1; eauto.
  - assert (G : forall d b, owns (bind c s (Some (Ref a)) st) d b -> owns st d b).
    { intros d b [x Hx]. rewrite stores_bind in Hx. destruct (Nat.eqb d c && slot_eqb x s) eqn:E.
      - inversion Hx; subst. apply andb_true_iff in E. destruct E as [E _]. apply Nat.eqb_eq in E. subst. auto.
      - eexists; eauto. }
    intros d e b H1 H2. eapply I2; eauto.
Qed.

Lemma new_list_inv c s l st : Inv st -> Inv (new_list c s l st).
Proof.
  intros [I1 I2]. unfold new_list, alloc. split.
  - intros d x a H. rewrite stores_bind in H. simpl in *. destruct (Nat.eqb d c && slot_eqb x s).
    + inversion H; subst. lia.
    + apply I1 in H. lia.
  - intros d e a [x Hx] [y Hy]. rewrite stores_bind in Hx, Hy. simpl in *.
    destruct (Nat.eqb d c && slot_eqb x s) eqn:E1; destruct (Nat.eqb e c && slot_eqb y s) eqn:E2.
    + apply andb_true_iff in E1, E2. destruct E1 as [E1 _], E2 as [E2 _]. apply Nat.eqb_eq in E1, E2. congruence.
    + inversion Hx; subst. apply I1 in Hy. lia.
    + inversion Hy; subst. apply I1 in Hx. lia.
    + eapply I2; eexists; eauto.
Qed.

Lemma set_loaded_inv c m st : Inv st -> Inv (set_loaded c m st).
Proof. intros H. exact H. Qed.

Lemma instantiate_inv impls c m st : Inv st -> Inv (instantiate impls c m st).
Proof.
  unfold instantiate. generalize (impls m). intros l. revert st. induction l as [|[k t] r IH]; intros st I; simpl; auto.
  apply IH. destruct t; simpl; [apply bind_plain_inv; auto; intros a H; discriminate|apply new_list_inv; auto].
Qed.

Theorem step_inv impls c o st : Inv st -> Inv (step impls c o st).
Proof.
  intros I. destruct o; simpl.
  - destruct (loaded st c m); auto. apply instantiate_inv. auto.
  - destruct (loaded st c (fst s)); auto. apply bind_plain_inv; auto. intros a H; discriminate.
  - destruct (loaded st c (fst s)); auto. apply new_list_inv; auto.
  - destruct (stores st c s) as [[n0|a]|]; auto. destruct (heap st a); auto.
  - destruct (loaded st c (fst dst)); auto. destruct (stores st c src) as [[n|a]|] eqn:E; auto.
    + apply bind_plain_inv; auto. intros a H; discriminate.
    + apply bind_own_inv; auto. eexists; eauto.
  - apply bind_plain_inv; auto. intros a H; discriminate.
Qed.

Theorem run_inv impls h : forall st, Inv st -> Inv (run impls h st).
Proof. induction h as [|[c o] r IH]; intros st I; simpl; auto. apply IH. apply step_inv. auto. Qed.

(* ---- frame: a step of context d leaves context c's store and containers alone *)
Definition same_for (c : ctxid) (st st' : state) : Prop :=
  (forall s, stores st' c s = stores st c s) /\ (forall a, owns st c a -> heap st' a = heap st a).

Lemma same_refl c st : same_for c st st. Proof. split; auto. Qed.

Lemma bind_frame c d s v st : d <> c -> same_for c st (bind d s v st).
Proof.
  intros N. split; auto. intros x. rewrite stores_bind.
  destruct (Nat.eqb c d) eqn:E; [apply Nat.eqb_eq in E; congruence|]. reflexivity.
Qed.

Lemma new_list_frame c d s l st : Inv st -> d <> c -> same_for c st (new_list d s l st).
Proof.
  intros [I1 _] N. unfold new_list, alloc. split.
  - intros x. rewrite stores_bind. simpl. destruct (Nat.eqb c d) eqn:E; [apply Nat.eqb_eq in E; congruence|]. reflexivity.
  - intros a [x Hx]. simpl. apply I1 in Hx. destruct (Nat.eqb a (next st)) eqn:E; auto. apply Nat.eqb_eq in E. lia.
Qed.

Lemma same_trans c st1 st2 st3 :
  (forall a, owns st1 c a -> owns st2 c a) -> same_for c st1 st2 -> same_for c st2 st3 -> same_for c st1 st3.
Proof.
  intros O [A1 A2] [B1 B2]. split.
  - intros s. rewrite B1. apply A1.
  - intros a H. rewrite B2 by auto. apply A2. auto.
Qed.

Lemma same_owns c st st' a : same_for c st st' -> owns st c a -> owns st' c a.
Proof. intros [A _] [s H]. exists s. rewrite A. auto. Qed.

Lemma instantiate_frame impls c d m st : Inv st -> d <> c -> same_for c st (instantiate impls d m st).
Proof.
  intros I N. unfold instantiate. generalize (impls m). intros l. revert st I.
  induction l as [|[k t] r IH]; intros st I; simpl; [apply same_refl|].
  destruct t; simpl.
  - eapply same_trans; [|apply (bind_frame c d (m, k) (Some (Atom n)) st N)|apply IH].
    + intros a. apply same_owns. apply bind_frame. auto.
    + apply bind_plain_inv; auto. intros a H; discriminate.
  - eapply same_trans; [|apply (new_list_frame c d (m, k) l st I N)|apply IH].
    + intros a. apply same_owns. apply new_list_frame; auto.
    + apply new_list_inv. auto.
Qed.

Theorem step_frame impls c d o st : Inv st -> d <> c -> same_for c st (step impls d o st).
Proof.
  intros I N. destruct o; simpl.
  - destruct (loaded st d m); [apply same_refl|]. apply (instantiate_frame impls c d m (set_loaded d m st)); auto.
  - destruct (loaded st d (fst s)); [apply bind_frame; auto|apply same_refl].
  - destruct (loaded st d (fst s)); [apply new_list_frame; auto|apply same_refl].
  - destruct (stores st d s) as [[n0|a]|] eqn:E; try apply same_refl. destruct (heap st a) eqn:H; try apply same_refl.
    split; auto. intros b Ob. simpl. destruct (Nat.eqb b a) eqn:Q; auto. apply Nat.eqb_eq in Q. subst b.
    exfalso. apply N. destruct I as [_ I2]. eapply I2; eauto. eexists; eauto.
  - destruct (loaded st d (fst dst)); [|apply same_refl]. destruct (stores st d src); [apply bind_frame; auto|apply same_refl].
  - apply bind_frame. auto.
Qed.

Lemma same_observe c st st' s : same_for c st st' -> observe st' c s = observe st c s.
Proof.
  intros [A B]. unfold observe. rewrite A. destruct (stores st c s) as [[n|a]|] eqn:E; auto.
  rewrite B; auto. eexists; eauto.
Qed.

(* whatever the other contexts do, in whatever order and however often, context c observes the same *)
Theorem others_cannot_interfere impls c h : Forall (fun co => fst co <> c) h ->
  forall st, Inv st -> same_for c st (run impls h st).
Proof.
  induction 1 as [|[d o] r Hd Hr IH]; intros st I; simpl; [apply same_refl|].
  simpl in Hd. pose proof (step_frame impls c d o st I Hd) as S1.
  eapply same_trans; [|exact S1|apply IH; apply step_inv; auto].
  intros a. apply same_owns. auto.
Qed.

Theorem no_leak impls c s before others : Forall (fun co => fst co <> c) others ->
  observe (run impls others (run impls before init)) c s = observe (run impls before init) c s.
Proof.
  intros F. apply same_observe. apply others_cannot_interfere; auto. apply run_inv. apply inv_init.
Qed.
