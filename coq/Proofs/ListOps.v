(* The element loops of list slicing / slice assignment / slice deletion (Model/ListOps.v) compute
   Python's sequence model (Spec/ListSpec.v) for bounds and steps of any magnitude, and never reach
   a Go index or slice-bounds panic. *)
From Coq Require Import ZArith Bool List Lia ZifyBool.
Import ListNotations.
From GP Require Import Base.Go2v Base.Tactics Spec.SliceSpec Spec.ListSpec Model.Slice Model.ListOps Proofs.Slice.
Open Scope Z_scope.

(* ---------------------------------------------------------------- selected indices *)
Definition idx_of (a s : Z) (n : nat) : list Z := map (fun k => a + Z.of_nat k * s) (seq 0 n).

Lemma idx_of_S a s n : idx_of a s (S n) = a :: idx_of (a + s) s n.
Proof.
  unfold idx_of. cbn [seq map]. f_equal; [lia|].
  rewrite <- seq_shift, map_map. apply map_ext. intros k. lia.
Qed.

Lemma in_idx_of p a s n : In p (idx_of a s n) <-> exists k, (k < n)%nat /\ p = a + Z.of_nat k * s.
Proof.
  unfold idx_of. rewrite in_map_iff. split.
  - intros [k [E I]]. apply in_seq in I. exists k. split; [lia|congruence].
  - intros [k [L E]]. exists k. split; [congruence|apply in_seq; lia].
Qed.

Lemma mem_true p idx : mem p idx = true <-> In p idx.
Proof.
  unfold mem. rewrite existsb_exists. split.
  - intros [x [I E]]. apply Z.eqb_eq in E. subst. exact I.
  - intros I. exists p. split; [exact I|apply Z.eqb_refl].
Qed.

Lemma mem_false p idx : mem p idx = false <-> ~ In p idx.
Proof. rewrite <- mem_true. destruct (mem p idx); split; congruence. Qed.

Lemma slice_bounds_range len start stop step a b s : 0 <= len ->
  slice_bounds len start stop step = Some (a, b, s) ->
  s <> 0 /\ (if 0 <? s then 0 <= a <= len /\ 0 <= b <= len else -1 <= a <= len - 1 /\ -1 <= b <= len - 1).
Proof.
  intros Hl. unfold slice_bounds.
  set (s0 := match step with None => 1 | Some s => s end).
  destruct (s0 =? 0) eqn:E0; [discriminate|]. apply Z.eqb_neq in E0.
  destruct (0 <? s0) eqn:S; intros H; inversion H; subst; clear H; rewrite S; (split; [exact E0|]).
  - split; [destruct start|destruct stop]; unfold clampZ; lia.
  - split; [destruct start|destruct stop]; unfold clampZ; lia.
Qed.

Lemma idx_in_range len a b s k : s <> 0 ->
  (if 0 <? s then 0 <= a <= len /\ 0 <= b <= len else -1 <= a <= len - 1 /\ -1 <= b <= len - 1) ->
  0 <= k < slice_count a b s -> 0 <= a + k * s < len.
Proof.
  intros Hs Hb [Hk0 Hk]. apply (slice_count_spec a b s k Hs Hk0) in Hk.
  destruct (0 <? s) eqn:S.
  - assert (0 <= k * s) by (apply Z.mul_nonneg_nonneg; lia). lia.
  - assert (k * s <= 0) by (apply Z.mul_nonneg_nonpos; lia). lia.
Qed.

Lemma idx_clamp a s cs n : (cs = s \/ Z.of_nat n <= 1) -> idx_of a cs n = idx_of a s n.
Proof.
  intros [->|H]; [reflexivity|]. destruct n as [|[|n]]; try reflexivity. lia.
Qed.

(* ---------------------------------------------------------------- generic list facts *)
Lemma zlen_app {A} (l1 l2 : list A) : zlen (l1 ++ l2) = zlen l1 + zlen l2.
Proof. unfold zlen. rewrite app_length. lia. Qed.

Lemma takeZ_app_exact {A} (P R : list A) : takeZ (zlen P) (P ++ R) = P.
Proof.
  unfold takeZ, zlen. rewrite Nat2Z.id. rewrite firstn_app, Nat.sub_diag, firstn_all. cbn. apply app_nil_r.
Qed.

Lemma dropZ_app_exact {A} (P R : list A) k : 0 <= k -> dropZ (zlen P + k) (P ++ R) = dropZ k R.
Proof.
  intros Hk. unfold dropZ, zlen. rewrite Z2Nat.inj_add by lia. rewrite Nat2Z.id.
  rewrite skipn_app. rewrite skipn_all2 by lia. cbn. f_equal. lia.
Qed.

Lemma length_set_nth {A} (l : list A) k v : length (set_nth l k v) = length l.
Proof. revert k. induction l as [|x t IH]; intros [|k]; cbn; auto. Qed.

Lemma nth_set_nth_eq {A} (l : list A) k v : (k < length l)%nat -> nth_error (set_nth l k v) k = Some v.
Proof. revert k. induction l as [|x t IH]; intros [|k] H; cbn in *; try lia; auto. apply IH. lia. Qed.

Lemma nth_set_nth_neq {A} (l : list A) k p v : p <> k -> nth_error (set_nth l k v) p = nth_error l p.
Proof.
  revert k p. induction l as [|x t IH]; intros [|k] [|p] H; cbn; auto; try congruence.
Qed.

(* ---------------------------------------------------------------- getslice *)
Lemma loop_get_chk_ok {A} (l : list A) n : forall i s,
  (forall k, (k < n)%nat -> 0 <= i + Z.of_nat k * s < zlen l) ->
  exists r, loop_get_chk l i s n = Some r /\ py_get l (idx_of i s n) r.
Proof.
  induction n as [|n IH]; intros i s H.
  - exists []. split; [reflexivity|constructor].
  - cbn [loop_get_chk]. pose proof (H O ltac:(lia)) as H0. cbn in H0.
    assert (R : in_range l i = true) by (unfold in_range; lia). rewrite R.
    destruct (nth_error l (Z.to_nat i)) as [x|] eqn:E.
    2:{ apply nth_error_None in E. unfold zlen in *. lia. }
    destruct (IH (i + s) s) as [r [Er Pr]].
    { intros k Hk. specialize (H (S k) ltac:(lia)). lia. }
    rewrite Er. exists (x :: r). split; [reflexivity|]. rewrite idx_of_S. constructor; [split; [lia|exact E]|exact Pr].
Qed.

Theorem list_getslice_spec {A} (l : list A) start stop step : zlen l < IntMax ->
  match slice_indices (zlen l) start stop step with
  | None => list_getslice l start stop step = ValueErr
  | Some idx => exists r, list_getslice l start stop step = Ok r /\ py_get l idx r
  end.
Proof.
  intros Hl. assert (Hl0 : 0 <= zlen l < IntMax) by (unfold zlen in *; lia).
  pose proof (get_indices_spec (zlen l) start stop step Hl0) as G.
  unfold slice_indices, list_getslice.
  destruct (slice_bounds (zlen l) start stop step) as [[[a b] s]|] eqn:B; [|rewrite G; reflexivity].
  destruct G as [G [Hc _]]. rewrite G.
  destruct (slice_bounds_range _ _ _ _ _ _ _ (proj1 Hl0) B) as [Hs Hb].
  destruct (loop_get_chk_ok l (Z.to_nat (slice_count a b s)) a (clamp_step s)) as [r [Er Pr]].
  { intros k Hk. assert (E : a + Z.of_nat k * clamp_step s = a + Z.of_nat k * s).
    { destruct Hc as [->|Hc]; [reflexivity|]. assert (k = O) by lia. subst. lia. }
    rewrite E. apply (idx_in_range (zlen l) a b s); auto. lia. }
  rewrite Er. exists r. split; [reflexivity|].
  rewrite (idx_clamp a s) in Pr; [exact Pr|]. destruct Hc; [left; auto|right; lia].
Qed.

(* ---------------------------------------------------------------- extended slice assignment *)
Lemma loop_set_ok {A} n : forall (l new : list A) i s, s <> 0 ->
  length new = n ->
  (forall k, (k < n)%nat -> 0 <= i + Z.of_nat k * s < zlen l) ->
  exists r, loop_set l new i s n = Ok r /\ py_setx l new (idx_of i s n) r.
Proof.
  induction n as [|n IH]; intros l new i s Hs Hn H.
  - exists l. split; [reflexivity|]. split; [reflexivity|]. split.
    + intros k j v E. destruct k; discriminate.
    + reflexivity.
  - destruct new as [|v new']; [discriminate|]. cbn [loop_set].
    pose proof (H O ltac:(lia)) as H0. cbn in H0.
    assert (R : in_range l i = true) by (unfold in_range; lia). rewrite R.
    set (l1 := set_nth l (Z.to_nat i) v).
    assert (L1 : zlen l1 = zlen l) by (unfold zlen, l1; rewrite length_set_nth; reflexivity).
    destruct (IH l1 new' (i + s) s Hs) as [r [Er [Plen [Psel Prest]]]].
    { cbn in Hn. lia. }
    { intros k Hk. rewrite L1. specialize (H (S k) ltac:(lia)). lia. }
    exists r. split; [exact Er|]. rewrite idx_of_S.
    assert (Hi : ~ In i (idx_of (i + s) s n)).
    { rewrite in_idx_of. intros [k [_ E]]. assert (0 = (Z.of_nat k + 1) * s) by lia.
      symmetry in H1. apply Z.mul_eq_0 in H1. lia. }
    split; [|split].
    + rewrite Plen. apply length_set_nth.
    + intros k j w Ej Ew. destruct k as [|k]; cbn in Ej, Ew.
      * inversion Ej; inversion Ew; subst j w.
        rewrite (Prest (Z.to_nat i)) by (rewrite Z2Nat.id by lia; exact Hi).
        apply nth_set_nth_eq. unfold zlen in *. lia.
      * eapply Psel; eauto.
    + intros p Hp. cbn [In] in Hp.
      rewrite Prest by tauto. apply nth_set_nth_neq. intros ->. apply Hp. left. lia.
Qed.

Theorem list_setslice_spec {A} (l new : list A) start stop step : zlen l < IntMax ->
  match slice_bounds (zlen l) start stop step with
  | None => list_setslice l new start stop step = ValueErr
  | Some (a, b, s) =>
      if s =? 1 then list_setslice l new start stop step = Ok (py_set1 l new a b)
      else if zlen new =? slice_count a b s
      then exists r, list_setslice l new start stop step = Ok r /\
                     py_setx l new (idx_of a s (Z.to_nat (slice_count a b s))) r
      else list_setslice l new start stop step = ValueErr
  end.
Proof.
  intros Hl. assert (Hl0 : 0 <= zlen l < IntMax) by (unfold zlen in *; lia).
  pose proof (get_indices_spec (zlen l) start stop step Hl0) as G.
  unfold list_setslice.
  destruct (slice_bounds (zlen l) start stop step) as [[[a b] s]|] eqn:B; [|rewrite G; reflexivity].
  destruct G as [G [Hc Hsg]]. rewrite G.
  destruct (slice_bounds_range _ _ _ _ _ _ _ (proj1 Hl0) B) as [Hs Hb].
  assert (E1 : (clamp_step s =? 1) = (s =? 1)) by (unfold clamp_step, IntMax; lia).
  rewrite E1. destruct (s =? 1) eqn:S1.
  - assert (s = 1) by lia. subst s.
    assert (Hb' : 0 <= a <= zlen l /\ 0 <= b <= zlen l) by exact Hb.
    clear Hb E1 S1 Hsg Hc G B.
    assert (T : ((0 <=? a) && (a <=? zlen l) && (0 <=? (if b <? a then a else b)) && ((if b <? a then a else b) <=? zlen l)) = true)
      by (destruct (b <? a) eqn:E; cbv iota; lia).
    rewrite T. unfold py_set1, takeZ, dropZ. do 5 f_equal. destruct (b <? a) eqn:E; cbv iota; lia.
  - destruct (zlen new =? slice_count a b s) eqn:EL; [|reflexivity].
    destruct (loop_set_ok (Z.to_nat (slice_count a b s)) l new a (clamp_step s)) as [r [Er Pr]].
    + unfold clamp_step, IntMax. lia.
    + unfold zlen in EL. lia.
    + intros k Hk. assert (E : a + Z.of_nat k * clamp_step s = a + Z.of_nat k * s).
      { destruct Hc as [->|Hc]; [reflexivity|]. assert (k = O) by lia. subst. lia. }
      rewrite E. apply (idx_in_range (zlen l) a b s); auto. lia.
    + exists r. split; [exact Er|]. rewrite (idx_clamp a s) in Pr; [exact Pr|].
      destruct Hc; [left; auto|right; lia].
Qed.

(* ---------------------------------------------------------------- slice deletion *)
Definition py_del_off {A} (off : nat) (l : list A) (idx : list Z) : list A :=
  map snd (filter (fun p => negb (mem (fst p) idx)) (positions off l)).

Lemma py_del_off_cons {A} off (x : A) l idx :
  py_del_off off (x :: l) idx = (if mem (Z.of_nat off) idx then [] else [x]) ++ py_del_off (S off) l idx.
Proof. unfold py_del_off, positions. cbn. destruct (mem (Z.of_nat off) idx); reflexivity. Qed.

Lemma py_del_off_nil {A} off idx : py_del_off off (@nil A) idx = [].
Proof. reflexivity. Qed.

Lemma py_del_off_app {A} (l1 l2 : list A) idx : forall off,
  py_del_off off (l1 ++ l2) idx = py_del_off off l1 idx ++ py_del_off (off + length l1) l2 idx.
Proof.
  induction l1 as [|x t IH]; intros off.
  - cbn [app length]. rewrite py_del_off_nil, Nat.add_0_r. reflexivity.
  - cbn [app length]. rewrite !py_del_off_cons, IH, <- app_assoc. do 3 f_equal. lia.
Qed.

Lemma py_del_off_ext {A} (l : list A) idx idx' : forall off,
  (forall p, (off <= p < off + length l)%nat -> (In (Z.of_nat p) idx <-> In (Z.of_nat p) idx')) ->
  py_del_off off l idx = py_del_off off l idx'.
Proof.
  induction l as [|x t IH]; intros off H; [reflexivity|].
  rewrite !py_del_off_cons. f_equal.
  - assert (E : mem (Z.of_nat off) idx = mem (Z.of_nat off) idx').
    { specialize (H off ltac:(cbn; lia)). rewrite <- !mem_true in H.
      destruct (mem (Z.of_nat off) idx), (mem (Z.of_nat off) idx'); try reflexivity; exfalso; intuition congruence. }
    rewrite E. reflexivity.
  - apply IH. intros p Hp. apply H. cbn. lia.
Qed.

Lemma py_del_off_none {A} (l : list A) idx : forall off,
  (forall p, (off <= p < off + length l)%nat -> ~ In (Z.of_nat p) idx) -> py_del_off off l idx = l.
Proof.
  induction l as [|x t IH]; intros off H; [reflexivity|].
  rewrite py_del_off_cons.
  assert (E : mem (Z.of_nat off) idx = false) by (apply mem_false, H; cbn; lia).
  rewrite E. cbn. f_equal. apply IH. intros p Hp. apply H. cbn. lia.
Qed.

(* remove the elements at offsets 0, g+1, 2(g+1), ... (n of them) *)
Fixpoint strike {A} (g n : nat) (R : list A) : list A :=
  match n with
  | O => R
  | S n' => match R with [] => [] | _ :: R' => firstn g R' ++ strike g n' (skipn g R') end
  end.

Lemma strike_spec {A} n : forall (R : list A) off s, 1 <= s ->
  (n <> O -> (Z.of_nat n - 1) * s < zlen R) ->
  strike (Z.to_nat (s - 1)) n R = py_del_off off R (idx_of (Z.of_nat off) s n).
Proof.
  induction n as [|n IH]; intros R off s Hs Hn.
  - cbn [strike]. symmetry. apply py_del_off_none. intros p _ [].
  - specialize (Hn ltac:(discriminate)).
    assert (Hns : 0 <= Z.of_nat n * s) by (apply Z.mul_nonneg_nonneg; lia).
    destruct R as [|x R']; [unfold zlen in Hn; cbn [length] in Hn; nia|].
    cbn [strike]. rewrite py_del_off_cons.
    assert (M : mem (Z.of_nat off) (idx_of (Z.of_nat off) s (S n)) = true).
    { apply mem_true. rewrite idx_of_S. left. reflexivity. }
    rewrite M. cbn [app]. set (g := Z.to_nat (s - 1)).
    transitivity (py_del_off (S off) (firstn g R' ++ skipn g R') (idx_of (Z.of_nat off) s (S n)));
      [|rewrite firstn_skipn; reflexivity].
    rewrite py_del_off_app. f_equal.
    + symmetry. apply py_del_off_none. intros p Hp. rewrite in_idx_of. intros [k [_ E]].
      pose proof (firstn_le_length g R'). destruct k as [|k]; [lia|].
      assert (s <= Z.of_nat (S k) * s) by nia. lia.
    + destruct n as [|n'].
      * cbn [strike]. symmetry. apply py_del_off_none. intros p Hp. rewrite in_idx_of. intros [k [Hk E]].
        assert (k = O) by lia. subst k. lia.
      * assert (HR : (Z.to_nat s <= length R')%nat).
        { unfold zlen in Hn. cbn [length] in Hn. nia. }
        assert (HF : length (firstn g R') = g) by (apply firstn_length_le; lia).
        rewrite HF. replace (S off + g)%nat with (off + Z.to_nat s)%nat by lia.
        subst g. rewrite (IH (skipn (Z.to_nat (s - 1)) R') (off + Z.to_nat s)%nat s Hs).
        2:{ intros _. unfold zlen in *. rewrite skipn_length. cbn [length] in Hn. nia. }
        apply py_del_off_ext. intros p Hp.
        rewrite (idx_of_S (Z.of_nat off)). cbn [In].
        replace (Z.of_nat (off + Z.to_nat s)) with (Z.of_nat off + s) by lia.
        split; [intros I; right; exact I|intros [I|I]; [lia|exact I]].
Qed.

Lemma loop_del_strike {A} n : forall (P R : list A) i j s, 1 <= s ->
  i - j = zlen P -> (n <> O -> (Z.of_nat n - 1) * s < zlen R) ->
  loop_del (P ++ R) i s j n = Ok (P ++ strike (Z.to_nat (s - 1)) n R).
Proof.
  induction n as [|n IH]; intros P R i j s Hs Hij Hn; [reflexivity|].
  specialize (Hn ltac:(discriminate)).
  assert (Hns : 0 <= Z.of_nat n * s) by (apply Z.mul_nonneg_nonneg; lia).
  destruct R as [|x R']; [unfold zlen in Hn; cbn [length] in Hn; nia|].
  cbn [loop_del strike]. unfold del_item.
  assert (IR : in_range (P ++ x :: R') (i - j) = true).
  { unfold in_range. rewrite zlen_app. unfold zlen in *. cbn [length]. lia. }
  rewrite IR, Hij, takeZ_app_exact, (dropZ_app_exact P (x :: R') 1) by lia.
  change (dropZ 1 (x :: R')) with R'.
  set (g := Z.to_nat (s - 1)).
  destruct n as [|n'].
  - cbn [loop_del strike]. rewrite firstn_skipn. reflexivity.
  - assert (HR : (Z.to_nat s <= length R')%nat).
    { unfold zlen in Hn. cbn [length] in Hn. nia. }
    assert (HF : length (firstn g R') = g) by (apply firstn_length_le; lia).
    rewrite <- (firstn_skipn g R') at 1. rewrite app_assoc.
    subst g. rewrite (IH (P ++ firstn (Z.to_nat (s - 1)) R') (skipn (Z.to_nat (s - 1)) R') (i + s) (j + 1) s Hs).
    + rewrite <- app_assoc. reflexivity.
    + rewrite zlen_app. unfold zlen in *. rewrite HF. lia.
    + intros _. unfold zlen in *. rewrite skipn_length. cbn [length] in Hn. nia.
Qed.

Lemma del_common {A} (l : list A) a s n : 0 <= a <= zlen l -> 1 <= s ->
  (n <> O -> a + (Z.of_nat n - 1) * s < zlen l) ->
  takeZ a l ++ strike (Z.to_nat (s - 1)) n (dropZ a l) = py_del_off 0 l (idx_of a s n).
Proof.
  intros Ha Hs Hn.
  assert (LP : length (takeZ a l) = Z.to_nat a) by (unfold takeZ; apply firstn_length_le; unfold zlen in *; lia).
  rewrite <- (firstn_skipn (Z.to_nat a) l) at 3. rewrite py_del_off_app.
  change (firstn (Z.to_nat a) l) with (takeZ a l). change (skipn (Z.to_nat a) l) with (dropZ a l).
  f_equal.
  - symmetry. apply py_del_off_none. intros p Hp. rewrite in_idx_of. intros [k [_ E]].
    assert (0 <= Z.of_nat k * s) by (apply Z.mul_nonneg_nonneg; lia). lia.
  - rewrite LP. cbn [Nat.add]. rewrite (strike_spec n (dropZ a l) (Z.to_nat a) s Hs).
    + rewrite Z2Nat.id by lia. reflexivity.
    + intros H. specialize (Hn H). unfold dropZ, zlen in *. rewrite skipn_length. lia.
Qed.

Lemma skipn_add {A} (l : list A) n : forall m, skipn (m + n) l = skipn n (skipn m l).
Proof.
  intros m. revert l. induction m as [|m IH]; intros l; [reflexivity|].
  destruct l as [|x t]; [cbn; rewrite skipn_nil; reflexivity|]. cbn. apply IH.
Qed.

Lemma strike_zero {A} n : forall (R : list A), strike 0 n R = skipn n R.
Proof. induction n as [|n IH]; intros [|x R']; cbn; auto. Qed.

Theorem list_delslice_spec {A} (l : list A) start stop step : zlen l < IntMax ->
  match slice_indices (zlen l) start stop step with
  | None => list_delslice l start stop step = ValueErr
  | Some idx => list_delslice l start stop step = Ok (py_del l idx)
  end.
Proof.
  intros Hl. assert (Hl0 : 0 <= zlen l < IntMax) by (unfold zlen in *; lia).
  pose proof (get_indices_spec (zlen l) start stop step Hl0) as G.
  unfold slice_indices, list_delslice.
  destruct (slice_bounds (zlen l) start stop step) as [[[a b] s]|] eqn:B; [|rewrite G; reflexivity].
  destruct G as [G [Hc Hsg]]. rewrite G.
  destruct (slice_bounds_range _ _ _ _ _ _ _ (proj1 Hl0) B) as [Hs Hb].
  fold (idx_of a s (Z.to_nat (slice_count a b s))). change (py_del l) with (py_del_off 0 l).
  set (cnt := slice_count a b s) in *.
  assert (Hidx : idx_of a (clamp_step s) (Z.to_nat cnt) = idx_of a s (Z.to_nat cnt))
    by (apply idx_clamp; destruct Hc; [left; auto|right; lia]).
  assert (Hrange : forall k, 0 <= k < cnt -> 0 <= a + k * clamp_step s < zlen l).
  { intros k Hk. assert (E : a + k * clamp_step s = a + k * s).
    { destruct Hc as [->|Hc]; [reflexivity|]. assert (k = 0) by lia. subst. lia. }
    rewrite E. apply (idx_in_range (zlen l) a b s); auto. }
  rewrite <- Hidx. clear Hidx.
  assert (Hcs : clamp_step s <> 0 /\ (0 <? clamp_step s) = (0 <? s)) by (split; [unfold clamp_step, IntMax; lia|exact Hsg]).
  destruct Hcs as [Hcs0 Hcsg].
  assert (Hone : clamp_step s = 1 -> s = 1) by (unfold clamp_step, IntMax; lia).
  set (cs := clamp_step s) in *. clearbody cs.
  destruct (cs =? 1) eqn:S1.
  - assert (cs = 1) by lia. subst cs. rewrite <- Hcsg in Hb.
    assert (Hb' : 0 <= a <= zlen l /\ 0 <= b <= zlen l) by exact Hb.
    assert (Hcnt : cnt = if b <=? a then 0 else b - a).
    { subst cnt. rewrite (Hone eq_refl). unfold slice_count. cbn [Z.ltb Z.compare].
      destruct (b <=? a); [reflexivity|]. rewrite Z.div_1_r. lia. }
    assert (T : ((0 <=? a) && (a <=? zlen l) && (0 <=? (if b <? a then a else b)) && ((if b <? a then a else b) <=? zlen l)) = true)
      by (destruct (b <? a) eqn:E; cbv iota; lia).
    rewrite T. f_equal.
    rewrite <- (del_common l a 1 (Z.to_nat cnt)) by (destruct (b <=? a) eqn:E; lia).
    f_equal. change (Z.to_nat (1 - 1)) with O. rewrite strike_zero.
    unfold dropZ. rewrite <- skipn_add. f_equal.
    destruct (b <? a) eqn:E; destruct (b <=? a) eqn:E'; lia.
  - destruct (Z.to_nat cnt) as [|n] eqn:En.
    { cbn [loop_del]. f_equal. symmetry. apply py_del_off_none. intros p _ []. }
    assert (Hcnt : cnt = Z.of_nat (S n)) by lia.
    destruct (cs <? 0) eqn:Sneg.
    + (* negative step: delete the same elements in ascending order *)
      pose proof (Hrange (cnt - 1) ltac:(lia)) as Hlast.
      pose proof (Hrange 0 ltac:(lia)) as Hfirst.
      set (a' := a + (cnt - 1) * cs) in *.
      rewrite <- (firstn_skipn (Z.to_nat a') l) at 1.
      rewrite (loop_del_strike (S n) (firstn (Z.to_nat a') l) (skipn (Z.to_nat a') l) a' 0 (- cs)).
      * f_equal. change (firstn (Z.to_nat a') l) with (takeZ a' l). change (skipn (Z.to_nat a') l) with (dropZ a' l).
        rewrite del_common.
        -- apply py_del_off_ext. intros p _. rewrite !in_idx_of. split.
           ++ intros [k [Hk E]]. exists (n - k)%nat. split; [lia|]. subst a'. rewrite E, Hcnt. nia.
           ++ intros [k [Hk E]]. exists (n - k)%nat. split; [lia|]. subst a'. rewrite E, Hcnt. nia.
        -- lia.
        -- lia.
        -- intros _. subst a'. rewrite Hcnt in *. nia.
      * lia.
      * unfold zlen in *. rewrite firstn_length_le by lia. lia.
      * intros _. unfold zlen in *. rewrite skipn_length. subst a'. rewrite Hcnt in *. nia.
    + (* positive step >= 2 *)
      pose proof (Hrange (cnt - 1) ltac:(lia)) as Hlast.
      pose proof (Hrange 0 ltac:(lia)) as Hfirst.
      rewrite <- (firstn_skipn (Z.to_nat a) l) at 1.
      rewrite (loop_del_strike (S n) (firstn (Z.to_nat a) l) (skipn (Z.to_nat a) l) a 0 cs).
      * f_equal. change (firstn (Z.to_nat a) l) with (takeZ a l). change (skipn (Z.to_nat a) l) with (dropZ a l).
        apply del_common; [lia|lia|]. intros _. rewrite Hcnt in *. lia.
      * lia.
      * unfold zlen in *. rewrite firstn_length_le by lia. lia.
      * intros _. unfold zlen in *. rewrite skipn_length. rewrite Hcnt in *. nia.
Qed.

(* ---------------------------------------------------------------- single items *)
Lemma index_check_spec {A} (l : list A) i : index_check l i = norm_index (zlen l) i.
Proof. unfold index_check, norm_index, in_range. reflexivity. Qed.

Theorem list_items_spec {A} (l : list A) i v :
  match norm_index (zlen l) i with
  | None => list_getitem l i = IndexErr /\ list_setitem l i v = IndexErr /\ list_delitem l i = IndexErr
  | Some j =>
      0 <= j < zlen l /\
      (exists x, nth_error l (Z.to_nat j) = Some x /\ list_getitem l i = Ok [x]) /\
      list_setitem l i v = Ok (set_nth l (Z.to_nat j) v) /\
      list_delitem l i = Ok (py_del l [j])
  end.
Proof.
  unfold list_getitem, list_setitem, list_delitem. rewrite index_check_spec.
  destruct (norm_index (zlen l) i) as [j|] eqn:E; [|auto].
  assert (Hj : 0 <= j < zlen l).
  { unfold norm_index in E. destruct ((0 <=? (if i <? 0 then i + zlen l else i)) && ((if i <? 0 then i + zlen l else i) <? zlen l)) eqn:T; inversion E; subst; lia. }
  split; [exact Hj|]. split; [|split; [reflexivity|]].
  - destruct (nth_error l (Z.to_nat j)) as [x|] eqn:N; [exists x; auto|].
    apply nth_error_None in N. unfold zlen in Hj. lia.
  - unfold del_item. assert (R : in_range l j = true) by (unfold in_range; lia). rewrite R. f_equal.
    change (py_del l) with (py_del_off 0 l).
    replace [j] with (idx_of j 1 1) by (unfold idx_of; cbn; f_equal; lia).
    rewrite <- (del_common l j 1 1) by lia.
    f_equal. change (Z.to_nat (1 - 1)) with O. rewrite strike_zero. unfold dropZ.
    rewrite <- skipn_add. f_equal. lia.
Qed.

(* ---------------------------------------------------------------- no operation reaches a Go panic *)
Theorem list_ops_never_panic {A} (l new : list A) start stop step i v : zlen l < IntMax ->
  list_getslice l start stop step <> Panic /\ list_setslice l new start stop step <> Panic /\
  list_delslice l start stop step <> Panic /\ list_getitem l i <> Panic /\ list_setitem l i v <> Panic /\
  list_delitem l i <> Panic.
Proof.
  intros Hl.
  pose proof (list_getslice_spec l start stop step Hl) as G.
  pose proof (list_setslice_spec l new start stop step Hl) as S.
  pose proof (list_delslice_spec l start stop step Hl) as D.
  pose proof (list_items_spec l i v) as I.
  repeat split.
  - destruct (slice_indices (zlen l) start stop step); [destruct G as [r [-> _]]|rewrite G]; discriminate.
  - destruct (slice_bounds (zlen l) start stop step) as [[[a b] s]|]; [|rewrite S; discriminate].
    destruct (s =? 1); [rewrite S; discriminate|].
    destruct (zlen new =? slice_count a b s); [destruct S as [r [-> _]]|rewrite S]; discriminate.
  - destruct (slice_indices (zlen l) start stop step); rewrite D; discriminate.
  - destruct (norm_index (zlen l) i); [destruct I as [_ [[x [_ ->]] _]]|destruct I as [-> _]]; discriminate.
  - destruct (norm_index (zlen l) i); [destruct I as [_ [_ [-> _]]]|destruct I as [_ [-> _]]]; discriminate.
  - destruct (norm_index (zlen l) i); [destruct I as [_ [_ [_ ->]]]|destruct I as [_ [_ ->]]]; discriminate.
Qed.
