(* EvalCode's binding loop (Model/Bind.v) computes Python's argument binding rule (Spec/BindSpec.v) for
   every signature with distinct parameter names, every number of positional arguments and every list of
   distinct keywords. *)
From Coq Require Import List Bool Arith Lia.
Import ListNotations.
From GP Require Import Model.Bind.
From GP Require Import Spec.BindSpec.

Lemma index_of_Some k l : forall j, index_of k l = Some j -> j < length l /\ nth j l 0 = k.
Proof.
  induction l as [|x r IH]; intros j H; [discriminate|]. cbn in H.
  destruct (Nat.eqb x k) eqn:E.
  - inversion H; subst. apply Nat.eqb_eq in E. cbn. split; [lia|exact E].
  - destruct (index_of k r) as [j'|]; [|discriminate]. inversion H; subst.
    destruct (IH j' eq_refl). cbn. split; [lia|assumption].
Qed.

Lemma index_of_None k l : index_of k l = None -> ~ In k l.
Proof.
  induction l as [|x r IH]; intros H; [intros []|]. cbn in H.
  destruct (Nat.eqb x k) eqn:E; [discriminate|]. apply Nat.eqb_neq in E.
  destruct (index_of k r); [discriminate|]. intros [I|I]; [congruence|exact (IH eq_refl I)].
Qed.

Lemma index_of_nth l : NoDup l -> forall j, j < length l -> index_of (nth j l 0) l = Some j.
Proof.
  induction l as [|x r IH]; intros ND j Hj; [cbn in Hj; lia|].
  inversion ND as [|? ? Hx ND']; subst. destruct j as [|j]; cbn.
  - rewrite Nat.eqb_refl. reflexivity.
  - cbn in Hj. assert (In (nth j r 0) r) by (apply nth_In; lia).
    destruct (Nat.eqb x (nth j r 0)) eqn:E; [apply Nat.eqb_eq in E; congruence|].
    rewrite IH by (auto; lia). reflexivity.
Qed.

Lemma set_nth_len {A} (l : list A) i v : length (set_nth l i v) = length l.
Proof. revert i. induction l; intros [|i]; cbn; auto. Qed.

Lemma nth_set_nth {A} (l : list A) i v d j :
  nth j (set_nth l i v) d = if (j =? i) && (i <? length l) then v else nth j l d.
Proof.
  revert i j. induction l as [|x r IH]; intros [|i] [|j]; cbn; auto.
  - destruct (j =? i); reflexivity.
  - rewrite IH. reflexivity.
Qed.

Lemma has_In k l : has k l = true <-> In k l.
Proof.
  unfold has. rewrite existsb_exists. split.
  - intros [x [I E]]. apply Nat.eqb_eq in E. subst. exact I.
  - intros I. exists k. split; [exact I|apply Nat.eqb_refl].
Qed.

Lemma nth_mapi {A B} (f : nat * option A -> option B) (sl : list (option A)) j : j < length sl ->
  nth j (map f (combine (seq 0 (length sl)) sl)) None = f (j, nth j sl None).
Proof.
  intros Hj. rewrite (nth_indep _ None (f (0, None))) by (rewrite map_length, combine_length, seq_length; lia).
  rewrite map_nth. rewrite combine_nth by (rewrite seq_length; reflexivity).
  rewrite seq_nth by lia. reflexivity.
Qed.

Lemma existsb_ext_in' {A} (f g : A -> bool) l : (forall a, In a l -> f a = g a) -> existsb f l = existsb g l.
Proof.
  induction l as [|x r IH]; intros H; [reflexivity|]. cbn. rewrite (H x (or_introl eq_refl)), IH; [reflexivity|].
  intros a Ia. apply H. right. exact Ia.
Qed.

Section Proof.
Variable s : sig.
Let names := sp_names s.
Hypothesis ND : NoDup names.

Lemma fold_none kws : fold_left (kw_step s names) kws None = None.
Proof. induction kws; cbn; auto. Qed.

Definition unknown (k : nat) : bool := match index_of k names with None => true | Some _ => false end.
Definition filled (sl : list (option nat)) (k : nat) : bool :=
  match index_of k names with
  | Some j => match nth j sl None with Some _ => true | None => false end
  | None => negb (s_kwarg s)
  end.

Lemma kw_fold_spec kws : NoDup kws -> forall sl kd, length sl = length names ->
  if existsb (filled sl) kws then fold_left (kw_step s names) kws (Some (sl, kd)) = None
  else exists sl',
    fold_left (kw_step s names) kws (Some (sl, kd)) = Some (sl', kd ++ map (fun k => (k, 200 + k)) (filter unknown kws)) /\
    length sl' = length sl /\
    forall j, j < length names ->
      nth j sl' None = if has (nth j names 0) kws then Some (200 + nth j names 0) else nth j sl None.
Proof.
  induction kws as [|k kws IH]; intros NDk sl kd Hlen.
  - cbn. exists sl. rewrite app_nil_r. auto.
  - inversion NDk as [|? ? Hk NDk']; subst. cbn [existsb fold_left]. unfold filled at 1.
    destruct (index_of k names) as [j|] eqn:Ek.
    + destruct (index_of_Some _ _ _ Ek) as [Hj Hnj].
      destruct (nth j sl None) as [v|] eqn:Ev.
      { assert (Estep : kw_step s names (Some (sl, kd)) k = None) by (unfold kw_step; rewrite Ek, Ev; reflexivity).
        rewrite Estep. cbn. apply fold_none. }
      assert (Estep : kw_step s names (Some (sl, kd)) k = Some (set_nth sl j (Some (200 + k)), kd))
        by (unfold kw_step; rewrite Ek, Ev; reflexivity).
      rewrite Estep. cbn [orb].
      set (sl1 := set_nth sl j (Some (200 + k))).
      assert (Hlen1 : length sl1 = length names) by (unfold sl1; rewrite set_nth_len; exact Hlen).
      assert (Hsame : existsb (filled sl1) kws = existsb (filled sl) kws).
      { apply existsb_ext_in'. intros k' Ik'. unfold filled.
        destruct (index_of k' names) as [j'|] eqn:Ek'; [|reflexivity].
        destruct (index_of_Some _ _ _ Ek') as [_ Hnj'].
        unfold sl1. rewrite nth_set_nth.
        destruct (j' =? j) eqn:Ejj; [|reflexivity]. apply Nat.eqb_eq in Ejj. subst j'. congruence. }
      specialize (IH NDk' sl1 kd Hlen1). rewrite Hsame in IH.
      destruct (existsb (filled sl) kws); [exact IH|].
      destruct IH as [sl' [Ef [Hl Hn]]]. exists sl'.
      split; [|split].
      * rewrite Ef. cbn [filter]. unfold unknown at 2. rewrite Ek. reflexivity.
      * rewrite Hl. unfold sl1. apply set_nth_len.
      * intros j0 Hj0. rewrite (Hn j0 Hj0). unfold has. cbn [existsb]. fold (has (nth j0 names 0) kws).
        destruct (Nat.eqb (nth j0 names 0) k) eqn:E0.
        -- apply Nat.eqb_eq in E0. assert (j0 = j).
           { apply (proj1 (NoDup_nth names 0) ND); auto; congruence. }
           subst j0. assert (Hf : has (nth j names 0) kws = false).
           { destruct (has (nth j names 0) kws) eqn:Hh; [|reflexivity]. apply has_In in Hh. congruence. }
           rewrite Hf. cbn [orb]. unfold sl1. rewrite nth_set_nth, Nat.eqb_refl.
           assert (T : (j <? length sl) = true) by (apply Nat.ltb_lt; lia). rewrite T. cbn. congruence.
        -- cbn [orb]. destruct (has (nth j0 names 0) kws); [reflexivity|].
           unfold sl1. rewrite nth_set_nth. destruct (j0 =? j) eqn:Ejj; [|reflexivity].
           apply Nat.eqb_eq in Ejj. subst j0. apply Nat.eqb_neq in E0. congruence.
    + assert (Estep : kw_step s names (Some (sl, kd)) k = if s_kwarg s then Some (sl, kd ++ [(k, 200 + k)]) else None)
        by (unfold kw_step; rewrite Ek; reflexivity).
      rewrite Estep. destruct (s_kwarg s) eqn:Ekw; cbn [negb orb]; [|apply fold_none].
      specialize (IH NDk' sl (kd ++ [(k, 200 + k)]) Hlen).
      destruct (existsb (filled sl) kws); [exact IH|].
      destruct IH as [sl' [Ef [Hl Hn]]]. exists sl'. split; [|split; [exact Hl|]].
      * rewrite Ef. cbn [filter]. unfold unknown at 2. rewrite Ek. cbn [map]. rewrite <- app_assoc. reflexivity.
      * intros j0 Hj0. rewrite (Hn j0 Hj0). unfold has. cbn [existsb]. fold (has (nth j0 names 0) kws).
        destruct (Nat.eqb (nth j0 names 0) k) eqn:E0; [|reflexivity].
        apply Nat.eqb_eq in E0. exfalso. apply (index_of_None _ _ Ek). rewrite <- E0. apply nth_In. exact Hj0.
Qed.

Theorem bind_model_spec nargs kws : NoDup kws -> bind_model s nargs kws = spec_bind s nargs kws.
Proof.
  intros NDk. unfold bind_model, spec_bind. fold (sp_argc s) (sp_names s) names (sp_n s nargs).
  set (argc := sp_argc s). set (n := sp_n s nargs). set (total := length names).
  assert (Hn : n <= argc) by (unfold n, sp_n; lia).
  assert (Hargc : argc <= total) by (unfold total, names, sp_names, argc, sp_argc; rewrite app_length; lia).
  set (sl0 := map (fun i => Some (100 + i)) (seq 0 n) ++ repeat None (total - n)).
  assert (Hl0 : length sl0 = length names).
  { unfold sl0. rewrite app_length, map_length, seq_length, repeat_length. fold total. lia. }
  assert (Hn0 : forall j, nth j sl0 None = if j <? n then Some (100 + j) else None).
  { intros j. unfold sl0. destruct (j <? n) eqn:E.
    - apply Nat.ltb_lt in E. rewrite app_nth1 by (rewrite map_length, seq_length; exact E).
      rewrite (nth_indep _ None (Some (100 + 0))) by (rewrite map_length, seq_length; exact E).
      rewrite (map_nth (fun i => Some (100 + i))). rewrite seq_nth by exact E. reflexivity.
    - apply Nat.ltb_ge in E. rewrite app_nth2 by (rewrite map_length, seq_length; exact E).
      destruct (nth_in_or_default (j - length (map (fun i => Some (100 + i)) (seq 0 n))) (repeat (@None nat) (total - n)) None) as [I|I];
        [apply repeat_spec in I|]; exact I. }
  assert (Hbad : existsb (filled sl0) kws = existsb (kw_error s nargs) kws).
  { apply existsb_ext_in'. intros k _. unfold filled, kw_error. fold names.
    destruct (index_of k names) as [j|]; [|reflexivity]. rewrite Hn0. fold n. destruct (j <? n); reflexivity. }
  pose proof (kw_fold_spec kws NDk sl0 [] Hl0) as F. rewrite Hbad in F.
  destruct (existsb (kw_error s nargs) kws) eqn:Eerr.
  - rewrite F. destruct ((argc <? nargs) && negb (s_vararg s)); reflexivity.
  - destruct F as [sl' [Ef [Hl' Hn']]]. rewrite Ef. cbn [app].
    destruct ((argc <? nargs) && negb (s_vararg s)); [reflexivity|].
    assert (Hnokw : forall j, j < total -> j < n -> has (nth j names 0) kws = false).
    { intros j Hj Hjn. destruct (has (nth j names 0) kws) eqn:Hh; [|reflexivity]. exfalso.
      apply has_In in Hh. assert (X : existsb (kw_error s nargs) kws = true).
      { apply existsb_exists. exists (nth j names 0). split; [exact Hh|]. unfold kw_error. fold names.
        rewrite index_of_nth by auto. fold n. apply Nat.ltb_lt. exact Hjn. }
      congruence. }
    assert (Hslots : fill_kw s names (fill_pos s names sl') = map (spec_slot s nargs kws) (seq 0 total)).
    { apply (nth_ext _ _ None None).
      - unfold fill_kw, fill_pos. repeat (rewrite map_length || rewrite combine_length || rewrite seq_length). fold total. lia.
      - intros j Hj.
        assert (Hjt : j < total).
        { unfold fill_kw, fill_pos in Hj. repeat (rewrite map_length in Hj || rewrite combine_length in Hj || rewrite seq_length in Hj). fold total in Hl'. lia. }
        assert (L1 : length (fill_pos s names sl') = length sl').
        { unfold fill_pos. rewrite map_length, combine_length, seq_length. lia. }
        unfold fill_kw. rewrite nth_mapi by lia.
        unfold fill_pos. rewrite nth_mapi by lia.
        rewrite (nth_indep (map (spec_slot s nargs kws) (seq 0 total)) None (spec_slot s nargs kws 0)) by (rewrite map_length, seq_length; exact Hjt).
        rewrite map_nth, seq_nth by exact Hjt. cbn [Nat.add].
        rewrite (Hn' j Hjt), Hn0. unfold spec_slot. fold names argc n (sp_argc s).
        destruct (j <? n) eqn:Ejn.
        + apply Nat.ltb_lt in Ejn. rewrite (Hnokw j Hjt Ejn). reflexivity.
        + destruct (has (nth j names 0) kws); [reflexivity|].
          fold argc. destruct (j <? argc) eqn:Eja.
          * apply Nat.ltb_lt in Eja. destruct (argc - s_ndefs s <=? j) eqn:Em; cbn [andb]; [reflexivity|].
            assert (T : (argc <=? j) = false) by (apply Nat.leb_gt; lia). rewrite T. reflexivity.
          * apply Nat.ltb_ge in Eja. rewrite andb_false_r.
            assert (T : (argc <=? j) = true) by (apply Nat.leb_le; lia). rewrite T. cbn [andb].
            unfold has. reflexivity. }
    rewrite Hslots. fold total. reflexivity.
Qed.
End Proof.
