(* endswith: a byte-level suffix test between encodings is the code-point suffix test *)
From Coq Require Import List Bool Arith NArith ZArith Lia ZifyN ZifyNat ZifyBool.
Import ListNotations.
From GP Require Import Base.Tactics Model.Utf8 Proofs.Utf8 Model.StrSearch Proofs.Utf8Prefix Proofs.StrSearch Proofs.StrCount.
Open Scope N_scope.

Lemma is_prefix_refl x : is_prefix x x = true.
Proof. induction x as [|a x IH]; simpl; auto. rewrite N.eqb_refl. exact IH. Qed.

Lemma is_prefix_same_len p l : is_prefix p l = true -> length p = length l -> p = l.
Proof.
  intros H Hl. destruct (is_prefix_split _ _ H) as [t ->]. rewrite app_length in Hl.
  destruct t; [rewrite app_nil_r; reflexivity|simpl in Hl; lia].
Qed.

Lemma encode_inj x y : Forall scalar x -> Forall scalar y -> encode x = encode y -> x = y.
Proof.
  intros Hx Hy E.
  assert (H1 : is_prefix x y = true) by (rewrite <- is_prefix_encode by auto; rewrite E; apply is_prefix_refl).
  assert (H2 : is_prefix y x = true) by (rewrite <- is_prefix_encode by auto; rewrite E; apply is_prefix_refl).
  destruct (is_prefix_split _ _ H1) as [t ->]. destruct (is_prefix_split _ _ H2) as [u Hu].
  apply (f_equal (@length N)) in Hu. rewrite !app_length in Hu.
  destruct t; [rewrite app_nil_r; reflexivity|simpl in Hu; lia].
Qed.

(* a suffix of an encoding that begins with a lead byte begins at a character boundary *)
Lemma suffix_boundary l0 tl : is_cont l0 = false -> forall w A, Forall scalar w ->
  A ++ l0 :: tl = encode w -> exists a b, w = a ++ b /\ A = encode a /\ l0 :: tl = encode b.
Proof.
  intros Hl0 w. induction w as [|c r IH]; intros A Hw E.
  - destruct A; discriminate.
  - inversion Hw as [|? ? Hc Hr]; subst.
    destruct (encode1_shape c Hc) as [lead [conts [Ec [Hl Hcs]]]].
    change (encode (c :: r)) with (encode1 c ++ encode r) in E. rewrite Ec in E.
    destruct A as [|a0 A'].
    + exists [], (c :: r). simpl. repeat split; auto.
      change (encode (c :: r)) with (encode1 c ++ encode r). rewrite Ec. exact E.
    + simpl in E. inversion E as [[Ea E']]. subst a0.
      apply app_eq_app in E'. destruct E' as [m [[E1 E2] | [E1 E2]]].
      * (* A' = conts ++ m *)
        destruct (IH m Hr (eq_sym E2)) as [a [b [-> [-> Hb]]]].
        exists (c :: a), b. repeat split; auto.
        change (encode (c :: a)) with (encode1 c ++ encode a). rewrite Ec, E1. reflexivity.
      * (* conts = A' ++ m, the rest of the suffix starts inside conts *)
        destruct m as [|m0 m].
        -- rewrite app_nil_r in E1. subst A'. simpl in E2.
           destruct (IH [] Hr E2) as [a [b [-> [Ha Hb]]]].
           exists (c :: a), b. repeat split; auto.
           change (encode (c :: a)) with (encode1 c ++ encode a). rewrite Ec, <- Ha, app_nil_r. reflexivity.
        -- simpl in E2. inversion E2; subst m0. rewrite E1 in Hcs. rewrite forallb_app in Hcs.
           apply andb_true_iff in Hcs. destruct Hcs as [_ Hm]. simpl in Hm. rewrite Hl0 in Hm. discriminate.
Qed.

Theorem is_suffix_encode sub w : Forall scalar sub -> Forall scalar w ->
  is_suffix (encode sub) (encode w) = is_suffix sub w.
Proof.
  intros Hs Hw.
  destruct (is_suffix sub w) eqn:Ecp.
  - unfold is_suffix in *. apply andb_true_iff in Ecp. destruct Ecp as [H1 H2]. apply Nat.leb_le in H1.
    apply is_prefix_same_len in H2; [|rewrite skipn_length; lia].
    assert (Ew : w = firstn (length w - length sub) w ++ sub) by (pose proof (firstn_skipn (length w - length sub) w) as F; rewrite <- H2 in F; symmetry; exact F).
    rewrite Ew. set (a := firstn (length w - length sub) w).
    unfold encode. rewrite flat_map_app. fold (encode a) (encode sub). rewrite app_length.
    replace (length (encode a) + length (encode sub) - length (encode sub))%nat with (length (encode a)) by lia.
    rewrite skipn_app, skipn_all, Nat.sub_diag. simpl. rewrite is_prefix_refl.
    rewrite andb_true_r. apply Nat.leb_le. lia.
  - destruct (is_suffix (encode sub) (encode w)) eqn:Eb; [exfalso|reflexivity].
    unfold is_suffix in Eb. apply andb_true_iff in Eb. destruct Eb as [H1 H2]. apply Nat.leb_le in H1.
    apply is_prefix_same_len in H2; [|rewrite skipn_length; lia].
    destruct sub as [|s0 sub'].
    { unfold is_suffix in Ecp. simpl in Ecp. discriminate. }
    inversion Hs as [|? ? Hs0 Hs']; subst.
    destruct (encode1_shape s0 Hs0) as [l0 [c0 [E0 [Hl0 _]]]].
    assert (En : encode (s0 :: sub') = l0 :: c0 ++ encode sub') by (change (encode (s0 :: sub')) with (encode1 s0 ++ encode sub'); rewrite E0; reflexivity).
    pose proof (firstn_skipn (length (encode w) - length (encode (s0 :: sub'))) (encode w)) as Hsplit.
    rewrite <- H2 in Hsplit. rewrite En in Hsplit.
    destruct (suffix_boundary l0 (c0 ++ encode sub') Hl0 w _ Hw Hsplit) as [a [b [-> [_ Hb]]]].
    rewrite <- En in Hb. apply Forall_app in Hw. destruct Hw as [_ Hbw].
    apply encode_inj in Hb; auto. subst b.
    unfold is_suffix in Ecp. rewrite app_length in Ecp.
    replace (length a + length (s0 :: sub') - length (s0 :: sub'))%nat with (length a) in Ecp by lia.
    rewrite skipn_app, skipn_all, Nat.sub_diag in Ecp. simpl skipn in Ecp. simpl app in Ecp.
    rewrite is_prefix_refl in Ecp. rewrite andb_true_r in Ecp. apply Nat.leb_gt in Ecp. lia.
Qed.

Open Scope Z_scope.

Theorem endswith_encode s sub beg end_ : Forall scalar s -> Forall scalar sub ->
  endswith_model (encode s) (encode sub) beg end_ = cp_endswith s sub beg end_.
Proof.
  intros Hs Hsub. unfold endswith_model, cp_endswith. rewrite rune_count_encode by auto.
  set (size := Z.of_nat (length s)). set (e := clip_end end_ size). set (b := clip_beg beg size).
  destruct ((b >? size) || (e <? b)) eqn:Ebe; [reflexivity|].
  apply orb_false_iff in Ebe. destruct Ebe as [E1 E2].
  assert (Hb : 0 <= b) by (unfold b, clip_beg; destruct (beg <? 0) eqn:?; lia).
  assert (He : e <= size) by (unfold e, clip_end; destruct (end_ >? size) eqn:?; [lia|]; destruct (end_ <? 0) eqn:?; lia).
  rewrite str_slice_encode by (auto; lia). unfold window.
  apply is_suffix_encode; auto. apply Forall_firstn', Forall_skipn'; exact Hs.
Qed.
