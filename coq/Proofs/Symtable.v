(* The result of AnalyzeBlock's loop over the symbol map does not depend on the order in
   which Go happens to iterate the map. *)
From Coq Require Import List Bool Arith NArith Permutation.
Import ListNotations.
From GP Require Import Model.Symtable.

(* observational equality of block states *)
Definition beq (a b : bst) : Prop :=
  (forall x, names a x = names b x) /\ blk_free a = blk_free b /\ rejected a = rejected b.

Lemma beq_refl a : beq a a. Proof. unfold beq. auto. Qed.
Lemma beq_trans a b c : beq a b -> beq b c -> beq a c.
Proof. intros (A1&A2&A3) (B1&B2&B3). unfold beq. split; [intros x; rewrite A1; apply B1|split; congruence]. Qed.

Lemma step_beq bn ne a b s : beq a b -> beq (block_step bn ne a s) (block_step bn ne b s).
Proof.
  intros (A1&A2&A3). unfold block_step. rewrite (A1 (fst s)).
  destruct (analyze_name (snd s) bn ne (names b (fst s))) as [[s' f]|]; repeat split; simpl; auto; try congruence.
  intros x. destruct (Nat.eqb x (fst s)); auto.
Qed.

Lemma fold_beq bn ne l : forall a b, beq a b -> beq (fold_left (block_step bn ne) l a) (fold_left (block_step bn ne) l b).
Proof. induction l as [|s r IH]; intros a b H; simpl; auto. apply IH. apply step_beq. auto. Qed.

(* two entries with different names commute *)
Lemma step_commute bn ne b s1 s2 : fst s1 <> fst s2 ->
  beq (block_step bn ne (block_step bn ne b s1) s2) (block_step bn ne (block_step bn ne b s2) s1).
Proof.
  intros Hne. unfold block_step at 2 4.
  destruct (analyze_name (snd s1) bn ne (names b (fst s1))) as [[a1 f1]|] eqn:E1;
  destruct (analyze_name (snd s2) bn ne (names b (fst s2))) as [[a2 f2]|] eqn:E2; unfold block_step; simpl.
  - assert (N1 : Nat.eqb (fst s2) (fst s1) = false) by (apply Nat.eqb_neq; auto).
    assert (N2 : Nat.eqb (fst s1) (fst s2) = false) by (apply Nat.eqb_neq; auto).
    rewrite N1, N2, E1, E2. repeat split; simpl; auto.
    + intros x. destruct (Nat.eqb x (fst s2)) eqn:X2, (Nat.eqb x (fst s1)) eqn:X1; auto.
      apply Nat.eqb_eq in X1, X2. congruence.
    + destruct (blk_free b), f1, f2; reflexivity.
  - assert (N1 : Nat.eqb (fst s2) (fst s1) = false) by (apply Nat.eqb_neq; auto).
    rewrite N1, E1, E2. repeat split; simpl; auto.
  - assert (N2 : Nat.eqb (fst s1) (fst s2) = false) by (apply Nat.eqb_neq; auto).
    rewrite N2, E1, E2. repeat split; simpl; auto.
  - rewrite E1, E2. repeat split; simpl; auto.
Qed.

Theorem analyze_block_order_independent bn ne syms syms' :
  Permutation syms syms' -> NoDup (map fst syms) ->
  forall b, beq (analyze_block bn ne b syms) (analyze_block bn ne b syms').
Proof.
  unfold analyze_block. intros P. induction P as [| x l l' P IH | x y l | l l' l'' P1 IH1 P2 IH2]; intros ND b.
  - apply beq_refl.
  - simpl. apply IH. inversion ND; auto.
  - simpl. apply fold_beq. apply step_commute. simpl in ND. inversion ND as [|? ? Hn _]; subst.
    intros E. apply Hn. left. auto.
  - eapply beq_trans; [apply IH1; auto|]. apply IH2.
    eapply Permutation_NoDup; [|exact ND]. apply Permutation_map. auto.
Qed.
