(* The code compile.go emits for an expression, run by the VM, evaluates every operand exactly
   once, left to right, applies each operator after its operands, short-circuits and chains
   comparisons as Python specifies -- for every expression, whatever the operators compute. *)
From Coq Require Import List ZArith Bool Arith Lia.
Import ListNotations.
From GP Require Import Model.ExprOrder.

Scheme expr_mut := Induction for expr Sort Prop
with chain_mut := Induction for chain Sort Prop.

Section Proof.
  Variable leafval : nat -> Z.
  Variable prim : nat -> list Z -> Z.
  Variable nameval : nat -> Z.
  Notation eval := (eval leafval prim).
  Notation eval_chain := (eval_chain leafval prim).
  Notation exec := (exec leafval prim nameval).
  Notation run_stmt := (run_stmt leafval prim nameval).
  Notation store_events := (store_events leafval prim).
  Notation eval_operand := (eval_operand leafval prim).
  Notation eval_operands := (eval_operands leafval prim).
  Notation eval_nary := (eval_nary leafval prim).

  Lemma eval_prim1 t a : eval (Prim1 t a) = let '(va, ea) := eval a in (prim t [va], ea ++ [EPrim t [va]]).
  Proof. reflexivity. Qed.
  Lemma eval_prim2 t a b : eval (Prim2 t a b) = let '(va, ea) := eval a in let '(vb, eb) := eval b in (prim t [va; vb], ea ++ eb ++ [EPrim t [va; vb]]).
  Proof. reflexivity. Qed.
  Lemma eval_prim3 t a b c : eval (Prim3 t a b c) = let '(va, ea) := eval a in let '(vb, eb) := eval b in let '(vc, ec) := eval c in
                       (prim t [va; vb; vc], ea ++ eb ++ ec ++ [EPrim t [va; vb; vc]]).
  Proof. reflexivity. Qed.
  Lemma eval_and a b : eval (And a b) = let '(va, ea) := eval a in if truthy va then let '(vb, eb) := eval b in (vb, ea ++ eb) else (va, ea).
  Proof. reflexivity. Qed.
  Lemma eval_or a b : eval (Or a b) = let '(va, ea) := eval a in if truthy va then (va, ea) else let '(vb, eb) := eval b in (vb, ea ++ eb).
  Proof. reflexivity. Qed.
  Lemma eval_ife c a b : eval (IfE c a b) = let '(vc, ec) := eval c in
                   if truthy vc then let '(va, ea) := eval a in (va, ec ++ ea) else let '(vb, eb) := eval b in (vb, ec ++ eb).
  Proof. reflexivity. Qed.
  Lemma eval_cmp a c : eval (Cmp a c) = let '(va, ea) := eval a in
                 match c with
                 | CEnd => (va, ea)
                 | CMore _ _ _ => let '(r, er) := eval_chain va c in (r, ea ++ er)
                 end.
  Proof. reflexivity. Qed.
  Lemma eval_chain_more left op b rest : eval_chain left (CMore op b rest) =
        let '(vb, eb) := eval b in
        let r := prim op [left; vb] in
        match rest with
        | CEnd => (r, eb ++ [EPrim op [left; vb]])
        | CMore _ _ _ =>
            if truthy r then let '(r2, e2) := eval_chain vb rest in (r2, eb ++ [EPrim op [left; vb]] ++ e2)
            else (r, eb ++ [EPrim op [left; vb]])
        end.
  Proof. reflexivity. Qed.

  Lemma skipn_len {A} (l r : list A) : skipn (length l) (l ++ r) = r.
  Proof. induction l; simpl; auto. Qed.

  Definition P (e : expr) : Prop := forall rest stk log fuel,
    exec (length (compile e) + fuel) (compile e ++ rest) stk log =
    exec fuel rest (fst (eval e) :: stk) (log ++ snd (eval e)).

  Definition Q (c : chain) : Prop := forall left rest stk log fuel, c <> CEnd ->
    exec (length (cmp_tail c) + 3 + fuel) (cmp_tail c ++ IJumpForward 2 :: IRotTwo :: IPopTop :: rest) (left :: stk) log =
    exec fuel rest (fst (eval_chain left c) :: stk) (log ++ snd (eval_chain left c)).

  (* run a sub-expression that sits at the head of the code *)
  Lemma run_sub e : P e -> forall rest stk log n,
    (length (compile e) <= n)%nat ->
    exec n (compile e ++ rest) stk log = exec (n - length (compile e)) rest (fst (eval e) :: stk) (log ++ snd (eval e)).
  Proof.
    intros H rest stk log n L. replace n with (length (compile e) + (n - length (compile e)))%nat at 1 by lia. apply H.
  Qed.

  Ltac step := match goal with |- context [exec (S ?f) (?i :: ?r) ?s ?l] => change (exec (S f) (i :: r) s l) with (exec (S f) (i :: r) s l); simpl exec end.

  Lemma P_leaf i : P (Leaf i).
  Proof. intros rest stk log fuel. simpl. reflexivity. Qed.

  Lemma P_prim1 t a : P a -> P (Prim1 t a).
  Proof.
    intros Ha rest stk log fuel. rewrite eval_prim1. simpl compile. destruct (eval a) as [va ea] eqn:Ea.
    rewrite <- app_assoc, app_length. simpl.
    rewrite (run_sub a Ha) by lia. rewrite Ea. simpl.
    replace (length (compile a) + 1 + fuel - length (compile a))%nat with (S fuel) by lia.
    simpl. rewrite <- app_assoc. reflexivity.
  Qed.

  Lemma P_prim2 t a b : P a -> P b -> P (Prim2 t a b).
  Proof.
    intros Ha Hb rest stk log fuel. rewrite eval_prim2. simpl compile. destruct (eval a) as [va ea] eqn:Ea. destruct (eval b) as [vb eb] eqn:Eb.
    rewrite <- !app_assoc, !app_length. simpl.
    rewrite (run_sub a Ha) by lia. rewrite Ea. simpl.
    rewrite (run_sub b Hb) by lia. rewrite Eb. simpl.
    replace (length (compile a) + (length (compile b) + 1) + fuel - length (compile a) - length (compile b))%nat with (S fuel) by lia.
    simpl. rewrite <- !app_assoc. reflexivity.
  Qed.

  Lemma P_prim3 t a b c : P a -> P b -> P c -> P (Prim3 t a b c).
  Proof.
    intros Ha Hb Hc rest stk log fuel. rewrite eval_prim3. simpl compile.
    destruct (eval a) as [va ea] eqn:Ea. destruct (eval b) as [vb eb] eqn:Eb. destruct (eval c) as [vc ec] eqn:Ec.
    rewrite <- !app_assoc, !app_length. simpl.
    rewrite (run_sub a Ha) by lia. rewrite Ea. simpl.
    rewrite (run_sub b Hb) by lia. rewrite Eb. simpl.
    rewrite (run_sub c Hc) by lia. rewrite Ec. simpl.
    replace (length (compile a) + (length (compile b) + (length (compile c) + 1)) + fuel - length (compile a) - length (compile b) - length (compile c))%nat with (S fuel) by lia.
    simpl. rewrite <- !app_assoc. reflexivity.
  Qed.

  Lemma P_and a b : P a -> P b -> P (And a b).
  Proof.
    intros Ha Hb rest stk log fuel. rewrite eval_and. simpl compile. destruct (eval a) as [va ea] eqn:Ea.
    rewrite <- app_assoc, app_length. simpl.
    rewrite (run_sub a Ha) by lia. rewrite Ea. simpl.
    replace (length (compile a) + S (length (compile b)) + fuel - length (compile a))%nat with (S (length (compile b) + fuel)) by lia.
    simpl. destruct (truthy va).
    - destruct (eval b) as [vb eb] eqn:Eb. rewrite (Hb rest stk (log ++ ea) fuel). rewrite Eb. simpl. rewrite <- app_assoc. reflexivity.
    - rewrite skipn_len. replace (length (compile b) + fuel - length (compile b))%nat with fuel by lia. reflexivity.
  Qed.

  Lemma P_or a b : P a -> P b -> P (Or a b).
  Proof.
    intros Ha Hb rest stk log fuel. rewrite eval_or. simpl compile. destruct (eval a) as [va ea] eqn:Ea.
    rewrite <- app_assoc, app_length. simpl.
    rewrite (run_sub a Ha) by lia. rewrite Ea. simpl.
    replace (length (compile a) + S (length (compile b)) + fuel - length (compile a))%nat with (S (length (compile b) + fuel)) by lia.
    simpl. destruct (truthy va).
    - rewrite skipn_len. replace (length (compile b) + fuel - length (compile b))%nat with fuel by lia. reflexivity.
    - destruct (eval b) as [vb eb] eqn:Eb. rewrite (Hb rest stk (log ++ ea) fuel). rewrite Eb. simpl. rewrite <- app_assoc. reflexivity.
  Qed.

  Lemma P_ife c a b : P c -> P a -> P b -> P (IfE c a b).
  Proof.
    intros Hc Ha Hb rest stk log fuel. rewrite eval_ife. simpl compile. destruct (eval c) as [vc ec] eqn:Ec.
    rewrite <- !app_assoc, !app_length. simpl. rewrite !app_length. simpl.
    rewrite (run_sub c Hc) by lia. rewrite Ec. simpl.
    replace (length (compile c) + S (length (compile a) + S (length (compile b))) + fuel - length (compile c))%nat
      with (S (length (compile a) + S (length (compile b) + fuel))) by lia.
    simpl. destruct (truthy vc).
    - destruct (eval a) as [va ea] eqn:Ea. rewrite <- app_assoc. simpl.
      rewrite (Ha (IJumpForward (length (compile b)) :: compile b ++ rest) stk (log ++ ec) (S (length (compile b) + fuel))).
      rewrite Ea. simpl. rewrite skipn_len. replace (length (compile b) + fuel - length (compile b))%nat with fuel by lia.
      rewrite <- app_assoc. reflexivity.
    - destruct (eval b) as [vb eb] eqn:Eb.
      replace ((compile a ++ IJumpForward (length (compile b)) :: compile b) ++ rest) with ((compile a ++ [IJumpForward (length (compile b))]) ++ compile b ++ rest)
        by (rewrite <- !app_assoc; reflexivity).
      replace (length (compile a) + 1)%nat with (length (compile a ++ [IJumpForward (length (compile b))])) by (rewrite app_length; simpl; lia).
      rewrite skipn_len. rewrite app_length. simpl length.
      replace (length (compile a) + S (length (compile b) + fuel) - (length (compile a) + 1))%nat with (length (compile b) + fuel)%nat by lia.
      rewrite (Hb rest stk (log ++ ec) fuel). rewrite Eb. simpl. rewrite <- app_assoc. reflexivity.
  Qed.

  Lemma cmp_tail_more op b rest : cmp_tail (CMore op b rest) =
        match rest with
        | CEnd => compile b ++ [IPrim op 2]
        | CMore _ _ _ =>
            let t := cmp_tail rest in
            compile b ++ [IDupTop; IRotThree; IPrim op 2; IJumpIfFalseOrPop (length t + 1)] ++ t
        end.
  Proof. reflexivity. Qed.

  Lemma Q_more op b rest : P b -> Q rest -> Q (CMore op b rest).
  Proof.
    intros Hb Hr left tl stk log fuel _. rewrite eval_chain_more, cmp_tail_more.
    destruct (eval b) as [vb eb] eqn:Eb.
    destruct rest as [|op2 e2 r2].
    - (* last comparison of the chain *)
      rewrite <- app_assoc, app_length. simpl length. simpl app.
      rewrite (run_sub b Hb) by lia. rewrite Eb. simpl fst. simpl snd.
      replace (length (compile b) + 1 + 3 + fuel - length (compile b))%nat with (S (S (S (S fuel)))) by lia.
      simpl. rewrite <- app_assoc. replace (fuel - 0)%nat with fuel by lia. reflexivity.
    - set (t := cmp_tail (CMore op2 e2 r2)) in *. cbv zeta.
      rewrite <- !app_assoc, !app_length. simpl length. simpl app.
      rewrite (run_sub b Hb) by lia. rewrite Eb. simpl fst. simpl snd.
      match goal with |- exec ?f _ _ _ = _ => replace f with (S (S (S (S (length t + 3 + fuel))))) by lia end.
      simpl. destruct (truthy (prim op [left; vb])) eqn:T.
      + specialize (Hr vb tl stk ((log ++ eb) ++ [EPrim op [left; vb]]) fuel ltac:(discriminate)).
        fold t in Hr. rewrite Hr.
        destruct (eval_chain vb (CMore op2 e2 r2)) as [r2' e2'] eqn:Ec. simpl. rewrite <- !app_assoc. reflexivity.
      + replace (length t + 1)%nat with (length (t ++ [IJumpForward 2])) by (rewrite app_length; simpl; lia).
        replace (t ++ IJumpForward 2 :: IRotTwo :: IPopTop :: tl) with ((t ++ [IJumpForward 2]) ++ IRotTwo :: IPopTop :: tl) by (rewrite <- app_assoc; reflexivity).
        rewrite skipn_len. rewrite app_length. simpl length.
        replace (length t + 3 + fuel - (length t + 1))%nat with (S (S fuel)) by lia.
        simpl. rewrite <- !app_assoc. reflexivity.
  Qed.

  Lemma Q_end : Q CEnd.
  Proof. intros left tl stk log fuel H. congruence. Qed.

  Lemma P_cmp a c : P a -> Q c -> (forall op b, c = CMore op b CEnd -> P b) -> P (Cmp a c).
  Proof.
    intros Ha Hc Hb1 rest stk log fuel. rewrite eval_cmp. destruct (eval a) as [va ea] eqn:Ea.
    destruct c as [|op b r].
    - simpl compile. rewrite (Ha rest stk log fuel). rewrite Ea. reflexivity.
    - destruct r as [|op2 e2 r2].
      + (* a single comparison: no cleanup code *)
        specialize (Hb1 op b eq_refl). rewrite eval_chain_more. destruct (eval b) as [vb eb] eqn:Eb.
        simpl compile. rewrite <- !app_assoc, !app_length. simpl length.
        rewrite (run_sub a Ha) by lia. rewrite Ea. simpl fst. simpl snd.
        rewrite (run_sub b Hb1) by lia. rewrite Eb. simpl fst. simpl snd.
        replace (length (compile a) + (length (compile b) + 1) + fuel - length (compile a) - length (compile b))%nat with (S fuel) by lia.
        simpl. rewrite <- !app_assoc. reflexivity.
      + change (compile (Cmp a (CMore op b (CMore op2 e2 r2)))) with (compile a ++ cmp_tail (CMore op b (CMore op2 e2 r2)) ++ [IJumpForward 2; IRotTwo; IPopTop]).
        remember (CMore op b (CMore op2 e2 r2)) as c eqn:Hcdef.
        assert (Hne : c <> CEnd) by (subst c; discriminate).
        rewrite <- !app_assoc, !app_length. simpl length.
        rewrite (run_sub a Ha) by lia. rewrite Ea. simpl fst. simpl snd.
        match goal with |- exec ?f _ _ _ = _ => replace f with (length (cmp_tail c) + 3 + fuel)%nat by lia end.
        simpl app. rewrite (Hc va rest stk (log ++ ea) fuel Hne).
        destruct (eval_chain va c) as [r er]. simpl. rewrite <- app_assoc. reflexivity.
  Qed.

  (* every expression: running its code leaves exactly its value on the stack and appends exactly
     its events, in order, to the log; the instruction budget is the length of the code *)
  Theorem compile_correct : forall e, P e.
  Proof.
    apply (expr_mut P (fun c => Q c /\ forall op b r, c = CMore op b r -> P b)); intros.
    - apply P_leaf. - apply P_prim1; auto. - apply P_prim2; auto. - apply P_prim3; auto.
    - apply P_and; auto. - apply P_or; auto. - apply P_ife; auto.
    - destruct H0 as [HQ HP]. apply P_cmp; auto. intros op b E. eapply HP; eauto.
    - split; [apply Q_end|]. intros op b r E. discriminate.
    - destruct H0 as [HQ HP]. split; [apply Q_more; auto|]. intros op' b' r' E. inversion E; subst. auto.
  Qed.

  (* ---- n-ary forms *)
  Lemma operands_correct : forall os rest stk log fuel,
    exec (length (flat_map compile_operand os) + fuel) (flat_map compile_operand os ++ rest) stk log =
    exec fuel rest (rev (fst (eval_operands os)) ++ stk) (log ++ snd (eval_operands os)).
  Proof.
    induction os as [|o r IH]; intros rest stk log fuel.
    - simpl. rewrite app_nil_r. reflexivity.
    - cbn [flat_map eval_operands]. destruct o as [e|k]; cbn [compile_operand eval_operand].
      + rewrite <- app_assoc, app_length, <- Nat.add_assoc.
        rewrite (compile_correct e (flat_map compile_operand r ++ rest) stk log (length (flat_map compile_operand r) + fuel)).
        rewrite IH. destruct (eval e) as [v ev]. destruct (eval_operands r) as [vs es]. cbn [fst snd rev].
        rewrite <- !app_assoc. reflexivity.
      + cbn [app length Nat.add exec]. rewrite IH. destruct (eval_operands r) as [vs es]. cbn [fst snd rev].
        cbn [app]. rewrite <- ?app_assoc. reflexivity.
  Qed.

  Lemma pop_args_rev vs stk : pop_args (length vs) (rev vs ++ stk) = Some (vs, stk).
  Proof.
    unfold pop_args.
    assert (E : Nat.leb (length vs) (length (rev vs ++ stk)) = true) by (apply Nat.leb_le; rewrite app_length, rev_length; lia).
    rewrite E. f_equal. f_equal.
    - replace (length vs) with (length (rev vs)) by apply rev_length.
      rewrite firstn_app, Nat.sub_diag, firstn_all. cbn [firstn]. rewrite app_nil_r. apply rev_involutive.
    - replace (length vs) with (length (rev vs)) by apply rev_length.
      rewrite skipn_app, Nat.sub_diag, skipn_all. reflexivity.
  Qed.

  Lemma eval_operands_length os : length (fst (eval_operands os)) = length os.
  Proof.
    induction os as [|o r IH]; [reflexivity|]. cbn [eval_operands]. destruct (eval_operand o). destruct (eval_operands r).
    cbn [fst length] in *. lia.
  Qed.

  (* the code of an n-ary form evaluates the operands once each, in emission order, then applies the primitive *)
  Theorem compile_nary_correct tag os : forall rest stk log fuel,
    exec (length (compile_nary tag os) + fuel) (compile_nary tag os ++ rest) stk log =
    exec fuel rest (fst (eval_nary tag os) :: stk) (log ++ snd (eval_nary tag os)).
  Proof.
    intros rest stk log fuel. unfold compile_nary, eval_nary.
    rewrite <- app_assoc, app_length. cbn [length app]. rewrite <- Nat.add_assoc.
    rewrite operands_correct. pose proof (eval_operands_length os) as L.
    destruct (eval_operands os) as [vs es]. cbn [fst snd] in *.
    cbn [Nat.add exec]. rewrite <- L, pop_args_rev. rewrite <- app_assoc. reflexivity.
  Qed.

  (* a whole expression, run from an empty stack and log *)
  Corollary run_expression e : exec (length (compile e)) (compile e) [] [] = Some ([fst (eval e)], snd (eval e)).
  Proof.
    pose proof (compile_correct e [] [] [] 0%nat) as H. rewrite Nat.add_0_r, app_nil_r in H. rewrite H. reflexivity.
  Qed.

  (* ---- "exactly once, left to right": without short-circuit forms the leaves are evaluated in
     their textual order, each once *)
  Fixpoint leaves (e : expr) : list nat :=
    match e with
    | Leaf i => [i]
    | Prim1 _ a => leaves a
    | Prim2 _ a b => leaves a ++ leaves b
    | Prim3 _ a b c => leaves a ++ leaves b ++ leaves c
    | And a b | Or a b => leaves a ++ leaves b
    | IfE c a b => leaves c ++ leaves a ++ leaves b
    | Cmp a c => leaves a ++ chain_leaves c
    end
  with chain_leaves (c : chain) : list nat :=
    match c with CEnd => [] | CMore _ b r => leaves b ++ chain_leaves r end.
  Fixpoint strict (e : expr) : bool :=
    match e with
    | Leaf _ => true
    | Prim1 _ a => strict a
    | Prim2 _ a b => strict a && strict b
    | Prim3 _ a b c => strict a && strict b && strict c
    | And _ _ | Or _ _ | IfE _ _ _ => false
    | Cmp a c => strict a && match c with CEnd => true | CMore _ b CEnd => strict b | _ => false end
    end.
  Definition leaf_ids (l : list event) : list nat := flat_map (fun ev => match ev with ELeaf i => [i] | _ => [] end) l.
  Lemma leaf_ids_app a b : leaf_ids (a ++ b) = leaf_ids a ++ leaf_ids b.
  Proof. unfold leaf_ids. apply flat_map_app. Qed.

  Theorem strict_evaluates_each_leaf_once_in_order : forall e, strict e = true -> leaf_ids (snd (eval e)) = leaves e.
  Proof.
    apply (expr_mut (fun e => strict e = true -> leaf_ids (snd (eval e)) = leaves e)
                    (fun c => forall op b r, c = CMore op b r -> strict b = true -> leaf_ids (snd (eval b)) = leaves b)); intros.
    - reflexivity.
    - rewrite eval_prim1. simpl in *. destruct (eval a) as [va ea]. simpl in *. rewrite leaf_ids_app, H by auto. simpl. apply app_nil_r.
    - rewrite eval_prim2. simpl in *. apply andb_true_iff in H1. destruct H1 as [S1 S2].
      destruct (eval a) as [va ea]. destruct (eval b) as [vb eb]. simpl in *.
      rewrite !leaf_ids_app, H, H0 by auto. simpl. rewrite app_nil_r. reflexivity.
    - rewrite eval_prim3. simpl in *. apply andb_true_iff in H2. destruct H2 as [S12 S3]. apply andb_true_iff in S12. destruct S12 as [S1 S2].
      destruct (eval a) as [va ea]. destruct (eval b) as [vb eb]. destruct (eval c) as [vc ec]. simpl in *.
      rewrite !leaf_ids_app, H, H0, H1 by auto. simpl. rewrite app_nil_r. reflexivity.
    - simpl in H1. discriminate.
    - simpl in H1. discriminate.
    - simpl in H2. discriminate.
    - rewrite eval_cmp. simpl strict in H1. apply andb_true_iff in H1. destruct H1 as [S1 S2].
      destruct (eval a) as [va ea] eqn:Ea. specialize (H S1). simpl in H.
      destruct c as [|op b [|op2 e2 r2]]; try discriminate.
      + simpl. rewrite app_nil_r. auto.
      + rewrite eval_chain_more. specialize (H0 op b CEnd eq_refl S2).
        destruct (eval b) as [vb eb]. simpl in *. rewrite !leaf_ids_app, H, H0. simpl. rewrite !app_nil_r. reflexivity.
    - discriminate.
    - inversion H1; subst. auto.
  Qed.

  (* ---- assignment statements *)
  Lemma store_correct t v rest stk log fuel :
    exec (length (store_code t) + fuel) (store_code t ++ rest) (v :: stk) log = exec fuel rest stk (log ++ store_events t v).
  Proof.
    destruct t as [n|a i|a n]; simpl store_code; unfold ExprOrder.store_events.
    - simpl. reflexivity.
    - destruct (eval a) as [va ea] eqn:Ea. destruct (eval i) as [vi ei] eqn:Ei.
      rewrite <- !app_assoc, !app_length. simpl length.
      rewrite (run_sub a (compile_correct a)) by lia. rewrite Ea. simpl fst. simpl snd.
      rewrite (run_sub i (compile_correct i)) by lia. rewrite Ei. simpl fst. simpl snd.
      match goal with |- exec ?f _ _ _ = _ => replace f with (S fuel) by lia end.
      simpl. rewrite <- ?app_assoc. reflexivity.
    - destruct (eval a) as [va ea] eqn:Ea.
      rewrite <- !app_assoc, !app_length. simpl length.
      rewrite (run_sub a (compile_correct a)) by lia. rewrite Ea. simpl fst. simpl snd.
      match goal with |- exec ?f _ _ _ = _ => replace f with (S fuel) by lia end.
      simpl. rewrite <- ?app_assoc. reflexivity.
  Qed.

  Lemma stores_correct ts v : forall rest stk log fuel,
    exec (length (flat_map (fun t => IDupTop :: store_code t) ts) + fuel) (flat_map (fun t => IDupTop :: store_code t) ts ++ rest) (v :: stk) log =
    exec fuel rest (v :: stk) (log ++ flat_map (fun t => store_events t v) ts).
  Proof.
    induction ts as [|t r IH]; intros rest stk log fuel; simpl.
    - rewrite app_nil_r. reflexivity.
    - rewrite app_length, <- app_assoc. 
      replace (length (store_code t) + length (flat_map (fun t0 => IDupTop :: store_code t0) r) + fuel)%nat
        with (length (store_code t) + (length (flat_map (fun t0 => IDupTop :: store_code t0) r) + fuel))%nat by lia.
      rewrite store_correct. rewrite IH. rewrite <- app_assoc. reflexivity.
  Qed.

  (* every assignment / augmented assignment: the emitted code, run from an empty stack, performs
     exactly Python's events in Python's order and leaves the stack empty *)
  Theorem stmt_correct s : exec (length (compile_stmt s)) (compile_stmt s) [] [] = Some ([], run_stmt s).
  Proof.
    destruct s as [ts last v|n op v|a i op v|a n op v]; simpl compile_stmt; unfold ExprOrder.run_stmt.
    - destruct (eval v) as [vv ev] eqn:Ev.
      rewrite !app_length.
      rewrite (run_sub v (compile_correct v)) by lia. rewrite Ev. simpl fst. simpl snd.
      match goal with |- exec ?f _ _ _ = _ => replace f with (length (flat_map (fun t => IDupTop :: store_code t) ts) + (length (store_code last) + 0))%nat by lia end.
      rewrite stores_correct.
      pose proof (store_correct last vv [] [] (ev ++ flat_map (fun t => store_events t vv) ts) 0%nat) as H.
      rewrite app_nil_r in H. change (([] ++ ev) ++ flat_map (fun t => store_events t vv) ts) with (ev ++ flat_map (fun t => store_events t vv) ts).
      rewrite H. simpl. rewrite <- app_assoc. reflexivity.
    - destruct (eval v) as [vv ev] eqn:Ev. simpl length. rewrite app_length. simpl length.
      cbn [ExprOrder.exec]. rewrite (run_sub v (compile_correct v)) by lia. rewrite Ev. simpl fst. simpl snd.
      match goal with |- exec ?f _ _ _ = _ => replace f with 2%nat by lia end.
      simpl. rewrite <- ?app_assoc. reflexivity.
    - destruct (eval a) as [va ea] eqn:Ea. destruct (eval i) as [vi ei] eqn:Ei. destruct (eval v) as [vv ev] eqn:Ev.
      rewrite <- ?app_assoc, ?app_length. simpl length.
      rewrite (run_sub a (compile_correct a)) by lia. rewrite Ea. simpl fst. simpl snd.
      rewrite (run_sub i (compile_correct i)) by lia. rewrite Ei. simpl fst. simpl snd.
      rewrite ?app_length. simpl length.
      match goal with |- exec ?f _ _ _ = _ => replace f with (S (S (length (compile v) + 3))) by lia end.
      simpl app. cbn [ExprOrder.exec pop_args Nat.leb length firstn skipn rev app].
      rewrite (run_sub v (compile_correct v)) by lia. rewrite Ev. simpl fst. simpl snd.
      match goal with |- exec ?f _ _ _ = _ => replace f with 3%nat by lia end.
      simpl. rewrite <- ?app_assoc. reflexivity.
    - destruct (eval a) as [va ea] eqn:Ea. destruct (eval v) as [vv ev] eqn:Ev.
      rewrite <- ?app_assoc, ?app_length. simpl length.
      rewrite (run_sub a (compile_correct a)) by lia. rewrite Ea. simpl fst. simpl snd.
      rewrite ?app_length. simpl length.
      match goal with |- exec ?f _ _ _ = _ => replace f with (S (S (length (compile v) + 3))) by lia end.
      simpl app. cbn [ExprOrder.exec pop_args Nat.leb length firstn skipn rev app].
      rewrite (run_sub v (compile_correct v)) by lia. rewrite Ev. simpl fst. simpl snd.
      match goal with |- exec ?f _ _ _ = _ => replace f with 3%nat by lia end.
      simpl. rewrite <- ?app_assoc. reflexivity.
  Qed.
End Proof.
