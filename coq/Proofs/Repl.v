From Coq Require Import List Bool Arith Lia.
Import ListNotations.
From GP Require Import Model.Repl.

Section Proofs.
Variable classify : list line -> verdict.

(* what the REPL needs from the compiler: a one-line statement is complete on its own; the
   first line of a multi-line statement is incomplete; the whole statement followed by the
   terminating blank line is complete *)
Definition stmt_ok (s : stmt) : Prop :=
  Forall (fun l => is_blank l = false) s /\
  match s with
  | [] => False
  | [l] => is_white l = false /\ classify [l] = Complete
  | l :: r => is_white l = false /\ classify [l] = Incomplete /\ classify (s ++ [blank]) = Complete
  end.

Lemma feed_app st a b : feed classify st (a ++ b) =
  let '(st1, e1) := feed classify st a in let '(st2, e2) := feed classify st1 b in (st2, e1 ++ e2).
Proof.
  revert st. induction a as [|l r IH]; intros st; simpl.
  - destruct (feed classify st b); reflexivity.
  - destruct (run_line classify st l) as [st1 e1]. rewrite IH.
    destruct (feed classify st1 r) as [st2 e2]. destruct (feed classify st2 b) as [st3 e3].
    rewrite app_assoc. reflexivity.
Qed.

(* accumulating the continuation lines of a pending statement: no event, nothing executed *)
Lemma feed_continuation prev ls : Forall (fun l => is_blank l = false) ls ->
  feed classify {| continuation := true; previous := prev |} ls =
  ({| continuation := true; previous := prev ++ ls |}, []).
Proof.
  revert prev. induction ls as [|l r IH]; intros prev H; simpl.
  - rewrite app_nil_r. reflexivity.
  - inversion H; subst. unfold run_line. simpl. rewrite H2. simpl. rewrite IH by auto.
    rewrite <- app_assoc. reflexivity.
Qed.

Lemma feed_multi l rest : is_blank l = false -> is_white l = false -> Forall (fun x => is_blank x = false) rest ->
  classify [l] = Incomplete -> classify (l :: rest ++ [blank]) = Complete ->
  feed classify idle (l :: rest ++ [blank]) = (idle, [Prompt true; Prompt false; Exec (l :: rest ++ [blank])]).
Proof.
  intros Hl Hw Hr H1 H2.
  change (l :: rest ++ [blank]) with ([l] ++ (rest ++ [blank])) at 1.
  rewrite feed_app.
  assert (E1 : feed classify idle [l] = ({| continuation := true; previous := [l] |}, [Prompt true])).
  { cbn [feed]. unfold run_line, ignorable. cbn [continuation previous idle andb app]. rewrite Hl, Hw, H1. reflexivity. }
  rewrite E1. rewrite feed_app. rewrite (feed_continuation [l] rest Hr).
  assert (E2 : feed classify {| continuation := true; previous := [l] ++ rest |} [blank] =
               (idle, [Prompt false; Exec (l :: rest ++ [blank])])).
  { cbn [feed]. unfold run_line. cbn [continuation previous andb]. change (is_blank blank) with true. cbn [negb andb].
    cbn [app]. rewrite H2. reflexivity. }
  rewrite E2. reflexivity.
Qed.

(* typing one statement at an idle prompt executes exactly that statement, once, at its last
   line (or its terminating blank line), and returns to the idle prompt *)
Lemma feed_stmt s : stmt_ok s ->
  exists es, feed classify idle (typed s) = (idle, es) /\ execs es = [text_of s] /\
             last es (Prompt true) = Exec (text_of s).
Proof.
  intros [Hnb Hc]. destruct s as [|l r]; [contradiction|]. destruct r as [|l2 r].
  - destruct Hc as [Hw Hc]. simpl. unfold run_line, ignorable. simpl. inversion Hnb; subst. rewrite H1, Hw. simpl. rewrite Hc.
    eexists. split; [reflexivity|]. simpl. auto.
  - destruct Hc as [Hw [H1 H2]]. inversion Hnb as [|? ? Hl Hr]; subst.
    unfold typed, text_of. change ((l :: l2 :: r) ++ [blank]) with (l :: (l2 :: r) ++ [blank]) in *.
    rewrite (feed_multi l (l2 :: r) Hl Hw Hr H1 H2). eexists. split; [reflexivity|]. simpl. auto.
Qed.

(* the whole session: the statements are executed exactly once each, in order, and the REPL
   ends at the idle prompt *)
Theorem feed_program prog : Forall stmt_ok prog ->
  exists es, feed classify idle (flat_map typed prog) = (idle, es) /\ execs es = map text_of prog.
Proof.
  induction 1 as [|s r Hs Hr IH]; simpl.
  - exists []. auto.
  - destruct (feed_stmt s Hs) as [e1 [F1 [X1 _]]]. destruct IH as [e2 [F2 X2]].
    rewrite feed_app, F1, F2. exists (e1 ++ e2). split; auto.
    unfold execs in *. rewrite flat_map_app, X1, X2. reflexivity.
Qed.

(* the continuation prompt is shown exactly while a statement is pending *)
Lemma run_line_prompt st l st' es : run_line classify st l = (st', es) ->
  forall c, In (Prompt c) es -> c = continuation st'.
Proof.
  unfold run_line. intros H c Hin.
  destruct (continuation st && negb (is_blank l)); [inversion H; subst; destruct Hin|].
  destruct (match previous st with [] => ignorable l | _ => false end); [inversion H; subst; destruct Hin|].
  destruct (classify (previous st ++ [l])); inversion H; subst; simpl in Hin;
    repeat (destruct Hin as [Hin|Hin]; [inversion Hin; reflexivity|]); try contradiction.
Qed.
End Proofs.
