(* The UTF-8 encoding is prefix-free and injective: a byte-level prefix test between encodings is the
   code-point prefix test. *)
From Coq Require Import List Bool Arith NArith ZArith Lia ZifyN ZifyNat ZifyBool.
Import ListNotations.
From GP Require Import Base.Tactics Model.Utf8 Proofs.Utf8 Model.StrSearch.
Ltac Zify.zify_post_hook ::= Z.to_euclidean_division_equations.
Open Scope N_scope.

(* ---- prefix-freeness of the encoding ---- *)
Lemma is_prefix_app_same x a b : is_prefix (x ++ a) (x ++ b) = is_prefix a b.
Proof. induction x as [|c x IH]; simpl; auto. rewrite N.eqb_refl. exact IH. Qed.

Lemma enc_prefix c d a b : scalar c -> scalar d ->
  is_prefix (encode1 c ++ a) (encode1 d ++ b) = (c =? d) && is_prefix a b.
Proof.
  intros Hc Hd. unfold scalar in *.
  destruct (N.eqb_spec c d) as [->|Hne]; [apply is_prefix_app_same|].
  simpl. destruct (is_prefix _ _) eqn:E; [exfalso|reflexivity]. revert E.
  unfold encode1.
  destruct (c <? 128) eqn:C1; [|destruct (c <? 2048) eqn:C2; [|destruct (c <? 65536) eqn:C3]];
  (destruct (d <? 128) eqn:D1; [|destruct (d <? 2048) eqn:D2; [|destruct (d <? 65536) eqn:D3]]);
  cbn [app is_prefix]; rewrite ?andb_true_iff; rewrite ?N.eqb_eq; intros E; lia.
Qed.

Lemma encode1_nonempty c : encode1 c <> [].
Proof. unfold encode1. destruct (c <? 128); [|destruct (c <? 2048); [|destruct (c <? 65536)]]; discriminate. Qed.

Lemma is_prefix_encode sub w : Forall scalar sub -> Forall scalar w ->
  is_prefix (encode sub) (encode w) = is_prefix sub w.
Proof.
  intros Hs. revert w. induction Hs as [|c sub Hc Hs IH]; intros w Hw; [reflexivity|].
  destruct Hw as [|d w Hd Hw].
  - simpl. destruct (encode1 c) eqn:E; [destruct (encode1_nonempty c E)|reflexivity].
  - change (encode (c :: sub)) with (encode1 c ++ encode sub). change (encode (d :: w)) with (encode1 d ++ encode w).
    rewrite enc_prefix by auto. simpl. rewrite IH by auto. reflexivity.
Qed.

