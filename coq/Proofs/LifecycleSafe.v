(* Safety of the lifecycle program [expected] for ANY number of threads of any kinds and
   EVERY interleaving: an inductive invariant over the transition system of Model/Lifecycle. *)
From Coq Require Import List Bool Arith Lia.
Import ListNotations.
From GP Require Import Model.Lifecycle.

Definition sumheld (ts : list thread) : nat := fold_right (fun t n => held t + n) 0 ts.

Lemma nth_error_upd_same {A} (l : list A) i x y :
  nth_error l i = Some y -> nth_error (upd l i x) i = Some x.
Proof. revert i; induction l as [|a l IH]; intros [|i] H; simpl in *; try discriminate; auto. Qed.

Lemma nth_error_upd_other {A} (l : list A) i j x :
  i <> j -> nth_error (upd l i x) j = nth_error l j.
Proof. revert i j; induction l as [|a l IH]; intros [|i] [|j] H; simpl; auto; try lia. Qed.

Lemma length_upd {A} (l : list A) i x : length (upd l i x) = length l.
Proof. revert i; induction l as [|a l IH]; intros [|i]; simpl; auto. Qed.

Lemma sumheld_upd ts i t t' :
  nth_error ts i = Some t -> sumheld (upd ts i t') + held t = sumheld ts + held t'.
Proof. revert i; induction ts as [|a ts IH]; intros [|i] H; simpl in *; try discriminate.
       - inversion H; subst; lia.
       - specialize (IH _ H); lia. Qed.

Lemma sumheld_ge ts i t : nth_error ts i = Some t -> held t <= sumheld ts.
Proof. revert i; induction ts as [|a ts IH]; intros [|i] H; simpl in *; try discriminate.
       - inversion H; subst; lia.
       - specialize (IH _ H); lia. Qed.

Lemma sumheld_zero ts : sumheld ts = 0 -> forall i t, nth_error ts i = Some t -> held t = 0.
Proof. intros H i t Hn. pose proof (sumheld_ge _ _ _ Hn). lia. Qed.

(* thread-local shapes reachable under [expected] *)
Definition tl_ok (t : thread) : Prop :=
  match tkind t with
  | KRun | KRes =>
      (rem t = p_run expected /\ held t = 0) \/
      (rem t = [AStep [PBody] 0; AStep [PWgDone] 0] /\ held t = 1) \/
      (rem t = [AStep [PWgDone] 0] /\ held t = 1) \/
      (rem t = [] /\ held t = 0)
  | KMod =>
      (rem t = p_mod expected /\ held t = 0) \/
      (rem t = [admission 2; AStep [PBody] 0; AStep [PWgDone] 0; AStep [PWgDone] 0] /\ held t = 1) \/
      (rem t = [AStep [PBody] 0; AStep [PWgDone] 0; AStep [PWgDone] 0] /\ held t = 2) \/
      (rem t = [AStep [PWgDone] 0; AStep [PWgDone] 0] /\ held t = 2) \/
      (rem t = [AStep [PWgDone] 0] /\ held t = 1) \/
      (rem t = [] /\ held t = 0)
  | KClose => held t = 0 /\ exists n, n <= 7 /\ rem t = skipn n (p_close expected)
  | KWait => held t = 0 /\ (rem t = [AWaitDone] \/ rem t = [])
  end.

(* what the shared state must be when the closer inside the Once has [n] actions left *)
Definition cl_match (s : shared) (n : nat) : Prop :=
  match n with
  | 6 => closing s = false /\ closed s = false /\ cb s = 0 /\ done s = false
  | 5 => closing s = true /\ closed s = false /\ cb s = 0 /\ done s = false
  | 4 => closing s = true /\ closed s = false /\ cb s = 0 /\ done s = false /\ wg s = 0
  | 3 => closing s = true /\ closed s = true /\ cb s = 0 /\ done s = false /\ wg s = 0
  | 2 => closing s = true /\ closed s = true /\ cb s = 1 /\ done s = false /\ wg s = 0
  | 1 => closing s = true /\ closed s = true /\ cb s = 1 /\ done s = true /\ wg s = 0
  | _ => False
  end.

Definition inonce (t : thread) : Prop := tkind t = KClose /\ 1 <= length (rem t) <= 6.

Record Inv (st : state) : Prop := {
  inv_nopanic : panic (fst st) = false;
  inv_nolate : late (fst st) = false;
  inv_wg : wg (fst st) = sumheld (snd st);
  inv_tl : forall i t, nth_error (snd st) i = Some t -> tl_ok t;
  inv_once : match once (fst st) with
             | OIdle => closing (fst st) = false /\ closed (fst st) = false /\ cb (fst st) = 0
                        /\ done (fst st) = false
             | ODone => closing (fst st) = true /\ closed (fst st) = true /\ cb (fst st) = 1
                        /\ done (fst st) = true /\ wg (fst st) = 0
             | ORunning i => exists t, nth_error (snd st) i = Some t /\ inonce t
                                       /\ cl_match (fst st) (length (rem t))
             end;
  inv_inonce : forall i t, nth_error (snd st) i = Some t -> inonce t -> once (fst st) = ORunning i;
  inv_clfin : forall i t, nth_error (snd st) i = Some t -> tkind t = KClose -> rem t = [] ->
                          once (fst st) = ODone;
  inv_wfin : forall i t, nth_error (snd st) i = Some t -> tkind t = KWait -> rem t = [] ->
                         done (fst st) = true
}.

Lemma inv_init ks : Inv (init expected ks).
Proof.
  constructor; simpl; auto.
  - induction ks; simpl; auto.
  - intros i t H. apply nth_error_In in H. apply in_map_iff in H. destruct H as [k [<- _]].
    destruct k; unfold tl_ok; simpl; auto.
    + split; auto. exists 0. split; [lia|reflexivity].
  - intros i t H [Hk Hl]. apply nth_error_In in H. apply in_map_iff in H.
    destruct H as [k [<- _]]. destruct k; simpl in *; try discriminate; lia.
  - intros i t H Hk Hr. apply nth_error_In in H. apply in_map_iff in H.
    destruct H as [k [<- _]]. destruct k; simpl in *; discriminate.
  - intros i t H Hk Hr. apply nth_error_In in H. apply in_map_iff in H.
    destruct H as [k [<- _]]. destruct k; simpl in *; discriminate.
Qed.

(* closer shapes, spelled out *)
Lemma closer_shapes t : tkind t = KClose -> tl_ok t ->
  held t = 0 /\
  (rem t = p_close expected \/
   rem t = skipn 1 (p_close expected) \/ rem t = skipn 2 (p_close expected) \/
   rem t = skipn 3 (p_close expected) \/ rem t = skipn 4 (p_close expected) \/
   rem t = skipn 5 (p_close expected) \/ rem t = skipn 6 (p_close expected) \/ rem t = []).
Proof.
  intros Hk H. unfold tl_ok in H. rewrite Hk in H. destruct H as [Hh [n [Hn Hr]]]. split; auto.
  do 8 (destruct n as [|n]; [rewrite Hr; simpl; tauto|]). lia.
Qed.


(* A step by a thread that is not a closer and leaves the Once/flags/callback part alone. *)
Lemma inv_step_noncloser s ts i t s1 t1 :
  Inv (s, ts) -> nth_error ts i = Some t ->
  tkind t1 = tkind t -> tkind t <> KClose ->
  panic s1 = false -> late s1 = false ->
  once s1 = once s -> closing s1 = closing s -> closed s1 = closed s -> cb s1 = cb s ->
  done s1 = done s ->
  wg s1 + held t = wg s + held t1 ->
  (closing s = true -> wg s = 0 -> wg s1 = 0) ->
  tl_ok t1 ->
  (tkind t = KWait -> rem t1 = [] -> done s1 = true) ->
  Inv (s1, upd ts i t1).
Proof.
  intros I Hi Hk Hnc Hp Hl Ho Hcg Hcd Hcb Hd Hw Hw0 Htl Hwt.
  pose proof (sumheld_upd ts i t t1 Hi) as Hsum.
  pose proof (inv_wg _ I) as Hwg. simpl in Hwg.
  assert (Hcm : forall n, cl_match s n -> cl_match s1 n).
  { intros n. unfold cl_match. rewrite Hcg, Hcd, Hcb, Hd.
    do 7 (destruct n as [|n]; try tauto); intuition. }
  constructor; simpl; auto.
  - lia.
  - intros j tj Hj. destruct (Nat.eq_dec i j) as [->|Hne].
    + rewrite (nth_error_upd_same _ _ _ _ Hi) in Hj. inversion Hj; subst; auto.
    + rewrite nth_error_upd_other in Hj by auto. eapply (inv_tl _ I); eauto.
  - pose proof (inv_once _ I) as Hon. simpl in Hon. rewrite Ho, Hcg, Hcd, Hcb, Hd.
    destruct (once s) as [|k|]; auto.
    + destruct Hon as [tk [Hnk [Hin Hm]]]. destruct (Nat.eq_dec i k) as [->|Hne].
      * rewrite Hi in Hnk. inversion Hnk; subst. destruct Hin as [Hkk _]. congruence.
      * exists tk. rewrite nth_error_upd_other by auto. auto.
    + intuition.
  - intros j tj Hj Hin. rewrite Ho. destruct (Nat.eq_dec i j) as [->|Hne].
    + rewrite (nth_error_upd_same _ _ _ _ Hi) in Hj. inversion Hj; subst.
      destruct Hin as [Hkk _]. congruence.
    + rewrite nth_error_upd_other in Hj by auto. eapply (inv_inonce _ I); eauto.
  - intros j tj Hj Hkj Hr. rewrite Ho. destruct (Nat.eq_dec i j) as [->|Hne].
    + rewrite (nth_error_upd_same _ _ _ _ Hi) in Hj. inversion Hj; subst. congruence.
    + rewrite nth_error_upd_other in Hj by auto. eapply (inv_clfin _ I); eauto.
  - intros j tj Hj Hkj Hr. destruct (Nat.eq_dec i j) as [->|Hne].
    + rewrite (nth_error_upd_same _ _ _ _ Hi) in Hj. inversion Hj; subst.
      apply Hwt; congruence.
    + rewrite nth_error_upd_other in Hj by auto. rewrite Hd.
      eapply (inv_wfin _ I) with (i := j); eauto.
Qed.

(* when the Wait has been passed (or Close is complete) nobody holds the WaitGroup, and
   closing is set: used to show runners cannot be past admission then *)
Lemma inv_closing_facts s ts : Inv (s, ts) ->
  (closing s = false -> cb s = 0 /\ done s = false) /\
  ((0 < cb s \/ done s = true) -> wg s = 0 /\ closing s = true).
Proof.
  intros I. pose proof (inv_once _ I) as Hon. simpl in Hon.
  destruct (once s) as [|k|].
  - intuition; try lia; congruence.
  - destruct Hon as [tk [_ [[_ Hl] Hm]]]. unfold cl_match in Hm.
    destruct (length (rem tk)) as [|[|[|[|[|[|[|n]]]]]]]; try tauto; intuition; try lia; congruence.
  - intuition; try lia; congruence.
Qed.

Ltac runner_case I Hi Hk :=
  eapply inv_step_noncloser; [exact I|exact Hi|..]; simpl; auto; try congruence; try lia;
  try (unfold tl_ok; simpl; rewrite Hk; simpl;
       repeat match goal with H : held _ = _ |- _ => rewrite H end; simpl; tauto).

Lemma inv_step_runner s ts i t s1 t1 :
  Inv (s, ts) -> nth_error ts i = Some t ->
  (tkind t = KRun \/ tkind t = KRes \/ tkind t = KMod) ->
  step_thread i s t = Some (s1, t1) -> Inv (s1, upd ts i t1).
Proof.
  intros I Hi Hkk Hst.
  pose proof (inv_tl _ I _ _ Hi) as Htl. simpl in Htl.
  pose proof (inv_wg _ I) as Hwg. simpl in Hwg.
  pose proof (inv_nopanic _ I) as Hnp. simpl in Hnp.
  pose proof (inv_nolate _ I) as Hnl. simpl in Hnl.
  pose proof (sumheld_ge _ _ _ Hi) as Hge.
  pose proof (inv_closing_facts _ _ I) as [Hcf1 Hcf2].
  unfold step_thread in Hst. rewrite Hnp in Hst.
  assert (Hcb0 : 1 <= held t -> cb s = 0 /\ done s = false).
  { intros Hh. destruct (cb s) eqn:Hcb.
    - split; auto. destruct (done s) eqn:Hd; auto. destruct Hcf2 as [Hz _]; auto. lia.
    - destruct Hcf2 as [Hz _]; [lia|lia]. }
  unfold tl_ok in Htl.
  destruct Hkk as [Hk|[Hk|Hk]]; rewrite Hk in Htl.
  - destruct Htl as [[Hr Hh]|[[Hr Hh]|[[Hr Hh]|[Hr Hh]]]]; rewrite Hr in Hst; simpl in Hst.
    + destruct (closing s) eqn:Hc; inversion Hst; subst; clear Hst; runner_case I Hi Hk.
    + destruct Hcb0 as [Hcb _]; [lia|]. inversion Hst; subst; clear Hst.
      runner_case I Hi Hk. rewrite Hnl, Hcb; reflexivity.
    + destruct (wg s) as [|n] eqn:Hw; [lia|]. inversion Hst; subst; clear Hst.
      runner_case I Hi Hk.
    + discriminate.
  - destruct Htl as [[Hr Hh]|[[Hr Hh]|[[Hr Hh]|[Hr Hh]]]]; rewrite Hr in Hst; simpl in Hst.
    + destruct (closing s) eqn:Hc; inversion Hst; subst; clear Hst; runner_case I Hi Hk.
    + destruct Hcb0 as [Hcb _]; [lia|]. inversion Hst; subst; clear Hst.
      runner_case I Hi Hk. rewrite Hnl, Hcb; reflexivity.
    + destruct (wg s) as [|n] eqn:Hw; [lia|]. inversion Hst; subst; clear Hst.
      runner_case I Hi Hk.
    + discriminate.
  - destruct Htl as [[Hr Hh]|[[Hr Hh]|[[Hr Hh]|[[Hr Hh]|[[Hr Hh]|[Hr Hh]]]]]];
      rewrite Hr in Hst; simpl in Hst.
    + destruct (closing s) eqn:Hc; inversion Hst; subst; clear Hst; runner_case I Hi Hk.
    + destruct (closing s) eqn:Hc; inversion Hst; subst; clear Hst; runner_case I Hi Hk.
    + destruct Hcb0 as [Hcb _]; [lia|]. inversion Hst; subst; clear Hst.
      runner_case I Hi Hk. rewrite Hnl, Hcb; reflexivity.
    + destruct (wg s) as [|n] eqn:Hw; [lia|]. inversion Hst; subst; clear Hst.
      runner_case I Hi Hk.
    + destruct (wg s) as [|n] eqn:Hw; [lia|]. inversion Hst; subst; clear Hst.
      runner_case I Hi Hk.
    + discriminate.
Qed.

Lemma inv_step_waiter s ts i t s1 t1 :
  Inv (s, ts) -> nth_error ts i = Some t -> tkind t = KWait ->
  step_thread i s t = Some (s1, t1) -> Inv (s1, upd ts i t1).
Proof.
  intros I Hi Hk Hst.
  pose proof (inv_tl _ I _ _ Hi) as Htl. simpl in Htl.
  pose proof (inv_nopanic _ I) as Hnp. simpl in Hnp.
  pose proof (inv_nolate _ I) as Hnl. simpl in Hnl.
  unfold step_thread in Hst. rewrite Hnp in Hst.
  unfold tl_ok in Htl. rewrite Hk in Htl. destruct Htl as [Hh [Hr|Hr]]; rewrite Hr in Hst.
  - destruct (done s) eqn:Hd; [|discriminate]. inversion Hst; subst; clear Hst.
    eapply inv_step_noncloser; [exact I|exact Hi|..]; simpl; auto; try congruence.
    unfold tl_ok; simpl. rewrite Hk. auto.
  - discriminate.
Qed.

(* generic re-establishment of Inv after a step of closer [i] that keeps held and wg *)
Lemma inv_closer_rebuild s ts i t s1 t1 :
  Inv (s, ts) -> nth_error ts i = Some t -> tkind t = KClose -> tkind t1 = KClose ->
  held t1 = held t -> tl_ok t1 ->
  panic s1 = false -> late s1 = false -> wg s1 = wg s ->
  (done s = true -> done s1 = true) ->
  (* the Once part of the new state *)
  match once s1 with
  | OIdle => False
  | ORunning j => j = i /\ inonce t1 /\ cl_match s1 (length (rem t1))
  | ODone => closing s1 = true /\ closed s1 = true /\ cb s1 = 1 /\ done s1 = true /\ wg s1 = 0
             /\ rem t1 = []
  end ->
  (* no other thread is inside the Once, and other closers have not finished unless Done *)
  (forall j tj, j <> i -> nth_error ts j = Some tj -> ~ inonce tj) ->
  (forall j tj, j <> i -> nth_error ts j = Some tj -> tkind tj = KClose -> rem tj = [] ->
                once s1 = ODone) ->
  Inv (s1, upd ts i t1).
Proof.
  intros I Hi Hk Hk1 Hh Htl Hp Hl Hw Hd Ho Hno Hfin.
  pose proof (sumheld_upd ts i t t1 Hi) as Hsum.
  pose proof (inv_wg _ I) as Hwg. simpl in Hwg.
  constructor; simpl; auto.
  - lia.
  - intros j tj Hj. destruct (Nat.eq_dec i j) as [->|Hne].
    + rewrite (nth_error_upd_same _ _ _ _ Hi) in Hj. inversion Hj; subst; auto.
    + rewrite nth_error_upd_other in Hj by auto. eapply (inv_tl _ I); eauto.
  - destruct (once s1) as [|k|]; [tauto| |tauto].
    destruct Ho as [-> [Hin Hm]]. exists t1. rewrite (nth_error_upd_same _ _ _ _ Hi). auto.
  - intros j tj Hj Hin. destruct (Nat.eq_dec i j) as [->|Hne].
    + rewrite (nth_error_upd_same _ _ _ _ Hi) in Hj. inversion Hj; subst.
      destruct (once s1) as [|k|]; [tauto| |].
      * destruct Ho as [-> _]; auto.
      * destruct Ho as (_&_&_&_&_&Hr). destruct Hin as [_ Hlen]. rewrite Hr in Hlen.
        simpl in Hlen. lia.
    + rewrite nth_error_upd_other in Hj by auto. exfalso. eapply Hno; eauto.
  - intros j tj Hj Hkj Hr. destruct (Nat.eq_dec i j) as [->|Hne].
    + rewrite (nth_error_upd_same _ _ _ _ Hi) in Hj. inversion Hj; subst.
      destruct (once s1) as [|k|]; [tauto| |auto].
      destruct Ho as [_ [[_ Hlen] _]]. rewrite Hr in Hlen. simpl in Hlen. lia.
    + rewrite nth_error_upd_other in Hj by auto. eapply Hfin; eauto.
  - intros j tj Hj Hkj Hr. destruct (Nat.eq_dec i j) as [->|Hne].
    + rewrite (nth_error_upd_same _ _ _ _ Hi) in Hj. inversion Hj; subst. congruence.
    + rewrite nth_error_upd_other in Hj by auto. apply Hd.
      eapply (inv_wfin _ I) with (i := j); eauto.
Qed.

Lemma tl_ok_closer t n : tkind t = KClose -> held t = 0 -> n <= 7 ->
  rem t = skipn n (p_close expected) -> tl_ok t.
Proof. intros Hk Hh Hn Hr. unfold tl_ok. rewrite Hk. split; auto. exists n; auto. Qed.

Lemma inv_step_closer s ts i t s1 t1 :
  Inv (s, ts) -> nth_error ts i = Some t -> tkind t = KClose ->
  step_thread i s t = Some (s1, t1) -> Inv (s1, upd ts i t1).
Proof.
  intros I Hi Hk Hst.
  pose proof (inv_tl _ I _ _ Hi) as Htl. simpl in Htl.
  pose proof (inv_nopanic _ I) as Hnp. simpl in Hnp.
  pose proof (inv_nolate _ I) as Hnl. simpl in Hnl.
  pose proof (inv_once _ I) as Hon. simpl in Hon.
  pose proof (inv_inonce _ I) as Hino. simpl in Hino.
  pose proof (inv_clfin _ I) as Hcf. simpl in Hcf.
  destruct (closer_shapes _ Hk Htl) as [Hh Hsh].
  unfold step_thread in Hst. rewrite Hnp in Hst.
  (* facts about the other threads, by the state of the Once *)
  assert (Hother_run : once s = ORunning i ->
            forall j tj, j <> i -> nth_error ts j = Some tj -> ~ inonce tj).
  { intros Ho j tj Hne Hj Hin. specialize (Hino _ _ Hj Hin). congruence. }
  assert (Hother_fin : (once s = ORunning i \/ once s = OIdle) ->
            forall j tj, j <> i -> nth_error ts j = Some tj -> tkind tj = KClose ->
                         rem tj = [] -> False).
  { intros Ho j tj Hne Hj Hkj Hr. specialize (Hcf _ _ Hj Hkj Hr). destruct Ho; congruence. }
  assert (Hmine : 1 <= length (rem t) <= 6 -> once s = ORunning i /\ cl_match s (length (rem t))).
  { intros Hlen. assert (Hin : inonce t) by (split; auto). specialize (Hino _ _ Hi Hin).
    split; auto. rewrite Hino in Hon. destruct Hon as [t' [Hi' [_ Hm]]].
    rewrite Hi in Hi'. inversion Hi'; subst; auto. }
  destruct Hsh as [Hr|[Hr|[Hr|[Hr|[Hr|[Hr|[Hr|Hr]]]]]]]; rewrite Hr in Hst; simpl in Hst.
  - (* before the Once *)
    destruct (once s) as [|k|] eqn:Ho; [| discriminate |]; inversion Hst; subst; clear Hst.
    + eapply inv_closer_rebuild; [exact I|exact Hi|..]; simpl; auto.
      * eapply tl_ok_closer with (n := 1); simpl; auto; lia.
      * split; auto. split; [split; simpl; auto; lia|]. simpl. tauto.
      * intros j tj Hne Hj Hin. specialize (Hino _ _ Hj Hin). congruence.
      * intros j tj Hne Hj Hkj Hrj. exfalso. specialize (Hcf _ _ Hj Hkj Hrj). congruence.
    + eapply inv_closer_rebuild; [exact I|exact Hi|..]; simpl; auto.
      * eapply tl_ok_closer with (n := 7); simpl; auto; lia.
      * rewrite Ho. tauto.
      * intros j tj Hne Hj Hin. specialize (Hino _ _ Hj Hin). congruence.
  - destruct Hmine as [Ho Hm]; [rewrite Hr; simpl; lia|]. rewrite Hr in Hm. simpl in Hm.
    inversion Hst; subst; clear Hst.
    eapply inv_closer_rebuild; [exact I|exact Hi|..]; simpl; auto;
      try solve [intros; eapply Hother_run; eauto | intros; exfalso; eapply Hother_fin; eauto].
    + eapply tl_ok_closer with (n := 2); simpl; auto; lia.
    + rewrite Ho. split; auto. split; [split; simpl; auto; lia|]. simpl. tauto.
  - destruct Hmine as [Ho Hm]; [rewrite Hr; simpl; lia|]. rewrite Hr in Hm. simpl in Hm.
    destruct (wg s =? 0) eqn:Hw0; [|discriminate]. apply Nat.eqb_eq in Hw0.
    inversion Hst; subst; clear Hst.
    eapply inv_closer_rebuild; [exact I|exact Hi|..]; simpl; auto;
      try solve [intros; eapply Hother_run; eauto | intros; exfalso; eapply Hother_fin; eauto].
    + eapply tl_ok_closer with (n := 3); simpl; auto; lia.
    + rewrite Ho. split; auto. split; [split; simpl; auto; lia|]. simpl. tauto.
  - destruct Hmine as [Ho Hm]; [rewrite Hr; simpl; lia|]. rewrite Hr in Hm. simpl in Hm.
    inversion Hst; subst; clear Hst.
    eapply inv_closer_rebuild; [exact I|exact Hi|..]; simpl; auto;
      try solve [intros; eapply Hother_run; eauto | intros; exfalso; eapply Hother_fin; eauto].
    + eapply tl_ok_closer with (n := 4); simpl; auto; lia.
    + rewrite Ho. split; auto. split; [split; simpl; auto; lia|]. simpl. tauto.
  - destruct Hmine as [Ho Hm]; [rewrite Hr; simpl; lia|]. rewrite Hr in Hm. simpl in Hm.
    inversion Hst; subst; clear Hst.
    eapply inv_closer_rebuild; [exact I|exact Hi|..]; simpl; auto;
      try solve [intros; eapply Hother_run; eauto | intros; exfalso; eapply Hother_fin; eauto].
    + eapply tl_ok_closer with (n := 5); simpl; auto; lia.
    + rewrite Ho. split; auto. split; [split; simpl; auto; lia|]. simpl.
      destruct Hm as (?&?&Hcb&?&?). rewrite Hcb. tauto.
  - destruct Hmine as [Ho Hm]; [rewrite Hr; simpl; lia|]. rewrite Hr in Hm. simpl in Hm.
    destruct Hm as (Hc1&Hc2&Hcb&Hd&Hw). rewrite Hd in Hst.
    inversion Hst; subst; clear Hst.
    eapply inv_closer_rebuild; [exact I|exact Hi|..]; simpl; auto;
      try solve [intros; eapply Hother_run; eauto | intros; exfalso; eapply Hother_fin; eauto].
    + eapply tl_ok_closer with (n := 6); simpl; auto; lia.
    + rewrite Ho. split; auto. split; [split; simpl; auto; lia|]. simpl. tauto.
  - destruct Hmine as [Ho Hm]; [rewrite Hr; simpl; lia|]. rewrite Hr in Hm. simpl in Hm.
    inversion Hst; subst; clear Hst.
    eapply inv_closer_rebuild; [exact I|exact Hi|..]; simpl; auto;
      try solve [intros; eapply Hother_run; eauto | intros; exfalso; eapply Hother_fin; eauto].
    + eapply tl_ok_closer with (n := 7); simpl; auto; lia.
    + tauto.
  - discriminate.
Qed.

Theorem inv_step st i st' : Inv st -> step i st = Some st' -> Inv st'.
Proof.
  intros I Hs. destruct st as [s ts]. unfold step in Hs. simpl in Hs.
  destruct (nth_error ts i) as [t|] eqn:Hi; [|discriminate].
  destruct (step_thread i s t) as [[s1 t1]|] eqn:Hst; [|discriminate].
  inversion Hs; subst st'; clear Hs.
  destruct (tkind t) eqn:Hk.
  - eapply inv_step_runner; eauto.
  - eapply inv_step_runner; eauto.
  - eapply inv_step_runner; eauto.
  - eapply inv_step_closer; eauto.
  - eapply inv_step_waiter; eauto.
Qed.

Lemma inv_run tr : forall st0 st, Inv st0 -> run st0 tr = Some st -> Inv st.
Proof.
  induction tr as [|i tr IH]; intros st0 st I0 H; simpl in H.
  - inversion H; subst; auto.
  - destruct (step i st0) as [st1|] eqn:Hs; [|discriminate].
    eapply IH; [|exact H]. eapply inv_step; eauto.
Qed.

Theorem inv_reachable ks tr st : run (init expected ks) tr = Some st -> Inv st.
Proof. intros H. eapply inv_run; [apply inv_init|exact H]. Qed.

(* ------------------------------------------------------------------------------------ *)
(* consequences of the invariant *)

Lemma inv_all_released s ts : Inv (s, ts) -> (0 < cb s \/ done s = true) ->
  forall i t, nth_error ts i = Some t -> held t = 0.
Proof.
  intros I H. destruct (inv_closing_facts _ _ I) as [_ Hc]. destruct (Hc H) as [Hw _].
  pose proof (inv_wg _ I) as Hwg. simpl in Hwg. apply sumheld_zero. lia.
Qed.

Lemma inv_cb_le1 s ts : Inv (s, ts) -> cb s <= 1.
Proof.
  intros I. pose proof (inv_once _ I) as Hon. simpl in Hon. destruct (once s) as [|k|].
  - lia.
  - destruct Hon as [tk [_ [[_ Hl] Hm]]]. unfold cl_match in Hm.
    destruct (length (rem tk)) as [|[|[|[|[|[|[|n]]]]]]]; try tauto; lia.
  - lia.
Qed.

Lemma inv_done_cb s ts : Inv (s, ts) -> done s = true -> cb s = 1.
Proof.
  intros I Hd. pose proof (inv_once _ I) as Hon. simpl in Hon. destruct (once s) as [|k|].
  - destruct Hon as (_&_&_&Hd'). congruence.
  - destruct Hon as [tk [_ [[_ Hl] Hm]]]. unfold cl_match in Hm.
    destruct (length (rem tk)) as [|[|[|[|[|[|[|n]]]]]]]; try tauto; intuition; congruence.
  - tauto.
Qed.

Lemma any_held_false ts : (forall i t, nth_error ts i = Some t -> held t = 0) ->
  any_held ts = false.
Proof.
  intros H. unfold any_held. apply Bool.not_true_is_false. intros E.
  apply existsb_exists in E. destruct E as [t [Hin Hlt]]. apply In_nth_error in Hin.
  destruct Hin as [i Hi]. rewrite (H _ _ Hi) in Hlt. discriminate.
Qed.

Theorem inv_not_bad st : Inv st -> bad st = false.
Proof.
  destruct st as [s ts]. intros I. unfold bad. simpl.
  pose proof (inv_nopanic _ I) as Hnp. pose proof (inv_nolate _ I) as Hnl. simpl in Hnp, Hnl.
  rewrite Hnp, Hnl. simpl.
  pose proof (inv_cb_le1 _ _ I) as Hle.
  assert (E1 : done s && (negb (cb s =? 1) || any_held ts) = false).
  { destruct (done s) eqn:Hd; auto. simpl. rewrite (inv_done_cb _ _ I Hd). simpl.
    apply any_held_false. apply (inv_all_released _ _ I). auto. }
  rewrite E1. simpl.
  assert (E2 : (1 <? cb s) = false) by (apply Nat.ltb_ge; lia). rewrite E2. simpl.
  assert (E3 : (0 <? cb s) && any_held ts = false).
  { destruct (0 <? cb s) eqn:Hc; auto. simpl. apply Nat.ltb_lt in Hc.
    apply any_held_false. apply (inv_all_released _ _ I). auto. }
  rewrite E3. simpl.
  apply Bool.not_true_is_false. intros E. apply existsb_exists in E.
  destruct E as [t [Hin Ht]]. apply In_nth_error in Hin. destruct Hin as [i Hi].
  destruct (tkind t) eqn:Hk; try discriminate.
  apply andb_true_iff in Ht. destruct Ht as [Hf Hb]. unfold finished in Hf.
  destruct (rem t) eqn:Hr; [|discriminate].
  pose proof (inv_clfin _ I _ _ Hi Hk Hr) as Ho. simpl in Ho.
  pose proof (inv_once _ I) as Hon. simpl in Hon. rewrite Ho in Hon.
  destruct Hon as (_&_&Hcb&Hd&_).
  rewrite any_held_false in Hb; [discriminate|]. apply (inv_all_released _ _ I). auto.
Qed.

(* a request that starts after Close has completed is refused, and nothing panics *)
Theorem inv_refuse_after_close s ts i t s1 t1 :
  Inv (s, ts) -> once s = ODone -> nth_error ts i = Some t ->
  (tkind t = KRun \/ tkind t = KRes \/ tkind t = KMod) ->
  rem t = prog_of expected (tkind t) ->
  step_thread i s t = Some (s1, t1) ->
  s1 = s /\ rem t1 = [] /\ refusals t1 = S (refusals t) /\ held t1 = held t.
Proof.
  intros I Ho Hi Hk Hr Hst.
  pose proof (inv_once _ I) as Hon. simpl in Hon. rewrite Ho in Hon. destruct Hon as [Hc _].
  pose proof (inv_nopanic _ I) as Hnp. simpl in Hnp.
  unfold step_thread in Hst. rewrite Hnp in Hst. simpl in Hst.
  destruct Hk as [Hk|[Hk|Hk]]; rewrite Hk in Hr; rewrite Hr in Hst; simpl in Hst;
    rewrite Hc in Hst; inversion Hst; subst; simpl; auto.
Qed.

Lemma astep_enabled i s t l k r : panic s = false -> rem t = AStep l k :: r ->
  exists x, step_thread i s t = Some x.
Proof.
  intros Hp Hr. unfold step_thread. rewrite Hp, Hr.
  destruct (exec_prims s (held t) l) as [[s' h'] rf]. eexists; reflexivity.
Qed.

Lemma runner_head t : tl_ok t -> (tkind t = KRun \/ tkind t = KRes \/ tkind t = KMod) ->
  rem t <> [] -> exists l k r, rem t = AStep l k :: r.
Proof.
  intros Htl Hk Hne. unfold tl_ok in Htl.
  destruct Hk as [Hk|[Hk|Hk]]; rewrite Hk in Htl;
    intuition; try congruence;
    match goal with H : rem t = _ |- _ => rewrite H end; unfold expected, admission; simpl;
    do 3 eexists; reflexivity.
Qed.

(* no deadlock: if somebody who is entitled to finish is unfinished, somebody can move *)
Theorem inv_progress s ts :
  Inv (s, ts) ->
  (exists i t, nth_error ts i = Some t /\ rem t <> [] /\ (tkind t = KWait -> once s <> OIdle)) ->
  exists j st', step j (s, ts) = Some st'.
Proof.
  intros I [i [t [Hi [Hne Hw]]]].
  pose proof (inv_nopanic _ I) as Hnp. simpl in Hnp.
  pose proof (inv_once _ I) as Hon. simpl in Hon.
  assert (Hrun : forall j tj, nth_error ts j = Some tj ->
            (tkind tj = KRun \/ tkind tj = KRes \/ tkind tj = KMod) -> rem tj <> [] ->
            exists st', step j (s, ts) = Some st').
  { intros j tj Hj Hk Hr. pose proof (inv_tl _ I _ _ Hj) as Htl. simpl in Htl.
    destruct (runner_head _ Htl Hk Hr) as [l [k [r Hrr]]].
    destruct (astep_enabled j s tj l k r Hnp Hrr) as [[s' t'] Hx].
    unfold step; simpl. rewrite Hj, Hx. eexists; reflexivity. }
  assert (Hheld : 0 < wg s -> exists j st', step j (s, ts) = Some st').
  { intros Hpos. pose proof (inv_wg _ I) as Hwg. simpl in Hwg.
    assert (E : exists j tj, nth_error ts j = Some tj /\ 0 < held tj).
    { clear -Hwg Hpos. rewrite Hwg in Hpos. clear Hwg. induction ts as [|a l IH]; simpl in *; [lia|].
      destruct (held a) eqn:Ha.
      - destruct IH as [j [tj [Hj Hh]]]; [lia|]. exists (S j), tj. auto.
      - exists 0, a. simpl. split; auto. lia. }
    destruct E as [j [tj [Hj Hh]]]. exists j.
    pose proof (inv_tl _ I _ _ Hj) as Htl. simpl in Htl. unfold tl_ok in Htl.
    destruct (tkind tj) eqn:Hk.
    - eapply Hrun; eauto. intros E. rewrite E in Htl. intuition; try discriminate; lia.
    - eapply Hrun; eauto. intros E. rewrite E in Htl. intuition; try discriminate; lia.
    - eapply Hrun; eauto. intros E. rewrite E in Htl. intuition; try discriminate; lia.
    - destruct Htl as [Hz _]. lia.
    - destruct Htl as [Hz _]. lia. }
  destruct (tkind t) eqn:Hk.
  - exists i. eapply Hrun; eauto.
  - exists i. eapply Hrun; eauto.
  - exists i. eapply Hrun; eauto.
  - (* an unfinished closer *)
    pose proof (inv_tl _ I _ _ Hi) as Htl. simpl in Htl.
    destruct (closer_shapes _ Hk Htl) as [Hh Hsh].
    assert (Hin_case : forall k tk, nth_error ts k = Some tk -> inonce tk ->
              cl_match s (length (rem tk)) -> exists j st', step j (s, ts) = Some st').
    { intros k tk Hkk [Hkc Hlen] Hm.
      pose proof (inv_tl _ I _ _ Hkk) as Htlk. simpl in Htlk.
      destruct (closer_shapes _ Hkc Htlk) as [_ Hshk].
      destruct Hshk as [Hr|[Hr|[Hr|[Hr|[Hr|[Hr|[Hr|Hr]]]]]]]; rewrite Hr in Hlen, Hm; simpl in Hlen, Hm;
        try lia.
      - exists k. unfold step; simpl. rewrite Hkk. unfold step_thread. rewrite Hnp, Hr. simpl.
        eexists; reflexivity.
      - destruct (wg s) eqn:Hwz.
        + exists k. unfold step; simpl. rewrite Hkk. unfold step_thread. rewrite Hnp, Hr. simpl.
          rewrite Hwz. simpl. eexists; reflexivity.
        + apply Hheld. lia.
      - exists k. unfold step; simpl. rewrite Hkk. unfold step_thread. rewrite Hnp, Hr. simpl.
        eexists; reflexivity.
      - exists k. unfold step; simpl. rewrite Hkk. unfold step_thread. rewrite Hnp, Hr. simpl.
        eexists; reflexivity.
      - exists k. unfold step; simpl. rewrite Hkk. unfold step_thread. rewrite Hnp, Hr. simpl.
        destruct Hm as (_&_&_&Hd&_). rewrite Hd. eexists; reflexivity.
      - exists k. unfold step; simpl. rewrite Hkk. unfold step_thread. rewrite Hnp, Hr. simpl.
        eexists; reflexivity. }
    destruct (once s) as [|k|] eqn:Ho.
    + (* Idle: this closer is before the Once and can enter *)
      destruct Hsh as [Hr|Hsh].
      * exists i. unfold step; simpl. rewrite Hi. unfold step_thread. rewrite Hnp, Hr. simpl.
        rewrite Ho. eexists; reflexivity.
      * assert (Hin : inonce t).
        { split; auto. destruct Hsh as [Hr|[Hr|[Hr|[Hr|[Hr|[Hr|Hr]]]]]]; rewrite Hr; simpl; try lia.
          congruence. }
        pose proof (inv_inonce _ I _ _ Hi Hin) as Hx. simpl in Hx. congruence.
    + destruct Hon as [tk [Hkk [Hin Hm]]]. eapply Hin_case; eauto.
    + destruct Hsh as [Hr|Hsh].
      * exists i. unfold step; simpl. rewrite Hi. unfold step_thread. rewrite Hnp, Hr. simpl.
        rewrite Ho. eexists; reflexivity.
      * assert (Hin : inonce t).
        { split; auto. destruct Hsh as [Hr|[Hr|[Hr|[Hr|[Hr|[Hr|Hr]]]]]]; rewrite Hr; simpl; try lia.
          congruence. }
        pose proof (inv_inonce _ I _ _ Hi Hin) as Hx. simpl in Hx. congruence.
  - (* an unfinished Done-waiter, Close has been called *)
    specialize (Hw eq_refl).
    pose proof (inv_tl _ I _ _ Hi) as Htl. simpl in Htl. unfold tl_ok in Htl. rewrite Hk in Htl.
    destruct Htl as [_ [Hr|Hr]]; [|congruence].
    destruct (once s) as [|k|] eqn:Ho; [congruence| |].
    + (* Close is in progress: the closer inside the Once (or a holder of the WaitGroup) moves *)
      destruct Hon as [tk [Hkk [[Hkc Hlen] Hm]]].
      pose proof (inv_tl _ I _ _ Hkk) as Htlk. simpl in Htlk.
      destruct (closer_shapes _ Hkc Htlk) as [_ Hshk].
      destruct Hshk as [Hr'|[Hr'|[Hr'|[Hr'|[Hr'|[Hr'|[Hr'|Hr']]]]]]]; rewrite Hr' in Hlen, Hm;
        simpl in Hlen, Hm; try lia.
      * exists k. unfold step; simpl. rewrite Hkk. unfold step_thread. rewrite Hnp, Hr'. simpl.
        eexists; reflexivity.
      * destruct (wg s) eqn:Hw'.
        -- exists k. unfold step; simpl. rewrite Hkk. unfold step_thread. rewrite Hnp, Hr'. simpl.
           rewrite Hw'. simpl. eexists; reflexivity.
        -- apply Hheld. lia.
      * exists k. unfold step; simpl. rewrite Hkk. unfold step_thread. rewrite Hnp, Hr'. simpl.
        eexists; reflexivity.
      * exists k. unfold step; simpl. rewrite Hkk. unfold step_thread. rewrite Hnp, Hr'. simpl.
        eexists; reflexivity.
      * exists k. unfold step; simpl. rewrite Hkk. unfold step_thread. rewrite Hnp, Hr'. simpl.
        destruct Hm as (_&_&_&Hd&_). rewrite Hd. eexists; reflexivity.
      * exists k. unfold step; simpl. rewrite Hkk. unfold step_thread. rewrite Hnp, Hr'. simpl.
        eexists; reflexivity.
    + destruct Hon as (_&_&_&Hd&_). exists i. unfold step; simpl. rewrite Hi.
      unfold step_thread. rewrite Hnp, Hr, Hd. eexists; reflexivity.
Qed.
