(* count over the UTF-8 storage = count over code points *)
From Coq Require Import List Bool Arith NArith ZArith Lia ZifyN ZifyNat ZifyBool.
Import ListNotations.
From GP Require Import Base.Tactics Model.Utf8 Proofs.Utf8 Model.StrSearch Proofs.Utf8Prefix Proofs.StrSearch.
Open Scope N_scope.

Lemma count_skip x a b : count_go x (a ++ b) (length a) = count_go x b 0.
Proof. induction a as [|c a IH]; simpl; auto. Qed.

Lemma is_prefix_split p l : is_prefix p l = true -> exists t, l = p ++ t.
Proof.
  revert l. induction p as [|a p IH]; intros l H; [exists l; reflexivity|].
  destruct l as [|b l]; simpl in H; [discriminate|]. apply andb_true_iff in H. destruct H as [H1 H2].
  apply N.eqb_eq in H1. subst b. destruct (IH l H2) as [t ->]. exists t. reflexivity.
Qed.

Lemma count_skip_conts lead tl conts rest : is_cont lead = false -> forallb is_cont conts = true ->
  count_go (lead :: tl) (conts ++ rest) 0 = count_go (lead :: tl) rest 0.
Proof.
  intros Hl. induction conts as [|b r IH]; intros Hc; simpl; auto.
  apply andb_true_iff in Hc. destruct Hc as [Hb Hr].
  destruct (N.eqb_spec lead b) as [->|_]; [congruence|]. simpl. apply IH; auto.
Qed.

Lemma count_encode s0 sub' : scalar s0 -> Forall scalar sub' -> forall n w, (length w <= n)%nat -> Forall scalar w ->
  count_go (encode (s0 :: sub')) (encode w) 0 = count_go (s0 :: sub') w 0.
Proof.
  intros Hs0 Hs'. assert (Hsub : Forall scalar (s0 :: sub')) by (constructor; auto).
  destruct (encode1_shape s0 Hs0) as [l0 [c0 [E0 [Hl0 Hc0]]]].
  induction n as [|n IH]; intros w Hn Hw.
  - destruct w; [reflexivity|simpl in Hn; lia].
  - destruct Hw as [|c r Hc Hr]; [reflexivity|]. simpl in Hn.
    pose proof (is_prefix_encode (s0 :: sub') (c :: r) Hsub (Forall_cons _ Hc Hr)) as HP.
    destruct (encode1_shape c Hc) as [lead [conts [E [Hl Hcs]]]].
    change (encode (c :: r)) with (encode1 c ++ encode r) in *. rewrite E in *. cbn [app] in *.
    cbn [count_go]. rewrite HP.
    destruct (is_prefix (s0 :: sub') (c :: r)) eqn:EP.
    + cbn [is_prefix] in EP. apply andb_true_iff in EP. destruct EP as [E1 E2]. apply N.eqb_eq in E1. subst c.
      destruct (is_prefix_split _ _ E2) as [r' ->].
      rewrite E0 in E. inversion E; subst lead conts.
      f_equal.
      change (encode (s0 :: sub')) with (encode1 s0 ++ encode sub'). rewrite E0.
      unfold encode at 2. rewrite flat_map_app. fold (encode sub') (encode r').
      rewrite app_assoc.
      replace (length ((l0 :: c0) ++ encode sub') - 1)%nat with (length (c0 ++ encode sub')) by (simpl; lia).
      rewrite count_skip.
      replace (length (s0 :: sub') - 1)%nat with (length sub') by (simpl; lia).
      rewrite count_skip.
      rewrite <- E0.
      change (encode1 s0 ++ encode sub') with (encode (s0 :: sub')).
      apply IH; [rewrite app_length in Hn; lia|]. apply Forall_app in Hr. tauto.
    + change (encode (s0 :: sub')) with (encode1 s0 ++ encode sub'). rewrite E0. cbn [app].
      rewrite count_skip_conts by auto.
      change (l0 :: c0 ++ encode sub') with ((l0 :: c0) ++ encode sub'). rewrite <- E0.
      change (encode1 s0 ++ encode sub') with (encode (s0 :: sub')).
      apply IH; [lia|auto].
Qed.

Open Scope Z_scope.

Theorem count_model_encode s sub beg end_ : Forall scalar s -> Forall scalar sub ->
  count_model (encode s) (encode sub) beg end_ = cp_count s sub beg end_.
Proof.
  intros Hs Hsub. unfold count_model, cp_count. rewrite rune_count_encode by auto.
  set (size := Z.of_nat (length s)). set (e := clip_end end_ size). set (b := clip_beg beg size).
  destruct ((b >? size) || (b >? e)) eqn:Ebe; [reflexivity|].
  apply orb_false_iff in Ebe. destruct Ebe as [E1 E2].
  assert (Hb : 0 <= b) by (unfold b, clip_beg; destruct (beg <? 0) eqn:?; lia).
  assert (He : e <= size) by (unfold e, clip_end; destruct (end_ >? size) eqn:?; [lia|]; destruct (end_ <? 0) eqn:?; lia).
  rewrite str_slice_encode by (auto; lia). fold (window s b e).
  assert (Hw : Forall scalar (window s b e)) by (apply Forall_firstn', Forall_skipn'; exact Hs).
  destruct Hsub as [|s0 sub' Hs0 Hs'].
  - simpl. rewrite rune_count_encode by auto. reflexivity.
  - destruct (encode1_shape s0 Hs0) as [l0 [c0 [E0 _]]].
    assert (En : encode (s0 :: sub') = l0 :: c0 ++ encode sub') by (change (encode (s0 :: sub')) with (encode1 s0 ++ encode sub'); rewrite E0; reflexivity).
    rewrite En. rewrite <- En.
    rewrite (count_encode s0 sub' Hs0 Hs' (length (window s b e))); auto.
Qed.
