(* A context observes exactly what it observes when it runs alone: the view of context c after an
   arbitrary interleaved history equals its view after the sub-history of its own operations
   (addresses may differ between the two runs; the view -- values, container contents, which
   slots share a container, which modules are loaded -- does not). *)
From Coq Require Import List Bool Arith Lia.
Import ListNotations.
From GP Require Import Model.Contexts Proofs.Contexts.

Definition same_ref (st : state) (c : ctxid) (s s' : slot) : bool :=
  match stores st c s, stores st c s' with
  | Some (Ref a), Some (Ref b) => Nat.eqb a b
  | _, _ => false
  end.

Definition view_eq (c : ctxid) (st1 st2 : state) : Prop :=
  (forall s, observe st1 c s = observe st2 c s) /\
  (forall s s', same_ref st1 c s s' = same_ref st2 c s s') /\
  (forall m, loaded st1 c m = loaded st2 c m).

(* every reference of a context points to an allocated container *)
Definition Live (st : state) : Prop := forall c s a, stores st c s = Some (Ref a) -> heap st a <> None.

Definition Good (st : state) : Prop := Inv st /\ Live st.

Lemma good_init : Good init.
Proof. split; [apply inv_init|]. intros c s a H. discriminate. Qed.

Lemma slot_eqb_refl s : slot_eqb s s = true. Proof. apply slot_eqb_eq. reflexivity. Qed.

(* ---- Live is preserved *)
Lemma bind_live c s v st : (forall a, v = Some (Ref a) -> heap st a <> None) -> Live st -> Live (bind c s v st).
Proof.
  intros Hv L d x a H. rewrite stores_bind in H. simpl.
  destruct (Nat.eqb d c && slot_eqb x s); [apply Hv; auto|eapply L; eauto].
Qed.

Lemma new_list_live c s l st : Inv st -> Live st -> Live (new_list c s l st).
Proof.
  intros [I1 _] L d x a H. unfold new_list, alloc in *. rewrite stores_bind in H. simpl in *.
  destruct (Nat.eqb d c && slot_eqb x s).
  - inversion H; subst. rewrite Nat.eqb_refl. discriminate.
  - destruct (Nat.eqb a (next st)); [discriminate|]. eapply L; eauto.
Qed.

Lemma instantiate_good impls c m st : Good st -> Good (instantiate impls c m st).
Proof.
  unfold instantiate. generalize (impls m). intros l. revert st. induction l as [|[k t] r IH]; intros st G; simpl; auto.
  apply IH. destruct G as [I L]. destruct t; simpl.
  - split; [apply bind_plain_inv; auto; intros a H; discriminate|apply bind_live; auto; intros a H; discriminate].
  - split; [apply new_list_inv; auto|apply new_list_live; auto].
Qed.

Lemma step_good impls c o st : Good st -> Good (step impls c o st).
Proof.
  intros G. split; [apply step_inv; apply G|]. destruct G as [I L]. destruct o; simpl.
  - destruct (loaded st c m); auto. apply (instantiate_good impls c m (set_loaded c m st)). split; auto.
  - destruct (loaded st c (fst s)); auto. apply bind_live; auto. intros a H; discriminate.
  - destruct (loaded st c (fst s)); auto. apply new_list_live; auto.
  - destruct (stores st c s) as [[n0|a]|] eqn:E; auto. destruct (heap st a) eqn:H; auto.
    intros d x b Hb. simpl in *. destruct (Nat.eqb b a); [discriminate|]. eapply L; eauto.
  - destruct (loaded st c (fst dst)); auto. destruct (stores st c src) as [[n|a]|] eqn:E; auto.
    + apply bind_live; auto. intros a H; discriminate.
    + apply bind_live; auto. intros b H. inversion H; subst. eapply L; eauto.
  - apply bind_live; auto. intros a H; discriminate.
Qed.

Lemma run_good impls h : forall st, Good st -> Good (run impls h st).
Proof. induction h as [|[c o] r IH]; intros st G; simpl; auto. apply IH. apply step_good. auto. Qed.

(* ---- steps of other contexts do not change the view *)
Lemma loaded_other impls c d o st m : d <> c -> loaded (step impls d o st) c m = loaded st c m.
Proof.
  intros N.
  assert (B : forall s v x, loaded (bind d s v x) c m = loaded x c m) by reflexivity.
  assert (NL : forall s l x, loaded (new_list d s l x) c m = loaded x c m) by reflexivity.
  assert (SL : forall k x, loaded (set_loaded d k x) c m = loaded x c m).
  { intros k x. simpl. destruct (Nat.eqb c d) eqn:E; [apply Nat.eqb_eq in E; congruence|]. reflexivity. }
  assert (IN : forall k x, loaded (instantiate impls d k x) c m = loaded x c m).
  { intros k x. unfold instantiate. generalize (impls k). intros l. revert x. induction l as [|[kk t] r IH]; intros x; simpl; auto.
    rewrite IH. destruct t; simpl; auto. }
  destruct o; simpl.
  - destruct (loaded st d m0); auto. rewrite IN, SL. reflexivity.
  - destruct (loaded st d (fst s)); auto.
  - destruct (loaded st d (fst s)); auto.
  - destruct (stores st d s) as [[n0|a]|]; auto. destruct (heap st a); auto.
  - destruct (loaded st d (fst dst)); auto. destruct (stores st d src); auto.
  - reflexivity.
Qed.

Lemma other_step_view impls c d o st : Inv st -> d <> c -> view_eq c st (step impls d o st).
Proof.
  intros I N. destruct (step_frame impls c d o st I N) as [A B]. repeat split.
  - intros s. symmetry. apply same_observe. split; auto.
  - intros s s'. unfold same_ref. rewrite !A. reflexivity.
  - intros m. symmetry. apply loaded_other. auto.
Qed.

Lemma view_refl c st : view_eq c st st. Proof. repeat split; auto. Qed.
Lemma view_sym c a b : view_eq c a b -> view_eq c b a.
Proof. intros (A & B & C). repeat split; intros; symmetry; auto. Qed.
Lemma view_trans c a b d : view_eq c a b -> view_eq c b d -> view_eq c a d.
Proof. intros (A1 & B1 & C1) (A2 & B2 & C2). repeat split; intros; [rewrite A1|rewrite B1|rewrite C1]; auto. Qed.

(* ---- the context's own steps: the new view is determined by the old view *)
Definition obs_of_value (st : state) (v : option value) : option (nat + list nat) :=
  match v with
  | Some (Atom n) => Some (inl n)
  | Some (Ref a) => match heap st a with Some l => Some (inr l) | None => None end
  | None => None
  end.

Lemma observe_bind c s v st x : observe (bind c s v st) c x = if slot_eqb x s then obs_of_value st v else observe st c x.
Proof. unfold observe. rewrite stores_bind, Nat.eqb_refl. simpl. destruct (slot_eqb x s); reflexivity. Qed.

Definition ref_of (v : option value) : option addr := match v with Some (Ref a) => Some a | _ => None end.
Definition ref_eqb (a b : option addr) : bool := match a, b with Some x, Some y => Nat.eqb x y | _, _ => false end.

Lemma same_ref_alt st c x y : same_ref st c x y = ref_eqb (ref_of (stores st c x)) (ref_of (stores st c y)).
Proof. unfold same_ref, ref_eqb, ref_of. destruct (stores st c x) as [[?|?]|], (stores st c y) as [[?|?]|]; reflexivity. Qed.

Lemma stores_bind_own c s v st x : stores (bind c s v st) c x = if slot_eqb x s then v else stores st c x.
Proof. rewrite stores_bind, Nat.eqb_refl. reflexivity. Qed.

(* a value that is not a reference *)
Lemma bind_plain_rel c s v st1 st2 : ref_of v = None -> (forall a, v <> Some (Ref a)) ->
  view_eq c st1 st2 -> view_eq c (bind c s v st1) (bind c s v st2).
Proof.
  intros Hr Hv (A & B & C). repeat split.
  - intros x. rewrite !observe_bind. destruct (slot_eqb x s); auto.
    destruct v as [[n|a]|]; auto. exfalso. eapply Hv; eauto.
  - intros x y. rewrite !same_ref_alt, !stores_bind_own.
    destruct (slot_eqb x s), (slot_eqb y s); rewrite ?Hr; simpl; auto;
    try (destruct (ref_of (stores st1 c x)); destruct (ref_of (stores st2 c x)); reflexivity);
    try (unfold ref_eqb; destruct (ref_of (stores st1 c y)), (ref_of (stores st2 c y)); reflexivity).
    rewrite <- !same_ref_alt. apply B.
  - intros m. simpl. apply C.
Qed.

Lemma ref_lt st c x a : Inv st -> ref_of (stores st c x) = Some a -> a < next st.
Proof. intros [I1 _] H. destruct (stores st c x) as [[n|b]|] eqn:E; simpl in H; try discriminate. inversion H; subst. eapply I1; eauto. Qed.

Lemma new_list_rel c s l st1 st2 : Good st1 -> Good st2 ->
  view_eq c st1 st2 -> view_eq c (new_list c s l st1) (new_list c s l st2).
Proof.
  intros [I1 L1] [I2 L2] (A & B & C). unfold new_list, alloc. repeat split.
  - intros x. unfold observe. rewrite !stores_bind_own. cbn [heap stores next bind].
    destruct (slot_eqb x s); [rewrite !Nat.eqb_refl; reflexivity|].
    specialize (A x). unfold observe in A.
    destruct (stores st1 c x) as [[n1|a1]|] eqn:E1; destruct (stores st2 c x) as [[n2|a2]|] eqn:E2; auto;
    try (assert (Ha1 : a1 < next st1) by (destruct I1 as [Hx _]; eapply Hx; eauto); replace (Nat.eqb a1 (next st1)) with false by (symmetry; apply Nat.eqb_neq; lia));
    try (assert (Ha2 : a2 < next st2) by (destruct I2 as [Hy _]; eapply Hy; eauto); replace (Nat.eqb a2 (next st2)) with false by (symmetry; apply Nat.eqb_neq; lia)); auto.
  - intros x y. rewrite !same_ref_alt, !stores_bind_own. cbn [heap stores next].
    destruct (slot_eqb x s) eqn:X, (slot_eqb y s) eqn:Y; cbn [ref_of].
    + simpl. rewrite !Nat.eqb_refl. reflexivity.
    + unfold ref_eqb. destruct (ref_of (stores st1 c y)) as [b1|] eqn:R1; destruct (ref_of (stores st2 c y)) as [b2|] eqn:R2; auto;
      try (pose proof (ref_lt _ _ _ _ I1 R1) as Hb1; replace (Nat.eqb (next st1) b1) with false by (symmetry; apply Nat.eqb_neq; lia));
      try (pose proof (ref_lt _ _ _ _ I2 R2) as Hb2; replace (Nat.eqb (next st2) b2) with false by (symmetry; apply Nat.eqb_neq; lia)); auto.
    + unfold ref_eqb. destruct (ref_of (stores st1 c x)) as [b1|] eqn:R1; destruct (ref_of (stores st2 c x)) as [b2|] eqn:R2; auto;
      try (pose proof (ref_lt _ _ _ _ I1 R1) as Hb1; replace (Nat.eqb b1 (next st1)) with false by (symmetry; apply Nat.eqb_neq; lia));
      try (pose proof (ref_lt _ _ _ _ I2 R2) as Hb2; replace (Nat.eqb b2 (next st2)) with false by (symmetry; apply Nat.eqb_neq; lia)); auto.
    + rewrite <- !same_ref_alt. apply B.
  - intros m. simpl. apply C.
Qed.

Lemma observe_stores st c s : observe st c s = obs_of_value st (stores st c s).
Proof. reflexivity. Qed.

(* under Live, a slot is bound iff it is observable, and the kind of its value is observable *)
Lemma bound_iff_observable st c s : Live st -> (stores st c s = None <-> observe st c s = None).
Proof.
  intros L. unfold observe. destruct (stores st c s) as [[n|a]|] eqn:E; split; intros H; auto; try discriminate.
  destruct (heap st a) eqn:Hh; [discriminate|]. exfalso. eapply L; eauto.
Qed.

Lemma alias_rel c dst src v1 v2 st1 st2 : Good st1 -> Good st2 -> view_eq c st1 st2 ->
  stores st1 c src = Some v1 -> stores st2 c src = Some v2 ->
  view_eq c (bind c dst (Some v1) st1) (bind c dst (Some v2) st2).
Proof.
  intros G1 G2 (A & B & C) E1 E2. repeat split.
  - intros x. rewrite !observe_bind. destruct (slot_eqb x dst); auto.
    rewrite <- E1, <- E2, <- !observe_stores. apply A.
  - intros x y. rewrite !same_ref_alt, !stores_bind_own.
    pose proof (B (if slot_eqb x dst then src else x) (if slot_eqb y dst then src else y)) as Bxy.
    rewrite !same_ref_alt in Bxy.
    destruct (slot_eqb x dst), (slot_eqb y dst); rewrite <- ?E1, <- ?E2; exact Bxy.
  - intros m. simpl. apply C.
Qed.

Lemma append_rel impls c s n st1 st2 : Good st1 -> Good st2 -> view_eq c st1 st2 ->
  view_eq c (step impls c (Append s n) st1) (step impls c (Append s n) st2).
Proof.
  intros [I1 L1] [I2 L2] V. pose proof V as (A & B & C). simpl.
  pose proof (A s) as As. unfold observe in As.
  destruct (stores st1 c s) as [[n1|a1]|] eqn:E1; destruct (stores st2 c s) as [[n2|a2]|] eqn:E2; auto;
  try (destruct (heap st1 a1) eqn:H1; [|exfalso; eapply L1; eauto]);
  try (destruct (heap st2 a2) eqn:H2; [|exfalso; eapply L2; eauto]); try discriminate; auto.
  inversion As; subst. repeat split.
  - intros x. unfold observe. cbn [heap stores].
    pose proof (A x) as Ax. unfold observe in Ax. pose proof (B x s) as Bx. unfold same_ref in Bx. rewrite E1, E2 in Bx.
    destruct (stores st1 c x) as [[m1|b1]|] eqn:X1; destruct (stores st2 c x) as [[m2|b2]|] eqn:X2; auto;
    try (destruct (heap st1 b1) eqn:Hb1; [|exfalso; eapply L1; eauto]);
    try (destruct (heap st2 b2) eqn:Hb2; [|exfalso; eapply L2; eauto]); try discriminate.
    rewrite Bx. destruct (Nat.eqb b2 a2); auto; rewrite ?Hb1, ?Hb2; auto.
  - intros x y. unfold same_ref. cbn [stores]. apply B.
  - intros m. cbn [loaded]. apply C.
Qed.

Lemma set_loaded_rel c m st1 st2 : view_eq c st1 st2 -> view_eq c (set_loaded c m st1) (set_loaded c m st2).
Proof.
  intros (A & B & C). repeat split; auto. intros k. simpl. rewrite Nat.eqb_refl. simpl. destruct (Nat.eqb k m); auto.
Qed.

Lemma set_loaded_good c m st : Good st -> Good (set_loaded c m st).
Proof. intros G. exact G. Qed.

Lemma instantiate_rel impls c m : forall st1 st2, Good st1 -> Good st2 -> view_eq c st1 st2 ->
  view_eq c (instantiate impls c m st1) (instantiate impls c m st2).
Proof.
  unfold instantiate. generalize (impls m). intros l. induction l as [|[k t] r IH]; intros st1 st2 G1 G2 V; simpl; auto.
  destruct t; simpl.
  - apply IH.
    + destruct G1 as [I L]. split; [apply bind_plain_inv; auto; intros a H; discriminate|apply bind_live; auto; intros a H; discriminate].
    + destruct G2 as [I L]. split; [apply bind_plain_inv; auto; intros a H; discriminate|apply bind_live; auto; intros a H; discriminate].
    + apply bind_plain_rel; auto. intros a H; discriminate.
  - apply IH.
    + destruct G1 as [I L]. split; [apply new_list_inv; auto|apply new_list_live; auto].
    + destruct G2 as [I L]. split; [apply new_list_inv; auto|apply new_list_live; auto].
    + apply new_list_rel; auto.
Qed.

Lemma step_rel impls c o st1 st2 : Good st1 -> Good st2 -> view_eq c st1 st2 ->
  view_eq c (step impls c o st1) (step impls c o st2).
Proof.
  intros G1 G2 V. pose proof V as (A & B & C). destruct o.
  - simpl. rewrite (C m). destruct (loaded st2 c m); auto.
    apply instantiate_rel; auto. apply set_loaded_rel. auto.
  - simpl. rewrite (C (fst s)). destruct (loaded st2 c (fst s)); auto. apply bind_plain_rel; auto. intros a H; discriminate.
  - simpl. rewrite (C (fst s)). destruct (loaded st2 c (fst s)); auto. apply new_list_rel; auto.
  - apply append_rel; auto.
  - simpl. rewrite (C (fst dst)). destruct (loaded st2 c (fst dst)); auto.
    destruct G1 as [I1 L1], G2 as [I2 L2].
    pose proof (bound_iff_observable st1 c src L1) as O1. pose proof (bound_iff_observable st2 c src L2) as O2.
    destruct (stores st1 c src) as [v1|] eqn:E1; destruct (stores st2 c src) as [v2|] eqn:E2; auto.
    + eapply alias_rel; eauto; split; auto.
    + exfalso. assert (observe st1 c src = None) by (rewrite A; apply O2; auto). apply O1 in H. discriminate.
    + exfalso. assert (observe st2 c src = None) by (rewrite <- A; apply O1; auto). apply O2 in H. discriminate.
  - simpl. apply bind_plain_rel; auto. intros a H; discriminate.
Qed.

Definition own (c : ctxid) (h : list (ctxid * op)) : list (ctxid * op) := filter (fun co => Nat.eqb (fst co) c) h.

Lemma run_view impls c h : forall st1 st2, Good st1 -> Good st2 -> view_eq c st1 st2 ->
  view_eq c (run impls h st1) (run impls (own c h) st2).
Proof.
  induction h as [|[d o] r IH]; intros st1 st2 G1 G2 V; simpl; auto.
  destruct (Nat.eqb d c) eqn:E.
  - apply Nat.eqb_eq in E. subst d. simpl. apply IH; try apply step_good; auto. apply step_rel; auto.
  - apply Nat.eqb_neq in E. apply IH; try apply step_good; auto.
    eapply view_trans; [apply view_sym; apply other_step_view; [apply G1|exact E]|exact V].
Qed.

(* the full statement: after any interleaved history every observation of context c (values,
   container contents, sharing between its slots, loaded modules) is what it is after c's own
   operations alone *)
Theorem observes_what_it_observes_alone impls c h : view_eq c (run impls h init) (run impls (own c h) init).
Proof. apply run_view; try apply good_init. apply view_refl. Qed.
