From Coq Require Import List Bool Arith Lia.
Import ListNotations.
From GP Require Import Model.Import.

Lemma mem_In m l : mem m l = true <-> In m l.
Proof. unfold mem. rewrite existsb_exists. split.
  - intros [x [H E]]. apply Nat.eqb_eq in E. subst; auto.
  - intros H. exists m. split; auto. apply Nat.eqb_refl. Qed.

(* every executed module is in the store, and no module body is in the log twice *)
Definition inv (st : list nat * list nat) : Prop := NoDup (snd st) /\ incl (snd st) (fst st).

Lemma fold_inv (f : list nat * list nat -> nat -> list nat * list nat) :
  (forall st m, inv st -> inv (f st m) /\ incl (fst st) (fst (f st m)) /\ incl (snd st) (snd (f st m))) ->
  forall l st, inv st -> inv (fold_left f l st) /\ incl (fst st) (fst (fold_left f l st)) /\ incl (snd st) (snd (fold_left f l st)).
Proof.
  intros H l. induction l as [|x r IH]; intros st I; simpl.
  - split; [exact I|split; apply incl_refl].
  - destruct (H st x I) as (I1 & A1 & B1). destruct (IH _ I1) as (I2 & A2 & B2).
    split; [exact I2|split; eapply incl_tran; eauto].
Qed.

Lemma import_inv fuel g : forall st m, inv st ->
  inv (import_mod fuel g st m) /\ incl (fst st) (fst (import_mod fuel g st m)) /\ incl (snd st) (snd (import_mod fuel g st m)).
Proof.
  induction fuel as [|f IH]; intros st m I; simpl.
  - destruct (mem m (fst st)); (split; [exact I|split; apply incl_refl]).
  - destruct (mem m (fst st)) eqn:E; [split; [exact I|split; apply incl_refl]|].
    assert (Hm : ~ In m (fst st)) by (intros H; apply mem_In in H; congruence).
    set (st1 := (m :: fst st, m :: snd st)).
    assert (I1 : inv st1).
    { destruct I as [ND INC]. split; simpl.
      - constructor; [intros H; apply Hm; apply INC; auto|auto].
      - intros x [<-|Hx]; [left; auto|right; apply INC; auto]. }
    destruct (fold_inv _ (IH) (g m) st1 I1) as (I2 & A2 & B2).
    split; [exact I2|split].
    + eapply incl_tran; [|exact A2]. intros x Hx. right. auto.
    + eapply incl_tran; [|exact B2]. intros x Hx. right. auto.
Qed.

(* whatever the import graph (cycles included), the requests and their order: no module body
   runs twice, and every module whose body ran is in the store all importers share *)
Theorem body_runs_at_most_once fuel g reqs :
  NoDup (snd (run_imports fuel g reqs)) /\ incl (snd (run_imports fuel g reqs)) (fst (run_imports fuel g reqs)).
Proof.
  unfold run_imports.
  destruct (fold_inv _ (import_inv fuel g) reqs ([], [])) as (I & _ & _).
  - split; simpl; [constructor|intros x []].
  - exact I.
Qed.

(* a requested module is in the store afterwards (with enough fuel it has also been executed) *)
Lemma import_registers fuel g st m : inv st -> fuel <> 0 -> In m (fst (import_mod fuel g st m)).
Proof.
  intros I Hf. destruct fuel as [|f]; [congruence|]. simpl.
  destruct (mem m (fst st)) eqn:E; [apply mem_In; auto|].
  set (st1 := (m :: fst st, m :: snd st)).
  assert (I1 : inv st1).
  { destruct I as [ND INC]. assert (Hm : ~ In m (fst st)) by (intros H; apply mem_In in H; congruence).
    split; simpl; [constructor; auto; intros H; apply Hm; apply INC; auto|].
    intros x [<-|Hx]; [left; auto|right; apply INC; auto]. }
  destruct (fold_inv _ (import_inv f g) (g m) st1 I1) as (_ & A & _). apply A. left. auto.
Qed.
