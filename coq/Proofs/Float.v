From Coq Require Import ZArith Bool Lia Reals Psatz.
From Flocq Require Import Core.Zaux Core.Raux Core.Defs Core.Generic_fmt Core.FLX Core.FIX Core.Round_NE IEEE754.BinarySingleNaN.
From GP Require Import Model.Float.
Open Scope Z_scope.

(* ---- round half to even of a rational (Float.M__round__ with ndigits; Int/BigInt.M__round__) *)
Theorem rne_q_nearest num den : 0 < den ->
  let n := rne_q num den in
  2 * Z.abs (num - n * den) <= den /\ (2 * Z.abs (num - n * den) = den -> Z.even n = true).
Proof.
  intros Hd. unfold rne_q. cbv zeta.
  pose proof (Z.div_mod (2 * num + den) (2 * den) ltac:(lia)) as E.
  pose proof (Z.mod_pos_bound (2 * num + den) (2 * den) ltac:(lia)) as B.
  set (q := (2 * num + den) / (2 * den)) in *. set (r := (2 * num + den) mod (2 * den)) in *.
  destruct ((r =? 0) && Z.odd q) eqn:T.
  - apply andb_true_iff in T. destruct T as [T1 T2]. apply Z.eqb_eq in T1.
    split; [lia|]. intros _. rewrite Z.even_sub. rewrite <- Z.negb_odd, T2. reflexivity.
  - split; [lia|]. intros H. apply andb_false_iff in T. destruct T as [T|T].
    + apply Z.eqb_neq in T. lia.
    + rewrite <- Z.negb_odd, T. reflexivity.
Qed.

Theorem round_int_nearest a k : 0 < k ->
  let s := 10 ^ k in let r := round_int a k in
  (exists m, r = m * s /\ (2 * Z.abs (a - r) = s -> Z.even m = true)) /\ 2 * Z.abs (a - r) <= s.
Proof.
  intros Hk. cbv zeta. unfold round_int. replace (k <=? 0) with false by (symmetry; apply Z.leb_gt; lia).
  assert (Hs : 0 < 10 ^ k) by (apply Z.pow_pos_nonneg; lia).
  set (s := 10 ^ k) in *.
  pose proof (Z.div_mod (Z.abs a) s ltac:(lia)) as E.
  pose proof (Z.mod_pos_bound (Z.abs a) s ltac:(lia)) as B.
  set (d := Z.abs a mod s) in *. set (q := Z.abs a / s) in *.
  assert (Ht : Z.abs a - d = q * s) by lia.
  assert (Hq : (Z.abs a - d) / s = q) by (rewrite Ht; apply Z.div_mul; lia).
  rewrite Hq.
  destruct ((s <? 2 * d) || ((2 * d =? s) && Z.odd q)) eqn:U.
  - split.
    + exists (Z.sgn a * (q + 1)). split; [nia|]. intros Tie.
      apply orb_true_iff in U. destruct U as [U|U].
      * apply Z.ltb_lt in U. destruct (Z.sgn_spec a) as [[? S]|[[? S]|[? S]]]; rewrite S in *; lia.
      * apply andb_true_iff in U. destruct U as [_ U]. rewrite Z.even_mul. 
        assert (Z.even (q + 1) = true) by (rewrite Z.even_add, <- Z.negb_odd, U; reflexivity).
        rewrite H. apply orb_true_r.
    + apply orb_true_iff in U. destruct (Z.sgn_spec a) as [[? S]|[[? S]|[? S]]]; rewrite S in *; destruct U as [U|U];
      try apply Z.ltb_lt in U; try (apply andb_true_iff in U; destruct U as [U _]; apply Z.eqb_eq in U); lia.
  - apply orb_false_iff in U. destruct U as [U1 U2]. apply Z.ltb_ge in U1. split.
    + exists (Z.sgn a * q). split; [nia|]. intros Tie.
      assert (2 * d = s) by (destruct (Z.sgn_spec a) as [[? S]|[[? S]|[? S]]]; rewrite S in *; lia).
      apply andb_false_iff in U2. destruct U2 as [U2|U2]; [apply Z.eqb_neq in U2; lia|].
      rewrite Z.even_mul, <- (Z.negb_odd q), U2. apply orb_true_r.
    + destruct (Z.sgn_spec a) as [[? S]|[[? S]|[? S]]]; rewrite S in *; lia.
Qed.

(* ---- exact comparison of a float with an int of any size *)
Lemma Rcompare_IZR a b : Rcompare (IZR a) (IZR b) = (a ?= b).
Proof.
  destruct (Z.compare_spec a b) as [->|H|H].
  - apply Rcompare_Eq. reflexivity.
  - apply Rcompare_Lt. apply IZR_lt. exact H.
  - apply Rcompare_Gt. apply IZR_lt. exact H.
Qed.

Theorem cmp_float_int_exact x n c : cmp_float_int x n = Some c -> BinarySingleNaN.is_finite x = true ->
  c = Rcompare (BinarySingleNaN.B2R x) (IZR n).
Proof.
  destruct x as [s|s| |s m e Hb]; simpl; intros H F; try discriminate.
  - inversion H; subst. symmetry. apply (Rcompare_IZR 0 n).
  - inversion H; subst. clear H. unfold F2R. simpl.
    set (v := if s then Z.neg m else Z.pos m).
    replace (cond_Zopp s (Z.pos m)) with v by (unfold v; destruct s; reflexivity).
    destruct (0 <=? e) eqn:E.
    + apply Z.leb_le in E. rewrite <- (Rcompare_IZR (v * 2 ^ e) n). f_equal.
      rewrite mult_IZR. f_equal. change (2 ^ e) with (radix2 ^ e). rewrite (IZR_Zpower radix2 e E). reflexivity.
    + apply Z.leb_gt in E. rewrite <- (Rcompare_IZR v (n * 2 ^ (- e))).
      rewrite mult_IZR. change (2 ^ (- e)) with (radix2 ^ (- e)). rewrite (IZR_Zpower radix2 (- e)) by lia.
      rewrite <- (Rcompare_mult_r (bpow radix2 (- e)) (IZR v * bpow radix2 e) (IZR n)) by apply bpow_gt_0.
      f_equal. rewrite Rmult_assoc. rewrite <- bpow_plus. replace (e + - e) with 0 by lia. simpl. ring.
Qed.

(* ---- int -> float: nearest, ties to even, or overflow.  SpecFloat.fexp prec emax is the format
   FLT_exp (3 - emax - prec) prec of binary64 *)
Theorem int_to_float_correct n :
  match int_to_float n with
  | Ok z => BinarySingleNaN.B2R z = round radix2 (SpecFloat.fexp prec emax) ZnearestE (IZR n) /\ BinarySingleNaN.is_finite z = true
  | OverflowErr => (bpow radix2 emax <= Rabs (round radix2 (SpecFloat.fexp prec emax) ZnearestE (IZR n)))%R
  | _ => False
  end.
Proof.
  unfold int_to_float.
  pose proof (BinarySingleNaN.binary_normalize_correct prec emax Hprec Hmax mode_NE n 0 false) as H.
  cbv zeta in H. assert (Hx : F2R (Float radix2 n 0) = IZR n) by (unfold F2R; simpl; ring). rewrite Hx in H. clear Hx.
  set (z := BinarySingleNaN.binary_normalize prec emax Hprec Hmax mode_NE n 0 false) in *.
  match type of H with if Rlt_bool ?a ?b then _ else _ => destruct (Rlt_bool_spec a b) as [L|L] end.
  - destruct H as (H1 & H2 & _). rewrite H2. split; auto.
  - destruct z; simpl in *; auto; unfold BinarySingleNaN.binary_overflow in H; simpl in H;
    destruct (Rlt_bool (IZR n) 0); discriminate.
Qed.

(* ---- float -> int: truncation *)
Theorem float_to_int_trunc x z : float_to_int x = Ok z -> IZR z = round radix2 (FIX.FIX_exp 0) Ztrunc (BinarySingleNaN.B2R x).
Proof.
  intros H. assert (E : z = BinarySingleNaN.Btrunc x) by (destruct x; simpl in H; inversion H; reflexivity).
  subst z. apply BinarySingleNaN.Btrunc_correct. exact Hmax.
Qed.

(* ---- round(x): nearest integer, ties to even *)
Theorem round_float_half_even x z : round_float x = Ok z ->
  IZR z = round radix2 (FIX.FIX_exp 0) ZnearestE (BinarySingleNaN.B2R x).
Proof.
  unfold round_float. intros H. apply float_to_int_trunc in H.
  destruct (BinarySingleNaN.Bnearbyint_correct prec emax Hmax mode_NE x) as (R & _ & _).
  rewrite R in H. simpl round_mode in H. rewrite H.
  apply round_generic; [apply valid_rnd_ZR|]. apply generic_format_round; [apply FIX.FIX_exp_valid|apply valid_rnd_N].
Qed.
