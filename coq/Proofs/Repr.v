(* eval(repr(s)) = s at the token level: the lexer's scan for the end of the literal stops exactly after
   the text StringEscape produced, and DecodeEscape turns that text back into s -- for every string of
   scalar values and whatever strconv.IsPrint answers. *)
From Coq Require Import List NArith Bool Arith Lia ZifyBool.
Import ListNotations.
From GP Require Import Model.Escape Proofs.Escape.
From GP Require Import Model.Repr.
Open Scope N_scope.

Definition plain (q c : N) : Prop := c <> q /\ c <> 92 /\ c <> 10.

Lemma scan_plain q l : forall rest acc, Forall (plain q) l ->
  scan q false (l ++ rest) acc = scan q false rest (acc ++ l).
Proof.
  induction l as [|c r IH]; intros rest acc H; [rewrite app_nil_r; reflexivity|].
  inversion H as [|? ? [H1 [H2 H3]] Hr]; subst. cbn [app scan].
  apply N.eqb_neq in H1, H2, H3. rewrite H1, H3, H2. rewrite IH by exact Hr. rewrite <- app_assoc. reflexivity.
Qed.

Lemma scan_esc q e rest acc : (q = 34 \/ q = 39) -> e <> 10 ->
  scan q false (92 :: e :: rest) acc = scan q false rest (acc ++ [92; e]).
Proof.
  intros Hq He. cbn [scan].
  assert (E1 : (92 =? q) = false) by (apply N.eqb_neq; lia). rewrite E1.
  change (92 =? 10) with false. change (92 =? 92) with true. cbv iota.
  apply N.eqb_neq in He. rewrite He. rewrite <- app_assoc. reflexivity.
Qed.

Definition hexish (c : N) : Prop := (48 <= c <= 57) \/ (97 <= c <= 102).
Lemma hexchar_hexish d : d < 16 -> hexish (hexchar d).
Proof. intros H. unfold hexchar, hexish. destruct (d <? 10) eqn:E; [apply N.ltb_lt in E|apply N.ltb_ge in E]; lia. Qed.
Lemma hex_digits_hexish w : forall v, Forall hexish (hex_digits w v).
Proof.
  induction w as [|w IH]; intros v; [constructor|]. cbn [hex_digits]. apply Forall_app. split; [apply IH|].
  constructor; [|constructor]. apply hexchar_hexish. apply N.mod_lt. discriminate.
Qed.
Lemma hexish_plain q c : (q = 34 \/ q = 39) -> hexish c -> plain q c.
Proof. unfold hexish, plain. lia. Qed.

Section WithPrintable.
Variable printable : N -> bool.

Definition body_q (q : N) (l : list N) : list N := flat_map (fun c => render c (repr_spelling printable q c)) l.

Lemma scan_hex q (pre : N) w v rest acc : (q = 34 \/ q = 39) -> pre <> 10 ->
  scan q false (92 :: pre :: hex_digits w v ++ rest) acc = scan q false rest (acc ++ 92 :: pre :: hex_digits w v).
Proof.
  intros Hq Hp. rewrite scan_esc by auto. rewrite scan_plain.
  - rewrite <- app_assoc. reflexivity.
  - eapply Forall_impl; [|apply hex_digits_hexish]. intros c. apply hexish_plain. exact Hq.
Qed.

Lemma scan_lit q c rest acc : plain q c -> scan q false (c :: rest) acc = scan q false rest (acc ++ [c]).
Proof. intros H. apply (scan_plain q [c] rest acc). constructor; [exact H|constructor]. Qed.

Lemma scan_step q c rest acc : (q = 34 \/ q = 39) ->
  scan q false (render c (repr_spelling printable q c) ++ rest) acc =
  scan q false rest (acc ++ render c (repr_spelling printable q c)).
Proof.
  intros Hq. unfold repr_spelling.
  destruct (c <? 32) eqn:E32.
  { apply N.ltb_lt in E32. destruct ((c =? 9) || (c =? 10) || (c =? 13)) eqn:En.
    - assert (Hc : c = 9 \/ c = 10 \/ c = 13) by lia.
      destruct Hc as [-> | [-> | ->]]; cbn [render named N.eqb Pos.eqb app]; apply scan_esc; auto; discriminate.
    - cbn [render app]. apply scan_hex; auto. discriminate. }
  apply N.ltb_ge in E32.
  assert (Plain : c <> 92 -> c <> q -> plain q c) by (unfold plain; lia).
  destruct (c <? 127) eqn:E127.
  { destruct ((c =? 92) || (c =? q)) eqn:En.
    - assert (Hc : c = 92 \/ c = 34 \/ c = 39) by lia.
      destruct Hc as [-> | [-> | ->]]; cbn [render named N.eqb Pos.eqb app]; apply scan_esc; auto; discriminate.
    - cbn [render app]. apply scan_lit. apply Plain; lia. }
  apply N.ltb_ge in E127.
  assert (P : plain q c) by (apply Plain; lia).
  destruct (c <? 256); [|destruct (c <? 65536)]; destruct (printable c); cbn [render app];
    try (apply scan_lit; exact P); apply scan_hex; auto; discriminate.
Qed.

Lemma scan_body q l : (q = 34 \/ q = 39) -> forall rest acc,
  scan q false (body_q q l ++ q :: rest) acc = Some (acc ++ body_q q l, rest).
Proof.
  intros Hq. induction l as [|c r IH]; intros rest acc.
  - cbn. rewrite N.eqb_refl, app_nil_r. reflexivity.
  - cbn [body_q flat_map]. fold (body_q q r). rewrite <- app_assoc, scan_step by exact Hq.
    rewrite IH, <- app_assoc. reflexivity.
Qed.

Lemma spelling_valid q c : (q = 34 \/ q = 39) -> scalar c = true -> valid false c (repr_spelling printable q c) = true.
Proof.
  intros Hq Hs. unfold repr_spelling.
  assert (Hs' : c <= 1114111) by (unfold scalar in Hs; lia).
  destruct (c <? 32) eqn:E32.
  { destruct ((c =? 9) || (c =? 10) || (c =? 13)) eqn:En.
    - assert (Hc : c = 9 \/ c = 10 \/ c = 13) by lia. destruct Hc as [-> | [-> | ->]]; reflexivity.
    - cbn [valid]. lia. }
  destruct (c <? 127) eqn:E127.
  { destruct ((c =? 92) || (c =? q)) eqn:En.
    - assert (Hc : c = 92 \/ c = 34 \/ c = 39) by lia. destruct Hc as [-> | [-> | ->]]; reflexivity.
    - cbn [valid]. rewrite Hs. lia. }
  assert (N92 : (c =? 92) = false) by lia.
  destruct (c <? 256) eqn:E256; [|destruct (c <? 65536) eqn:E64k]; destruct (printable c); cbn [valid negb andb];
    rewrite ?N92, ?Hs, ?E256, ?E64k; reflexivity.
Qed.

Lemma decode_body q l : (q = 34 \/ q = 39) -> Forall (fun c => scalar c = true) l -> decode false (body_q q l) = Some l.
Proof.
  intros Hq Hl.
  pose proof (decode_render false (map (fun c => (c, repr_spelling printable q c)) l)) as D.
  rewrite flat_map_concat_map, map_map in D. cbn [fst snd] in D.
  rewrite map_map in D. cbn [fst] in D. rewrite map_id in D.
  unfold body_q. rewrite flat_map_concat_map. apply D.
  apply Forall_map. eapply Forall_impl; [|exact Hl]. intros c Hc. cbn [fst snd]. apply spelling_valid; assumption.
Qed.

Lemma quote_cases s : quote_of s = 34 \/ quote_of s = 39.
Proof. unfold quote_of. destruct (_ && _); auto. Qed.

Lemma body_head q c r : (q = 34 \/ q = 39) -> exists x t, body_q q (c :: r) = x :: t /\ x <> q.
Proof.
  intros Hq. cbn [body_q flat_map]. unfold repr_spelling.
  destruct (c <? 32) eqn:E32.
  { destruct ((c =? 9) || (c =? 10) || (c =? 13)) eqn:En.
    - assert (Hc : c = 9 \/ c = 10 \/ c = 13) by lia.
      destruct Hc as [-> | [-> | ->]]; cbn [render named N.eqb Pos.eqb app]; eexists; eexists; (split; [reflexivity|lia]).
    - cbn [render app]. eexists; eexists; (split; [reflexivity|lia]). }
  destruct (c <? 127) eqn:E127.
  { destruct ((c =? 92) || (c =? q)) eqn:En.
    - assert (Hc : c = 92 \/ c = 34 \/ c = 39) by lia.
      destruct Hc as [-> | [-> | ->]]; cbn [render named N.eqb Pos.eqb app]; eexists; eexists; (split; [reflexivity|lia]).
    - cbn [render app]. eexists; eexists; (split; [reflexivity|lia]). }
  destruct (c <? 256); [|destruct (c <? 65536)]; destruct (printable c); cbn [render app];
    eexists; eexists; (split; [reflexivity|lia]).
Qed.

Theorem repr_roundtrip s rest : Forall (fun c => scalar c = true) s ->
  (s = [] -> hd_error rest <> Some (quote_of s)) ->
  eval_literal (repr_str printable s ++ rest) = Some (s, rest).
Proof.
  intros Hs Hempty. unfold repr_str, repr_body.
  change (flat_map (fun c => render c (repr_spelling printable (quote_of s) c)) s) with (body_q (quote_of s) s).
  pose proof (quote_cases s) as Hq. remember (quote_of s) as q eqn:Eqq. clear Eqq.
  cbn [app eval_literal].
  assert (Eq : ((q =? 39) || (q =? 34)) = true) by lia. rewrite Eq.
  assert (Main : match scan q false ((body_q q s ++ [q]) ++ rest) [] with
                 | Some (body, rest') => match decode false body with Some v => Some (v, rest') | None => None end
                 | None => None end = Some (s, rest)).
  { rewrite <- app_assoc. cbn [app]. rewrite scan_body by exact Hq. cbn [app]. rewrite decode_body by assumption. reflexivity. }
  destruct s as [|c r].
  - cbn [body_q flat_map app] in *. destruct rest as [|x rest'].
    + exact Main.
    + assert (x <> q) by (intros ->; apply Hempty; reflexivity).
      rewrite N.eqb_refl. assert (Ex : (x =? q) = false) by lia. rewrite Ex. cbn [andb]. exact Main.
  - destruct (body_head q c r Hq) as [x [t [Eb Hx]]]. rewrite Eb in *. cbn [app] in *.
    assert (Ex : (x =? q) = false) by lia.
    destruct (t ++ [q]) as [|y t'] eqn:Et; [destruct t; discriminate|].
    cbn [app] in *. rewrite Ex. cbn [andb]. exact Main.
Qed.
End WithPrintable.
