(* Soundness of a validated certificate: a set of abstract states that is closed under the
   abstract step contains every abstract state reachable from function entry, and none of
   them can underflow the stack, exceed co_stacksize, jump off an instruction boundary,
   mis-use the block stack or hit one of the VM's internal panics. *)
From Coq Require Import List Bool Arith NArith String Lia ZifyN.
Import ListNotations.
From GP Require Import Gen.Opcodes Model.Verify.

Lemma why_eqb_eq a b : why_eqb a b = true -> a = b.
Proof. destruct a, b; simpl; congruence. Qed.
Lemma tag_eqb_eq a b : tag_eqb a b = true -> a = b.
Proof. destruct a, b; simpl; try congruence; intros H; [apply why_eqb_eq in H|apply N.eqb_eq in H]; congruence. Qed.
Lemma bkind_eqb_eq a b : bkind_eqb a b = true -> a = b.
Proof. destruct a, b; simpl; congruence. Qed.
Lemma blk_eqb_eq a b : blk_eqb a b = true -> a = b.
Proof.
  destruct a, b. unfold blk_eqb. simpl. rewrite !andb_true_iff. intros [[H1 H2] H3].
  apply bkind_eqb_eq in H1. apply N.eqb_eq in H2. apply Nat.eqb_eq in H3. congruence.
Qed.
Lemma list_eqb_eq {A} (eqb : A -> A -> bool) (Heq : forall a b, eqb a b = true -> a = b) l1 :
  forall l2, list_eqb eqb l1 l2 = true -> l1 = l2.
Proof.
  induction l1 as [|x l1 IH]; intros [|y l2]; simpl; try congruence.
  rewrite andb_true_iff. intros [H1 H2]. apply Heq in H1. apply IH in H2. congruence.
Qed.
Lemma astate_eqb_eq a b : astate_eqb a b = true -> a = b.
Proof.
  destruct a, b. unfold astate_eqb. simpl. rewrite !andb_true_iff. intros [[H1 H2] H3].
  apply N.eqb_eq in H1. apply (list_eqb_eq _ tag_eqb_eq) in H2. apply (list_eqb_eq _ blk_eqb_eq) in H3. congruence.
Qed.

Lemma mem_In s S : mem s S = true -> In s S.
Proof. unfold mem. rewrite existsb_exists. intros [x [Hx E]]. apply astate_eqb_eq in E. subst; auto. Qed.

Lemma In_nexts s' outs : In (Next s') outs -> In s' (nexts outs).
Proof. induction outs as [|o r IH]; simpl; [tauto|]. intros [->|H]; [left; auto|]. destruct o; simpl; auto. Qed.

Lemma first_bad_none outs m : first_bad outs = None -> ~ In (Bad m) outs.
Proof.
  induction outs as [|o r IH]; simpl; [tauto|].
  destruct o; try discriminate; intros H [E|E]; try discriminate; apply IH; auto.
Qed.

Inductive reach (ci : codeinfo) (ct : list N) : astate -> Prop :=
| reach_init : reach ci ct init_state
| reach_step : forall s s', reach ci ct s -> In (Next s') (astep ci ct s) -> reach ci ct s'.

Theorem closed_sound ci ct S : closed ci ct S = true ->
  forall s, reach ci ct s ->
    In s S /\ state_ok ci s = true /\ (forall m, ~ In (Bad m) (astep ci ct s)).
Proof.
  unfold closed. rewrite andb_true_iff. intros [Hi Hc]. rewrite forallb_forall in Hc.
  assert (G : forall s, In s S -> state_ok ci s = true /\ (forall m, ~ In (Bad m) (astep ci ct s)) /\
                                  forall s', In (Next s') (astep ci ct s) -> In s' S).
  { intros s Hs. specialize (Hc s Hs). rewrite !andb_true_iff in Hc. destruct Hc as [[H1 H2] H3].
    split; auto. split.
    - intros m. apply first_bad_none. destruct (first_bad (astep ci ct s)); [discriminate|reflexivity].
    - intros s' Hn. rewrite forallb_forall in H3. apply mem_In. apply H3. apply In_nexts. auto. }
  intros s R. induction R as [|s s' R IH Hn].
  - apply mem_In in Hi. destruct (G _ Hi) as [A [B _]]. auto.
  - destruct IH as [Hs _]. destruct (G _ Hs) as [_ [_ C]]. specialize (C _ Hn).
    destruct (G _ C) as [A [B _]]. auto.
Qed.

(* what state_ok and the absence of Bad give, spelled out *)
Corollary closed_safe ci ct S : closed ci ct S = true ->
  forall s, reach ci ct s ->
    length (a_stack s) <= c_stacksize ci /\
    (exists i, find_instr (c_instrs ci) (a_pc s) = Some i) /\
    predicted S (a_pc s) (length (a_stack s)) (length (a_blocks s)) = true.
Proof.
  intros Hc s R. destruct (closed_sound _ _ _ Hc s R) as [Hin [Hok _]].
  unfold state_ok in Hok. rewrite andb_true_iff in Hok. destruct Hok as [H1 H2].
  split; [apply Nat.leb_le; auto|]. split.
  - destruct (find_instr (c_instrs ci) (a_pc s)); [eauto|discriminate].
  - unfold predicted. apply existsb_exists. exists s. split; auto. rewrite N.eqb_refl, !Nat.eqb_refl. reflexivity.
Qed.

(* the decoder only produces instructions that start where the previous one ended *)
Lemma decode_contiguous fuel : forall code addr ext l,
  decode fuel code addr ext = Some l ->
  forall i, In i l -> (addr <= i_addr i /\ i_addr i < i_next i /\ i_next i <= addr + N.of_nat (length code))%N.
Proof.
  induction fuel as [|f IH]; intros code addr ext l H i Hi; cbn [decode] in H; [discriminate|].
  destruct code as [|b r].
  - destruct ext; inversion H; subst. destruct Hi.
  - destruct (opcode_of_nat b) as [op|]; [|discriminate].
    destruct (Nat.leb HAVE_ARGUMENT b).
    + destruct r as [|lo [|hi r']]; try discriminate.
      assert (G : forall e l', decode f r' (addr + 3)%N e = Some l' ->
                  l = {| i_addr := addr; i_op := op; i_arg := mk_arg lo hi ext; i_next := (addr + 3)%N |} :: l' ->
                  (addr <= i_addr i /\ i_addr i < i_next i /\ i_next i <= addr + N.of_nat (length (b :: lo :: hi :: r')))%N).
      { intros e l' Hd ->. destruct Hi as [<-|Hi]; cbn [i_addr i_next length]; [lia|].
        destruct (IH _ _ _ _ Hd _ Hi) as (A & B & C). cbn [length]. lia. }
      destruct op;
        match type of H with
        | match decode f r' (addr + 3)%N ?e with _ => _ end = _ =>
            destruct (decode f r' (addr + 3)%N e) as [l'|] eqn:Hd; [|discriminate]; inversion H; subst; eapply G; eauto
        end.
    + destruct ext; [discriminate|].
      destruct (decode f r (addr + 1)%N None) as [l'|] eqn:Hd; [|discriminate]. inversion H; subst.
      destruct Hi as [<-|Hi]; cbn [i_addr i_next length]; [lia|].
      destruct (IH _ _ _ _ Hd _ Hi) as (A & B & C). cbn [length]. lia.
Qed.
