From Coq Require Import List Bool Arith Lia.
Import ListNotations.
From GP Require Import Model.Mro.

Inductive subseq : list cid -> list cid -> Prop :=
| sub_nil : forall l, subseq [] l
| sub_skip : forall s x l, subseq s l -> subseq s (x :: l)
| sub_take : forall x s l, subseq s l -> subseq (x :: s) (x :: l).

Lemma existsb_eqb_In c l : existsb (Nat.eqb c) l = true <-> In c l.
Proof. rewrite existsb_exists. split.
  - intros [x [H E]]. apply Nat.eqb_eq in E. subst; auto.
  - intros H. exists c. split; auto. apply Nat.eqb_refl. Qed.

Lemma in_tail_false_notin c h t : in_tail c (h :: t) = false -> ~ In c t.
Proof. simpl. intros H HI. apply existsb_eqb_In in HI. congruence. Qed.

Lemma find_cand_sound ss all c : find_cand ss all = Some c ->
  (exists s, In (c :: s) ss) /\ forall l, In l all -> in_tail c l = false.
Proof.
  induction ss as [|[|h t] r IH]; simpl; intros H; try discriminate.
  - destruct (IH H) as [[s Hs] Hn]. split; eauto.
  - destruct (existsb (in_tail h) all) eqn:E.
    + destruct (IH H) as [[s Hs] Hn]. split; eauto.
    + inversion H; subst. split; [exists t; auto|].
      intros l Hl. destruct (in_tail c l) eqn:E'; auto.
      assert (existsb (in_tail c) all = true) by (apply existsb_exists; eauto). congruence.
Qed.

(* the generalised invariant of the merge loop *)
Lemma pmerge_props fuel : forall acc ss L,
  pmerge fuel acc ss = Some L ->
  Forall (fun s => NoDup s) ss ->
  exists L', L = acc ++ L' /\
    (forall s, In s ss -> subseq s L') /\
    (forall x, In x L' <-> exists s, In s ss /\ In x s) /\
    NoDup L'.
Proof.
  induction fuel as [|f IH]; intros acc ss L H ND; simpl in H.
  - destruct (all_nil ss) eqn:A; [|discriminate]. inversion H; subst. exists []. rewrite app_nil_r.
    assert (An : forall s, In s ss -> s = []).
    { intros s Hs. unfold all_nil in A. rewrite forallb_forall in A. specialize (A s Hs). destruct s; auto; discriminate. }
    repeat split; auto.
    + intros s Hs. rewrite (An s Hs). constructor.
    + intros []. 
    + intros [s [Hs Hx]]. rewrite (An s Hs) in Hx. destruct Hx.
    + constructor.
  - destruct (all_nil ss) eqn:A.
    + inversion H; subst. exists []. rewrite app_nil_r.
      assert (An : forall s, In s ss -> s = []).
      { intros s Hs. unfold all_nil in A. rewrite forallb_forall in A. specialize (A s Hs). destruct s; auto; discriminate. }
      repeat split; auto.
      * intros s Hs. rewrite (An s Hs). constructor.
      * intros [].
      * intros [s [Hs Hx]]. rewrite (An s Hs) in Hx. destruct Hx.
      * constructor.
    + destruct (find_cand ss ss) as [c|] eqn:F; [|discriminate].
      destruct (find_cand_sound _ _ _ F) as [[s0 Hs0] Hnt].
      assert (ND' : Forall (fun s => NoDup s) (map (drop_head c) ss)).
      { rewrite Forall_forall in *. intros s Hs. apply in_map_iff in Hs. destruct Hs as [s' [<- Hs']].
        specialize (ND s' Hs'). destruct s' as [|h t]; simpl; auto. destruct (Nat.eqb h c); auto.
        inversion ND; auto. }
      destruct (IH _ _ _ H ND') as [L' [EL [Hsub [Hel HND]]]].
      exists (c :: L'). split; [rewrite EL, <- app_assoc; reflexivity|].
      (* c does not occur in any remaining sequence *)
      assert (Hc_gone : forall s, In s (map (drop_head c) ss) -> ~ In c s).
      { intros s Hs. apply in_map_iff in Hs. destruct Hs as [s' [<- Hs']].
        rewrite Forall_forall in ND. specialize (ND s' Hs'). specialize (Hnt s' Hs').
        destruct s' as [|h t]; simpl; auto. destruct (Nat.eqb h c) eqn:E.
        - apply Nat.eqb_eq in E. subst. inversion ND; auto.
        - apply Nat.eqb_neq in E. intros [HI|HI]; [congruence|]. eapply in_tail_false_notin; eauto. }
      split; [|split].
      * intros s Hs. specialize (Hnt s Hs).
        assert (Hd : In (drop_head c s) (map (drop_head c) ss)) by (apply in_map; auto).
        specialize (Hsub _ Hd). destruct s as [|h t]; [constructor|]. simpl in Hsub.
        destruct (Nat.eqb h c) eqn:E.
        -- apply Nat.eqb_eq in E. subst. apply sub_take; auto.
        -- apply sub_skip; auto.
      * intros x. split.
        -- intros [<-|Hx]; [exists (c :: s0); simpl; auto|].
           apply Hel in Hx. destruct Hx as [s [Hs Hx]]. apply in_map_iff in Hs. destruct Hs as [s' [<- Hs']].
           exists s'. split; auto. destruct s' as [|h t]; simpl in *; auto. destruct (Nat.eqb h c); simpl; auto.
        -- intros [s [Hs Hx]]. destruct (Nat.eq_dec x c) as [->|N]; [left; auto|right].
           apply Hel. exists (drop_head c s). split; [apply in_map; auto|].
           destruct s as [|h t]; simpl in *; auto. destruct (Nat.eqb h c) eqn:E; simpl; auto.
           apply Nat.eqb_eq in E. subst. destruct Hx; [congruence|auto].
      * constructor; auto. intros Hc. apply Hel in Hc. destruct Hc as [s [Hs Hx]]. exact (Hc_gone s Hs Hx).
Qed.

(* accepted => the result is a consistent linearisation: the class first, every base's MRO
   and the declared base order preserved (C3's monotonicity and local precedence), exactly
   the ancestors, no duplicates *)
Theorem mro_of_linearization c bs bms L :
  mro_of c bs bms = Some L ->
  Forall (fun s => NoDup s) bms -> ~ In c (concat bms) -> ~ In c bs ->
  exists L', L = c :: L' /\
    (forall m, In m bms -> subseq m L') /\ subseq bs L' /\
    (forall x, In x L' <-> In x bs \/ exists m, In m bms /\ In x m) /\
    NoDup L.
Proof.
  unfold mro_of. intros H ND Hc1 Hc2. destruct (has_dup bs) eqn:D; [discriminate|].
  assert (NDbs : NoDup bs).
  { clear -D. induction bs as [|x r IH]; [constructor|]. simpl in D. apply orb_false_iff in D. destruct D as [D1 D2].
    constructor; auto. intros HI. apply existsb_eqb_In in HI. congruence. }
  assert (ND' : Forall (fun s => NoDup s) (bms ++ [bs])) by (apply Forall_app; split; auto).
  destruct (pmerge_props _ _ _ _ H ND') as [L' [EL [Hsub [Hel HND]]]].
  exists L'. split; [exact EL|]. split; [|split; [|split]].
  - intros m Hm. apply Hsub. apply in_or_app; auto.
  - apply Hsub. apply in_or_app; right; simpl; auto.
  - intros x. rewrite Hel. split.
    + intros [s [Hs Hx]]. apply in_app_or in Hs. destruct Hs as [Hs|[<-|[]]]; eauto.
    + intros [Hx|[m [Hm Hx]]]; [exists bs|exists m]; split; auto; apply in_or_app; simpl; auto.
  - rewrite EL. simpl. constructor; auto. intros Hc. apply Hel in Hc. destruct Hc as [s [Hs Hx]].
    apply in_app_or in Hs. destruct Hs as [Hs|[<-|[]]]; auto.
    apply Hc1. apply in_concat. eauto.
Qed.

(* attribute lookup = instance dictionary first, then the first class along the MRO that
   defines the name *)
Theorem getattr_first_definition inst cls mro k v :
  getattr_instance inst cls mro k = Some v <->
  dget inst k = Some v \/
  (dget inst k = None /\ exists pre c post, mro = pre ++ c :: post /\
     (forall c', In c' pre -> dget (nth c' cls []) k = None) /\ dget (nth c cls []) k = Some v).
Proof.
  unfold getattr_instance. destruct (dget inst k) as [w|] eqn:E.
  - split; [intros H; left; auto|intros [H|[H _]]; [auto|discriminate]].
  - split.
    + intros H. right. split; auto. induction mro as [|c r IH]; simpl in H; [discriminate|].
      destruct (dget (nth c cls []) k) as [w|] eqn:Ec.
      * inversion H; subst. exists [], c, r. simpl. repeat split; auto. intros c' [].
      * destruct (IH H) as [pre [c0 [post [-> [Hp Hc]]]]]. exists (c :: pre), c0, post. simpl. repeat split; auto.
        intros c' [<-|Hc']; auto.
    + intros [H|[_ [pre [c [post [-> [Hp Hc]]]]]]]; [discriminate|].
      induction pre as [|p pre IH]; simpl.
      * rewrite Hc. reflexivity.
      * rewrite (Hp p (or_introl eq_refl)). apply IH. intros c' Hc'. apply Hp. right; auto.
Qed.
