From Coq Require Import List Bool.
From GP Require Import Model.Totality.

(* py.Compile's result is a code object or a located SyntaxError-family exception exactly when
   every failure raised inside a stage is a SyntaxError-family exception (already located, for
   the two stages whose handler does not add the location) *)
Ltac fin p := destruct p; simpl in *; rewrite ?andb_false_r, ?andb_true_r in *; auto; try discriminate.

Theorem outcome_acceptable_iff {Ast Sym} (parse : stage Ast) symtab comp :
  acceptable (@compile_outcome Ast Sym parse symtab comp) = true <->
  stage_ok parser_payload_ok parse = true /\
  (forall ast, parse = Done ast -> stage_ok later_payload_ok (symtab ast) = true /\
     forall st, symtab ast = Done st -> stage_ok later_payload_ok (comp ast st) = true).
Proof.
  unfold compile_outcome. destruct parse as [ast|p|p]; simpl.
  - split.
    + intros H. split; auto. intros a E. inversion E; subst a. clear E.
      destruct (symtab ast) as [st|p|p]; simpl in *.
      * split; auto. intros s E. inversion E; subst s. destruct (comp ast st) as [u|p|p]; simpl in *; auto;
        fin p.
      * split; [|intros s E; discriminate]. fin p.
      * split; [|intros s E; discriminate]. fin p.
    + intros [_ H]. destruct (H ast eq_refl) as [H1 H2]. destruct (symtab ast) as [st|p|p]; simpl in *.
      * specialize (H2 st eq_refl). destruct (comp ast st) as [u|p|p]; simpl in *; auto; fin p.
      * fin p.
      * fin p.
  - split.
    + intros H. split; [|intros a E; discriminate]. destruct p; simpl in *; auto; try discriminate; rewrite andb_true_r in H; auto.
    + intros [H _]. destruct p; simpl in *; try discriminate; rewrite andb_true_r; auto.
  - split.
    + intros H. split; [|intros a E; discriminate]. destruct p; simpl in *; auto; try discriminate; rewrite andb_true_r in H; auto.
    + intros [H _]. destruct p; simpl in *; try discriminate; rewrite andb_true_r; auto.
Qed.

(* in particular a Go runtime error, a string or any non-exception payload anywhere makes the
   outcome a SystemError (or TypeError): never acceptable *)
Theorem internal_failure_is_visible {Ast Sym} (parse : stage Ast) symtab comp p :
  (p = PError \/ p = PString \/ p = POther \/ p = PNonExcType) ->
  (parse = Panicked p \/ exists ast, parse = Done ast /\ (symtab ast = Panicked p \/ exists st, symtab ast = Done st /\ comp ast st = Panicked p)) ->
  acceptable (@compile_outcome Ast Sym parse symtab comp) = false.
Proof.
  intros Hp H. unfold compile_outcome.
  destruct H as [E|(ast & E & [H|(st & H1 & H2)])]; subst parse; simpl.
  - destruct Hp as [-> | [-> | [-> | ->]]]; reflexivity.
  - rewrite H. simpl. destruct Hp as [-> | [-> | [-> | ->]]]; reflexivity.
  - rewrite H1. simpl. rewrite H2. simpl. destruct Hp as [-> | [-> | [-> | ->]]]; reflexivity.
Qed.
