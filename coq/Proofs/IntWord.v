(* Exactness of the word-arithmetic kernel of py/int.go, as translated by go2v (Gen/py_int.v).
   The proofs use one generic script: unfold the generated definition, simplify wrap64 where
   the operand provably fits, split each boolean test, push to Z, lia.  They survive
   harmless rewrites of the Go and fail when a guard changes meaning. *)
From Coq Require Import ZArith Bool Lia ZifyBool String List.
Import ListNotations.
From GP Require Import Base.Go2v Base.Tactics Gen.py_int.
Open Scope Z_scope.

Ltac word_lia := unfold word, IntMin, IntMax in *; lia.

Ltac wrap_simpl :=
  repeat match goal with
  | |- context [wrap64 ?e] => rewrite (wrap64_id e) by word_lia
  | H : context [wrap64 ?e] |- _ => rewrite (wrap64_id e) in H by word_lia
  end.

Ltac wrap_bounds :=
  repeat match goal with
  | |- context [wrap64 ?e] =>
      lazymatch goal with
      | _ : word (wrap64 e) |- _ => fail
      | _ => pose proof (wrap64_word e)
      end
  end.

Ltac go2v_solve :=
  repeat (wrap_simpl; split_if);
  wrap_simpl;
  unfold maybe_int, wordb in *;
  repeat split_if;
  try reflexivity; try (exfalso; word_lia); try word_lia.

Lemma intAdd_exact a b : word a -> word b -> intAdd a b = Some (maybe_int (a + b)).
Proof. intros Ha Hb. unfold intAdd. go2v_solve. Qed.

Lemma intSub_exact a b : word a -> word b -> intSub a b = Some (maybe_int (a - b)).
Proof. intros Ha Hb. unfold intSub. go2v_solve. Qed.

Lemma sq_bound a b : 0 <= a <= 3037000499 -> 0 <= b <= 3037000499 -> a * b <= 9223372030926249001.
Proof. intros Ha Hb. assert (a * b <= 3037000499 * 3037000499) by (apply Z.mul_le_mono_nonneg; lia). lia. Qed.

Lemma mul_word_small a b : -3037000499 <= a <= 3037000499 -> -3037000499 <= b <= 3037000499 -> word (a * b).
Proof.
  intros Ha Hb. unfold word, IntMin, IntMax.
  destruct (Z.le_gt_cases 0 a), (Z.le_gt_cases 0 b).
  - pose proof (sq_bound a b). nia.
  - pose proof (sq_bound a (-b)). nia.
  - pose proof (sq_bound (-a) b). nia.
  - pose proof (sq_bound (-a) (-b)). nia.
Qed.

Lemma wrap64_neg a : word a -> wrap64 (- a) = if a =? IntMin then IntMin else - a.
Proof.
  intros Ha. destruct (a =? IntMin) eqn:E.
  - apply Z.eqb_eq in E. subst. reflexivity.
  - apply Z.eqb_neq in E. apply wrap64_id. word_lia.
Qed.

Lemma intMul_exact a b : word a -> word b -> intMul a b = Some (maybe_int (a * b)).
Proof.
  intros Ha Hb. unfold intMul. rewrite !wrap64_neg by assumption.
  destruct (a =? IntMin) eqn:Ea; destruct (b =? IntMin) eqn:Eb;
    destruct (a <? 0) eqn:Sa; destruct (b <? 0) eqn:Sb; cbv zeta;
    match goal with |- (if ?c then _ else _) = _ => destruct c eqn:Ec end; try reflexivity;
    (assert (Hw : word (a * b)) by (apply mul_word_small; word_lia);
     rewrite (wrap64_id _ Hw); unfold maybe_int; rewrite (proj2 (wordb_spec _) Hw); reflexivity).
Qed.

Lemma M__neg___exact a : word a -> M__neg__ a = Some (maybe_int (- a), VNil).
Proof.
  intros Ha. unfold M__neg__. rewrite wrap64_neg by assumption. unfold maybe_int, wordb.
  change (-9223372036854775808) with IntMin.
  destruct (a =? IntMin) eqn:E.
  - apply Z.eqb_eq in E. subst. reflexivity.
  - apply Z.eqb_neq in E. cbv zeta. repeat split_if; try reflexivity; exfalso; word_lia.
Qed.

Lemma M__abs___exact a : word a -> M__abs__ a = Some (maybe_int (Z.abs a), VNil).
Proof.
  intros Ha. unfold M__abs__. change (-9223372036854775808) with IntMin.
  destruct (a =? IntMin) eqn:E.
  - apply Z.eqb_eq in E. subst. reflexivity.
  - apply Z.eqb_neq in E. cbv zeta. rewrite wrap64_neg, (proj2 (Z.eqb_neq _ _) E) by assumption.
    unfold maybe_int, wordb. repeat split_if; try (f_equal; f_equal; f_equal; lia); exfalso; word_lia.
Qed.

Lemma M__invert___exact a : word a ->
  M__invert__ a = Some (VInt (- a - 1), VNil) /\ word (- a - 1).
Proof.
  intros Ha. unfold M__invert__. split; [|word_lia].
  replace (Z.lnot a) with (- a - 1) by (unfold Z.lnot; lia). reflexivity.
Qed.

Lemma quot_rem_floor a b : b <> 0 ->
  let q := Z.quot a b in let r := Z.rem a b in
  (if (((a <? 0) && negb (b <? 0)) || (negb (a <? 0) && (b <? 0))) && negb (r =? 0)
   then (q - 1, r + b) else (q, r)) = (a / b, a mod b).
Proof.
  intros Hb q r. subst q r.
  pose proof (Z.quot_rem' a b) as E.
  pose proof (Z.div_mod a b Hb) as D.
  assert (Hr := Z.rem_bound_abs a b Hb).
  destruct (Z.eq_dec (Z.rem a b) 0) as [R0|R0].
  - rewrite R0. rewrite Z.eqb_refl, andb_false_r.
    assert (a mod b = 0).
    { apply Z.rem_divide in R0; auto. apply Z.mod_divide; auto. }
    f_equal; [|lia]. apply Z.mul_reg_l with b; auto. lia.
  - rewrite (proj2 (Z.eqb_neq _ _) R0). simpl negb. rewrite andb_true_r.
    pose proof (Z.rem_sign_nz a b Hb R0) as Hs.
    destruct (Z.lt_trichotomy b 0) as [Hneg|[|Hpos]]; [|lia|].
    + pose proof (Z.mod_neg_bound a b Hneg).
      destruct (a <? 0) eqn:Sa; rewrite (proj2 (Z.ltb_lt b 0) Hneg); simpl.
      * assert (Z.rem a b < 0) by (destruct (Z.sgn_spec (Z.rem a b)) as [[? ?]|[[? ?]|[? ?]]], (Z.sgn_spec a) as [[? ?]|[[? ?]|[? ?]]]; lia).
        assert (Z.quot a b = a / b) by nia. f_equal; lia.
      * assert (0 < Z.rem a b) by (destruct (Z.sgn_spec (Z.rem a b)) as [[? ?]|[[? ?]|[? ?]]], (Z.sgn_spec a) as [[? ?]|[[? ?]|[? ?]]]; lia).
        assert (Z.quot a b - 1 = a / b) by nia. f_equal; lia.
    + pose proof (Z.mod_pos_bound a b Hpos).
      assert (Hbn : (b <? 0) = false) by lia. rewrite Hbn.
      destruct (a <? 0) eqn:Sa; simpl.
      * assert (Z.rem a b < 0) by (destruct (Z.sgn_spec (Z.rem a b)) as [[? ?]|[[? ?]|[? ?]]], (Z.sgn_spec a) as [[? ?]|[[? ?]|[? ?]]]; lia).
        assert (Z.quot a b - 1 = a / b) by nia. f_equal; lia.
      * assert (0 < Z.rem a b) by (destruct (Z.sgn_spec (Z.rem a b)) as [[? ?]|[[? ?]|[? ?]]], (Z.sgn_spec a) as [[? ?]|[[? ?]|[? ?]]]; lia).
        assert (Z.quot a b = a / b) by nia. f_equal; lia.
Qed.

Lemma word_quot a b : word a -> word b -> b <> 0 -> ~ (a = IntMin /\ b = -1) -> word (Z.quot a b).
Proof.
  intros Ha Hb Hb0 Hov. unfold word, IntMin, IntMax in *.
  pose proof (Z.quot_rem' a b). assert (Hr := Z.rem_bound_abs a b Hb0).
  assert (Z.abs (Z.quot a b) <= Z.abs a).
  { rewrite <- (Z.quot_abs a b) by auto.
    destruct (Z.eq_dec (Z.abs a) 0) as [E|E]; [rewrite E, Z.quot_0_l; lia|].
    apply Z.quot_le_upper_bound; try lia. nia. }
  destruct (Z.eq_dec a (-9223372036854775808)) as [->|]; [|lia].
  destruct (Z.eq_dec b 1) as [->|]; [rewrite Z.quot_1_r; lia|].
  assert (b <> -1) by tauto.
  assert (2 <= Z.abs b) by lia.
  assert (Z.abs (Z.quot (-9223372036854775808) b) * 2 <= 9223372036854775808).
  { rewrite <- (Z.quot_abs _ b) by auto. change (Z.abs (-9223372036854775808)) with 9223372036854775808.
    pose proof (Z.quot_rem' 9223372036854775808 (Z.abs b)).
    pose proof (Z.rem_nonneg 9223372036854775808 (Z.abs b)).
    assert (0 <= Z.quot 9223372036854775808 (Z.abs b)) by (apply Z.quot_pos; lia). nia. }
  lia.
Qed.

Lemma divMod_exact a b : word a -> word b ->
  divMod a b = if b =? 0 then Some (VNil, VNil, VErr "ZeroDivisionError:division by zero")
               else Some (maybe_int (a / b), VInt (a mod b), VNil).
Proof.
  intros Ha Hb. unfold divMod. destruct (b =? 0) eqn:Eb0; [reflexivity|]. apply Z.eqb_neq in Eb0.
  cbv zeta. rewrite (wrap64_id (-1)) by word_lia.
  destruct ((a =? -9223372036854775808) && (b =? -1)) eqn:Eov.
  - apply andb_true_iff in Eov. destruct Eov as [E1 E2]. apply Z.eqb_eq in E1, E2. subst. reflexivity.
  - assert (Hov : ~ (a = IntMin /\ b = -1)).
    { intros [-> ->]. discriminate. }
    unfold quot64, rem64. rewrite (proj2 (Z.eqb_neq _ _) Eb0).
    pose proof (word_quot a b Ha Hb Eb0 Hov) as Hq.
    assert (Hr : word (Z.rem a b)).
    { assert (Hrb := Z.rem_bound_abs a b Eb0). word_lia. }
    rewrite (wrap64_id _ Hq), (wrap64_id _ Hr).
    pose proof (quot_rem_floor a b Eb0) as F. cbv zeta in F.
    assert (Hd : word (a / b) /\ word (a mod b)).
    { split.
      - unfold word, IntMin, IntMax in *.
        destruct (Z.eq_dec b 1) as [->|N1]; [rewrite Z.div_1_r; lia|].
        destruct (Z.eq_dec b (-1)) as [->|N2].
        + replace (a / -1) with (- a) by (apply Z.div_unique with 0; lia).
          assert (a <> -9223372036854775808) by (intro; apply Hov; split; auto). lia.
        + pose proof (Z.div_mod a b Eb0) as D.
          destruct (Z.lt_trichotomy b 0) as [Hn|[|Hp]]; [|lia|].
          * pose proof (Z.mod_neg_bound a b Hn). nia.
          * pose proof (Z.mod_pos_bound a b Hp). nia.
      - unfold word, IntMin, IntMax in *. destruct (Z.lt_trichotomy b 0) as [Hn|[|Hp]]; [|lia|].
        + pose proof (Z.mod_neg_bound a b Hn). lia.
        + pose proof (Z.mod_pos_bound a b Hp). lia. }
    destruct Hd as [Hd1 Hd2].
    destruct (a <? 0) eqn:Sa; destruct (b <? 0) eqn:Sb; simpl in F |- *;
      destruct (negb (Z.rem a b =? 0)) eqn:Er; simpl in F |- *; inversion F as [[F1 F2]];
      unfold maybe_int; rewrite ?(proj2 (wordb_spec _) Hd1);
      try (rewrite (wrap64_id (Z.quot a b - 1)) by (rewrite F1; exact Hd1));
      try (rewrite (wrap64_id (Z.rem a b + b)) by (rewrite F2; exact Hd2));
      rewrite ?F1, ?F2, ?(proj2 (wordb_spec _) Hd1); reflexivity.
Qed.

Lemma u64_id b : 0 <= b -> word b -> u64 b = b.
Proof. intros H0 Hb. unfold u64. apply Z.mod_small. word_lia. Qed.

Lemma pow2_64_le b : 64 <= b -> 18446744073709551616 <= 2 ^ b.
Proof. intros H. change 18446744073709551616 with (2 ^ 64). apply Z.pow_le_mono_r; lia. Qed.

Lemma shr64_spec a b : word a -> 0 <= b -> shr64 a b = a / 2 ^ b.
Proof.
  intros Ha Hb. unfold shr64. destruct (64 <=? b) eqn:E; [|reflexivity].
  apply Z.leb_le in E. pose proof (pow2_64_le b E).
  destruct (a <? 0) eqn:Sa.
  - apply Z.ltb_lt in Sa. apply Z.div_unique with (a + 2 ^ b); word_lia.
  - apply Z.ltb_ge in Sa. symmetry. apply Z.div_small. word_lia.
Qed.

Lemma M__rshift___exact a b : word a -> word b ->
  M__rshift__ a (Some b) = if b <? 0 then Some (VNil, VErr "ValueError:negative shift count")
                           else Some (VInt (a / 2 ^ b), VNil).
Proof.
  intros Ha Hb. unfold M__rshift__. destruct (b <? 0) eqn:E; [reflexivity|]. apply Z.ltb_ge in E.
  cbv zeta. rewrite u64_id, shr64_spec by auto. reflexivity.
Qed.

Lemma word_shr a b : word a -> 0 <= b -> word (a / 2 ^ b).
Proof.
  intros Ha Hb. assert (0 < 2 ^ b) by (apply Z.pow_pos_nonneg; lia).
  unfold word, IntMin, IntMax in *.
  pose proof (Z.div_mod a (2 ^ b)). pose proof (Z.mod_pos_bound a (2 ^ b)). nia.
Qed.

(* a << b: exact, and the result is a word exactly when it fits *)
Lemma shl_roundtrip a b : word a -> 0 <= b < 64 ->
  (wrap64 (a * 2 ^ b) / 2 ^ b =? a) = wordb (a * 2 ^ b).
Proof.
  intros Ha Hb.
  assert (Hp : 0 < 2 ^ b) by (apply Z.pow_pos_nonneg; lia).
  assert (Hq : 18446744073709551616 = 2 ^ b * 2 ^ (64 - b)).
  { rewrite <- Z.pow_add_r by lia. replace (b + (64 - b)) with 64 by lia. reflexivity. }
  assert (Hq0 : 2 <= 2 ^ (64 - b)).
  { change 2 with (2 ^ 1) at 1. apply Z.pow_le_mono_r; lia. }
  set (p := 2 ^ b) in *. set (q := 2 ^ (64 - b)) in *.
  unfold wrap64.
  set (m := 18446744073709551616) in *.
  assert (Hm : 0 < m) by reflexivity.
  pose proof (Z.div_mod (a * p + 9223372036854775808) m ltac:(lia)) as D.
  pose proof (Z.mod_pos_bound (a * p + 9223372036854775808) m Hm) as M.
  set (k := (a * p + 9223372036854775808) / m) in *.
  set (r := (a * p + 9223372036854775808) mod m) in *.
  assert (E : r - 9223372036854775808 = (a - k * q) * p) by (rewrite Hq in D; lia).
  rewrite E, Z.div_mul by lia.
  destruct (wordb (a * p)) eqn:W.
  - apply wordb_spec in W. unfold word, IntMin, IntMax in W.
    assert (k = 0) by nia. subst k. apply Z.eqb_eq. nia.
  - apply Z.eqb_neq. intros Hk. assert (k * q = 0) by lia.
    assert (k = 0) by nia.
    assert (word (a * p)). { unfold word, IntMin, IntMax. nia. }
    apply wordb_spec in H1. congruence.
Qed.

Lemma intLshift_exact a b : word a -> word b ->
  intLshift a b = if b <? 0 then Some (VNil, VErr "ValueError:negative shift count")
                  else Some (maybe_int (a * 2 ^ b), VNil).
Proof.
  intros Ha Hb. unfold intLshift. destruct (b <? 0) eqn:E; [reflexivity|]. apply Z.ltb_ge in E.
  cbv zeta. rewrite u64_id by auto. unfold shl64, shr64.
  destruct (64 <=? b) eqn:E64.
  - apply Z.leb_le in E64. pose proof (pow2_64_le b E64) as P.
    change (0 <? 0) with false. cbv iota.
    destruct (0 =? a) eqn:A0.
    + apply Z.eqb_eq in A0. subst. simpl. reflexivity.
    + apply Z.eqb_neq in A0. simpl.
      unfold maybe_int. assert (W : wordb (a * 2 ^ b) = false).
      { apply not_true_is_false. intros W. apply wordb_spec in W. unfold word, IntMin, IntMax in *. nia. }
      rewrite W. reflexivity.
  - apply Z.leb_gt in E64. rewrite shl_roundtrip by (auto; lia).
    unfold maybe_int. destruct (wordb (a * 2 ^ b)) eqn:W; simpl.
    + apply wordb_spec in W. rewrite wrap64_id by auto. reflexivity.
    + reflexivity.
Qed.

(* bit operations and comparisons: the translated bodies are the Z operations themselves *)
Lemma bitops_exact a b :
  M__and__ a (Some b) = Some (VInt (Z.land a b), VNil) /\
  M__or__ a (Some b) = Some (VInt (Z.lor a b), VNil) /\
  M__xor__ a (Some b) = Some (VInt (Z.lxor a b), VNil).
Proof. repeat split; reflexivity. Qed.

Lemma cmp_exact a b :
  M__lt__ a (Some b) = Some (VBool (a <? b), VNil) /\ M__le__ a (Some b) = Some (VBool (a <=? b), VNil) /\
  M__eq__ a (Some b) = Some (VBool (a =? b), VNil) /\ M__ne__ a (Some b) = Some (VBool (negb (a =? b)), VNil) /\
  M__gt__ a (Some b) = Some (VBool (a >? b), VNil) /\ M__ge__ a (Some b) = Some (VBool (a >=? b), VNil) /\
  M__bool__ a = Some (VBool (negb (a =? 0)), VNil).
Proof. repeat split; reflexivity. Qed.

Lemma wrappers_exact a b :
  M__add__ a (Some b) = match intAdd a b with Some v => Some (v, VNil) | None => None end /\
  M__sub__ a (Some b) = match intSub a b with Some v => Some (v, VNil) | None => None end /\
  M__rsub__ a (Some b) = match intSub b a with Some v => Some (v, VNil) | None => None end /\
  M__mul__ a (Some b) = match intMul a b with Some v => Some (v, VNil) | None => None end /\
  M__lshift__ a (Some b) = intLshift a b /\ M__rlshift__ a (Some b) = intLshift b a /\
  M__divmod__ a (Some b) = divMod a b /\ M__rdivmod__ a (Some b) = divMod b a /\
  (forall f, In f [M__add__; M__sub__; M__rsub__; M__mul__; M__lshift__; M__rlshift__; M__rshift__;
                   M__rrshift__; M__and__; M__or__; M__xor__; M__lt__; M__le__; M__eq__; M__ne__;
                   M__gt__; M__ge__] -> f a None = Some (VNotImpl, VNil)).
Proof.
  repeat split; try reflexivity.
  intros f Hf. simpl in Hf. repeat (destruct Hf as [<-|Hf]; [reflexivity|]). destruct Hf.
Qed.

(* bitwise operations of two words are words (two's complement closure) *)
Lemma nonneg_bits z : 0 <= z -> (z < 2 ^ 63 <-> forall n, 63 <= n -> Z.testbit z n = false).
Proof.
  intros Hz. split.
  - intros Hlt n Hn. destruct (Z.eq_dec z 0) as [->|Hnz]; [apply Z.bits_0|].
    apply Z.bits_above_log2; auto. assert (Z.log2 z < 63) by (apply Z.log2_lt_pow2; lia). lia.
  - intros H. destruct (Z.lt_ge_cases z (2 ^ 63)) as [|Hge]; auto. exfalso.
    assert (0 < z) by (assert (0 < 2 ^ 63) by reflexivity; lia).
    assert (63 <= Z.log2 z) by (apply Z.log2_le_pow2; auto).
    pose proof (Z.bit_log2 z H0). rewrite H in H2 by lia. discriminate.
Qed.

Lemma word_bits z : word z <-> (forall n, 63 <= n -> Z.testbit z n = (z <? 0)).
Proof.
  unfold word, IntMin, IntMax. destruct (z <? 0) eqn:S.
  - apply Z.ltb_lt in S. assert (Hl : 0 <= Z.lnot z) by (unfold Z.lnot; lia).
    pose proof (nonneg_bits _ Hl) as N. change (2 ^ 63) with 9223372036854775808 in N.
    split.
    + intros H n Hn. assert (Z.lnot z < 9223372036854775808) by (unfold Z.lnot; lia).
      pose proof (proj1 N H0 n Hn) as T. rewrite Z.lnot_spec in T by lia.
      destruct (Z.testbit z n); auto; discriminate.
    + intros H. assert (Z.lnot z < 9223372036854775808).
      { apply N. intros n Hn. rewrite Z.lnot_spec by lia. rewrite H by auto. reflexivity. }
      unfold Z.lnot in *. lia.
  - apply Z.ltb_ge in S. pose proof (nonneg_bits _ S) as N.
    change (2 ^ 63) with 9223372036854775808 in N. split.
    + intros H. apply N. lia.
    + intros H. assert (z < 9223372036854775808) by (apply N; auto). lia.
Qed.

Lemma word_land a b : word a -> word b -> word (Z.land a b).
Proof.
  rewrite !word_bits. intros Ha Hb n Hn. rewrite Z.land_spec, Ha, Hb by lia.
  pose proof (Z.land_neg a b). destruct (a <? 0) eqn:Sa, (b <? 0) eqn:Sb, (Z.land a b <? 0) eqn:Sl; auto; lia.
Qed.
Lemma word_lor a b : word a -> word b -> word (Z.lor a b).
Proof.
  rewrite !word_bits. intros Ha Hb n Hn. rewrite Z.lor_spec, Ha, Hb by lia.
  pose proof (Z.lor_neg a b). destruct (a <? 0) eqn:Sa, (b <? 0) eqn:Sb, (Z.lor a b <? 0) eqn:Sl; auto; lia.
Qed.
Lemma word_lxor a b : word a -> word b -> word (Z.lxor a b).
Proof.
  rewrite !word_bits. intros Ha Hb n Hn. rewrite Z.lxor_spec, Ha, Hb by lia.
  pose proof (Z.lxor_nonneg a b). destruct (a <? 0) eqn:Sa, (b <? 0) eqn:Sb, (Z.lxor a b <? 0) eqn:Sl; auto; lia.
Qed.
