(* Decoding any spelling of a string gives the string back. *)
From Coq Require Import List NArith Bool Arith Lia.
Import ListNotations.
From GP Require Import Model.Escape.
Open Scope N_scope.

Lemma hexval_hexchar d : d < 16 -> hexval (hexchar d) = Some d.
Proof.
  intros H. unfold hexchar, hexval. destruct (d <? 10) eqn:E.
  - apply N.ltb_lt in E. replace ((48 <=? 48 + d) && (48 + d <=? 57)) with true by (symmetry; apply andb_true_iff; split; apply N.leb_le; lia).
    f_equal. lia.
  - apply N.ltb_ge in E.
    replace ((48 <=? 87 + d) && (87 + d <=? 57)) with false by (symmetry; apply andb_false_iff; right; apply N.leb_gt; lia).
    replace ((97 <=? 87 + d) && (87 + d <=? 102)) with true by (symmetry; apply andb_true_iff; split; apply N.leb_le; lia).
    f_equal. lia.
Qed.

Lemma parse_hex_app a b acc : parse_hex (a ++ b) acc = match parse_hex a acc with Some v => parse_hex b v | None => None end.
Proof. revert acc. induction a as [|d r IH]; intros acc; simpl; auto. destruct (hexval d); auto. Qed.

Lemma parse_hex_digits w : forall v acc, v < 16 ^ N.of_nat w -> parse_hex (hex_digits w v) acc = Some (acc * 16 ^ N.of_nat w + v).
Proof.
  induction w as [|k IH]; intros v acc H.
  - simpl in *. f_equal. lia.
  - rewrite Nat2N.inj_succ, N.pow_succ_r' in *. simpl hex_digits. rewrite parse_hex_app.
    assert (Hq : v / 16 < 16 ^ N.of_nat k) by (apply N.div_lt_upper_bound; lia).
    rewrite (IH (v / 16) acc Hq). cbn [parse_hex]. rewrite hexval_hexchar by (apply N.mod_lt; lia).
    f_equal. pose proof (N.div_mod v 16 ltac:(lia)) as E. set (p := 16 ^ N.of_nat k) in *. set (q := v / 16) in *. set (r := v mod 16) in *. nia.
Qed.

Lemma hex_digits_length w v : length (hex_digits w v) = w.
Proof. revert v. induction w as [|k IH]; intros v; simpl; auto. rewrite app_length, IH. simpl. lia. Qed.

Lemma decode_hex_render bmode w c rest : c < 16 ^ N.of_nat w -> c <= 1114111 ->
  decode_hex bmode w (hex_digits w c ++ rest) = Some (if bmode then c mod 256 else rune c, rest).
Proof.
  intros H1 H2. unfold decode_hex. rewrite app_length, hex_digits_length.
  replace (Nat.leb w (w + length rest)) with true by (symmetry; apply Nat.leb_le; lia).
  rewrite firstn_app, hex_digits_length, Nat.sub_diag. simpl firstn at 2. rewrite app_nil_r.
  rewrite <- (hex_digits_length w c) at 1. rewrite firstn_all.
  rewrite (parse_hex_digits w c 0 H1). simpl N.mul. simpl N.add.
  replace (c <=? 1114111) with true by (symmetry; apply N.leb_le; auto).
  rewrite skipn_app, hex_digits_length, Nat.sub_diag. rewrite <- (hex_digits_length w c) at 1. rewrite skipn_all. reflexivity.
Qed.

(* the fuel does not matter once it covers the input *)
Lemma fuel_irrelevant bmode : forall f1 f2 l, (length l <= f1)%nat -> (length l <= f2)%nat -> decode_go f1 bmode l = decode_go f2 bmode l.
Proof.
  induction f1 as [|f1 IH]; intros f2 l H1 H2.
  - destruct l; [destruct f2; reflexivity|simpl in H1; lia].
  - destruct f2 as [|f2]; [destruct l; [reflexivity|simpl in H2; lia]|].
    destruct l as [|c r]; [reflexivity|]. simpl in H1, H2.
    assert (G : forall x, (length x <= length r)%nat -> decode_go f1 bmode x = decode_go f2 bmode x) by (intros x Hx; apply IH; lia).
    cbn [decode_go]. destruct (negb (c =? 92)); [rewrite (G r) by lia; reflexivity|].
    destruct r as [|e r2]; [reflexivity|]. simpl length in *.
    assert (G2 : decode_go f1 bmode r2 = decode_go f2 bmode r2) by (apply G; simpl; lia).
    assert (G1 : decode_go f1 bmode (e :: r2) = decode_go f2 bmode (e :: r2)) by (apply G; simpl; lia).
    rewrite G1, G2.
    assert (GH : forall n, match decode_hex bmode n r2 with Some (v, rest) => option_map (cons v) (decode_go f1 bmode rest) | None => None end =
                           match decode_hex bmode n r2 with Some (v, rest) => option_map (cons v) (decode_go f2 bmode rest) | None => None end).
    { intros n. unfold decode_hex. destruct (Nat.leb n (length r2)); auto. destruct (parse_hex (firstn n r2) 0); auto.
      destruct (n0 <=? 1114111); auto. rewrite (G (skipn n r2)); auto. rewrite skipn_length. simpl. lia. }
    rewrite !GH.
    destruct r2 as [|d1 r3]; [reflexivity|]. simpl length in *.
    rewrite (G r3) by (simpl; lia).
    destruct r3 as [|d2 r4]; [reflexivity|]. rewrite (G r4) by (simpl; lia). reflexivity.
Qed.

Lemma rune_scalar c : scalar c = true -> rune c = c.
Proof.
  unfold scalar, rune. intros H. apply andb_true_iff in H. destruct H as [_ H]. apply negb_true_iff in H. rewrite H. reflexivity.
Qed.

Lemma cont bmode f rest : (length rest <= f)%nat -> forall g, (length rest <= g)%nat -> decode_go g bmode rest = decode_go f bmode rest.
Proof. intros. apply fuel_irrelevant; auto. Qed.

Lemma oct_tests d : d < 8 ->
  let e := 48 + d in
  (e =? 10) = false /\ (e =? 92) = false /\ (e =? 39) = false /\ (e =? 34) = false /\ (e =? 98) = false /\ (e =? 102) = false /\
  (e =? 116) = false /\ (e =? 110) = false /\ (e =? 114) = false /\ (e =? 118) = false /\ (e =? 97) = false /\ is_oct e = true /\ e - 48 = d.
Proof.
  intros H e. unfold is_oct. repeat split; try (apply N.eqb_neq; unfold e; lia); try (unfold e; lia).
  apply andb_true_iff. split; apply N.leb_le; unfold e; lia.
Qed.

Lemma step bmode c s rest f : valid bmode c s = true -> (length (render c s ++ rest) <= f)%nat ->
  decode_go f bmode (render c s ++ rest) = option_map (cons c) (decode_go f bmode rest).
Proof.
  intros V L. destruct s; unfold render in *.
  - (* literal character *)
    simpl in V. apply andb_true_iff in V. destruct V as [V _]. destruct f as [|f]; [simpl in L; lia|].
    cbn [app]. cbn [decode_go]. rewrite V. simpl in L. rewrite (cont bmode (S f) rest) by lia. reflexivity.
  - (* named escape *)
    simpl in V. destruct (named c) as [e|] eqn:Nm; [|discriminate].
    destruct f as [|f]; [simpl in L; lia|]. simpl in L.
    unfold named in Nm.
    repeat match type of Nm with (if ?t then _ else _) = _ => destruct t eqn:?E end; try discriminate;
    inversion Nm; subst e;
    match goal with H : (c =? _) = true |- _ => apply N.eqb_eq in H; subst c end;
    simpl app; cbn [decode_go negb N.eqb Pos.eqb is_oct N.leb N.compare Pos.compare Pos.compare_cont andb];
    rewrite (cont bmode (S f) rest) by lia; reflexivity.
  - (* three octal digits *)
    assert (C : c < 512) by (simpl in V; destruct bmode; apply N.ltb_lt in V; lia).
    assert (D0 : c / 64 < 8) by (apply N.div_lt_upper_bound; lia).
    assert (D1 : (c / 8) mod 8 < 8) by (apply N.mod_lt; lia).
    assert (D2 : c mod 8 < 8) by (apply N.mod_lt; lia).
    destruct (oct_tests _ D0) as (T1&T2&T3&T4&T5&T6&T7&T8&T9&T10&T11&O0&V0).
    destruct (oct_tests _ D1) as (_&_&_&_&_&_&_&_&_&_&_&O1&V1).
    destruct (oct_tests _ D2) as (_&_&_&_&_&_&_&_&_&_&_&O2&V2).
    destruct f as [|f]; [simpl in L; lia|]. simpl in L. cbn [app]. cbn [decode_go negb N.eqb Pos.eqb].
    rewrite T1, T2, T3, T4, T5, T6, T7, T8, T9, T10, T11, O0, O1, O2, V0, V1, V2.
    rewrite (cont bmode (S f) rest) by lia.
    assert (E : (c / 64 * 8 + (c / 8) mod 8) * 8 + c mod 8 = c).
    { pose proof (N.div_mod c 8 ltac:(lia)). pose proof (N.div_mod (c / 8) 8 ltac:(lia)).
      replace (c / 64) with (c / 8 / 8) by (rewrite N.div_div by lia; reflexivity). lia. }
    rewrite E. destruct bmode; [|reflexivity].
    simpl in V. apply N.ltb_lt in V. rewrite N.mod_small by lia. reflexivity.
  - (* \xhh *)
    simpl in V. apply N.ltb_lt in V. cbn [app length] in L. rewrite app_length, hex_digits_length in L. destruct f as [|f]; [lia|].
    cbn [app]. cbn [decode_go negb N.eqb Pos.eqb is_oct N.leb N.compare Pos.compare Pos.compare_cont andb].
    rewrite (decode_hex_render bmode 2 c rest) by (simpl; lia).
    rewrite (cont bmode (S f) rest) by lia.
    destruct bmode; [rewrite N.mod_small by lia; reflexivity|].
    rewrite rune_scalar; [reflexivity|]. unfold scalar. apply andb_true_iff. split; [apply N.leb_le; lia|].
    apply negb_true_iff. apply andb_false_iff. left. apply N.leb_gt. lia.
  - (* \uhhhh *)
    simpl in V. apply andb_true_iff in V. destruct V as [V Sc]. apply andb_true_iff in V. destruct V as [Bm V].
    apply negb_true_iff in Bm. subst bmode. apply N.ltb_lt in V.
    cbn [app length] in L. rewrite app_length, hex_digits_length in L. destruct f as [|f]; [lia|].
    cbn [app]. cbn [decode_go negb N.eqb Pos.eqb is_oct N.leb N.compare Pos.compare Pos.compare_cont andb].
    rewrite (decode_hex_render false 4 c rest) by (simpl; lia).
    rewrite (cont false (S f) rest) by lia. rewrite rune_scalar by auto. reflexivity.
  - (* \Uhhhhhhhh *)
    simpl in V. apply andb_true_iff in V. destruct V as [Bm Sc]. apply negb_true_iff in Bm. subst bmode.
    assert (C : c <= 1114111) by (unfold scalar in Sc; apply andb_true_iff in Sc; destruct Sc as [Sc _]; apply N.leb_le in Sc; auto).
    cbn [app length] in L. rewrite app_length, hex_digits_length in L. destruct f as [|f]; [lia|].
    cbn [app]. cbn [decode_go negb N.eqb Pos.eqb is_oct N.leb N.compare Pos.compare Pos.compare_cont andb].
    rewrite (decode_hex_render false 8 c rest) by (simpl; lia).
    rewrite (cont false (S f) rest) by lia. rewrite rune_scalar by auto. reflexivity.
Qed.

(* every spelling of every string decodes to the string *)
Theorem decode_render bmode (l : list (N * spelling)) :
  Forall (fun cs => valid bmode (fst cs) (snd cs) = true) l ->
  decode bmode (flat_map (fun cs => render (fst cs) (snd cs)) l) = Some (map fst l).
Proof.
  unfold decode. intros V.
  assert (G : forall f, (length (flat_map (fun cs => render (fst cs) (snd cs)) l) <= f)%nat ->
              decode_go f bmode (flat_map (fun cs => render (fst cs) (snd cs)) l) = Some (map fst l)).
  { induction V as [|[c s] r Hv Hr IH]; intros f L; simpl.
    - destruct f; reflexivity.
    - simpl in L. rewrite (step bmode c s _ f Hv L). rewrite IH by (rewrite app_length in L; lia). reflexivity. }
  apply G. lia.
Qed.

(* ---- integer literals: the digits of v in base b denote v *)
Lemma parse_digits_app base a b acc :
  parse_digits base (a ++ b) acc = match parse_digits base a acc with Some v => parse_digits base b v | None => None end.
Proof.
  revert acc. induction a as [|d r IH]; intros acc; simpl; auto.
  destruct (digit_val d); auto. destruct (n <? base); auto.
Qed.

Lemma digits_parse base : 2 <= base -> base <= 16 -> forall f v acc, v < base ^ N.of_nat f ->
  parse_digits base (digits_of f base v) acc = Some (acc * base ^ N.of_nat (length (digits_of f base v)) + v).
Proof.
  intros B2 B16. induction f as [|k IH]; intros v acc H.
  - simpl in H. assert (v = 0) by lia. subst. simpl. f_equal. lia.
  - cbn [digits_of]. destruct (v <? base) eqn:E.
    + apply N.ltb_lt in E. cbn [parse_digits length]. unfold digit_val. rewrite hexval_hexchar by lia.
      replace (v <? base) with true by (symmetry; apply N.ltb_lt; auto).
      f_equal. change (N.of_nat 1) with 1. rewrite N.pow_1_r. reflexivity.
    + apply N.ltb_ge in E. rewrite parse_digits_app.
      rewrite Nat2N.inj_succ, N.pow_succ_r' in H.
      assert (Hq : v / base < base ^ N.of_nat k) by (apply N.div_lt_upper_bound; lia).
      rewrite (IH (v / base) acc Hq). cbn [parse_digits]. unfold digit_val.
      assert (Hm : v mod base < base) by (apply N.mod_lt; lia).
      rewrite hexval_hexchar by lia. replace (v mod base <? base) with true by (symmetry; apply N.ltb_lt; auto).
      f_equal. rewrite app_length. simpl length. rewrite Nat.add_1_r, Nat2N.inj_succ, N.pow_succ_r'.
      pose proof (N.div_mod v base ltac:(lia)) as Ed.
      set (p := base ^ N.of_nat (length (digits_of k base (v / base)))) in *. set (q := v / base) in *. set (r := v mod base) in *. nia.
Qed.

Theorem int_literal_value base v f : 2 <= base -> base <= 16 -> v < base ^ N.of_nat f ->
  parse_digits base (digits_of f base v) 0 = Some v.
Proof. intros. rewrite digits_parse by auto. f_equal. Qed.
