(* The argument helpers never index [results] (or args, kwlist) out of bounds. *)
From Coq Require Import List Bool Arith Lia.
Import ListNotations.
From GP Require Import Model.Args.

Lemma ptak_loop_bound typeok nargs kwargs kwlist kwo nresults :
  nargs <= nresults -> (kwlist = [] \/ length kwlist = nresults) ->
  forall todo i, Forall (fun j => fst j < nresults) (fst (ptak_loop typeok nargs kwargs kwlist kwo i todo)).
Proof.
  intros Ha Hk. induction todo as [|t IH]; intros i; simpl; [constructor|].
  assert (Hkw : forall name, nth_error kwlist i = Some name -> i < nresults).
  { intros name E. assert (i < length kwlist) by (apply nth_error_Some; congruence).
    destruct Hk as [->|<-]; [simpl in *; lia|auto]. }
  destruct (Nat.ltb i nargs) eqn:L.
  - apply Nat.ltb_lt in L. destruct (match kwo with Some k => Nat.leb k i | None => false end); [constructor|].
    destruct (match nth_error kwlist i with Some name => mem name kwargs | None => false end); [constructor|].
    destruct (typeok i).
    + specialize (IH (S i)). destruct (ptak_loop typeok nargs kwargs kwlist kwo (S i) t) as [w e]. simpl in *. constructor; [simpl; lia|auto].
    + simpl. constructor; [simpl; lia|constructor].
  - destruct (nth_error kwlist i) as [name|] eqn:E; [|apply IH].
    destruct (mem name kwargs); [|apply IH].
    specialize (Hkw name eq_refl). destruct (typeok i).
    + specialize (IH (S i)). destruct (ptak_loop typeok nargs kwargs kwlist kwo (S i) t) as [w e]. simpl in *. constructor; auto.
    + simpl. constructor; [auto|constructor].
Qed.

Lemma check_number_bound nargs nresults mn mx : check_number nargs nresults mn mx = false -> nargs <= nresults.
Proof.
  unfold check_number. intros H. apply orb_false_iff in H. destruct H as [_ H]. apply Nat.ltb_ge in H. auto.
Qed.

(* for every format string, argument count, keyword set, kwlist and number of result pointers *)
Theorem ptak_never_out_of_bounds typeok format nargs kwargs kwlist nresults :
  Forall (fun j => fst j < nresults) (fst (ptak typeok format nargs kwargs kwlist nresults)).
Proof.
  unfold ptak.
  destruct (match kwlist with Some l => negb (Nat.eqb nresults (length l)) | None => false end) eqn:K; [constructor|].
  destruct (parse_format format) as [[mn kwo] n].
  destruct (check_number (nargs + length kwargs) nresults mn n) eqn:C; [constructor|].
  destruct (negb (forallb _ kwargs)); [constructor|].
  apply check_number_bound in C.
  apply ptak_loop_bound; [lia|].
  destruct kwlist as [l|]; [|left; auto]. right. apply negb_false_iff in K. apply Nat.eqb_eq in K. auto.
Qed.

Theorem unpack_tuple_never_out_of_bounds nargs nkwargs mn mx nresults :
  Forall (fun j => fst j < nresults) (fst (unpack_tuple nargs nkwargs mn mx nresults)).
Proof.
  unfold unpack_tuple. destruct (negb (Nat.eqb nkwargs 0)); [constructor|].
  destruct (check_number nargs nresults mn mx) eqn:C; [constructor|].
  apply check_number_bound in C. simpl. apply Forall_forall. intros j Hj. apply in_map_iff in Hj. destruct Hj as [x [<- Hx]]. apply in_seq in Hx. simpl. lia.
Qed.
