(* The unwinding loop of vm/eval.go RunFrame (Model/Verify.v [unwind]): an exception, return,
   break or continue leaves through exactly the blocks Python's semantics dictates. *)
From Coq Require Import List Bool Arith NArith String Lia.
Import ListNotations.
From GP Require Import Gen.Opcodes Model.Verify.

Definition is_try (b : blk) : bool := match b_kind b with BExcept | BFinally => true | _ => false end.
Definition is_finally (b : blk) : bool := match b_kind b with BFinally => true | _ => false end.
Definition is_loop (b : blk) : bool := match b_kind b with BLoop => true | _ => false end.

(* An exception is never swallowed by unwinding: either it leaves the frame (no enclosing
   try block at all) or it enters the handler of the INNERMOST enclosing except/finally
   block, with that block replaced by an EXCEPT_HANDLER block and every block above it gone. *)
Theorem unwind_exception fuel : forall st bs o,
  unwind fuel RExc st bs = o ->
  match o with
  | Exit => forallb (fun b => negb (is_try b)) bs = true
  | Next s => exists pre b post, bs = pre ++ b :: post /\
                forallb (fun b => negb (is_try b)) pre = true /\ is_try b = true /\
                a_pc s = b_handler b /\
                exists lvl, a_blocks s = {| b_kind := BHandler; b_handler := 0%N; b_level := lvl |} :: post
  | Bad _ => True
  end.
Proof.
  induction fuel as [|f IH]; intros st bs o H; simpl in H; [subst; exact I|].
  destruct bs as [|b bs']; [subst; reflexivity|].
  destruct (b_kind b) eqn:K.
  - (* loop *) specialize (IH _ _ _ H). destruct o; auto.
    + destruct IH as (pre & b0 & post & -> & Hp & Hb & Hpc & Hbl). exists (b :: pre), b0, post.
      repeat split; auto. simpl. unfold is_try. rewrite K. simpl. auto.
    + simpl. unfold is_try at 1. rewrite K. simpl. auto.
  - (* except *) subst o. exists [], b, bs'. simpl. unfold is_try. rewrite K. repeat split; auto. eexists; reflexivity.
  - (* finally *) subst o. exists [], b, bs'. simpl. unfold is_try. rewrite K. repeat split; auto. eexists; reflexivity.
  - (* handler *) destruct (Nat.ltb (length st) (b_level b + 3)); [subst; exact I|].
    specialize (IH _ _ _ H). destruct o; auto.
    + destruct IH as (pre & b0 & post & -> & Hp & Hb & Hpc & Hbl). exists (b :: pre), b0, post.
      repeat split; auto. simpl. unfold is_try. rewrite K. simpl. auto.
    + simpl. unfold is_try at 1. rewrite K. simpl. auto.
Qed.

(* A return runs the INNERMOST enclosing finally body next (with the pending return recorded
   on the stack), or leaves the frame if there is none: no finally body is skipped. *)
Theorem unwind_return fuel : forall st bs o,
  unwind fuel RRet st bs = o ->
  match o with
  | Exit => forallb (fun b => negb (is_finally b)) bs = true
  | Next s => exists pre b post, bs = pre ++ b :: post /\
                forallb (fun b => negb (is_finally b)) pre = true /\ is_finally b = true /\
                a_pc s = b_handler b /\ a_blocks s = post /\
                exists r, a_stack s = TWhy WRet :: TAny :: r
  | Bad _ => True
  end.
Proof.
  induction fuel as [|f IH]; intros st bs o H; simpl in H; [subst; exact I|].
  destruct bs as [|b bs']; [subst; reflexivity|].
  destruct (b_kind b) eqn:K.
  - specialize (IH _ _ _ H). destruct o; auto.
    + destruct IH as (pre & b0 & post & -> & Hp & Hb & Hpc & Hbl & Hst). exists (b :: pre), b0, post.
      repeat split; auto. simpl. unfold is_finally. rewrite K. simpl. auto.
    + simpl. unfold is_finally at 1. rewrite K. simpl. auto.
  - specialize (IH _ _ _ H). destruct o; auto.
    + destruct IH as (pre & b0 & post & -> & Hp & Hb & Hpc & Hbl & Hst). exists (b :: pre), b0, post.
      repeat split; auto. simpl. unfold is_finally. rewrite K. simpl. auto.
    + simpl. unfold is_finally at 1. rewrite K. simpl. auto.
  - subst o. exists [], b, bs'. simpl. unfold is_finally. rewrite K. repeat split; auto. eexists; reflexivity.
  - destruct (Nat.ltb (length st) (b_level b + 3)); [subst; exact I|].
    specialize (IH _ _ _ H). destruct o; auto.
    + destruct IH as (pre & b0 & post & -> & Hp & Hb & Hpc & Hbl & Hst). exists (b :: pre), b0, post.
      repeat split; auto. simpl. unfold is_finally. rewrite K. simpl. auto.
    + simpl. unfold is_finally at 1. rewrite K. simpl. auto.
Qed.

(* A break leaves the innermost enclosing loop -- unless a finally block lies between, whose
   body runs first (with the pending break recorded). *)
Theorem unwind_break fuel : forall st bs o,
  unwind fuel RBrk st bs = o ->
  match o with
  | Exit => forallb (fun b => negb (is_finally b) && negb (is_loop b)) bs = true
  | Next s => exists pre b post, bs = pre ++ b :: post /\
                forallb (fun b => negb (is_finally b) && negb (is_loop b)) pre = true /\
                a_pc s = b_handler b /\ a_blocks s = post /\
                ((is_loop b = true) \/ (is_finally b = true /\ exists r, a_stack s = TWhy WBrk :: r))
  | Bad _ => True
  end.
Proof.
  induction fuel as [|f IH]; intros st bs o H; simpl in H; [subst; exact I|].
  destruct bs as [|b bs']; [subst; reflexivity|].
  destruct (b_kind b) eqn:K.
  - subst o. exists [], b, bs'. simpl. repeat split; auto. left. unfold is_loop. rewrite K. auto.
  - specialize (IH _ _ _ H). destruct o; auto.
    + destruct IH as (pre & b0 & post & -> & Hp & Hpc & Hbl & Hk). exists (b :: pre), b0, post.
      repeat split; auto. simpl. unfold is_finally, is_loop. rewrite K. simpl. auto.
    + simpl. unfold is_finally at 1, is_loop at 1. rewrite K. simpl. auto.
  - subst o. exists [], b, bs'. simpl. repeat split; auto. right. unfold is_finally. rewrite K. split; auto. eexists; reflexivity.
  - destruct (Nat.ltb (length st) (b_level b + 3)); [subst; exact I|].
    specialize (IH _ _ _ H). destruct o; auto.
    + destruct IH as (pre & b0 & post & -> & Hp & Hpc & Hbl & Hk). exists (b :: pre), b0, post.
      repeat split; auto. simpl. unfold is_finally, is_loop. rewrite K. simpl. auto.
    + simpl. unfold is_finally at 1, is_loop at 1. rewrite K. simpl. auto.
Qed.

(* handler selection (PyCmp_EXC_MATCH / ExceptionGivenMatches): the clause taken is the first
   whose class occurs in the MRO of the raised exception's class *)
Fixpoint select_handler (mro : list nat) (handlers : list (list nat)) : option nat :=
  match handlers with
  | [] => None
  | h :: r => if existsb (fun c => existsb (Nat.eqb c) mro) h then Some 0
              else match select_handler mro r with Some k => Some (S k) | None => None end
  end.

Theorem select_handler_first mro hs k : select_handler mro hs = Some k ->
  (exists h, nth_error hs k = Some h /\ exists c, In c h /\ In c mro) /\
  (forall j h, j < k -> nth_error hs j = Some h -> forall c, In c h -> ~ In c mro).
Proof.
  revert k. induction hs as [|h r IH]; intros k H; simpl in H; [discriminate|].
  destruct (existsb (fun c => existsb (Nat.eqb c) mro) h) eqn:E.
  - inversion H; subst. split; [|intros j h' Hj; lia].
    exists h. split; auto. apply existsb_exists in E. destruct E as [c [Hc E]].
    apply existsb_exists in E. destruct E as [c' [Hc' E]]. apply Nat.eqb_eq in E. subst. eauto.
  - destruct (select_handler mro r) as [k'|] eqn:S; [|discriminate]. inversion H; subst.
    destruct (IH _ eq_refl) as [A B]. split; auto.
    intros j h' Hj Hn c Hc Hm. destruct j as [|j]; simpl in Hn.
    + inversion Hn; subst. assert (existsb (fun c => existsb (Nat.eqb c) mro) h' = true).
      { apply existsb_exists. exists c. split; auto. apply existsb_exists. exists c. split; auto. apply Nat.eqb_refl. }
      congruence.
    + assert (Hlt : j < k') by lia. exact (B j h' Hlt Hn c Hc Hm).
Qed.
