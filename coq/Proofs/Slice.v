From Coq Require Import ZArith Bool List Lia ZifyBool.
Import ListNotations.
From GP Require Import Base.Go2v Base.Tactics Spec.SliceSpec Model.Slice.
Open Scope Z_scope.

Definition clamp_step (s : Z) : Z := Z.max (- IntMax) (Z.min IntMax s).

Lemma gi_step_spec step :
  let s := match step with None => 1 | Some s => s end in
  gi_step step = if s =? 0 then None else Some (clamp_step s).
Proof.
  destruct step as [s|]; cbv zeta; [|reflexivity].
  unfold gi_step, clip64, clamp_step, IntMin, IntMax.
  repeat split_if; try reflexivity; try (f_equal; lia). all: try (exfalso; lia).
Qed.

Lemma gi_bound_spec len s def v : 0 <= len < IntMax -> s <> 0 ->
  gi_bound len s def (Some v) =
    (if 0 <? s then clampZ 0 len (norm_neg v len) else clampZ (-1) (len - 1) (norm_neg v len)).
Proof.
  intros Hl Hs. unfold gi_bound, clip64, clampZ, norm_neg, IntMin, IntMax in *.
  repeat split_if; lia.
Qed.

Lemma quot_nonneg_div a b : 0 <= a -> 0 < b -> Z.quot a b = a / b.
Proof. intros. apply Z.quot_div_nonneg; lia. Qed.

Lemma gi_count_spec len a b s : 0 <= len < IntMax -> s <> 0 ->
  -1 <= a <= len -> -1 <= b <= len ->
  gi_count a b (clamp_step s) = slice_count a b s.
Proof.
  intros Hl Hs Ha Hb. unfold gi_count, slice_count.
  set (c := clamp_step s).
  assert (Hc : (0 < s -> 0 < c /\ (c = s \/ (IntMax < s /\ c = IntMax))) /\
               (s < 0 -> c < 0 /\ (c = s \/ (s < - IntMax /\ c = - IntMax)))).
  { subst c. unfold clamp_step, IntMax. lia. }
  unfold IntMax in *.
  destruct (0 <? s) eqn:S.
  - apply Z.ltb_lt in S. destruct Hc as [[Hc1 Hc2] _]; auto.
    assert (E1 : (c <? 0) = false) by lia. assert (E2 : (c >? 0) = true) by lia.
    rewrite E1, E2. simpl. destruct (a >=? b) eqn:E; destruct (b <=? a) eqn:E'; try lia; try reflexivity.
    rewrite quot_nonneg_div by lia.
    destruct Hc2 as [->|[Hbig ->]]; [reflexivity|].
    rewrite !Z.div_small by lia. reflexivity.
  - apply Z.ltb_ge in S. assert (Sn : s < 0) by lia. destruct Hc as [_ [Hc1 Hc2]]; auto.
    assert (E1 : (c <? 0) = true) by lia. assert (E2 : (c >? 0) = false) by lia.
    rewrite E1, E2. simpl. rewrite orb_false_r.
    destruct (b >=? a) eqn:E; destruct (a <=? b) eqn:E'; try lia; try reflexivity.
    assert (Hq : Z.quot (b - a + 1) c = (a - b - 1) / (- c)).
    { rewrite <- (Z.quot_opp_opp _ c) by lia. rewrite quot_nonneg_div by lia. f_equal. lia. }
    rewrite Hq.
    destruct Hc2 as [->|[Hbig ->]]; [reflexivity|].
    rewrite !Z.div_small by lia. reflexivity.
Qed.

Lemma clamp_bounds lo hi x : lo <= hi -> lo <= clampZ lo hi x <= hi.
Proof. unfold clampZ. lia. Qed.

(* GetIndices (model) = Python's slice bounds, for bounds and steps of ANY magnitude *)
Theorem get_indices_spec len start stop step : 0 <= len < IntMax ->
  match slice_bounds len start stop step with
  | None => get_indices len start stop step = None
  | Some (a, b, s) =>
      get_indices len start stop step = Some (a, b, clamp_step s, slice_count a b s) /\
      (clamp_step s = s \/ slice_count a b s <= 1) /\ ((0 <? clamp_step s) = (0 <? s))
  end.
Proof.
  intros Hl. unfold slice_bounds, get_indices. rewrite gi_step_spec.
  set (s := match step with None => 1 | Some s => s end).
  destruct (s =? 0) eqn:E0; [reflexivity|]. apply Z.eqb_neq in E0.
  assert (Hsign : (clamp_step s <? 0) = negb (0 <? s)) by (unfold clamp_step, IntMax; lia).
  assert (Hc0 : clamp_step s <> 0) by (unfold clamp_step, IntMax; lia).
  destruct (0 <? s) eqn:S.
  - rewrite Hsign. simpl negb. cbv iota.
    set (a := match start with None => 0 | Some i => clampZ 0 len (norm_neg i len) end).
    set (b := match stop with None => len | Some j => clampZ 0 len (norm_neg j len) end).
    assert (Ea : gi_bound len (clamp_step s) 0 start = a).
    { subst a. destruct start as [v|]; [|reflexivity].
      rewrite (gi_bound_spec len (clamp_step s) _ v Hl Hc0).
      assert (T : (0 <? clamp_step s) = true) by (unfold clamp_step, IntMax in *; lia). rewrite T. reflexivity. }
    assert (Eb : gi_bound len (clamp_step s) len stop = b).
    { subst b. destruct stop as [v|]; [|reflexivity].
      rewrite (gi_bound_spec len (clamp_step s) _ v Hl Hc0).
      assert (T : (0 <? clamp_step s) = true) by (unfold clamp_step, IntMax in *; lia). rewrite T. reflexivity. }
    rewrite Ea, Eb.
    assert (Ba : -1 <= a <= len) by (subst a; destruct start; [pose proof (clamp_bounds 0 len (norm_neg z len)); lia | lia]).
    assert (Bb : -1 <= b <= len) by (subst b; destruct stop; [pose proof (clamp_bounds 0 len (norm_neg z len)); lia | lia]).
    rewrite (gi_count_spec len) by auto. split; [reflexivity|]. split.
    + unfold clamp_step, slice_count, IntMax in *. rewrite S.
      destruct (Z_le_gt_dec s 9223372036854775807); [left; lia|right].
      destruct (b <=? a) eqn:Eba; [lia|]. rewrite Z.div_small by lia. lia.
    + unfold clamp_step, IntMax in *. lia.
  - rewrite Hsign. simpl negb. cbv iota.
    set (a := match start with None => len - 1 | Some i => clampZ (-1) (len - 1) (norm_neg i len) end).
    set (b := match stop with None => -1 | Some j => clampZ (-1) (len - 1) (norm_neg j len) end).
    assert (T : (0 <? clamp_step s) = false) by (unfold clamp_step, IntMax in *; lia).
    assert (Ea : gi_bound len (clamp_step s) (len - 1) start = a).
    { subst a. destruct start as [v|]; [|reflexivity].
      rewrite (gi_bound_spec len (clamp_step s) _ v Hl Hc0), T. reflexivity. }
    assert (Eb : gi_bound len (clamp_step s) (-1) stop = b).
    { subst b. destruct stop as [v|]; [|reflexivity].
      rewrite (gi_bound_spec len (clamp_step s) _ v Hl Hc0), T. reflexivity. }
    rewrite Ea, Eb.
    assert (Ba : -1 <= a <= len) by (subst a; destruct start; [pose proof (clamp_bounds (-1) (len - 1) (norm_neg z len)); lia | lia]).
    assert (Bb : -1 <= b <= len) by (subst b; destruct stop; [pose proof (clamp_bounds (-1) (len - 1) (norm_neg z len)); lia | lia]).
    rewrite (gi_count_spec len) by auto. split; [reflexivity|]. split.
    + unfold clamp_step, slice_count, IntMax in *. rewrite S.
      destruct (Z_le_gt_dec (-9223372036854775807) s); [left; lia|right].
      destruct (a <=? b) eqn:Eab; [lia|]. rewrite Z.div_small by lia. lia.
    + congruence.
Qed.

(* the element loop of list/tuple/str slicing visits exactly the indices of the slice *)
Lemma loop_get_spec {A} (d : A) l i step n :
  loop_get d l i step n = getslice d l (map (fun k => i + Z.of_nat k * step) (seq 0 n)).
Proof.
  revert i. induction n as [|n IH]; intros i; [reflexivity|].
  cbn [loop_get seq map getslice]. unfold getslice in *. cbn [map]. f_equal.
  - f_equal. f_equal. lia.
  - rewrite IH. rewrite <- seq_shift, !map_map. apply map_ext. intros k. f_equal. f_equal. lia.
Qed.
