From Coq Require Import List Bool Arith NArith ZArith Lia ZifyN ZifyBool.
Import ListNotations.
From GP Require Import Base.Tactics Model.Utf8.
Ltac Zify.zify_post_hook ::= Z.to_euclidean_division_equations.
Open Scope N_scope.

Definition scalar (c : N) : Prop := c < 1114112.

(* shape of one encoded code point: a non-continuation lead byte followed by continuation bytes *)
Lemma encode1_shape c : scalar c -> exists lead conts,
  encode1 c = lead :: conts /\ is_cont lead = false /\ forallb is_cont conts = true.
Proof.
  intros Hc. unfold scalar in Hc. unfold encode1.
  destruct (c <? 128) eqn:E1; [|destruct (c <? 2048) eqn:E2; [|destruct (c <? 65536) eqn:E3]];
    (eexists; eexists; split; [reflexivity|]; split;
     [unfold is_cont; lia | cbn [forallb]; unfold is_cont; rewrite ?andb_true_iff; repeat split; lia]).
Qed.

Lemma rune_count_conts conts rest : forallb is_cont conts = true ->
  rune_count (conts ++ rest) = rune_count rest.
Proof.
  induction conts as [|b r IH]; simpl; intros H; auto. apply andb_true_iff in H. destruct H as [Hb Hr].
  unfold rune_count in *. simpl. rewrite Hb. simpl. apply IH; auto.
Qed.

(* len(s) counts code points, whatever their encoded width *)
Theorem rune_count_encode cps : Forall scalar cps -> rune_count (encode cps) = length cps.
Proof.
  induction 1 as [|c r Hc Hr IH]; simpl; auto.
  destruct (encode1_shape c Hc) as [lead [conts [E [Hl Hcs]]]]. rewrite E. simpl.
  unfold rune_count in *. simpl. rewrite Hl. simpl. f_equal.
  change (length (filter (fun b => negb (is_cont b)) (conts ++ encode r))) with (rune_count (conts ++ encode r)).
  rewrite rune_count_conts by auto. exact IH.
Qed.

Lemma pos_conts conts rest n : forallb is_cont conts = true ->
  pos (conts ++ rest) n = (length conts + pos rest n)%nat.
Proof.
  induction conts as [|b r IH]; simpl; intros H; auto. apply andb_true_iff in H. destruct H as [Hb Hr].
  rewrite Hb. rewrite IH by auto. reflexivity.
Qed.

(* pos(n) is the encoded length of the first n code points *)
Theorem pos_encode cps : Forall scalar cps -> forall n, (n <= length cps)%nat ->
  pos (encode cps) n = length (encode (firstn n cps)).
Proof.
  induction 1 as [|c r Hc Hr IH]; intros n Hn; simpl in *.
  - destruct n; [reflexivity|lia].
  - destruct (encode1_shape c Hc) as [lead [conts [E [Hl Hcs]]]]. rewrite E.
    destruct n as [|n]; simpl; rewrite Hl; [reflexivity|].
    rewrite E. simpl. rewrite pos_conts by auto. rewrite IH by lia. rewrite app_length. reflexivity.
Qed.

Lemma skipn_encode_prefix a b : skipn (length (encode a)) (encode (a ++ b)) = encode b.
Proof. unfold encode. rewrite flat_map_app. rewrite skipn_app, skipn_all, Nat.sub_diag. reflexivity. Qed.

Lemma firstn_encode_prefix a b : firstn (length (encode a)) (encode (a ++ b)) = encode a.
Proof. unfold encode. rewrite flat_map_app. rewrite firstn_app, firstn_all, Nat.sub_diag. simpl. apply app_nil_r. Qed.

(* slicing by code-point positions through the byte-offset arithmetic yields exactly the
   encoding of the code-point slice (non-ASCII path) *)
Theorem slice_encode cps start stop : Forall scalar cps ->
  (start < stop)%nat -> (stop <= length cps)%nat ->
  let bs := encode cps in
  let startI := pos bs start in
  firstn (pos (skipn startI bs) (stop - start)) (skipn startI bs)
  = encode (firstn (stop - start) (skipn start cps)).
Proof.
  intros Hs Hlt Hle bs startI. subst bs startI.
  rewrite pos_encode by (auto; lia).
  assert (Hs' : Forall scalar (skipn start cps)).
  { rewrite <- (firstn_skipn start cps) in Hs. apply Forall_app in Hs. tauto. }
  replace (encode cps) with (encode (firstn start cps ++ skipn start cps)) by (rewrite firstn_skipn; reflexivity).
  rewrite skipn_encode_prefix.
  rewrite pos_encode by (auto; rewrite skipn_length; lia).
  set (b := skipn start cps) in *.
  replace (encode b) with (encode (firstn (stop - start) b ++ skipn (stop - start) b)) at 1 by (rewrite firstn_skipn; reflexivity).
  apply firstn_encode_prefix.
Qed.
