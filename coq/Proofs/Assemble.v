(* The assembler terminates without panic on every well-formed instruction stream, and what it
   emits is consistent: positions are the running sum of the emitted sizes and every jump's
   argument is the final position of its label (absolute) or the distance to it (relative). *)
From Coq Require Import List Bool Arith NArith Lia.
Import ListNotations.
From GP Require Import Model.Assemble.
Open Scope N_scope.

Definition is_jump (c : cell) : bool := match knd c with KJabs _ _ | KJrel _ _ => true | _ => false end.
(* a jump that has not been extended holds a 16-bit argument *)
Definition wfc (c : cell) : Prop := is_jump c = true -> ext c = false -> arg c <= 65535.
Definition narrow (c : cell) : nat := if is_jump c && negb (ext c) then 1%nat else 0%nat.
Fixpoint E (l : list cell) : nat := match l with [] => 0%nat | c :: r => (narrow c + E r)%nat end.

(* positions follow from p by the sizes *)
Fixpoint chain (p : N) (l : list cell) : Prop :=
  match l with [] => True | c :: r => pos c = p /\ chain (p + size c) r end.

(* relative jumps do not point behind themselves (the code panics otherwise); depends on kinds only *)
Fixpoint fwd (i : nat) (ks : list kind) : Prop :=
  match ks with [] => True | k :: r => (forall op d, k = KJrel op d -> (i <= d)%nat) /\ fwd (S i) r end.

Lemma size_set_pos c p : size (set_pos c p) = size c. Proof. reflexivity. Qed.
Lemma wfc_set_pos c p : wfc c -> wfc (set_pos c p). Proof. unfold wfc, is_jump. simpl. auto. Qed.
Lemma narrow_set_pos c p : narrow (set_pos c p) = narrow c. Proof. reflexivity. Qed.

Lemma jump_size c : wfc c -> is_jump c = true -> size c = if ext c then 6 else 3.
Proof.
  unfold wfc, size, wide, is_jump. intros W J. destruct (knd c); try discriminate; 
  destruct (ext c); rewrite ?orb_true_r; auto; simpl; rewrite orb_false_r;
  (destruct (arg c <=? 65535) eqn:A; auto; apply N.leb_gt in A; specialize (W eq_refl eq_refl); lia).
Qed.

(* what one Resolve does to a cell *)
Definition step_ok (c1 c2 : cell) : Prop :=
  knd c2 = knd c1 /\ pos c2 = pos c1 /\ wfc c2 /\ (narrow c2 <= narrow c1)%nat /\
  size c2 = size c1 + 3 * N.of_nat (narrow c1 - narrow c2).

Lemma step_ok_refl c : wfc c -> step_ok c c.
Proof. intros W. unfold step_ok. repeat split; auto. rewrite Nat.sub_diag. simpl. lia. Qed.

Lemma resolve_abs_ok c dp op d : knd c = KJabs op d -> wfc c -> step_ok c (resolve_abs c dp).
Proof.
  intros K W. assert (J : is_jump c = true) by (unfold is_jump; rewrite K; auto).
  pose proof (jump_size c W J) as S1.
  unfold resolve_abs. simpl. destruct (dp <=? 65535) eqn:A.
  - apply N.leb_le in A.
    assert (W2 : wfc (set_arg c dp)) by (intros _ _; simpl; auto).
    assert (J2 : is_jump (set_arg c dp) = true) by (unfold is_jump; simpl; rewrite K; auto).
    assert (N2 : narrow (set_arg c dp) = narrow c) by reflexivity.
    unfold step_ok. repeat split; auto; try (rewrite N2; lia).
    rewrite (jump_size _ W2 J2), S1, N2. simpl. rewrite Nat.sub_diag. simpl. lia.
  - assert (W2 : wfc (set_ext (set_arg c dp))) by (intros _ Hx; simpl in Hx; discriminate).
    assert (J2 : is_jump (set_ext (set_arg c dp)) = true) by (unfold is_jump; simpl; rewrite K; auto).
    assert (N2 : narrow (set_ext (set_arg c dp)) = 0%nat) by (unfold narrow; simpl; rewrite andb_false_r; reflexivity).
    unfold step_ok. repeat split; auto; try (rewrite N2; lia).
    rewrite (jump_size _ W2 J2), S1, N2. simpl. unfold narrow. rewrite J.
    destruct (ext c); simpl; lia.
Qed.

Lemma resolve_rel_ok c dp op d : knd c = KJrel op d -> wfc c -> step_ok c (resolve_rel c dp).
Proof.
  intros K W. assert (J : is_jump c = true) by (unfold is_jump; rewrite K; auto).
  pose proof (jump_size c W J) as S1.
  unfold resolve_rel. set (c1 := rel_round c dp).
  assert (K1 : knd c1 = knd c) by reflexivity. assert (P1 : pos c1 = pos c) by reflexivity.
  assert (X1 : ext c1 = ext c) by reflexivity.
  assert (J1 : is_jump c1 = true) by (unfold is_jump; rewrite K1, K; auto).
  destruct ((arg c1 <=? 65535) || ext c1) eqn:A.
  - assert (W1 : wfc c1). { intros _ Hx. rewrite Hx, orb_false_r in A. apply N.leb_le in A. auto. }
    assert (N1 : narrow c1 = narrow c) by (unfold narrow; rewrite J1, J, X1; reflexivity).
    unfold step_ok. repeat split; auto; try (rewrite N1; lia).
    rewrite (jump_size _ W1 J1), S1, X1, N1, Nat.sub_diag. simpl. lia.
  - apply orb_false_iff in A. destruct A as [A1 A2]. rewrite X1 in A2.
    set (c2 := rel_round (set_ext c1) dp).
    assert (X2 : ext c2 = true) by reflexivity.
    assert (J2 : is_jump c2 = true) by (unfold is_jump; simpl; rewrite K; auto).
    assert (W2 : wfc c2) by (intros _ Hx; rewrite X2 in Hx; discriminate).
    assert (N2 : narrow c2 = 0%nat) by (unfold narrow; rewrite J2, X2; reflexivity).
    unfold step_ok. repeat split; auto; try (rewrite N2; lia).
    rewrite (jump_size _ W2 J2), S1, X2, A2, N2. unfold narrow. rewrite J, A2. simpl. lia.
Qed.

Lemma resolve_ok i rdone c rest c2 : wfc c -> resolve i rdone c rest = Some c2 -> step_ok c c2.
Proof.
  intros W. unfold resolve. destruct (knd c) eqn:K; intros H; try (inversion H; subst; apply step_ok_refl; auto).
  - inversion H; subst. eapply resolve_abs_ok; eauto.
  - destruct (Nat.ltb dest i); [discriminate|]. inversion H; subst. eapply resolve_rel_ok; eauto.
Qed.

Lemma resolve_total i rdone c rest : (forall op d, knd c = KJrel op d -> (i <= d)%nat) ->
  exists c2, resolve i rdone c rest = Some c2.
Proof.
  intros F. unfold resolve. destruct (knd c) eqn:K; eauto.
  destruct (Nat.ltb dest i) eqn:L; eauto. apply Nat.ltb_lt in L. specialize (F _ _ eq_refl). lia.
Qed.

Lemma rev_append_nil {A} (l : list A) : rev_append l [] = rev l.
Proof. rewrite rev_append_rev. apply app_nil_r. Qed.

(* ---- one pass *)
Lemma pass_go_spec res : forall todo i rdone addr ch out ch',
  pass_go res i rdone todo addr ch = Some (out, ch') ->
  Forall wfc todo ->
  exists new, out = rev rdone ++ new /\ Forall wfc new /\ map knd new = map knd todo /\
              chain addr new /\ (E new <= E todo)%nat /\
              (forall p k, chain p todo -> addr = p + 3 * N.of_nat k ->
                 ch' = true -> ch = true \/ (0 < k)%nat \/ (E new < E todo)%nat).
Proof.
  induction todo as [|c rest IH]; intros i rdone addr ch out ch' H W.
  - simpl in H. inversion H; subst. exists []. rewrite rev_append_nil, app_nil_r. repeat split; auto.
  - simpl in H. inversion W as [|? ? Wc Wr]; subst.
    set (c1 := set_pos c addr) in *.
    assert (W1 : wfc c1) by (apply wfc_set_pos; auto).
    destruct (if res then resolve i rdone c1 rest else Some c1) as [c2|] eqn:R; [|discriminate].
    assert (OK : step_ok c1 c2).
    { destruct res; [eapply resolve_ok; eauto|]. inversion R; subst. apply step_ok_refl; auto. }
    destruct OK as (K2 & P2 & W2 & N2 & S2).
    destruct (IH _ _ _ _ _ _ H Wr) as (new & Eo & Wn & Kn & Cn & En & Chg).
    exists (c2 :: new). split; [|split; [|split; [|split; [|split]]]].
    + rewrite Eo. simpl. rewrite <- app_assoc. reflexivity.
    + constructor; auto.
    + simpl. rewrite K2, Kn. reflexivity.
    + simpl. split; auto.
    + simpl. unfold c1 in N2. rewrite narrow_set_pos in N2. lia.
    + intros p k [Pc Cr] Ha Hc.
      unfold c1 in S2, N2. rewrite size_set_pos in S2. rewrite narrow_set_pos in S2, N2.
      specialize (Chg (p + size c) (k + (narrow c - narrow c2))%nat Cr).
      assert (A2 : addr + size c2 = p + size c + 3 * N.of_nat (k + (narrow c - narrow c2))) by lia.
      specialize (Chg A2 Hc). simpl.
      destruct Chg as [C1|[C2|C3]].
      * apply orb_true_iff in C1. destruct C1 as [C1|C1]; auto.
        apply negb_true_iff in C1. apply N.eqb_neq in C1. right. left.
        destruct k; [|lia]. simpl in Ha. lia.
      * destruct k; [|right; left; lia]. right. right. simpl in C2. lia.
      * right. right. lia.
Qed.

Lemma pass_go_total res : forall todo i rdone addr ch,
  fwd i (map knd todo) -> exists r, pass_go res i rdone todo addr ch = Some r.
Proof.
  induction todo as [|c rest IH]; intros i rdone addr ch F; simpl; eauto.
  destruct F as [F1 F2].
  destruct res.
  - destruct (resolve_total i rdone (set_pos c addr) rest) as [c2 R]; [exact F1|]. rewrite R. apply IH. auto.
  - apply IH. auto.
Qed.

Lemma pass_spec res st out ch : pass res st = Some (out, ch) -> Forall wfc st ->
  Forall wfc out /\ map knd out = map knd st /\ chain 0 out /\ (E out <= E st)%nat /\
  (chain 0 st -> ch = true -> (E out < E st)%nat).
Proof.
  unfold pass. intros H W. destruct (pass_go_spec _ _ _ _ _ _ _ _ H W) as (new & Eo & Wn & Kn & Cn & En & Chg).
  simpl in Eo. subst out. repeat split; auto.
  intros C Hc. destruct (Chg 0 0%nat C eq_refl Hc) as [X|[X|X]]; [discriminate|lia|auto].
Qed.

(* ---- the loop *)
Lemma assemble_go_total : forall fuel st, Forall wfc st -> chain 0 st -> fwd 0 (map knd st) ->
  (E st < fuel)%nat -> exists st', assemble_go fuel false st = Some st'.
Proof.
  induction fuel as [|f IH]; intros st W C F L; [lia|]. simpl.
  destruct (pass_go_total true st 0%nat [] 0 false F) as [[out ch] P]. fold (pass true st) in P. rewrite P.
  destruct (pass_spec _ _ _ _ P W) as (Wo & Ko & Co & Eo & Chg).
  destruct ch; eauto. apply IH; auto; [rewrite Ko; auto|]. specialize (Chg C eq_refl). lia.
Qed.

Lemma E_le_length l : (E l <= length l)%nat.
Proof. induction l as [|c r IH]; simpl; auto. unfold narrow. destruct (is_jump c && negb (ext c)); lia. Qed.

Theorem assemble_total st : Forall wfc st -> fwd 0 (map knd st) -> exists st', assemble st = Some st'.
Proof.
  intros W F. unfold assemble. replace (length st + 3)%nat with (S (length st + 2)) by lia. simpl.
  destruct (pass_go_total false st 0%nat [] 0 false F) as [[out ch] P]. fold (pass false st) in P. rewrite P.
  destruct (pass_spec _ _ _ _ P W) as (Wo & Ko & Co & Eo & _).
  destruct ch; eauto. apply assemble_go_total; auto; [rewrite Ko; auto|].
  pose proof (E_le_length st). lia.
Qed.

(* ---- consistency of the result *)
Definition jump_ok (out : list cell) (c : cell) : Prop :=
  match knd c with
  | KJabs _ d => forall cd, nth_error out d = Some cd -> arg c = pos cd
  | KJrel _ d => forall cd, nth_error out d = Some cd ->
                 arg c = (if pos c + size c <? pos cd then pos cd - (pos c + size c) else 0)
  | _ => True
  end.

Lemma resolve_rel_arg c dp op d : knd c = KJrel op d -> wfc c ->
  let c2 := resolve_rel c dp in
  arg c2 = (if pos c2 + size c2 <? dp then dp - (pos c2 + size c2) else 0).
Proof.
  intros K W. assert (J : is_jump c = true) by (unfold is_jump; rewrite K; auto).
  pose proof (jump_size c W J) as S1. unfold resolve_rel. set (c1 := rel_round c dp).
  assert (J1 : is_jump c1 = true) by (unfold is_jump; simpl; rewrite K; auto).
  destruct ((arg c1 <=? 65535) || ext c1) eqn:A; cbv zeta.
  - assert (W1 : wfc c1). { intros _ Hx. rewrite Hx, orb_false_r in A. apply N.leb_le in A. auto. }
    rewrite (jump_size _ W1 J1). change (ext c1) with (ext c). rewrite <- S1. reflexivity.
  - set (c2 := rel_round (set_ext c1) dp).
    assert (S2 : size c2 = 6). { unfold size, wide. simpl. rewrite K, orb_true_r. reflexivity. }
    assert (S3 : size (set_ext c1) = 6). { unfold size, wide. simpl. rewrite K, orb_true_r. reflexivity. }
    rewrite S2. unfold c2, rel_round. rewrite S3. reflexivity.
Qed.

Lemma resolve_abs_arg c dp : arg (resolve_abs c dp) = dp.
Proof. unfold resolve_abs. simpl. destruct (dp <=? 65535); reflexivity. Qed.

Lemma nth_error_nth' {A} (l : list A) n x d : nth_error l n = Some x -> nth n l d = x.
Proof. revert n. induction l as [|a r IH]; destruct n; simpl; intros H; try discriminate; [inversion H; auto|auto]. Qed.

Lemma pass_go_fix : forall todo i rdone addr ch out,
  pass_go true i rdone todo addr ch = Some (out, false) -> i = length rdone -> Forall wfc todo ->
  ch = false /\ exists new, out = rev rdone ++ new /\ length new = length todo /\
    (forall k c c', nth_error todo k = Some c -> nth_error new k = Some c' -> pos c' = pos c) /\
    (forall c', In c' new -> jump_ok out c').
Proof.
  induction todo as [|c rest IH]; intros i rdone addr ch out H Hi W.
  - simpl in H. inversion H; subst. split; auto. exists []. rewrite rev_append_nil, app_nil_r.
    repeat split; auto. + intros k c c' Hk. destruct k; discriminate. + intros c' [].
  - simpl in H. inversion W as [|? ? Wc Wr]; subst.
    set (c1 := set_pos c addr) in *.
    assert (W1 : wfc c1) by (apply wfc_set_pos; auto).
    destruct (resolve (length rdone) rdone c1 rest) as [c2|] eqn:R; [|discriminate].
    destruct (IH _ _ _ _ _ H eq_refl Wr) as (Hch & new & Eo & Ln & Pn & Jn).
    apply orb_false_iff in Hch. destruct Hch as [Hch Hp]. apply negb_false_iff in Hp. apply N.eqb_eq in Hp.
    split; auto.
    destruct (resolve_ok _ _ _ _ _ W1 R) as (K2 & P2 & _).
    exists (c2 :: new). split; [|split; [|split]].
    + rewrite Eo. simpl. rewrite <- app_assoc. reflexivity.
    + simpl. congruence.
    + intros k x x' Hx Hx'. destruct k; simpl in *.
      * inversion Hx; inversion Hx'; subst. rewrite P2. simpl. auto.
      * eapply Pn; eauto.
    + intros c' [<-|Hin]; [|apply Jn; auto].
      assert (OUT : out = rev rdone ++ c2 :: new) by (rewrite Eo; simpl; rewrite <- app_assoc; reflexivity).
      (* the position the resolver read for destination d is the final one *)
      assert (DP : forall d cd, nth_error out d = Some cd -> dest_pos (length rdone) rdone c1 rest d = pos cd).
      { intros d cd Hd. unfold dest_pos. destruct (Nat.ltb d (length rdone)) eqn:L.
        - apply Nat.ltb_lt in L. rewrite OUT, nth_error_app1 in Hd by (rewrite rev_length; auto).
          apply (nth_error_nth' _ _ _ c1) in Hd. rewrite rev_nth in Hd by auto.
          replace (length rdone - 1 - d)%nat with (length rdone - S d)%nat by lia. rewrite Hd. reflexivity.
        - apply Nat.ltb_ge in L. rewrite OUT, nth_error_app2 in Hd by (rewrite rev_length; auto).
          rewrite rev_length in Hd. destruct (d - length rdone)%nat as [|m] eqn:M; simpl in *.
          + inversion Hd; subst. rewrite P2. reflexivity.
          + destruct (nth_error rest m) as [x|] eqn:X.
            * rewrite (nth_error_nth' _ _ _ c1 X). symmetry. eapply Pn; eauto.
            * apply nth_error_None in X. assert (m < length new)%nat by (apply nth_error_Some; congruence). lia. }
      unfold jump_ok. rewrite K2. unfold resolve in R. destruct (knd c1) eqn:K1; auto.
      * inversion R; subst. intros cd Hd. rewrite resolve_abs_arg. apply DP. auto.
      * destruct (Nat.ltb dest (length rdone)); [discriminate|]. inversion R; subst. intros cd Hd.
        rewrite <- (DP _ _ Hd). eapply resolve_rel_arg; eauto.
Qed.

(* in a laid-out array a later instruction starts after an earlier one ends *)
Lemma chain_after : forall l p i j ci cj, chain p l -> (i < j)%nat ->
  nth_error l i = Some ci -> nth_error l j = Some cj -> pos ci + size ci <= pos cj.
Proof.
  assert (G : forall l p j cj, chain p l -> nth_error l j = Some cj -> p <= pos cj).
  { induction l as [|c r IH]; intros p j cj C Hj; destruct j; simpl in *; try discriminate.
    - destruct C as [Pc _]. inversion Hj; subst. lia.
    - destruct C as [_ Cr]. specialize (IH _ _ _ Cr Hj). lia. }
  induction l as [|c r IH]; intros p i j ci cj C Lt Hi Hj; destruct j; try lia; destruct i; simpl in *; try discriminate.
  - destruct C as [Pc Cr]. inversion Hi; subst. eapply G; eauto.
  - destruct C as [_ Cr]. apply (IH (p + size c) i j ci cj Cr); auto. lia.
Qed.

Lemma pass_first_unchanged : forall todo i rdone addr ch out,
  pass_go false i rdone todo addr ch = Some (out, false) -> out = rev rdone ++ todo.
Proof.
  induction todo as [|x r IH]; intros i rdone addr ch out H; simpl in H.
  - inversion H. rewrite rev_append_nil, app_nil_r. reflexivity.
  - pose proof (IH _ _ _ _ _ H) as Eo. 
    assert (Hch : ch || negb (pos x =? addr) = false).
    { clear - H. revert H. generalize (S i) (set_pos x addr :: rdone) (addr + size (set_pos x addr)) (ch || negb (pos x =? addr)).
      induction r as [|y r IHy]; intros i' rd a b H; simpl in H; [inversion H; auto|].
      apply IHy in H. apply orb_false_iff in H. tauto. }
    apply orb_false_iff in Hch. destruct Hch as [_ Q]. apply negb_false_iff in Q. apply N.eqb_eq in Q.
    rewrite Eo. simpl. rewrite <- app_assoc. simpl. f_equal. f_equal.
    destruct x; unfold set_pos; simpl in *; subst; reflexivity.
Qed.

Lemma assemble_go_inv : forall fuel first st st', assemble_go fuel first st = Some st' ->
  Forall wfc st -> 
  (first = true -> forall c, In c st -> pos c = 0 /\ (is_jump c = true -> arg c = 0)) ->
  Forall wfc st' /\ map knd st' = map knd st /\ chain 0 st' /\ (forall c, In c st' -> jump_ok st' c).
Proof.
  induction fuel as [|f IH]; intros first st st' H W Fr; [discriminate|]. simpl in H.
  destruct (pass (negb first) st) as [[out ch]|] eqn:P; [|discriminate].
  destruct (pass_spec _ _ _ _ P W) as (Wo & Ko & Co & _).
  destruct ch.
  - destruct (IH false out st' H Wo) as (A & B & C & D); [intros X; discriminate|].
    repeat split; auto. congruence.
  - inversion H; subst st'. repeat split; auto. intros c Hc.
    destruct first; simpl in P.
    + (* the very first pass changed nothing: all positions are still 0, no jump was resolved *)
      unfold pass in P. apply pass_first_unchanged in P. simpl in P. subst out.
      specialize (Fr eq_refl). destruct (Fr c Hc) as [Pc Ac].
      unfold jump_ok. destruct (knd c) eqn:K; auto.
      * intros cd Hd. apply nth_error_In in Hd. destruct (Fr cd Hd) as [Pd _].
        rewrite Pd. apply Ac. unfold is_jump. rewrite K. auto.
      * intros cd Hd. apply nth_error_In in Hd. destruct (Fr cd Hd) as [Pd _].
        rewrite Pd. rewrite Ac by (unfold is_jump; rewrite K; auto).
        destruct (pos c + size c <? 0) eqn:Q; auto; try (apply N.ltb_lt in Q; lia).
    + destruct (pass_go_fix _ _ _ _ _ _ P eq_refl W) as (_ & new & Eo & _ & _ & Jn). simpl in Eo. subst new. auto.
Qed.

(* the initial array compile.go hands over: positions 0, jumps with Arg 0 *)
Definition initial (prog : list (kind * N)) : list cell := map (fun ka => fresh (fst ka) (snd ka)) prog.

Lemma initial_wf prog : Forall wfc (initial prog).
Proof.
  unfold initial. apply Forall_forall. intros c Hc. apply in_map_iff in Hc. destruct Hc as [[k a] [<- _]].
  intros J _. unfold fresh, is_jump in *. simpl in *. destruct k; try discriminate; simpl; lia.
Qed.

Lemma initial_fresh prog c : In c (initial prog) -> pos c = 0 /\ (is_jump c = true -> arg c = 0).
Proof.
  unfold initial. intros Hc. apply in_map_iff in Hc. destruct Hc as [[k a] [<- _]].
  split; auto. unfold fresh, is_jump. simpl. destruct k; try discriminate; auto.
Qed.

Lemma initial_kinds prog : map knd (initial prog) = map fst prog.
Proof. unfold initial. rewrite map_map. reflexivity. Qed.

(* Termination without panic, for every stream whose relative jumps point forward *)
Theorem assemble_never_panics prog : fwd 0 (map fst prog) -> exists bytes, assemble_bytes prog = Some bytes.
Proof.
  intros F. unfold assemble_bytes. fold (initial prog).
  destruct (assemble_total (initial prog) (initial_wf prog)) as [st' H]; [rewrite initial_kinds; auto|].
  rewrite H. eauto.
Qed.

(* What comes out is consistent *)
Theorem assemble_consistent prog st' : assemble (initial prog) = Some st' ->
  map knd st' = map fst prog /\ chain 0 st' /\
  forall i c, nth_error st' i = Some c ->
    match knd c with
    | KJabs _ d => forall cd, nth_error st' d = Some cd -> arg c = pos cd
    | KJrel _ d => forall cd, nth_error st' d = Some cd -> (i < d)%nat -> pos cd = pos c + size c + arg c
    | _ => True
    end.
Proof.
  intros H. unfold assemble in H.
  destruct (assemble_go_inv _ _ _ _ H (initial_wf prog) (fun _ c Hc => initial_fresh prog c Hc)) as (W & K & C & J).
  split; [rewrite K; apply initial_kinds|]. split; auto.
  intros i c Hi. specialize (J c (nth_error_In _ _ Hi)). unfold jump_ok in J.
  destruct (knd c); auto. intros cd Hd Lt. rewrite (J cd Hd).
  pose proof (chain_after _ _ _ _ _ _ C Lt Hi Hd) as Le.
  destruct (pos c + size c <? pos cd) eqn:Q; [lia|]. apply N.ltb_ge in Q. lia.
Qed.

(* the emitted byte string has exactly the length the positions account for *)
Lemma out_cell_length c : N.of_nat (length (out_cell c)) = size c.
Proof.
  unfold out_cell, size. destruct (knd c); auto; destruct (wide c); reflexivity.
Qed.
