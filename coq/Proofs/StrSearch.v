(* UTF-8 is self-synchronising and prefix-free, so searching the bytes finds exactly the code-point
   occurrences: find over the storage = Python's find over code points. *)
From Coq Require Import List Bool Arith NArith ZArith Lia ZifyN ZifyNat ZifyBool.
Import ListNotations.
From GP Require Import Base.Tactics Model.Utf8 Proofs.Utf8 Model.StrSearch Proofs.Utf8Prefix.
Ltac Zify.zify_post_hook ::= Z.to_euclidean_division_equations.
Open Scope N_scope.

(* ---- index_from: characterisation as the least occurrence ---- *)
Lemma index_from_shift sub l k : index_from sub l k = option_map (fun i => (k + i)%nat) (index_from sub l 0).
Proof.
  revert k. induction l as [|a r IH]; intros k; simpl.
  - destruct (is_prefix sub []); simpl; f_equal; lia.
  - destruct (is_prefix sub (a :: r)); simpl; [f_equal; lia|].
    rewrite (IH (S k)), (IH 1%nat). destruct (index_from sub r 0); simpl; f_equal; lia.
Qed.

Lemma index_from_least sub l i : index_from sub l 0 = Some i ->
  (i <= length l)%nat /\ is_prefix sub (skipn i l) = true /\
  forall j, (j < i)%nat -> is_prefix sub (skipn j l) = false.
Proof.
  revert i. induction l as [|a r IH]; intros i; simpl.
  - destruct (is_prefix sub []) eqn:E; intros H; inversion H; subst. simpl. repeat split; auto; intros; lia.
  - destruct (is_prefix sub (a :: r)) eqn:E; intros H.
    + inversion H; subst. simpl. repeat split; auto; try lia; intros; lia.
    + rewrite index_from_shift in H. destruct (index_from sub r 0) as [i'|] eqn:E'; simpl in H; inversion H; subst.
      destruct (IH i' eq_refl) as [H1 [H2 H3]]. simpl. repeat split; auto; try lia.
      intros [|j] Hj; simpl; auto. apply H3. lia.
Qed.

Lemma index_from_none sub l : index_from sub l 0 = None ->
  forall j, (j <= length l)%nat -> is_prefix sub (skipn j l) = false.
Proof.
  induction l as [|a r IH]; simpl.
  - destruct (is_prefix sub []) eqn:E; intros H; [discriminate|]. intros [|j] Hj; simpl; auto.
  - destruct (is_prefix sub (a :: r)) eqn:E; intros H; [discriminate|].
    rewrite index_from_shift in H. destruct (index_from sub r 0) eqn:E'; simpl in H; [discriminate|].
    intros [|j] Hj; simpl; auto. apply IH; auto. simpl in Hj. lia.
Qed.

(* ---- self-synchronisation: no match can start inside a code point ---- *)
Lemma index_skip_conts esub conts rest k lead tl : esub = lead :: tl -> is_cont lead = false ->
  forallb is_cont conts = true ->
  index_from esub (conts ++ rest) k = index_from esub rest (k + length conts)%nat.
Proof.
  intros -> Hl. revert k. induction conts as [|b r IH]; intros k Hc; simpl.
  - f_equal. lia.
  - apply andb_true_iff in Hc. destruct Hc as [Hb Hr].
    destruct (N.eqb_spec lead b) as [->|_]; [congruence|]. simpl.
    rewrite IH by auto. f_equal. lia.
Qed.

Lemma index_encode sub w : Forall scalar sub -> Forall scalar w -> forall k,
  index_from (encode sub) (encode w) k =
  option_map (fun i => (k + length (encode (firstn i w)))%nat) (index_from sub w 0).
Proof.
  intros Hs Hw. induction Hw as [|c r Hc Hr IH]; intros k.
  - simpl. change (@nil N) with (encode []) at 1. rewrite is_prefix_encode by auto.
    destruct (is_prefix sub []); simpl; f_equal; lia.
  - cbn [index_from]. pose proof (is_prefix_encode sub (c :: r) Hs (Forall_cons _ Hc Hr)) as HP.
    destruct (encode1_shape c Hc) as [lead [conts [E [Hl Hcs]]]].
    change (encode (c :: r)) with (encode1 c ++ encode r) in *. rewrite E in *. cbn [app index_from] in *.
    rewrite HP. destruct (is_prefix sub (c :: r)) eqn:EP; [simpl; f_equal; lia|].
    destruct sub as [|s0 sub']; [discriminate|].
    inversion Hs as [|? ? Hs0 Hs']; subst.
    destruct (encode1_shape s0 Hs0) as [l0 [c0 [E0 [Hl0 _]]]].
    rewrite (index_skip_conts (encode (s0 :: sub')) conts (encode r) (S k) l0 (c0 ++ encode sub')); auto.
    2:{ change (encode (s0 :: sub')) with (encode1 s0 ++ encode sub'). rewrite E0. reflexivity. }
    rewrite IH. rewrite (index_from_shift _ r 1).
    destruct (index_from (s0 :: sub') r 0); simpl; [|reflexivity].
    f_equal. change (encode (c :: firstn n r)) with (encode1 c ++ encode (firstn n r)).
    rewrite E. simpl. rewrite app_length. lia.
Qed.

(* ---- the slice helper on every path, for 0 <= a <= b <= length ---- *)
Lemma encode_len_ge w : (length w <= length (encode w))%nat.
Proof.
  induction w as [|c r IH]; simpl; auto. rewrite app_length.
  pose proof (encode1_nonempty c). destruct (encode1 c); [congruence|simpl; lia].
Qed.

Definition asciib (c : N) : bool := c <? 128.

Lemma ascii_of_len w : length (encode w) = length w -> forallb asciib w = true.
Proof.
  induction w as [|c r IH]; simpl; auto. rewrite app_length. intros H.
  pose proof (encode_len_ge r). pose proof (encode1_nonempty c) as Hn.
  assert (H1 : length (encode1 c) = 1%nat) by (destruct (encode1 c); [congruence|simpl in *; lia]).
  rewrite IH by lia. rewrite andb_true_r. unfold asciib. revert H1. unfold encode1.
  destruct (c <? 128); auto; destruct (c <? 2048); [|destruct (c <? 65536)]; simpl; lia.
Qed.

Lemma encode_ascii w : forallb asciib w = true -> encode w = w.
Proof.
  induction w as [|c r IH]; simpl; auto. intros H. apply andb_true_iff in H. destruct H as [H1 H2].
  unfold encode1. unfold asciib in H1. rewrite H1. simpl. f_equal. auto.
Qed.

Lemma forallb_firstn {A} (f : A -> bool) n l : forallb f l = true -> forallb f (firstn n l) = true.
Proof. revert n. induction l as [|a l IH]; intros [|n]; simpl; auto. intros H. apply andb_true_iff in H. destruct H. rewrite IH; auto. rewrite H. reflexivity. Qed.
Lemma forallb_skipn {A} (f : A -> bool) n l : forallb f l = true -> forallb f (skipn n l) = true.
Proof. revert n. induction l as [|a l IH]; intros [|n]; simpl; auto. intros H. apply andb_true_iff in H. destruct H. auto. Qed.

Lemma Forall_firstn' {A} (P : A -> Prop) n l : Forall P l -> Forall P (firstn n l).
Proof. intros H. rewrite <- (firstn_skipn n l) in H. apply Forall_app in H. tauto. Qed.
Lemma Forall_skipn' {A} (P : A -> Prop) n l : Forall P l -> Forall P (skipn n l).
Proof. intros H. rewrite <- (firstn_skipn n l) in H. apply Forall_app in H. tauto. Qed.

Lemma str_slice_encode w a b : Forall scalar w -> (a <= b)%nat -> (b <= length w)%nat ->
  str_slice (encode w) a b (length w) = encode (firstn (b - a) (skipn a w)).
Proof.
  intros Hw Hab Hb. unfold str_slice.
  destruct (Nat.leb_spec b a) as [Hle|Hlt].
  { replace (b - a)%nat with 0%nat by lia. reflexivity. }
  destruct (Nat.eqb_spec (length w) (length (encode w))) as [Heq|Hne].
  { pose proof (ascii_of_len w (eq_sym Heq)) as Ha. rewrite (encode_ascii w Ha).
    rewrite encode_ascii; auto. apply forallb_firstn, forallb_skipn, Ha. }
  destruct ((a =? 0)%nat && (length w <=? b)%nat) eqn:Ew.
  { apply andb_true_iff in Ew. destruct Ew as [E1 E2]. apply Nat.eqb_eq in E1. apply Nat.leb_le in E2. subst a.
    simpl. rewrite firstn_all2 by lia. reflexivity. }
  apply slice_encode; auto.
Qed.

Open Scope Z_scope.

(* ---- find over the storage = find over code points ---- *)
Theorem find_encode s sub beg end_ : Forall scalar s -> Forall scalar sub ->
  find_model (encode s) (encode sub) beg end_ = cp_find s sub beg end_.
Proof.
  intros Hs Hsub. unfold find_model, cp_find. rewrite rune_count_encode by auto.
  set (size := Z.of_nat (length s)). set (e := clip_end end_ size). set (b := clip_beg beg size).
  destruct (b >? e) eqn:Ebe; [reflexivity|].
  assert (Hb : 0 <= b) by (unfold b, clip_beg; destruct (beg <? 0) eqn:?; lia).
  assert (He : e <= size) by (unfold e, clip_end; destruct (end_ >? size) eqn:?; [lia|]; destruct (end_ <? 0) eqn:?; lia).
  assert (Hbe : b <= e) by lia.
  rewrite !str_slice_encode by (auto; lia). unfold window.
  set (w := firstn (Z.to_nat e - Z.to_nat b) (skipn (Z.to_nat b) s)).
  assert (Hw : Forall scalar w) by (apply Forall_firstn', Forall_skipn'; exact Hs).
  rewrite index_encode by auto.
  destruct (index_from sub w 0) as [i|] eqn:Ei; simpl; [|reflexivity].
  destruct (index_from_least _ _ _ Ei) as [Hi _].
  replace (encode w) with (encode (firstn i w ++ skipn i w)) by (rewrite firstn_skipn; reflexivity).
  rewrite firstn_encode_prefix.
  rewrite !rune_count_encode by (repeat first [apply Forall_firstn' | apply Forall_skipn']; auto).
  rewrite !firstn_length. simpl skipn. rewrite Nat.sub_0_r.
  assert (length w = Z.to_nat e - Z.to_nat b)%nat by (unfold w; rewrite firstn_length, skipn_length; lia).
  lia.
Qed.

Theorem startswith_encode s sub beg end_ : Forall scalar s -> Forall scalar sub ->
  startswith_model (encode s) (encode sub) beg end_ = cp_startswith s sub beg end_.
Proof.
  intros Hs Hsub. unfold startswith_model, cp_startswith. rewrite rune_count_encode by auto.
  set (size := Z.of_nat (length s)). set (e := clip_end end_ size). set (b := clip_beg beg size).
  destruct ((b >? size) || (e <? b)) eqn:Ebe; [reflexivity|].
  apply orb_false_iff in Ebe. destruct Ebe as [E1 E2].
  assert (Hb : 0 <= b) by (unfold b, clip_beg; destruct (beg <? 0) eqn:?; lia).
  assert (He : e <= size) by (unfold e, clip_end; destruct (end_ >? size) eqn:?; [lia|]; destruct (end_ <? 0) eqn:?; lia).
  rewrite str_slice_encode by (auto; lia). unfold window.
  apply is_prefix_encode; auto. apply Forall_firstn', Forall_skipn'; exact Hs.
Qed.

(* `sub in s` is strings.Contains over the bytes *)
Theorem contains_encode s sub : Forall scalar s -> Forall scalar sub ->
  (match index_from (encode sub) (encode s) 0 with Some _ => true | None => false end) =
  (match index_from sub s 0 with Some _ => true | None => false end).
Proof. intros Hs Hsub. rewrite index_encode by auto. destruct (index_from sub s 0); reflexivity. Qed.
