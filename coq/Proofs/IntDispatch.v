(* gpython's integer operators = exact Z arithmetic, for operands of any magnitude in any
   representation, with canonical (demoted-when-it-fits) results. *)
From Coq Require Import ZArith Bool Lia ZifyBool String List.
Import ListNotations.
From GP Require Import Base.Go2v Base.Tactics Spec.IntSpec Model.IntDispatch Proofs.IntWord.
From GP Require Gen.py_int.
Open Scope Z_scope.

Lemma of_value2_maybe z : of_value2 (Some (maybe_int z, VNil)) = RInt (norm z).
Proof. unfold maybe_int, norm. destruct (wordb z); reflexivity. Qed.

Lemma val_norm z : val (norm z) = z.
Proof. unfold norm. destruct (wordb z); reflexivity. Qed.

Lemma canonical_norm z : canonical (norm z).
Proof. unfold canonical. rewrite val_norm. reflexivity. Qed.

Lemma canonical_W z : word z -> canonical (W z).
Proof. intros H. unfold canonical, norm. simpl. rewrite (proj2 (wordb_spec z) H). reflexivity. Qed.

Lemma iv_of_maybe z : iv_of_value (maybe_int z) = Some (norm z).
Proof. unfold maybe_int, norm. destruct (wordb z); reflexivity. Qed.

Lemma big_divmod_floor a b : big_divmod a b = if b =? 0 then None else Some (a / b, a mod b).
Proof.
  unfold big_divmod. destruct (b =? 0) eqn:E; [reflexivity|]. apply Z.eqb_neq in E.
  pose proof (quot_rem_floor a b E) as F. cbv zeta in F |- *.
  destruct (a <? 0), (b <? 0); simpl in F |- *; destruct (negb (Z.rem a b =? 0)); simpl in F |- *;
    rewrite F; reflexivity.
Qed.

Lemma big_shl_spec a b : big_shl a b = a * 2 ^ b.
Proof. unfold big_shl. destruct (a =? 0) eqn:E; auto. apply Z.eqb_eq in E. subst. reflexivity. Qed.

Lemma big_shr_spec a b : 0 <= b -> big_shr a b = a / 2 ^ b.
Proof.
  intros Hb. unfold big_shr. destruct (Z.log2 (Z.abs a) + 1 <? b) eqn:E; auto.
  apply Z.ltb_lt in E.
  assert (Hp : Z.abs a < 2 ^ b).
  { destruct (Z.eq_dec a 0) as [->|N]; [simpl; apply Z.pow_pos_nonneg; lia|].
    apply Z.log2_lt_pow2; lia. }
  destruct (a <? 0) eqn:S.
  - apply Z.ltb_lt in S. apply Z.div_unique with (a + 2 ^ b); lia.
  - apply Z.ltb_ge in S. symmetry. apply Z.div_small. lia.
Qed.

Lemma big_pow_spec a b : 0 <= b -> big_pow a b = a ^ b.
Proof.
  intros Hb. unfold big_pow.
  destruct (a =? 0) eqn:E0.
  - apply Z.eqb_eq in E0. subst. destruct (b =? 0) eqn:Eb.
    + apply Z.eqb_eq in Eb. subst. reflexivity.
    + apply Z.eqb_neq in Eb. rewrite Z.pow_0_l; auto. lia.
  - destruct (a =? 1) eqn:E1.
    + apply Z.eqb_eq in E1. subst. rewrite Z.pow_1_l; auto.
    + destruct (a =? -1) eqn:E2; auto. apply Z.eqb_eq in E2. subst.
      destruct (Z.even b) eqn:Ev.
      * apply Z.even_spec in Ev. destruct Ev as [k ->]. rewrite Z.pow_mul_r by lia. change ((-1) ^ 2) with 1.
        rewrite Z.pow_1_l; lia.
      * assert (Od : Z.odd b = true) by (rewrite <- Z.negb_even, Ev; reflexivity).
        apply Z.odd_spec in Od. destruct Od as [k ->]. rewrite Z.pow_add_r, Z.pow_mul_r by lia.
        change ((-1) ^ 2) with 1. rewrite Z.pow_1_l; lia.
Qed.

Definition shift_ok (op : bop) (b : Z) : Prop :=
  match op with OLshift | ORshift => word b | _ => True end.

Lemma big_op_correct op a b : shift_ok op b ->
  abs_res (big_op op a b) = Some (spec_binop op a b) /\ canonical_res (big_op op a b).
Proof.
  intros Hs. destruct op; simpl in *; rewrite ?big_divmod_floor;
    try (rewrite (proj2 (wordb_spec b) Hs); simpl);
    rewrite ?big_shl_spec;
    repeat match goal with |- context [if ?c then _ else _] => destruct c eqn:? end;
    simpl; rewrite ?val_norm; repeat split; auto; try apply canonical_norm;
    first [rewrite big_shr_spec by lia; reflexivity | rewrite big_pow_spec by lia; reflexivity].
Qed.

Lemma word_method_none op a : word_method op a None = None.
Proof. destruct op; reflexivity. Qed.

Ltac fin_maybe Wz :=
  simpl; (eexists; split; [reflexivity|]); simpl; split; auto;
  first [ apply canonical_W; apply wordb_spec; exact Wz
        | unfold canonical, norm; simpl; rewrite Wz; reflexivity ].

Lemma word_mod a b : word b -> b <> 0 -> word (a mod b).
Proof.
  intros Hb E0. unfold word, IntMin, IntMax in *.
  destruct (Z.lt_trichotomy b 0) as [Hn|[|Hp]]; [|lia|].
  - pose proof (Z.mod_neg_bound a b Hn). lia.
  - pose proof (Z.mod_pos_bound a b Hp). lia.
Qed.

Lemma word_method_some op a b : word a -> word b ->
  exists r, word_method op a (Some b) = Some r /\
            abs_res r = Some (spec_binop op a b) /\ canonical_res r.
Proof.
  intros Ha Hb. destruct (wrappers_exact a b) as (E1&E2&_&E4&E5&_&E7&_).
  destruct (bitops_exact a b) as (B1&B2&B3). destruct (cmp_exact a b) as (C1&C2&C3&C4&C5&C6&_).
  destruct op; unfold word_method.
  - rewrite E1, intAdd_exact by auto. unfold maybe_int. destruct (wordb (a + b)) eqn:Wz; fin_maybe Wz.
  - rewrite E2, intSub_exact by auto. unfold maybe_int. destruct (wordb (a - b)) eqn:Wz; fin_maybe Wz.
  - rewrite E4, intMul_exact by auto. unfold maybe_int. destruct (wordb (a * b)) eqn:Wz; fin_maybe Wz.
  - rewrite E7, divMod_exact by auto. destruct (b =? 0) eqn:E0.
    + simpl. eexists; split; [reflexivity|]. simpl. rewrite E0. auto.
    + simpl. rewrite E0. unfold maybe_int. destruct (wordb (a / b)) eqn:Wz; fin_maybe Wz.
  - rewrite E7, divMod_exact by auto. destruct (b =? 0) eqn:E0.
    + simpl. eexists; split; [reflexivity|]. simpl. rewrite E0. auto.
    + simpl. rewrite E0. assert (Wm : word (a mod b)) by (apply word_mod; auto; apply Z.eqb_neq; auto).
      unfold maybe_int. destruct (wordb (a / b)) eqn:Wz; simpl;
        (eexists; split; [reflexivity|]); simpl; split; auto; apply canonical_W; auto.
  - rewrite E7, divMod_exact by auto. destruct (b =? 0) eqn:E0.
    + simpl. eexists; split; [reflexivity|]. simpl. rewrite E0. auto.
    + simpl. rewrite E0. assert (Wm : word (a mod b)) by (apply word_mod; auto; apply Z.eqb_neq; auto).
      unfold maybe_int. destruct (wordb (a / b)) eqn:Wz; simpl;
        (eexists; split; [reflexivity|]); simpl; split; auto; split; try (apply canonical_W; auto).
      * apply wordb_spec; auto.
      * unfold canonical, norm. simpl. rewrite Wz. reflexivity.
  - rewrite E5, intLshift_exact by auto. simpl. destruct (b <? 0) eqn:S.
    + simpl. eexists; split; [reflexivity|]. simpl. auto.
    + unfold maybe_int. destruct (wordb (a * 2 ^ b)) eqn:Wz; fin_maybe Wz.
  - rewrite M__rshift___exact by auto. simpl. destruct (b <? 0) eqn:E; simpl.
    + eexists; split; [reflexivity|]. simpl. auto.
    + eexists; split; [reflexivity|]. simpl. split; auto. apply canonical_W. apply word_shr; auto. lia.
  - rewrite B1. eexists; split; [reflexivity|]. simpl. split; auto. apply canonical_W.
    apply word_land; auto.
  - rewrite B2. eexists; split; [reflexivity|]. simpl. split; auto. apply canonical_W.
    apply word_lor; auto.
  - rewrite B3. eexists; split; [reflexivity|]. simpl. split; auto. apply canonical_W.
    apply word_lxor; auto.
  - rewrite C1. eexists; split; [reflexivity|]. simpl. auto.
  - rewrite C2. eexists; split; [reflexivity|]. simpl. auto.
  - rewrite C3. eexists; split; [reflexivity|]. simpl. auto.
  - rewrite C4. eexists; split; [reflexivity|]. simpl. auto.
  - rewrite C5. eexists; split; [reflexivity|]. simpl. auto.
  - rewrite C6. eexists; split; [reflexivity|]. simpl. auto.
  - eexists; split; [reflexivity|]. apply big_op_correct. exact I.
Qed.

(* ---- the operators, all four representation combinations ---- *)
Theorem py_binop_correct op x y : wf x -> wf y -> shift_ok op (val y) ->
  abs_res (py_binop op x y) = Some (spec_binop op (val x) (val y)) /\ canonical_res (py_binop op x y).
Proof.
  intros Hx Hy Hs. destruct x as [a|a], y as [b|b]; unfold py_binop; cbn [val wf] in *.
  - destruct (word_method_some op a b Hx Hy) as [r [E R]]. rewrite E. exact R.
  - rewrite word_method_none.
    assert (E : match op with OPow => big_op OPow a b | _ => big_op op a b end = big_op op a b)
      by (destruct op; reflexivity).
    rewrite E. apply big_op_correct; auto.
  - apply big_op_correct; auto.
  - apply big_op_correct; auto.
Qed.

Theorem py_unop_correct op x : wf x ->
  abs_res (py_unop op x) = Some (spec_unop op (val x)) /\ canonical_res (py_unop op x) \/
  (* abs() of a non-negative big int returns the operand itself: canonical iff it was *)
  (op = UAbs /\ exists a, x = B a /\ 0 <= a /\ py_unop op x = RInt (B a)).
Proof.
  intros Hx. destruct x as [a|a]; simpl in Hx.
  - left. destruct op; cbn [py_unop spec_unop val].
    + rewrite M__neg___exact, of_value2_maybe by auto. simpl. rewrite val_norm. split; auto. apply canonical_norm.
    + rewrite M__abs___exact, of_value2_maybe by auto. simpl. rewrite val_norm. split; auto. apply canonical_norm.
    + destruct (M__invert___exact a Hx) as [E Wi]. rewrite E. simpl. split; auto. apply canonical_W; auto.
    + destruct (cmp_exact a 0) as (_&_&_&_&_&_&E). rewrite E. simpl. auto.
  - destruct op; simpl.
    + left. rewrite val_norm. split; auto. apply canonical_norm.
    + destruct (0 <=? a) eqn:S.
      * right. split; auto. exists a. split; auto. split; auto. lia.
      * left. simpl. rewrite val_norm. split; auto. apply canonical_norm.
    + left. rewrite val_norm. replace (Z.lnot a) with (- a - 1) by (unfold Z.lnot; lia). split; auto.
      apply canonical_norm.
    + left. auto.
Qed.

Lemma mod_neg_via_abs x m : m < 0 ->
  x mod m = let r := x mod (Z.abs m) in if negb (r =? 0) then r + m else r.
Proof.
  intros Hm. cbv zeta. rewrite Z.abs_neq by lia.
  pose proof (Z.mod_pos_bound x (- m) ltac:(lia)) as P.
  pose proof (Z.div_mod x (- m) ltac:(lia)) as D.
  destruct (x mod - m =? 0) eqn:E; simpl.
  - apply Z.eqb_eq in E. symmetry. apply Z.mod_unique_neg with (- (x / - m)); lia.
  - apply Z.eqb_neq in E. symmetry. apply Z.mod_unique_neg with (- (x / - m) - 1); lia.
Qed.

Theorem py_pow3_correct x y m :
  abs_res (py_pow3 x y m) = Some (spec_pow3 (val x) (val y) (val m)) /\ canonical_res (py_pow3 x y m).
Proof.
  unfold py_pow3, spec_pow3. destruct (val y <? 0); [simpl; auto|].
  destruct (val m =? 0) eqn:E0; [simpl; auto|]. apply Z.eqb_neq in E0.
  simpl. rewrite val_norm. split; [|apply canonical_norm]. do 2 f_equal.
  destruct (val m <? 0) eqn:S; simpl.
  - apply Z.ltb_lt in S. rewrite (mod_neg_via_abs _ _ S). reflexivity.
  - apply Z.ltb_ge in S. rewrite Z.abs_eq by lia. reflexivity.
Qed.

(* the finding that remains: shift counts that do not fit a word *)
Lemma rshift_huge_count_refuted : exists a b,
  abs_res (py_binop ORshift (W a) (B b)) = Some (SErr "OverflowError") /\
  exists z, spec_binop ORshift a b = SInt z.
Proof.
  exists 5, 18446744073709551616. split; [reflexivity|].
  eexists. unfold spec_binop. change (18446744073709551616 <? 0) with false. cbv iota. reflexivity.
Qed.
