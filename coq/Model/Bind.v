(* Model of vm/eval.go EvalCode's argument binding and of the call-site operand encoding
   (compile.go callHelper / vm Call).  Values are opaque ids (nat). *)
From Coq Require Import List Bool Arith NArith Lia.
Import ListNotations.

Record sig := { s_pos : list nat (* names *); s_ndefs : nat; s_vararg : bool;
                s_kwonly : list nat; s_kwdefs : list nat (* kw-only names with a default *); s_kwarg : bool }.

Inductive bres :=
| Bound (slots : list nat) (star : option (list nat)) (kw : option (list (nat * nat)))
| BTypeError.

Fixpoint index_of (n : nat) (l : list nat) : option nat :=
  match l with [] => None | x :: r => if Nat.eqb x n then Some 0 else option_map S (index_of n r) end.

Fixpoint set_nth {A} (l : list A) (i : nat) (v : A) : list A :=
  match l, i with [], _ => [] | _ :: r, 0 => v :: r | x :: r, S i' => x :: set_nth r i' v end.

(* value ids: positional argument k has id 100+k, keyword argument for name n has id 200+n,
   default of parameter name n has id 300+n *)
Definition kw_step (s : sig) (names : list nat) (acc : option (list (option nat) * list (nat * nat))) (k : nat) :=
  match acc with
  | None => None
  | Some (sl, kd) =>
    match index_of k names with
    | Some j => match nth j sl None with
                | Some _ => None                          (* multiple values *)
                | None => Some (set_nth sl j (Some (200 + k)), kd)
                end
    | None => if s_kwarg s then Some (sl, kd ++ [(k, 200 + k)]) else None   (* unexpected keyword *)
    end
  end.

Definition fill_pos (s : sig) (names : list nat) (sl : list (option nat)) : list (option nat) :=
  let argc := length (s_pos s) in let m := argc - s_ndefs s in
  map (fun ix => let '(i, v) := ix in
         match v with
         | Some _ => v
         | None => if (Nat.leb m i) && (Nat.ltb i argc) then Some (300 + nth i names 0) else None
         end) (combine (seq 0 (length sl)) sl).

Definition fill_kw (s : sig) (names : list nat) (sl : list (option nat)) : list (option nat) :=
  let argc := length (s_pos s) in
  map (fun ix => let '(i, v) := ix in
         match v with
         | Some _ => v
         | None => if (Nat.leb argc i) && existsb (Nat.eqb (nth i names 0)) (s_kwdefs s) then Some (300 + nth i names 0) else None
         end) (combine (seq 0 (length sl)) sl).

Definition bind_model (s : sig) (nargs : nat) (kws : list nat) : bres :=
  let argc := length (s_pos s) in
  let names := s_pos s ++ s_kwonly s in
  let total := length names in
  let n := Nat.min nargs argc in
  let slots0 : list (option nat) := map (fun i => Some (100 + i)) (seq 0 n) ++ repeat None (total - n) in
  let star := if s_vararg s then Some (map (fun i => 100 + i) (seq n (nargs - n))) else None in
  match fold_left (kw_step s names) kws (Some (slots0, [])) with
  | None => BTypeError
  | Some (sl, kd) =>
    if (Nat.ltb argc nargs) && negb (s_vararg s) then BTypeError else
    let sl2 := fill_kw s names (fill_pos s names sl) in
    if forallb (fun v => match v with Some _ => true | None => false end) sl2
    then Bound (map (fun v => match v with Some x => x | None => 0 end) sl2) star (if s_kwarg s then Some kd else None)
    else BTypeError
  end.

(* call-site operand: positional count in the low byte, keyword pairs in the next byte *)
Definition encode_call (npos nkw : N) : N := (npos + 256 * nkw)%N.
Definition decode_call (a : N) : N * N := ((a mod 256)%N, ((a / 256) mod 256)%N).

(* MAKE_FUNCTION operand: positional defaults, keyword-only default pairs, annotations *)
Definition encode_mkfn (npos nkw nann : N) : N := (npos + 256 * nkw + 65536 * nann)%N.
Definition decode_mkfn (a : N) : N * N * N := ((a mod 256)%N, ((a / 256) mod 256)%N, ((a / 65536) mod 32768)%N).
