(* Hand-written model of the element loops of py/list.go and py/tuple.go that sit on top of
   Slice.GetIndices: List.M__getitem__, List.M__setitem__, List.M__delitem__ (slice and index keys),
   List.DelItem, and Tuple.M__getitem__.  Go slices are lists here; an index or slice expression
   the Go runtime would reject is the outcome Panic (never produced, Proofs/ListOps.v).  Capacity and
   aliasing of the backing array are the subject of Model/ListHeap.v (C17), not of this file.
   Tied to the implementation by the correspondence harness (`impl c13ops`). *)
From Coq Require Import ZArith Bool List.
Import ListNotations.
From GP Require Import Base.Go2v Model.Slice.
Open Scope Z_scope.

Inductive res (A : Type) : Type :=
| Ok (l : list A)
| ValueErr        (* ValueError: zero step, or extended slice size mismatch *)
| IndexErr        (* IndexError: index out of range *)
| Panic.          (* Go run-time panic: index / slice bounds out of range *)
Arguments Ok {A} l.
Arguments ValueErr {A}.
Arguments IndexErr {A}.
Arguments Panic {A}.

Definition zlen {A} (l : list A) : Z := Z.of_nat (length l).
Definition in_range {A} (l : list A) (i : Z) : bool := (0 <=? i) && (i <? zlen l).
Definition takeZ {A} (k : Z) (l : list A) : list A := firstn (Z.to_nat k) l.
Definition dropZ {A} (k : Z) (l : list A) : list A := skipn (Z.to_nat k) l.

(* for i, j := start, 0; j < slicelength; i, j = i+step, j+1 { new[j] = l.Items[i] } *)
Fixpoint loop_get_chk {A} (l : list A) (i step : Z) (n : nat) : option (list A) :=
  match n with
  | O => Some []
  | S n' =>
      if in_range l i then
        match nth_error l (Z.to_nat i), loop_get_chk l (i + step) step n' with
        | Some x, Some r => Some (x :: r)
        | _, _ => None
        end
      else None
  end.

Definition list_getslice {A} (l : list A) (start stop step : option Z) : res A :=
  match get_indices (zlen l) start stop step with
  | None => ValueErr
  | Some (a, _, s, n) =>
      match loop_get_chk l a s (Z.to_nat n) with Some r => Ok r | None => Panic end
  end.

(* IndexIntCheck on a word-sized index *)
Definition index_check {A} (l : list A) (i : Z) : option Z :=
  let j := if i <? 0 then i + zlen l else i in
  if in_range l j then Some j else None.

(* l.Items[i] = v *)
Fixpoint set_nth {A} (l : list A) (k : nat) (v : A) : list A :=
  match l, k with
  | [], _ => []
  | _ :: t, O => v :: t
  | x :: t, S k' => x :: set_nth t k' v
  end.

(* for i, j := start, 0; j < slicelength; i, j = i+step, j+1 { l.Items[i] = newItems[j] } *)
Fixpoint loop_set {A} (l : list A) (new : list A) (i step : Z) (n : nat) {struct n} : res A :=
  match n with
  | O => Ok l
  | S n' =>
      match new with
      | [] => Panic                                    (* newItems[j] out of range *)
      | v :: new' =>
          if in_range l i then loop_set (set_nth l (Z.to_nat i) v) new' (i + step) step n'
          else Panic
      end
  end.

Definition list_setslice {A} (l new : list A) (start stop step : option Z) : res A :=
  match get_indices (zlen l) start stop step with
  | None => ValueErr
  | Some (a, b, s, n) =>
      if s =? 1 then
        let b := if b <? a then a else b in
        if (0 <=? a) && (a <=? zlen l) && (0 <=? b) && (b <=? zlen l)
        then Ok (takeZ a l ++ new ++ dropZ b l)
        else Panic
      else if zlen new =? n then loop_set l new a s (Z.to_nat n)
      else ValueErr
  end.

(* a.Items = append(a.Items[:i], a.Items[i+1:]...) *)
Definition del_item {A} (l : list A) (i : Z) : res A :=
  if in_range l i then Ok (takeZ i l ++ dropZ (i + 1) l) else Panic.

(* for i, j := start, 0; j < slicelength; i, j = i+step, j+1 { a.DelItem(i - j) } *)
Fixpoint loop_del {A} (l : list A) (i step j : Z) (n : nat) : res A :=
  match n with
  | O => Ok l
  | S n' =>
      match del_item l (i - j) with
      | Ok l' => loop_del l' (i + step) step (j + 1) n'
      | r => r
      end
  end.

Definition list_delslice {A} (l : list A) (start stop step : option Z) : res A :=
  match get_indices (zlen l) start stop step with
  | None => ValueErr
  | Some (a, b, s, n) =>
      if s =? 1 then
        let b := if b <? a then a else b in
        if (0 <=? a) && (a <=? zlen l) && (0 <=? b) && (b <=? zlen l)
        then Ok (takeZ a l ++ dropZ b l)
        else Panic
      else
        let a' := if s <? 0 then a + (n - 1) * s else a in
        let s' := if s <? 0 then - s else s in
        loop_del l a' s' 0 (Z.to_nat n)
  end.

Definition list_getitem {A} (l : list A) (i : Z) : res A :=
  match index_check l i with
  | None => IndexErr
  | Some j => match nth_error l (Z.to_nat j) with Some x => Ok [x] | None => Panic end
  end.

Definition list_setitem {A} (l : list A) (i : Z) (v : A) : res A :=
  match index_check l i with
  | None => IndexErr
  | Some j => Ok (set_nth l (Z.to_nat j) v)
  end.

Definition list_delitem {A} (l : list A) (i : Z) : res A :=
  match index_check l i with
  | None => IndexErr
  | Some j => del_item l j
  end.

(* ---------------------------------------------------------------- the harness vocabulary (impl c13: lg tg ls ld li lS lD) *)
Inductive lop := LGet | TGet | LSet (k : nat) | LDel | IGet | ISet | IDel.
Definition mklist (base : Z) (n : nat) : list Z := map (fun i => base + Z.of_nat i) (seq 0 n).
Definition run_op (o : lop) (n : nat) (a b c : option Z) : res Z :=
  let l := mklist 10 n in
  match o, a with
  | LGet, _ | TGet, _ => list_getslice l a b c
  | LSet k, _ => list_setslice l (mklist 90 k) a b c
  | LDel, _ => list_delslice l a b c
  | IGet, Some i => list_getitem l i
  | ISet, Some i => list_setitem l i 77
  | IDel, Some i => list_delitem l i
  | _, None => Panic
  end.
Definition res_eqb (x y : res Z) : bool :=
  match x, y with
  | Ok l1, Ok l2 => if list_eq_dec Z.eq_dec l1 l2 then true else false
  | ValueErr, ValueErr | IndexErr, IndexErr | Panic, Panic => true
  | _, _ => false
  end.
