(* Go-level storage of py.List: every list object owns a slice header (backing array, len,
   cap); Go's append writes in place when the capacity allows and reallocates otherwise.
   Models py/list.go Append/Extend, DelItem, M__setitem__ (index), and the copying
   operations (NewListSized + copy: slicing, the list constructor, concatenation, repetition). *)
From Coq Require Import List Arith Lia.
Import ListNotations.

Record hdr := { arr : nat; len : nat; cap : nat }.
Record world := { lists : list hdr; mem : nat -> list nat; next : nat }.

Definition upd_mem (m : nat -> list nat) (a : nat) (v : list nat) : nat -> list nat :=
  fun x => if Nat.eqb x a then v else m x.

Fixpoint set_at (l : list nat) (k v : nat) : list nat :=
  match l, k with [], _ => [] | _ :: r, 0 => v :: r | x :: r, S k' => x :: set_at r k' v end.

Fixpoint upd_list (l : list hdr) (i : nat) (h : hdr) : list hdr :=
  match l, i with [], _ => [] | _ :: r, 0 => h :: r | x :: r, S i' => x :: upd_list r i' h end.

(* the Python-level contents of list object i *)
Definition contents (w : world) (i : nat) : list nat :=
  match nth_error (lists w) i with Some h => firstn (len h) (mem w (arr h)) | None => [] end.

(* Go: append(s, v) *)
Definition append1 (w : world) (i v : nat) : world :=
  match nth_error (lists w) i with
  | None => w
  | Some h =>
    if Nat.ltb (len h) (cap h) then
      {| lists := upd_list (lists w) i {| arr := arr h; len := S (len h); cap := cap h |};
         mem := upd_mem (mem w) (arr h) (set_at (mem w (arr h)) (len h) v); next := next w |}
    else
      let newcap := 2 * cap h + 1 in
      let data := firstn (len h) (mem w (arr h)) ++ [v] ++ repeat 0 (newcap - S (len h)) in
      {| lists := upd_list (lists w) i {| arr := next w; len := S (len h); cap := newcap |};
         mem := upd_mem (mem w) (next w) data; next := S (next w) |}
  end.

(* l[k] = v *)
Definition setitem (w : world) (i k v : nat) : world :=
  match nth_error (lists w) i with
  | None => w
  | Some h => if Nat.ltb k (len h)
              then {| lists := lists w; mem := upd_mem (mem w) (arr h) (set_at (mem w (arr h)) k v); next := next w |}
              else w
  end.

(* del l[k]: append(a[:k], a[k+1:]...) shifts in place *)
Definition delitem (w : world) (i k : nat) : world :=
  match nth_error (lists w) i with
  | None => w
  | Some h => if Nat.ltb k (len h)
              then let old := mem w (arr h) in
                   let shifted := firstn k old ++ skipn (S k) (firstn (len h) old) ++ skipn (len h - 1) old in
                   {| lists := upd_list (lists w) i {| arr := arr h; len := len h - 1; cap := cap h |};
                      mem := upd_mem (mem w) (arr h) shifted; next := next w |}
              else w
  end.

(* a copying operation (full slice, constructor, concatenation with empty, repetition by one): a NEW list object with fresh storage *)
Definition copy_of (w : world) (i : nat) : world :=
  let data := contents w i in
  {| lists := lists w ++ [{| arr := next w; len := length data; cap := length data |}];
     mem := upd_mem (mem w) (next w) data; next := S (next w) |}.

(* distinct list objects never share a backing array, and all arrays are allocated *)
Definition separated (w : world) : Prop :=
  (forall i j hi hj, nth_error (lists w) i = Some hi -> nth_error (lists w) j = Some hj -> i <> j -> arr hi <> arr hj) /\
  (forall i h, nth_error (lists w) i = Some h -> arr h < next w).
