(* How the compile pipeline turns failures of its three stages into the error py.Compile returns.
   parser.Parse, symtable.NewSymTable and compiler.compileAst each run under a deferred recover();
   the handlers call py.MakeSyntaxError (parser) or py.MakeException (the other two).  The texts
   of the four handlers and of the two conversion functions are regenerated into Gen/Inventories.v
   and compared verbatim in Props/C11.v. *)
From Coq Require Import List Bool.
Import ListNotations.

Inductive cls := SyntaxErr | IndentationErr | TabErr | TypeErr | SystemErr | OtherErr.

(* what a stage can panic with, as MakeException's type switch sees it *)
Inductive payload :=
| PException (c : cls) (located : bool)   (* *py.Exception; located: filename, lineno, offset already set *)
| PExcType (c : cls)                      (* *py.Type that is an exception class *)
| PNonExcType                             (* *py.Type that is not *)
| PError                                  (* any other Go error: runtime errors, failed assertions, strconv ... *)
| PString
| POther.

Definition make_exception (p : payload) : cls * bool :=
  match p with
  | PException c l => (c, l)
  | PExcType c => (c, false)
  | PNonExcType => (TypeErr, false)
  | PError | PString | POther => (SystemErr, false)
  end.
Definition make_syntax_error (p : payload) : cls * bool := (fst (make_exception p), true).

Inductive stage (A : Type) := Done (a : A) | Returned (p : payload) | Panicked (p : payload).
Arguments Done {A}. Arguments Returned {A}. Arguments Panicked {A}.

Inductive outcome := Code | Error (c : cls) (located : bool).

(* parser.Parse: a panic and the lexer's recorded error both go through MakeSyntaxError *)
Definition parse_result {A} (s : stage A) : A + cls * bool :=
  match s with Done a => inl a | Returned p => inr (make_syntax_error p) | Panicked p => inr (make_syntax_error p) end.
(* NewSymTable / compileAst: only panics, through MakeException *)
Definition later_result {A} (s : stage A) : A + cls * bool :=
  match s with Done a => inl a | Returned p => inr (make_exception p) | Panicked p => inr (make_exception p) end.

(* compile.Compile: the stages in sequence, first failure wins *)
Definition compile_outcome {Ast Sym} (parse : stage Ast) (symtab : Ast -> stage Sym) (comp : Ast -> Sym -> stage unit) : outcome :=
  match parse_result parse with
  | inr (c, l) => Error c l
  | inl ast =>
    match later_result (symtab ast) with
    | inr (c, l) => Error c l
    | inl st =>
      match later_result (comp ast st) with
      | inr (c, l) => Error c l
      | inl _ => Code
      end
    end
  end.

Definition syntax_family (c : cls) : bool := match c with SyntaxErr | IndentationErr | TabErr => true | _ => false end.
Definition acceptable (o : outcome) : bool := match o with Code => true | Error c l => syntax_family c && l end.

(* what a stage's failure payload must be for the outcome to be acceptable *)
Definition parser_payload_ok (p : payload) : bool :=
  match p with PException c _ => syntax_family c | PExcType c => syntax_family c | _ => false end.
Definition later_payload_ok (p : payload) : bool :=
  match p with PException c l => syntax_family c && l | _ => false end.
Definition stage_ok {A} (ok : payload -> bool) (s : stage A) : bool :=
  match s with Done _ => true | Returned p => ok p | Panicked p => ok p end.
