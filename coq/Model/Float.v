(* gpython's own float algorithms over IEEE-754 binary64, on Flocq's BinarySingleNaN.
   Go's float64 operators + - * / and math.Floor, math.Copysign, math.RoundToEven are taken to be
   the IEEE operations Flocq defines (Bplus, Bminus, Bmult, Bdiv, Bnearbyint); math.Mod is the
   exact remainder [bfmod]; big.Float/big.Rat conversions are exact.  What is modelled is what
   py/float.go, py/int.go and py/bigint.go build from them: int -> float, float -> int, int/float
   comparison, round(x), round(int, n), floatDivMod. *)
From Coq Require Import ZArith Bool List.
From Flocq Require Import Core.Zaux Core.Raux Core.Defs Core.FLX IEEE754.BinarySingleNaN IEEE754.Binary IEEE754.Bits.
Import ListNotations.
Open Scope Z_scope.

Definition prec := 53. Definition emax := 1024.
#[global] Instance Hprec : FLX.Prec_gt_0 prec. Proof. reflexivity. Defined.
#[global] Instance Hmax : BinarySingleNaN.Prec_lt_emax prec emax. Proof. reflexivity. Defined.
Definition float := BinarySingleNaN.binary_float prec emax.

Definition of_bits (b : Z) : float := B2BSN 53 1024 (b64_of_bits b).
Definition sign_bit (s : bool) : Z := if s then 9223372036854775808 else 0.
Definition bits_of (x : float) : Z :=
  match x with
  | BinarySingleNaN.B754_zero s => sign_bit s
  | BinarySingleNaN.B754_infinity s => sign_bit s + 2047 * 4503599627370496
  | BinarySingleNaN.B754_nan => 2047 * 4503599627370496 + 2251799813685248
  | BinarySingleNaN.B754_finite s m e _ =>
      sign_bit s + (if 4503599627370496 <=? Zpos m then (Zpos m - 4503599627370496) + (e + 1075) * 4503599627370496 else Zpos m)
  end.
Definition is_nan (x : float) : bool := match x with BinarySingleNaN.B754_nan => true | _ => false end.

Inductive res (A : Type) := Ok (a : A) | ValueErr | OverflowErr | ZeroDivErr.
Arguments Ok {A}. Arguments ValueErr {A}. Arguments OverflowErr {A}. Arguments ZeroDivErr {A}.

(* BigInt.Float / float(Int): nearest, ties to even; OverflowError past the range *)
Definition int_to_float (n : Z) : res float :=
  let z := BinarySingleNaN.binary_normalize prec emax Hprec Hmax mode_NE n 0 false in
  if BinarySingleNaN.is_finite z then Ok z else OverflowErr.

(* Float.M__int__ *)
Definition float_to_int (x : float) : res Z :=
  match x with
  | BinarySingleNaN.B754_nan => ValueErr
  | BinarySingleNaN.B754_infinity _ => OverflowErr
  | _ => Ok (BinarySingleNaN.Btrunc x)
  end.

(* floatCompare against an int of any size: exact.  None: unordered (nan) *)
Definition cmp_float_int (x : float) (n : Z) : option comparison :=
  match x with
  | BinarySingleNaN.B754_nan => None
  | BinarySingleNaN.B754_infinity s => Some (if s then Lt else Gt)
  | BinarySingleNaN.B754_zero _ => Some (0 ?= n)
  | BinarySingleNaN.B754_finite s m e _ =>
      let v := if s then Zneg m else Zpos m in
      Some (if 0 <=? e then (v * 2 ^ e ?= n) else (v ?= n * 2 ^ (- e)))
  end.

(* Float.M__round__(None): nearest integer, ties to even, as an int *)
Definition round_float (x : float) : res Z := float_to_int (BinarySingleNaN.Bnearbyint mode_NE x).

(* round half to even of num/den (den > 0) to an integer: the core of Float.M__round__(n) *)
Definition rne_q (num den : Z) : Z :=
  let n := (2 * num + den) / (2 * den) in           (* floor(num/den + 1/2) *)
  if ((2 * num + den) mod (2 * den) =? 0) && Z.odd n then n - 1 else n.

(* Int.M__round__ / BigInt.M__round__ with negative ndigits = -k: nearest multiple of 10^k, ties to even *)
Definition round_int (a : Z) (k : Z) : Z :=
  if k <=? 0 then a
  else let scale := 10 ^ k in
       let r := Z.abs a in
       let d := r mod scale in
       let t := r - d in
       let up := (scale <? 2 * d) || ((2 * d =? scale) && Z.odd (t / scale)) in
       Z.sgn a * (if up then t + scale else t).

(* math.Mod: exact remainder with the sign of x; finite nonzero operands *)
Definition bfmod (x y : float) : float :=
  match x, y with
  | BinarySingleNaN.B754_finite sx mx ex _, BinarySingleNaN.B754_finite _ my ey _ =>
      let e := Z.min ex ey in
      let X := Zpos mx * 2 ^ (ex - e) in
      let Y := Zpos my * 2 ^ (ey - e) in
      let r := X mod Y in
      BinarySingleNaN.binary_normalize prec emax Hprec Hmax mode_NE (if sx then - r else r) e sx
  | BinarySingleNaN.B754_zero s, BinarySingleNaN.B754_finite _ _ _ _ => x
  | BinarySingleNaN.B754_finite _ _ _ _, BinarySingleNaN.B754_infinity _ => x
  | BinarySingleNaN.B754_zero _, BinarySingleNaN.B754_infinity _ => x
  | _, _ => BinarySingleNaN.B754_nan
  end.

Definition bsign (x : float) : bool := BinarySingleNaN.Bsign x.
Definition is_zero (x : float) : bool := match x with BinarySingleNaN.B754_zero _ => true | _ => false end.
Definition blt (x y : float) : bool := match BinarySingleNaN.Bcompare x y with Some Lt => true | _ => false end.
Definition bgt (x y : float) : bool := match BinarySingleNaN.Bcompare x y with Some Gt => true | _ => false end.
Definition fzero (s : bool) : float := BinarySingleNaN.B754_zero s.
Definition fone : float := BinarySingleNaN.binary_normalize prec emax Hprec Hmax mode_NE 1 0 false.
Definition fhalf : float := BinarySingleNaN.binary_normalize prec emax Hprec Hmax mode_NE 1 (-1) false.
Definition badd := BinarySingleNaN.Bplus (prec:=prec) (emax:=emax) mode_NE.
Definition bsub := BinarySingleNaN.Bminus (prec:=prec) (emax:=emax) mode_NE.
Definition bdiv := BinarySingleNaN.Bdiv (prec:=prec) (emax:=emax) mode_NE.
Definition bfloor (x : float) : float := BinarySingleNaN.Bnearbyint mode_DN x.

(* floatDivMod (CPython's float_divmod) *)
Definition float_divmod (vx wx : float) : res (float * float) :=
  if is_zero wx then ZeroDivErr
  else
    let mod0 := bfmod vx wx in
    let div0 := bdiv (bsub vx mod0) wx in
    let '(md, dv) :=
      if negb (is_zero mod0) && negb (is_nan mod0) || is_nan mod0 then
        (* mod != 0 (a nan is != 0 too) *)
        if negb (Bool.eqb (blt wx (fzero false)) (blt mod0 (fzero false))) then (badd mod0 wx, bsub div0 fone) else (mod0, div0)
      else (fzero (bsign wx), div0) in
    let fl :=
      if negb (is_zero dv) then
        let f := bfloor dv in
        if bgt (bsub dv f) fhalf then badd f fone else f
      else fzero (bsign (bdiv vx wx)) in
    Ok (fl, md).
