(* UTF-8 storage of py.String and the byte-offset arithmetic of py/string.go (len, pos, slice)
   as functions over byte lists.  Code points are scalar values below 0x110000. *)
From Coq Require Import List Bool Arith NArith Lia.
Import ListNotations.
Open Scope N_scope.

Definition encode1 (c : N) : list N :=
  if c <? 128 then [c]
  else if c <? 2048 then [192 + c / 64; 128 + c mod 64]
  else if c <? 65536 then [224 + c / 4096; 128 + (c / 64) mod 64; 128 + c mod 64]
  else [240 + c / 262144; 128 + (c / 4096) mod 64; 128 + (c / 64) mod 64; 128 + c mod 64].

Definition encode (cps : list N) : list N := flat_map encode1 cps.

Definition is_cont (b : N) : bool := (128 <=? b) && (b <? 192).

(* utf8.RuneCountInString on valid UTF-8: the number of non-continuation bytes *)
Definition rune_count (bs : list N) : nat := length (filter (fun b => negb (is_cont b)) bs).

(* String.pos(n): byte offset at which the n-th code point starts (len(s) if there is none);
   Go's `for i := range s` visits exactly the non-continuation bytes of valid UTF-8 *)
Fixpoint pos (bs : list N) (n : nat) : nat :=
  match bs with
  | [] => 0
  | b :: r => if is_cont b then S (pos r n)
              else match n with O => 0 | S n' => S (pos r n') end
  end%nat.

(* String.slice(start, stop, length) for 0 <= start, stop <= length *)
Definition str_slice (bs : list N) (start stop length : nat) : list N :=
  if (stop <=? start)%nat then []
  else if Nat.eqb length (List.length bs) then firstn (stop - start) (skipn start bs)      (* ASCII fast path *)
  else if (start =? 0)%nat && (length <=? stop)%nat then bs
  else let startI := pos bs start in
       let rest := skipn startI bs in
       firstn (pos rest (stop - start)) rest.
