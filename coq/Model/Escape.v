(* parser/stringescape.go: DecodeEscape, over code points (runes).  Str mode writes runes (a
   surrogate value cannot be written by Go: it becomes U+FFFD); byte mode writes the low byte of
   \x and octal escapes and leaves \u \U \N alone.  Unknown escapes keep their backslash. *)
From Coq Require Import List NArith Bool Arith.
Import ListNotations.
Open Scope N_scope.

Definition hexval (c : N) : option N :=
  if (48 <=? c) && (c <=? 57) then Some (c - 48)
  else if (97 <=? c) && (c <=? 102) then Some (c - 87)
  else if (65 <=? c) && (c <=? 70) then Some (c - 55)
  else None.

Fixpoint parse_hex (ds : list N) (acc : N) : option N :=
  match ds with
  | [] => Some acc
  | d :: r => match hexval d with Some v => parse_hex r (acc * 16 + v) | None => None end
  end.

Definition is_oct (c : N) : bool := (48 <=? c) && (c <=? 55).
Definition rune (v : N) : N := if (55296 <=? v) && (v <=? 57343) then 65533 else v.

(* \xhh, \uhhhh, \Uhhhhhhhh: exactly [size] hexadecimal digits, value at most 0x10FFFF *)
Definition decode_hex (bmode : bool) (size : nat) (r : list N) : option (N * list N) :=
  if Nat.leb size (length r) then
    match parse_hex (firstn size r) 0 with
    | Some v => if v <=? 1114111 then Some (if bmode then v mod 256 else rune v, skipn size r) else None
    | None => None
    end
  else None.

Fixpoint decode_go (fuel : nat) (bmode : bool) (l : list N) : option (list N) :=
  match fuel with
  | O => match l with [] => Some [] | _ => None end
  | S f =>
    match l with
    | [] => Some []
    | c :: r =>
      if negb (c =? 92) then option_map (cons c) (decode_go f bmode r)
      else match r with
      | [] => None                                           (* trailing backslash *)
      | e :: r2 =>
        let lit v := option_map (cons v) (decode_go f bmode r2) in
        let keep := option_map (cons 92) (decode_go f bmode r) in   (* unknown escape: the backslash stays, e is read again *)
        if e =? 10 then decode_go f bmode r2
        else if e =? 92 then lit 92 else if e =? 39 then lit 39 else if e =? 34 then lit 34
        else if e =? 98 then lit 8 else if e =? 102 then lit 12 else if e =? 116 then lit 9 else if e =? 110 then lit 10
        else if e =? 114 then lit 13 else if e =? 118 then lit 11 else if e =? 97 then lit 7
        else if is_oct e then
          let v0 := e - 48 in
          match r2 with
          | d1 :: r3 =>
            if is_oct d1 then
              let v1 := v0 * 8 + (d1 - 48) in
              match r3 with
              | d2 :: r4 => if is_oct d2 then
                              let v2 := v1 * 8 + (d2 - 48) in
                              option_map (cons (if bmode then v2 mod 256 else v2)) (decode_go f bmode r4)
                            else option_map (cons (if bmode then v1 mod 256 else v1)) (decode_go f bmode r3)
              | [] => option_map (cons (if bmode then v1 mod 256 else v1)) (decode_go f bmode r3)
              end
            else option_map (cons (if bmode then v0 mod 256 else v0)) (decode_go f bmode r2)
          | [] => option_map (cons (if bmode then v0 mod 256 else v0)) (decode_go f bmode r2)
          end
        else if e =? 120 then
          match decode_hex bmode 2 r2 with Some (v, rest) => option_map (cons v) (decode_go f bmode rest) | None => None end
        else if (e =? 117) && negb bmode then
          match decode_hex bmode 4 r2 with Some (v, rest) => option_map (cons v) (decode_go f bmode rest) | None => None end
        else if (e =? 85) && negb bmode then
          match decode_hex bmode 8 r2 with Some (v, rest) => option_map (cons v) (decode_go f bmode rest) | None => None end
        else keep
      end
    end
  end.
Definition decode (bmode : bool) (l : list N) : option (list N) := decode_go (length l) bmode l.

(* ---- spellings of a character inside a literal *)
Inductive spelling := SLit | SNamed | SOct3 | SHex2 | SU4 | SU8.

Definition hexchar (d : N) : N := if d <? 10 then 48 + d else 87 + d.     (* lower case *)
Fixpoint hex_digits (w : nat) (v : N) : list N :=
  match w with O => [] | S k => hex_digits k (v / 16) ++ [hexchar (v mod 16)] end.

Definition named (c : N) : option N :=
  if c =? 92 then Some 92 else if c =? 39 then Some 39 else if c =? 34 then Some 34 else if c =? 8 then Some 98
  else if c =? 12 then Some 102 else if c =? 9 then Some 116 else if c =? 10 then Some 110 else if c =? 13 then Some 114
  else if c =? 11 then Some 118 else if c =? 7 then Some 97 else None.

Definition render (c : N) (s : spelling) : list N :=
  match s with
  | SLit => [c]
  | SNamed => match named c with Some e => [92; e] | None => [c] end
  | SOct3 => [92; 48 + c / 64; 48 + (c / 8) mod 8; 48 + c mod 8]
  | SHex2 => 92 :: 120 :: hex_digits 2 c
  | SU4 => 92 :: 117 :: hex_digits 4 c
  | SU8 => 92 :: 85 :: hex_digits 8 c
  end.

Definition scalar (c : N) : bool := (c <=? 1114111) && negb ((55296 <=? c) && (c <=? 57343)).
(* which spellings are available for a character, in a str literal / in a bytes literal *)
Definition valid (bmode : bool) (c : N) (s : spelling) : bool :=
  match s with
  | SLit => negb (c =? 92) && (if bmode then c <? 128 else scalar c)
  | SNamed => match named c with Some _ => true | None => false end
  | SOct3 => if bmode then c <? 256 else c <? 512
  | SHex2 => c <? 256
  | SU4 => negb bmode && (c <? 65536) && scalar c
  | SU8 => negb bmode && scalar c
  end.

(* ---- integer literals: digits in base b (most significant first) *)
Definition digit_val (c : N) : option N := hexval c.
Fixpoint parse_digits (base : N) (ds : list N) (acc : N) : option N :=
  match ds with
  | [] => Some acc
  | d :: r => match digit_val d with Some v => if v <? base then parse_digits base r (acc * base + v) else None | None => None end
  end.
Fixpoint digits_of (fuel : nat) (base v : N) : list N :=
  match fuel with
  | O => []
  | S k => if v <? base then [hexchar v] else digits_of k base (v / base) ++ [hexchar (v mod base)]
  end.
