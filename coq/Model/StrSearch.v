(* Searching in py.String: find, count, `in`, startswith/endswith with [start[, end]] windows
   (py/string.go: find, Count, M__contains__, window) as functions over the UTF-8 bytes, using the
   byte-offset arithmetic of Model/Utf8.v (len, slice) and Go's strings.Index / strings.Count /
   strings.HasPrefix over bytes; next to it Python's rule over code-point lists. *)
From Coq Require Import List Bool Arith NArith ZArith.
Import ListNotations.
From GP Require Import Model.Utf8.

(* strings.HasPrefix(l, p) *)
Fixpoint is_prefix (p l : list N) : bool :=
  match p, l with
  | [], _ => true
  | a :: p', b :: l' => N.eqb a b && is_prefix p' l'
  | _ :: _, [] => false
  end.

(* strings.Index(l, sub): least offset at which sub occurs (k = offset of l in the original) *)
Fixpoint index_from (sub l : list N) (k : nat) : option nat :=
  match l with
  | [] => if is_prefix sub [] then Some k else None
  | _ :: r => if is_prefix sub l then Some k else index_from sub r (S k)
  end.

(* strings.Count(l, sub) for non-empty sub: non-overlapping occurrences from the left;
   skip = bytes of the last match still to be stepped over *)
Fixpoint count_go (sub l : list N) (skip : nat) : nat :=
  match l with
  | [] => 0
  | _ :: r => match skip with
              | S k => count_go sub r k
              | O => if is_prefix sub l then S (count_go sub r (length sub - 1)) else count_go sub r 0
              end
  end.

(* strings.HasSuffix(l, p) *)
Definition is_suffix (p l : list N) : bool :=
  (length p <=? length l)%nat && is_prefix p (skipn (length l - length p) l).

Open Scope Z_scope.

(* start and end "interpreted as in slice notation" *)
Definition clip_end (e size : Z) : Z := if e >? size then size else if e <? 0 then Z.max 0 (e + size) else e.
Definition clip_beg (b size : Z) : Z := if b <? 0 then Z.max 0 (b + size) else b.

(* String.find over the bytes *)
Definition find_model (bs sub : list N) (beg end_ : Z) : Z :=
  let n := rune_count bs in
  let size := Z.of_nat n in
  let e := clip_end end_ size in
  let b := clip_beg beg size in
  if b >? e then -1 else
  let off := rune_count (str_slice bs 0 (Z.to_nat b) n) in
  let str := str_slice bs (Z.to_nat b) (Z.to_nat e) n in
  match index_from sub str 0 with
  | None => -1
  | Some idx => Z.of_nat (off + rune_count (firstn idx str))
  end.

(* String.Count over the bytes *)
Definition count_model (bs sub : list N) (beg end_ : Z) : Z :=
  let n := rune_count bs in
  let size := Z.of_nat n in
  let e := clip_end end_ size in
  let b := clip_beg beg size in
  if (b >? size) || (b >? e) then 0 else
  let str := str_slice bs (Z.to_nat b) (Z.to_nat e) n in
  match sub with
  | [] => Z.of_nat (rune_count str) + 1
  | _ => Z.of_nat (count_go sub str 0)
  end.

(* String.window + strings.HasPrefix: s.startswith(sub, beg, end) *)
Definition startswith_model (bs sub : list N) (beg end_ : Z) : bool :=
  let n := rune_count bs in
  let size := Z.of_nat n in
  let e := clip_end end_ size in
  let b := clip_beg beg size in
  if (b >? size) || (e <? b) then false
  else is_prefix sub (str_slice bs (Z.to_nat b) (Z.to_nat e) n).

(* String.window + strings.HasSuffix: s.endswith(sub, beg, end) *)
Definition endswith_model (bs sub : list N) (beg end_ : Z) : bool :=
  let n := rune_count bs in
  let size := Z.of_nat n in
  let e := clip_end end_ size in
  let b := clip_beg beg size in
  if (b >? size) || (e <? b) then false
  else is_suffix sub (str_slice bs (Z.to_nat b) (Z.to_nat e) n).

(* ---- Python's rule, over code points ---- *)
Definition window (s : list N) (b e : Z) : list N := firstn (Z.to_nat e - Z.to_nat b) (skipn (Z.to_nat b) s).

Definition cp_find (s sub : list N) (beg end_ : Z) : Z :=
  let size := Z.of_nat (length s) in
  let e := clip_end end_ size in
  let b := clip_beg beg size in
  if b >? e then -1 else
  match index_from sub (window s b e) 0 with
  | None => -1
  | Some i => b + Z.of_nat i
  end.

Definition cp_startswith (s sub : list N) (beg end_ : Z) : bool :=
  let size := Z.of_nat (length s) in
  let e := clip_end end_ size in
  let b := clip_beg beg size in
  if (b >? size) || (e <? b) then false else is_prefix sub (window s b e).

(* Python's count over code points: non-overlapping occurrences in the window, leftmost first;
   the empty string occurs between all characters and at both ends *)
Definition cp_count (s sub : list N) (beg end_ : Z) : Z :=
  let size := Z.of_nat (length s) in
  let e := clip_end end_ size in
  let b := clip_beg beg size in
  if (b >? size) || (b >? e) then 0 else
  match sub with
  | [] => Z.of_nat (length (window s b e)) + 1
  | _ => Z.of_nat (count_go sub (window s b e) 0)
  end.

Definition cp_endswith (s sub : list N) (beg end_ : Z) : bool :=
  let size := Z.of_nat (length s) in
  let e := clip_end end_ size in
  let b := clip_beg beg size in
  if (b >? size) || (e <? b) then false else is_suffix sub (window s b e).
