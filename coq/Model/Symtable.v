(* Model of symtable.AnalyzeName (symtable/symtable.go) and of the map-ordered loop of
   AnalyzeBlock that applies it to every symbol of a block.  The per-name function is tied to
   the Go function EXHAUSTIVELY (all 256 flag bytes x all set memberships x nested) by the
   correspondence harness, which calls the exported Go method directly. *)
From Coq Require Import List Bool Arith NArith.
Import ListNotations.

(* scopes, numbered as in the Go enum *)
Definition ScopeInvalid := 0. Definition ScopeLocal := 1. Definition ScopeGlobalExplicit := 2.
Definition ScopeGlobalImplicit := 3. Definition ScopeFree := 4. Definition ScopeCell := 5.

Definition DefGlobal := 1%N. Definition DefLocal := 2%N. Definition DefParam := 4%N. Definition DefNonlocal := 8%N.
Definition DefUse := 16%N. Definition DefFree := 32%N. Definition DefFreeClass := 64%N. Definition DefImport := 128%N.
Definition DefBound := 134%N.   (* DefLocal | DefParam | DefImport *)
Definition has (flags m : N) : bool := negb (N.eqb (N.land flags m) 0).

(* what the analysis knows about ONE name: membership in the four sets and its scope *)
Record nst := { in_bound : bool; in_local : bool; in_free : bool; in_global : bool; scope : nat }.

(* result: new per-name state and whether st.Free was set; None = SyntaxError *)
Definition analyze_name (flags : N) (bound_nil nested : bool) (s : nst) : option (nst * bool) :=
  if has flags DefGlobal then
    if has flags DefParam then None
    else if has flags DefNonlocal then None
    else Some ({| in_bound := if bound_nil then in_bound s else false; in_local := in_local s; in_free := in_free s;
                  in_global := true; scope := ScopeGlobalExplicit |}, false)
  else if has flags DefNonlocal then
    if has flags DefParam then None
    else if bound_nil then None
    else if negb (in_bound s) then None
    else Some ({| in_bound := in_bound s; in_local := in_local s; in_free := true; in_global := in_global s; scope := ScopeFree |}, true)
  else if has flags DefBound then
    Some ({| in_bound := in_bound s; in_local := true; in_free := in_free s; in_global := false; scope := ScopeLocal |}, false)
  else if negb bound_nil && in_bound s then
    Some ({| in_bound := in_bound s; in_local := in_local s; in_free := true; in_global := in_global s; scope := ScopeFree |}, true)
  else if in_global s then
    Some ({| in_bound := in_bound s; in_local := in_local s; in_free := in_free s; in_global := in_global s; scope := ScopeGlobalImplicit |}, false)
  else
    Some ({| in_bound := in_bound s; in_local := in_local s; in_free := in_free s; in_global := in_global s; scope := ScopeGlobalImplicit |}, nested).

(* the block-level state: per-name states, the block's Free flag, and whether some
   declaration was rejected *)
Record bst := { names : nat -> nst; blk_free : bool; rejected : bool }.

(* AnalyzeBlock's loop body for one (name, flags) entry of the symbol MAP *)
Definition block_step (bound_nil nested : bool) (b : bst) (sym : nat * N) : bst :=
  match analyze_name (snd sym) bound_nil nested (names b (fst sym)) with
  | None => {| names := names b; blk_free := blk_free b; rejected := true |}
  | Some (s', f) => {| names := fun x => if Nat.eqb x (fst sym) then s' else names b x;
                        blk_free := blk_free b || f; rejected := rejected b |}
  end.

Definition analyze_block (bound_nil nested : bool) (b : bst) (syms : list (nat * N)) : bst :=
  fold_left (block_step bound_nil nested) syms b.
