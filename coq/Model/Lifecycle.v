(* Executable model of the context lifecycle of stdlib/stdlib.go (C09).
   Programs (lists of actions) are REGENERATED from the Go source into Gen/Lifecycle.v
   by go/cmd/extract; this file is the interpreter and the search.  No proofs here. *)
From Coq Require Import List Bool Arith Lia NArith.
Import ListNotations.

Inductive flag := FClosing | FClosed.

(* non-blocking primitive effects; a list of them executed by one AStep is atomic
   (either because it lies between two yield points with no other shared access, or
   because it is a critical section of the context mutex) *)
Inductive prim :=
| PTestRefuse (f : flag)     (* if the flag is set: refuse the request (return the error) *)
| PWgAdd | PWgDone
| PSet (f : flag)
| PCallbacks                  (* store.OnContextClosed() *)
| PCloseDone                  (* close(ctx.done) *)
| PBody.                      (* the accepted execution itself *)

Inductive act :=
| AStep (l : list prim) (skip : nat)  (* on refusal drop [skip] following actions *)
| AWgWait
| AOnceEnter (skip : nat)             (* sync.Once.Do: skip = actions to drop when already done *)
| AOnceExit
| AWaitDone.                          (* <-ctx.Done() *)

Inductive kind := KRun | KMod | KRes | KClose | KWait.

Record program := {
  p_run : list act; p_mod : list act; p_res : list act; p_close : list act; p_wait : list act }.

Definition prog_of (p : program) (k : kind) : list act :=
  match k with KRun => p_run p | KMod => p_mod p | KRes => p_res p
             | KClose => p_close p | KWait => p_wait p end.

Inductive ost := OIdle | ORunning (tid : nat) | ODone.

Record shared := {
  closing : bool; closed : bool; wg : nat; once : ost; cb : nat; done : bool;
  panic : bool;   (* WaitGroup.Done at 0, or close of a closed channel *)
  late : bool     (* ghost: an execution body ran after the close callbacks *) }.

Definition s0 : shared :=
  {| closing := false; closed := false; wg := 0; once := OIdle; cb := 0; done := false;
     panic := false; late := false |}.

Record thread := { tkind : kind; rem : list act; held : nat; refusals : nat }.

Definition getf (s : shared) (f : flag) : bool :=
  match f with FClosing => closing s | FClosed => closed s end.
Definition setf (s : shared) (f : flag) : shared :=
  match f with
  | FClosing => {| closing := true; closed := closed s; wg := wg s; once := once s; cb := cb s;
                   done := done s; panic := panic s; late := late s |}
  | FClosed => {| closing := closing s; closed := true; wg := wg s; once := once s; cb := cb s;
                  done := done s; panic := panic s; late := late s |}
  end.
Definition set_wg (s : shared) (n : nat) : shared :=
  {| closing := closing s; closed := closed s; wg := n; once := once s; cb := cb s;
     done := done s; panic := panic s; late := late s |}.
Definition set_once (s : shared) (o : ost) : shared :=
  {| closing := closing s; closed := closed s; wg := wg s; once := o; cb := cb s;
     done := done s; panic := panic s; late := late s |}.
Definition set_panic (s : shared) : shared :=
  {| closing := closing s; closed := closed s; wg := wg s; once := once s; cb := cb s;
     done := done s; panic := true; late := late s |}.

(* returns (shared, held, refused) *)
Fixpoint exec_prims (s : shared) (h : nat) (l : list prim) : shared * nat * bool :=
  match l with
  | [] => (s, h, false)
  | p :: l' =>
    match p with
    | PTestRefuse f => if getf s f then (s, h, true) else exec_prims s h l'
    | PWgAdd => exec_prims (set_wg s (S (wg s))) (S h) l'
    | PWgDone => match wg s with
                 | 0 => (set_panic s, h, false)
                 | S n => exec_prims (set_wg s n) (pred h) l'
                 end
    | PSet f => exec_prims (setf s f) h l'
    | PCallbacks =>
        exec_prims {| closing := closing s; closed := closed s; wg := wg s; once := once s;
                      cb := S (cb s); done := done s; panic := panic s; late := late s |} h l'
    | PCloseDone =>
        if done s then (set_panic s, h, false)
        else exec_prims {| closing := closing s; closed := closed s; wg := wg s; once := once s;
                           cb := cb s; done := true; panic := panic s; late := late s |} h l'
    | PBody =>
        exec_prims {| closing := closing s; closed := closed s; wg := wg s; once := once s;
                      cb := cb s; done := done s; panic := panic s;
                      late := late s || (0 <? cb s) |} h l'
    end
  end.

Definition with_rem (t : thread) (r : list act) : thread :=
  {| tkind := tkind t; rem := r; held := held t; refusals := refusals t |}.

Definition step_thread (i : nat) (s : shared) (t : thread) : option (shared * thread) :=
  if panic s then None else
  match rem t with
  | [] => None
  | a :: k =>
    match a with
    | AStep l skip =>
        let '(s', h', rf) := exec_prims s (held t) l in
        Some (s', {| tkind := tkind t; rem := if rf then skipn skip k else k; held := h';
                     refusals := if rf then S (refusals t) else refusals t |})
    | AWgWait => if wg s =? 0 then Some (s, with_rem t k) else None
    | AOnceEnter skip =>
        match once s with
        | OIdle => Some (set_once s (ORunning i), with_rem t k)
        | ORunning _ => None
        | ODone => Some (s, with_rem t (skipn skip k))
        end
    | AOnceExit => Some (set_once s ODone, with_rem t k)
    | AWaitDone => if done s then Some (s, with_rem t k) else None
    end
  end.

Fixpoint upd {A} (l : list A) (i : nat) (x : A) : list A :=
  match l, i with
  | [], _ => []
  | _ :: l', 0 => x :: l'
  | y :: l', S i' => y :: upd l' i' x
  end.

Definition state := (shared * list thread)%type.

Definition step (i : nat) (st : state) : option state :=
  match nth_error (snd st) i with
  | None => None
  | Some t => match step_thread i (fst st) t with
              | None => None
              | Some (s', t') => Some (s', upd (snd st) i t')
              end
  end.

Definition mkthread (p : program) (k : kind) : thread :=
  {| tkind := k; rem := prog_of p k; held := 0; refusals := 0 |}.
Definition init (p : program) (ks : list kind) : state := (s0, map (mkthread p) ks).

Fixpoint run (st : state) (tr : list nat) : option state :=
  match tr with
  | [] => Some st
  | i :: tr' => match step i st with None => None | Some st' => run st' tr' end
  end.

(* ---- state predicates used by the search (the property, as a boolean) ---- *)
Definition any_held (ts : list thread) : bool := existsb (fun t => 0 <? held t) ts.
Definition finished (t : thread) : bool := match rem t with [] => true | _ => false end.

Definition bad (st : state) : bool :=
  let s := fst st in let ts := snd st in
  panic s || late s
  || (done s && (negb (cb s =? 1) || any_held ts))           (* Done signalled early *)
  || (1 <? cb s)                                              (* callbacks twice *)
  || ((0 <? cb s) && any_held ts)                             (* execution inside after callbacks *)
  || existsb (fun t => match tkind t with
                       | KClose => finished t && any_held ts            (* Close returned early *)
                       | _ => false end) ts.

Definition enabled (st : state) : list nat :=
  filter (fun i => match step i st with Some _ => true | None => false end)
         (seq 0 (length (snd st))).

(* stuck: nobody can move although somebody other than a Done-waiter (with Close never
   called) is unfinished *)
Definition stuck (st : state) : bool :=
  match enabled st with
  | _ :: _ => false
  | [] => existsb (fun t => negb (finished t) &&
                     match tkind t with
                     | KWait => match once (fst st) with OIdle => false | _ => true end
                     | _ => true end) (snd st)
  end.

(* refusal after Close completed: a runner whose first action happens when once = ODone
   must end refused; checked on every state by trying every not-yet-started runner *)
Definition fresh (p : program) (t : thread) : bool :=
  match tkind t with
  | KRun | KMod | KRes => (length (rem t) =? length (prog_of p (tkind t))) | _ => false end.

Definition accepts_after_close (p : program) (st : state) : bool :=
  match once (fst st) with
  | ODone => existsb (fun i => match nth_error (snd st) i with
                               | Some t => fresh p t &&
                                   match step i st with
                                   | Some (_, ts') => match nth_error ts' i with
                                                      | Some t' => negb (0 <? refusals t')
                                                      | None => false end
                                   | None => false end
                               | None => false end) (seq 0 (length (snd st)))
  | _ => false
  end.

Definition violates (p : program) (st : state) : bool :=
  bad st || stuck st || accepts_after_close p st.

(* depth-first search for a violating trace; fuel bounds the depth (sum of program lengths
   suffices).  Returns the trace (in execution order). *)
Fixpoint search (p : program) (fuel : nat) (st : state) (acc : list nat) : option (list nat) :=
  if violates p st then Some (rev acc) else
  match fuel with
  | 0 => None
  | S f =>
    (fix try (is : list nat) : option (list nat) :=
       match is with
       | [] => None
       | i :: is' => match step i st with
                     | Some st' => match search p f st' (i :: acc) with
                                   | Some tr => Some tr
                                   | None => try is' end
                     | None => try is' end
       end) (enabled st)
  end.

(* all maximal traces (for replay against the implementation) *)
Fixpoint traces (fuel : nat) (st : state) : list (list nat) :=
  match fuel with
  | 0 => [[]]
  | S f =>
    match enabled st with
    | [] => [[]]
    | en => flat_map (fun i => match step i st with
                               | Some st' => map (cons i) (traces f st')
                               | None => [] end) en
    end
  end.

(* pseudo-random maximal walk (64-bit LCG), for configurations too large to enumerate *)
Definition lcg (x : N) : N := N.modulo (x * 6364136223846793005 + 1442695040888963407) 18446744073709551616.
Fixpoint walk (fuel : nat) (seed : N) (st : state) : list nat :=
  match fuel with
  | 0 => []
  | S f =>
    match enabled st with
    | [] => []
    | en => let i := nth (N.to_nat (N.modulo (N.shiftr seed 33) (N.of_nat (length en)))) en 0 in
            match step i st with
            | Some st' => i :: walk f (lcg seed) st'
            | None => []
            end
    end
  end.
Fixpoint walks (n : nat) (fuel : nat) (seed : N) (st : state) : list (list nat) :=
  match n with 0 => [] | S n' => walk fuel seed st :: walks n' fuel (lcg (lcg seed + 12345)) st end.

Definition fuel_of (p : program) (ks : list kind) : nat :=
  S (fold_right (fun k n => length (prog_of p k) + n) 0 ks).

(* observation of a finished run: per thread (finished?, refusals), callbacks, done, panic *)
Definition observe (st : state) : list (bool * nat) * nat * bool * bool :=
  (map (fun t => (finished t, refusals t)) (snd st), cb (fst st), done (fst st), panic (fst st)).

(* ---- the program the proofs are about (the repaired stdlib.go) ---- *)
Definition admission (skip : nat) : act := AStep [PTestRefuse FClosing; PWgAdd] skip.
Definition expected : program := {|
  p_run := [admission 2; AStep [PBody] 0; AStep [PWgDone] 0];
  p_mod := [admission 4; admission 2; AStep [PBody] 0; AStep [PWgDone] 0; AStep [PWgDone] 0];
  p_res := [admission 2; AStep [PBody] 0; AStep [PWgDone] 0];
  p_close := [AOnceEnter 6; AStep [PSet FClosing] 0; AWgWait; AStep [PSet FClosed] 0;
              AStep [PCallbacks] 0; AStep [PCloseDone] 0; AOnceExit];
  p_wait := [AWaitDone] |}.

(* the pinned (pre-fix) program, kept as a regression witness for the search *)
Definition pinned_buggy : program := {|
  p_run := [AStep [PTestRefuse FClosed] 2; AStep [PWgAdd] 0; AStep [PBody] 0; AStep [PWgDone] 0];
  p_mod := [AStep [PTestRefuse FClosed] 6; AStep [PWgAdd] 0;
            AStep [PTestRefuse FClosed] 2; AStep [PWgAdd] 0; AStep [PBody] 0; AStep [PWgDone] 0;
            AStep [PWgDone] 0];
  p_res := [AStep [PTestRefuse FClosed] 2; AStep [PWgAdd] 0; AStep [PBody] 0; AStep [PWgDone] 0];
  p_close := p_close expected;
  p_wait := [AWaitDone] |}.

Definition observed (p : program) (ks : list kind) (tr : list nat) :=
  (tr, match run (init p ks) tr with Some st => Some (observe st) | None => None end).
