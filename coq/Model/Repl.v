(* Model of repl.REPL.Run (repl/repl.go): the line-at-a-time state machine around
   py.Compile(text, "single").  Lines are abstract tokens; [blank] is the empty line, [white] a line of white space only; the
   compiler's verdict on the accumulated text is the parameter [classify]. *)
From Coq Require Import List Bool Arith.
Import ListNotations.

Definition line := nat.
Definition blank : line := 0.
Definition is_blank (l : line) : bool := Nat.eqb l 0.
Definition white : line := 1.                      (* a line of white space only *)
Definition is_white (l : line) : bool := Nat.eqb l 1.
(* nothing entered: at the primary prompt such a line is dropped before the compiler is asked *)
Definition ignorable (l : line) : bool := is_blank l || is_white l.

Inductive verdict := Complete | Incomplete | CompileError | Ignored.   (* Ignored: a comment-only text that hits the EOF error *)

Inductive event :=
| Prompt (continuation : bool)      (* SetPrompt("... ") / SetPrompt(">>> ") *)
| Exec (text : list line)           (* RunCode of the compiled text *)
| Report (text : list line).        (* "Compile error: ..." *)

Record rstate := { continuation : bool; previous : list line }.
Definition idle : rstate := {| continuation := false; previous := [] |}.

Section WithCompiler.
Variable classify : list line -> verdict.

Definition run_line (st : rstate) (l : line) : rstate * list event :=
  if continuation st && negb (is_blank l) then
    ({| continuation := true; previous := previous st ++ [l] |}, [])
  else
    let text := previous st ++ [l] in
    if match previous st with [] => ignorable l | _ => false end then (st, [])
    else match classify text with
         | Incomplete => ({| continuation := true; previous := previous st ++ [l] |}, [Prompt true])
         | Complete => (idle, [Prompt false; Exec text])
         | CompileError => (idle, [Prompt false; Report text])
         | Ignored => (st, [])
         end.

Fixpoint feed (st : rstate) (ls : list line) : rstate * list event :=
  match ls with
  | [] => (st, [])
  | l :: r => let '(st1, e1) := run_line st l in
              let '(st2, e2) := feed st1 r in (st2, e1 ++ e2)
  end.

(* a program: statements, each a non-empty list of physical lines; a multi-line statement is
   followed by a blank line when typed *)
Definition stmt := list line.
Definition typed (s : stmt) : list line := match s with [_] => s | _ => s ++ [blank] end.
Definition text_of (s : stmt) : list line := match s with [_] => s | _ => s ++ [blank] end.

Definition execs (es : list event) : list (list line) :=
  flat_map (fun e => match e with Exec t => [t] | _ => [] end) es.
End WithCompiler.
