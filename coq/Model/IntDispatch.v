(* Model of gpython's integer operators over the two representations (py.Int = machine word,
   *py.BigInt = math/big).  The word x word paths are the go2v translation of py/int.go
   (Gen/py_int.v); the big paths and the dispatch of py/arithmetic.go are hand-written and
   tied by correspondence.  No proofs here. *)
From Coq Require Import ZArith Bool String Ascii List.
Import ListNotations.
From GP Require Import Base.Go2v Spec.IntSpec.
From GP Require Gen.py_int.
Open Scope Z_scope.

Inductive iv := W (z : Z) | B (z : Z).
Definition val (v : iv) : Z := match v with W z | B z => z end.
Definition norm (z : Z) : iv := if wordb z then W z else B z.

Inductive ores := RInt (v : iv) | RBool (b : bool) | RPair (q r : iv) | RErr (cls : string)
                | RFloat | RGoPanic.

Fixpoint before_colon (s : string) : string :=
  match s with
  | EmptyString => EmptyString
  | String c r => if Ascii.eqb c ":"%char then EmptyString else String c (before_colon r)
  end.

Definition iv_of_value (v : value) : option iv :=
  match v with VInt z => Some (W z) | VBig z => Some (B z) | _ => None end.

Definition of_value2 (r : option (value * value)) : ores :=
  match r with
  | None => RGoPanic
  | Some (_, VErr e) => RErr (before_colon e)
  | Some (VInt z, VNil) => RInt (W z)
  | Some (VBig z, VNil) => RInt (B z)
  | Some (VBool b, VNil) => RBool b
  | Some _ => RGoPanic
  end.

Definition of_value3 (r : option (value * value * value)) (sel : nat) : ores :=
  match r with
  | None => RGoPanic
  | Some (_, _, VErr e) => RErr (before_colon e)
  | Some (q, m, VNil) =>
      match iv_of_value q, iv_of_value m with
      | Some q', Some m' => match sel with 0%nat => RInt q' | 1%nat => RInt m' | _ => RPair q' m' end
      | _, _ => RGoPanic
      end
  | Some _ => RGoPanic
  end.

(* BigInt.divMod: truncated QuoRem, then the floor adjustment, then MaybeInt on both *)
Definition big_divmod (a b : Z) : option (Z * Z) :=
  if b =? 0 then None else
  let q := Z.quot a b in let r := Z.rem a b in
  let neg := if b <? 0 then negb (a <? 0) else (a <? 0) in
  if neg && negb (r =? 0) then Some (q - 1, r + b) else Some (q, r).

(* math/big Lsh/Rsh, written so that they can be evaluated for huge counts *)
Definition big_shl (a b : Z) : Z := if a =? 0 then 0 else a * 2 ^ b.
Definition big_shr (a b : Z) : Z :=
  if Z.log2 (Z.abs a) + 1 <? b then (if a <? 0 then -1 else 0) else a / 2 ^ b.

(* math/big Exp without modulus, evaluable for huge exponents when |a| <= 1 *)
Definition big_pow (a b : Z) : Z :=
  if a =? 0 then (if b =? 0 then 1 else 0)
  else if a =? 1 then 1
  else if a =? -1 then (if Z.even b then 1 else -1)
  else a ^ b.

(* BigInt operators (receiver a, operand b already converted by ConvertToBigInt) *)
Definition big_op (op : bop) (a b : Z) : ores :=
  match op with
  | OAdd => RInt (norm (a + b)) | OSub => RInt (norm (a - b)) | OMul => RInt (norm (a * b))
  | OFloorDiv => match big_divmod a b with None => RErr "ZeroDivisionError" | Some (q, _) => RInt (norm q) end
  | OMod => match big_divmod a b with None => RErr "ZeroDivisionError" | Some (_, r) => RInt (norm r) end
  | ODivMod => match big_divmod a b with None => RErr "ZeroDivisionError" | Some (q, r) => RPair (norm q) (norm r) end
  | OLshift => if negb (wordb b) then RErr "OverflowError"      (* count.GoInt() fails *)
               else if b <? 0 then RErr "ValueError" else RInt (norm (big_shl a b))
  | ORshift => if negb (wordb b) then RErr "OverflowError"
               else if b <? 0 then RErr "ValueError" else RInt (norm (big_shr a b))
  | OAnd => RInt (norm (Z.land a b)) | OOr => RInt (norm (Z.lor a b)) | OXor => RInt (norm (Z.lxor a b))
  | OLt => RBool (a <? b) | OLe => RBool (a <=? b) | OEq => RBool (a =? b)
  | ONe => RBool (negb (a =? b)) | OGt => RBool (a >? b) | OGe => RBool (a >=? b)
  | OPow => if b <? 0 then (if a =? 0 then RErr "ZeroDivisionError" else RFloat)   (* Float.M__pow__: floatPow *)
            else RInt (norm (big_pow a b))
  end.

(* Int.M__op__(other) where other is a py.Int (Some b) or something convertToInt rejects (None) *)
Definition word_method (op : bop) (a : Z) (other : option Z) : option ores :=
  let nz r := match r with Some (VNotImpl, _) => None | _ => Some (of_value2 r) end in
  let nz3 r sel := match r with Some (VNotImpl, _, _) => None | _ => Some (of_value3 r sel) end in
  match op with
  | OAdd => nz (py_int.M__add__ a other) | OSub => nz (py_int.M__sub__ a other)
  | OMul => nz (py_int.M__mul__ a other)
  | OFloorDiv => nz3 (py_int.M__divmod__ a other) 0%nat
  | OMod => nz3 (py_int.M__divmod__ a other) 1%nat
  | ODivMod => nz3 (py_int.M__divmod__ a other) 2%nat
  | OLshift => nz (py_int.M__lshift__ a other) | ORshift => nz (py_int.M__rshift__ a other)
  | OAnd => nz (py_int.M__and__ a other) | OOr => nz (py_int.M__or__ a other)
  | OXor => nz (py_int.M__xor__ a other)
  | OLt => nz (py_int.M__lt__ a other) | OLe => nz (py_int.M__le__ a other)
  | OEq => nz (py_int.M__eq__ a other) | ONe => nz (py_int.M__ne__ a other)
  | OGt => nz (py_int.M__gt__ a other) | OGe => nz (py_int.M__ge__ a other)
  | OPow => (* Int.M__pow__ converts the receiver to BigInt and calls BigInt.M__pow__ *)
      match other with Some b => Some (big_op OPow a b) | None => None end
  end.

(* py.Add(x, y) etc. (py/arithmetic.go): x.M__op__(y); if NotImplemented and the types differ,
   y.M__rop__(x).  For int/bigint the reflected BigInt method converts x and computes the
   same exact operation with the operands in the original order. *)
Definition py_binop (op : bop) (x y : iv) : ores :=
  match x, y with
  | W a, W b => match word_method op a (Some b) with Some r => r | None => RErr "TypeError" end
  | W a, B b => match word_method op a None with
                | Some r => r
                | None => match op with
                          | OPow => big_op OPow a b       (* BigInt.M__rpow__ *)
                          | _ => big_op op a b
                          end
                end
  | B a, _ => big_op op a (val y)
  end.

Definition py_unop (op : uop) (x : iv) : ores :=
  match op, x with
  | UNeg, W a => of_value2 (py_int.M__neg__ a)
  | UAbs, W a => of_value2 (py_int.M__abs__ a)
  | UInvert, W a => of_value2 (py_int.M__invert__ a)
  | UTruth, W a => of_value2 (py_int.M__bool__ a)
  | UNeg, B a => RInt (norm (- a))
  | UAbs, B a => if 0 <=? a then RInt (B a) else RInt (norm (Z.abs a))
  | UInvert, B a => RInt (norm (Z.lnot a))
  | UTruth, B a => RBool (negb (a =? 0))
  end.

(* pow(a, b, m): always through BigInt.pow *)
Definition py_pow3 (x y m : iv) : ores :=
  let a := val x in let b := val y in let mm := val m in
  if b <? 0 then RErr "TypeError"
  else if mm =? 0 then RErr "ValueError"
  else let r := (a ^ b) mod (Z.abs mm) in      (* big.Int.Exp: modulus |m|, result >= 0 *)
       RInt (norm (if (mm <? 0) && negb (r =? 0) then r + mm else r)).

(* representation invariant and the abstraction to the spec's results *)
Definition wf (v : iv) : Prop := match v with W z => word z | B _ => True end.
Definition canonical (v : iv) : Prop := v = norm (val v).

Definition abs_res (r : ores) : option sres :=
  match r with
  | RInt v => Some (SInt (val v)) | RBool b => Some (SBool b)
  | RPair q m => Some (SPair (val q) (val m)) | RErr c => Some (SErr c)
  | RFloat => Some SFloat | RGoPanic => None
  end.

Definition canonical_res (r : ores) : Prop :=
  match r with RInt v => canonical v | RPair q m => canonical q /\ canonical m | _ => True end.

(* boolean equality of observations, for the per-run correspondence files *)
Definition iv_eqb (a b : iv) : bool :=
  match a, b with W x, W y => x =? y | B x, B y => x =? y | _, _ => false end.
Definition ores_eqb (a b : ores) : bool :=
  match a, b with
  | RInt x, RInt y => iv_eqb x y
  | RBool x, RBool y => Bool.eqb x y
  | RPair q r, RPair q' r' => iv_eqb q q' && iv_eqb r r'
  | RErr x, RErr y => String.eqb x y
  | RFloat, RFloat => true
  | RGoPanic, RGoPanic => true
  | _, _ => false
  end.

Inductive icase :=
| CBin (op : bop) (x y : iv) (obs : ores)
| CUn (op : uop) (x : iv) (obs : ores)
| CPow3 (x y m : iv) (obs : ores).

Definition icase_ok (c : icase) : bool :=
  match c with
  | CBin op x y obs => ores_eqb (py_binop op x y) obs
  | CUn op x obs => ores_eqb (py_unop op x) obs
  | CPow3 x y m obs => ores_eqb (py_pow3 x y m) obs
  end.

Fixpoint bad_indices (n : nat) (l : list icase) : list nat :=
  match l with
  | [] => []
  | c :: r => if icase_ok c then bad_indices (S n) r else n :: bad_indices (S n) r
  end.
