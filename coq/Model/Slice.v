(* Hand-written structured model of Slice.GetIndices (py/slice.go); tied to the go2v
   translation Gen/py_slice.v by an exhaustive in-Coq comparison on the boundary lattice
   (Props/C13.v) and to the implementation by the correspondence harness. *)
From Coq Require Import ZArith Bool List.
Import ListNotations.
From GP Require Import Base.Go2v.
Open Scope Z_scope.

Definition gi_step (step : option Z) : option Z :=       (* None = ValueError *)
  match step with
  | None => Some 1
  | Some s => let s := clip64 s in
              if s =? 0 then None else Some (if s <? - IntMax then - IntMax else s)
  end.

Definition gi_bound (len step : Z) (def : Z) (x : option Z) : Z :=
  match x with
  | None => def
  | Some v =>
      let v := clip64 v in
      let v := if v <? 0 then v + len else v in
      let v := if v <? 0 then (if step <? 0 then -1 else 0) else v in
      if v >=? len then (if step <? 0 then len - 1 else len) else v
  end.

Definition gi_count (start stop step : Z) : Z :=
  if ((step <? 0) && (stop >=? start)) || ((step >? 0) && (start >=? stop)) then 0
  else if step <? 0 then Z.quot (stop - start + 1) step + 1
  else Z.quot (stop - start - 1) step + 1.

Definition get_indices (len : Z) (start stop step : option Z) : option (Z * Z * Z * Z) :=
  match gi_step step with
  | None => None
  | Some s =>
      let defstart := if s <? 0 then len - 1 else 0 in
      let defstop := if s <? 0 then -1 else len in
      let a := gi_bound len s defstart start in
      let b := gi_bound len s defstop stop in
      Some (a, b, s, gi_count a b s)
  end.

(* the per-type element loop shared by list/tuple/str slicing *)
Fixpoint loop_get {A} (d : A) (l : list A) (i step : Z) (n : nat) : list A :=
  match n with
  | O => []
  | S n' => nth (Z.to_nat i) l d :: loop_get d l (i + step) step n'
  end.
