(* Bytecode decoder (the VM's own fetch rule) and an abstract interpreter of vm/eval.go over
   (value-stack tags, block stack): the bytecode verifier of C12.  Opcodes come from the
   regenerated Gen/Opcodes.v, so a new opcode makes the [match]es below non-exhaustive.
   No proofs here. *)
From Coq Require Import List Bool Arith NArith String Lia.
Import ListNotations.
From GP Require Import Gen.Opcodes.
Notation length := List.length.

(* ---------------------------------------------------------------- decoding *)
Record instr := { i_addr : N; i_op : opc; i_arg : N; i_next : N }.

(* RunFrame's fetch: one opcode byte, two operand bytes (little endian) if HAS_ARG,
   EXTENDED_ARG supplies the high 16 bits of the following instruction *)
Definition mk_arg (lo hi : nat) (ext : option N) : N :=
  (N.of_nat lo + 256 * N.of_nat hi + match ext with Some e => 65536 * e | None => 0 end)%N.

Fixpoint decode (fuel : nat) (code : list nat) (addr : N) (ext : option N) : option (list instr) :=
  match fuel with
  | 0 => None
  | S f =>
    match code with
    | [] => match ext with None => Some [] | Some _ => None end
    | b :: r =>
      match opcode_of_nat b with
      | None => None
      | Some op =>
        if Nat.leb HAVE_ARGUMENT b then
          match r with
          | lo :: hi :: r' =>
              let a := mk_arg lo hi ext in
              match op with
              | EXTENDED_ARG =>
                  match decode f r' (addr + 3)%N (Some a) with
                  | Some l => Some ({| i_addr := addr; i_op := op; i_arg := a; i_next := (addr + 3)%N |} :: l)
                  | None => None end
              | _ =>
                  match decode f r' (addr + 3)%N None with
                  | Some l => Some ({| i_addr := addr; i_op := op; i_arg := a; i_next := (addr + 3)%N |} :: l)
                  | None => None end
              end
          | _ => None
          end
        else
          match ext with
          | Some _ => None
          | None =>
            match decode f r (addr + 1)%N None with
            | Some l => Some ({| i_addr := addr; i_op := op; i_arg := 0%N; i_next := (addr + 1)%N |} :: l)
            | None => None end
          end
      end
    end
  end.

Fixpoint find_instr (l : list instr) (addr : N) : option instr :=
  match l with [] => None | i :: r => if N.eqb (i_addr i) addr then Some i else find_instr r addr end.

(* ---------------------------------------------------------------- abstract machine *)
Inductive why := WRet | WBrk | WCont | WSil.
Inductive tag := TAny | TNone | TWhy (w : why) | TExc | TTarget (t : N).   (* TTarget: the loop head a pending continue jumps to *)
Inductive bkind := BLoop | BExcept | BFinally | BHandler.
Record blk := { b_kind : bkind; b_handler : N; b_level : nat }.
Record astate := { a_pc : N; a_stack : list tag (* top first *); a_blocks : list blk (* top first *) }.

Inductive outcome := Next (s : astate) | Exit | Bad (msg : string).

Definition why_eqb (a b : why) : bool :=
  match a, b with WRet, WRet | WBrk, WBrk | WCont, WCont | WSil, WSil => true | _, _ => false end.
Definition tag_eqb (a b : tag) : bool :=
  match a, b with TAny, TAny | TNone, TNone | TExc, TExc => true | TWhy x, TWhy y => why_eqb x y | TTarget x, TTarget y => N.eqb x y | _, _ => false end.
Definition bkind_eqb (a b : bkind) : bool :=
  match a, b with BLoop, BLoop | BExcept, BExcept | BFinally, BFinally | BHandler, BHandler => true | _, _ => false end.
Definition blk_eqb (a b : blk) : bool :=
  bkind_eqb (b_kind a) (b_kind b) && N.eqb (b_handler a) (b_handler b) && Nat.eqb (b_level a) (b_level b).
Fixpoint list_eqb {A} (eqb : A -> A -> bool) (a b : list A) : bool :=
  match a, b with [] , [] => true | x :: a', y :: b' => eqb x y && list_eqb eqb a' b' | _, _ => false end.
Definition astate_eqb (a b : astate) : bool :=
  N.eqb (a_pc a) (a_pc b) && list_eqb tag_eqb (a_stack a) (a_stack b) && list_eqb blk_eqb (a_blocks a) (a_blocks b).

(* keep the bottom [n] entries of a top-first stack *)
Definition truncate (st : list tag) (n : nat) : list tag := skipn (length st - n) st.

Inductive reason := RExc | RRet | RBrk | RCont (target : N).

(* the unwinding loop of RunFrame *)
Fixpoint unwind (fuel : nat) (r : reason) (st : list tag) (bs : list blk) : outcome :=
  match fuel with
  | 0 => Bad "unwind: out of fuel"
  | S f =>
    match bs with
    | [] => Exit                                  (* leaves the frame: return value or exception *)
    | b :: bs' =>
      match b_kind b, r with
      | BLoop, RCont t => Next {| a_pc := t; a_stack := st; a_blocks := bs |}
      | BHandler, _ =>
          if Nat.ltb (length st) (b_level b + 3) then Bad "UnwindExceptHandler: traceback not on stack"
          else unwind f r (truncate st (b_level b)) bs'
      | k, _ =>
          let st' := if Nat.ltb (b_level b) (length st) then truncate st (b_level b) else st in
          match k, r with
          | BLoop, RBrk => Next {| a_pc := b_handler b; a_stack := st'; a_blocks := bs' |}
          | BExcept, RExc | BFinally, RExc =>
              Next {| a_pc := b_handler b;
                      a_stack := TExc :: TAny :: TAny :: TAny :: TAny :: TAny :: st';
                      a_blocks := {| b_kind := BHandler; b_handler := 0%N; b_level := length st' |} :: bs' |}
          | BFinally, RRet => Next {| a_pc := b_handler b; a_stack := TWhy WRet :: TAny :: st'; a_blocks := bs' |}
          | BFinally, RCont t => Next {| a_pc := b_handler b; a_stack := TWhy WCont :: TTarget t :: st'; a_blocks := bs' |}
          | BFinally, RBrk => Next {| a_pc := b_handler b; a_stack := TWhy WBrk :: st'; a_blocks := bs' |}
          | _, _ => unwind f r st' bs'
          end
      end
    end
  end.

Definition pops (n : nat) (st : list tag) : option (list tag) :=
  if Nat.leb n (length st) then Some (skipn n st) else None.

Fixpoint anys (n : nat) : list tag := match n with 0 => [] | S k => TAny :: anys k end.

Record codeinfo := {
  c_instrs : list instr; c_nconsts : nat; c_const_none : list bool; c_nnames : nat;
  c_nvars : nat; c_ncells : nat; c_stacksize : nat }.

Definition nargs (a : N) : nat := N.to_nat ((a mod 256) + 2 * ((a / 256) mod 256))%N.

(* CONTINUE_LOOP's operand is the loop head; the VM finds it in vm.retval: when a continue
   passes through a finally handler the target travels on the value stack, which the tags do
   not record, so the loop block's own head is used (the compiler emits exactly that) *)
Fixpoint loop_head_of (bs : list blk) : option N :=
  match bs with [] => None | b :: r => match b_kind b with BLoop => Some (b_handler b) | _ => loop_head_of r end end.

Definition U := 64.   (* unwinding fuel: deeper block stacks are rejected *)

(* all successors of an instruction: the normal ones plus, for instructions that can raise,
   the exceptional one *)
Definition astep (ci : codeinfo) (cont_targets : list N) (s : astate) : list outcome :=
  match find_instr (c_instrs ci) (a_pc s) with
  | None => [Bad "pc is not an instruction boundary"]
  | Some i =>
    let st := a_stack s in let bs := a_blocks s in let nx := i_next i in let aN := i_arg i in let an := fun (_ : unit) => N.to_nat aN in
    let go (st' : list tag) := Next {| a_pc := nx; a_stack := st'; a_blocks := bs |} in
    let raise := unwind U RExc st bs in
    let eff (np : nat) (push : list tag) (can_raise : bool) : list outcome :=
      match pops np st with
      | None => [Bad "stack underflow"]
      | Some st' => go (push ++ st') :: (if can_raise then [raise] else [])
      end in
    let need (ok : bool) (k : list outcome) := if ok then k else [Bad "operand out of range"] in
    match i_op i with
    | NOP => [go st]
    | EXTENDED_ARG => [go st]
    | POP_TOP => eff 1 [] false
    | ROT_TWO => match st with x :: y :: r => [go (y :: x :: r)] | _ => [Bad "stack underflow"] end
    | ROT_THREE => match st with x :: y :: z :: r => [go (y :: z :: x :: r)] | _ => [Bad "stack underflow"] end
    | DUP_TOP => match st with x :: r => [go (x :: x :: r)] | _ => [Bad "stack underflow"] end
    | DUP_TOP_TWO => match st with x :: y :: r => [go (x :: y :: x :: y :: r)] | _ => [Bad "stack underflow"] end
    | UNARY_POSITIVE | UNARY_NEGATIVE | UNARY_NOT | UNARY_INVERT | GET_ITER => eff 1 [TAny] true
    | BINARY_POWER | BINARY_MULTIPLY | BINARY_MODULO | BINARY_ADD | BINARY_SUBTRACT | BINARY_SUBSCR
    | BINARY_FLOOR_DIVIDE | BINARY_TRUE_DIVIDE | INPLACE_FLOOR_DIVIDE | INPLACE_TRUE_DIVIDE
    | INPLACE_ADD | INPLACE_SUBTRACT | INPLACE_MULTIPLY | INPLACE_MODULO
    | BINARY_LSHIFT | BINARY_RSHIFT | BINARY_AND | BINARY_XOR | BINARY_OR | INPLACE_POWER
    | INPLACE_LSHIFT | INPLACE_RSHIFT | INPLACE_AND | INPLACE_XOR | INPLACE_OR => eff 2 [TAny] true
    | COMPARE_OP => need (Nat.ltb (an tt) 11) (eff 2 [TAny] true)
    | STORE_MAP => eff 2 [] true
    | STORE_SUBSCR => eff 3 [] true
    | DELETE_SUBSCR => eff 2 [] true
    | PRINT_EXPR => eff 1 [] true
    | LOAD_BUILD_CLASS => eff 0 [TAny] true
    | IMPORT_STAR => eff 1 [] true
    | IMPORT_NAME => need (Nat.ltb (an tt) (c_nnames ci)) (eff 2 [TAny] true)
    | IMPORT_FROM => need (Nat.ltb (an tt) (c_nnames ci)) (eff 0 [TAny] true)
    | STORE_NAME | STORE_GLOBAL => need (Nat.ltb (an tt) (c_nnames ci)) (eff 1 [] true)
    | DELETE_NAME | DELETE_GLOBAL => need (Nat.ltb (an tt) (c_nnames ci)) (eff 0 [] true)
    | LOAD_NAME | LOAD_GLOBAL => need (Nat.ltb (an tt) (c_nnames ci)) (eff 0 [TAny] true)
    | LOAD_ATTR => need (Nat.ltb (an tt) (c_nnames ci)) (eff 1 [TAny] true)
    | STORE_ATTR => need (Nat.ltb (an tt) (c_nnames ci)) (eff 2 [] true)
    | DELETE_ATTR => need (Nat.ltb (an tt) (c_nnames ci)) (eff 1 [] true)
    | LOAD_CONST => need (Nat.ltb (an tt) (c_nconsts ci)) (eff 0 [if nth (an tt) (c_const_none ci) false then TNone else TAny] false)
    | LOAD_FAST => need (Nat.ltb (an tt) (c_nvars ci)) (eff 0 [TAny] true)
    | STORE_FAST => need (Nat.ltb (an tt) (c_nvars ci)) (eff 1 [] false)
    | DELETE_FAST => need (Nat.ltb (an tt) (c_nvars ci)) (eff 0 [] true)
    | LOAD_CLOSURE => need (Nat.ltb (an tt) (c_ncells ci)) (eff 0 [TAny] false)
    | LOAD_DEREF | LOAD_CLASSDEREF => need (Nat.ltb (an tt) (c_ncells ci)) (eff 0 [TAny] true)
    | STORE_DEREF => need (Nat.ltb (an tt) (c_ncells ci)) (eff 1 [] false)
    | DELETE_DEREF => need (Nat.ltb (an tt) (c_ncells ci)) (eff 0 [] true)
    | UNPACK_SEQUENCE => eff 1 (anys (an tt)) true
    | UNPACK_EX => eff 1 (anys (N.to_nat ((aN mod 256) + 1 + (aN / 256))%N)) true
    | BUILD_TUPLE | BUILD_LIST | BUILD_SET => eff (an tt) [TAny] true
    | BUILD_MAP => eff 0 [TAny] true
    | BUILD_SLICE => need (N.eqb aN 2 || N.eqb aN 3) (eff (an tt) [TAny] true)
    | LIST_APPEND | SET_ADD => need (N.leb 1 aN) (match pops (S (an tt)) st with None => [Bad "stack underflow"] | Some _ => eff 1 [] true end)
    | MAP_ADD => need (N.leb 1 aN) (match pops (2 + an tt) st with None => [Bad "stack underflow"] | Some _ => eff 2 [] true end)
    | CALL_FUNCTION => eff (nargs aN + 1) [TAny] true
    | CALL_FUNCTION_VAR | CALL_FUNCTION_KW => eff (nargs aN + 2) [TAny] true
    | CALL_FUNCTION_VAR_KW => eff (nargs aN + 3) [TAny] true
    | MAKE_FUNCTION => eff (2 + nargs aN + N.to_nat ((aN / 65536) mod 32768)%N) [TAny] true
    | MAKE_CLOSURE => eff (3 + nargs aN + N.to_nat ((aN / 65536) mod 32768)%N) [TAny] true
    | RAISE_VARARGS => need (N.leb aN 2) (match pops (an tt) st with None => [Bad "stack underflow"] | Some st' => [unwind U RExc st' bs] end)
    | YIELD_VALUE => eff 1 [TAny] true
    | YIELD_FROM =>
        match st with
        | _ :: it :: r => [Next {| a_pc := a_pc s; a_stack := TAny :: it :: r; a_blocks := bs |};   (* yielded: resumed at the same instruction with the sent value *)
                           go (TAny :: r); raise]
        | _ => [Bad "stack underflow"]
        end
    | RETURN_VALUE => match st with _ :: r => [unwind U RRet r bs] | _ => [Bad "stack underflow"] end
    | BREAK_LOOP => [unwind U RBrk st bs]
    | CONTINUE_LOOP => need (existsb (N.eqb aN) cont_targets) [unwind U (RCont aN) st bs]
    | JUMP_FORWARD => [Next {| a_pc := (nx + aN)%N; a_stack := st; a_blocks := bs |}]
    | JUMP_ABSOLUTE => [Next {| a_pc := aN; a_stack := st; a_blocks := bs |}]
    | POP_JUMP_IF_FALSE | POP_JUMP_IF_TRUE =>
        match st with _ :: r => [go r; Next {| a_pc := aN; a_stack := r; a_blocks := bs |}; raise] | _ => [Bad "stack underflow"] end
    | JUMP_IF_FALSE_OR_POP | JUMP_IF_TRUE_OR_POP =>
        match st with _ :: r => [go r; Next {| a_pc := aN; a_stack := st; a_blocks := bs |}; raise] | _ => [Bad "stack underflow"] end
    | FOR_ITER =>
        match st with _ :: r => [go (TAny :: st); Next {| a_pc := (nx + aN)%N; a_stack := r; a_blocks := bs |}; raise] | _ => [Bad "stack underflow"] end
    | SETUP_LOOP => [Next {| a_pc := nx; a_stack := st; a_blocks := {| b_kind := BLoop; b_handler := (nx + aN)%N; b_level := length st |} :: bs |}]
    | SETUP_EXCEPT => [Next {| a_pc := nx; a_stack := st; a_blocks := {| b_kind := BExcept; b_handler := (nx + aN)%N; b_level := length st |} :: bs |}]
    | SETUP_FINALLY => [Next {| a_pc := nx; a_stack := st; a_blocks := {| b_kind := BFinally; b_handler := (nx + aN)%N; b_level := length st |} :: bs |}]
    | SETUP_WITH =>
        match st with
        | _ :: r => [Next {| a_pc := nx; a_stack := TAny :: TAny :: r;
                             a_blocks := {| b_kind := BFinally; b_handler := (nx + aN)%N; b_level := S (length r) |} :: bs |}; raise]
        | _ => [Bad "stack underflow"]
        end
    | POP_BLOCK => match bs with _ :: bs' => [Next {| a_pc := nx; a_stack := st; a_blocks := bs' |}] | [] => [Bad "POP_BLOCK on an empty block stack"] end
    | POP_EXCEPT =>
        match bs with
        | b :: bs' => match b_kind b with
                      | BHandler => if Nat.ltb (length st) (b_level b + 3) then [Bad "POP_EXCEPT: traceback not on stack"]
                                    else [Next {| a_pc := nx; a_stack := truncate st (b_level b); a_blocks := bs' |}]
                      | _ => [Bad "POP_EXCEPT: popped block is not an except handler"] end
        | [] => [Bad "POP_EXCEPT on an empty block stack"]
        end
    | END_FINALLY =>
        match st with
        | TNone :: r => [go r]
        | TWhy WRet :: _ :: r => [unwind U RRet r bs]
        | TWhy WCont :: TTarget t :: r => [unwind U (RCont t) r bs]
        | TWhy WBrk :: r => [unwind U RBrk r bs]
        | TWhy WSil :: r =>
            match bs with
            | b :: bs' => match b_kind b with
                          | BHandler => if Nat.ltb (length r) (b_level b + 3) then [Bad "END_FINALLY: traceback not on stack"]
                                        else [Next {| a_pc := nx; a_stack := truncate r (b_level b); a_blocks := bs' |}]
                          | _ => [Bad "END_FINALLY: expecting EXCEPT_HANDLER"] end
            | [] => [Bad "END_FINALLY: expecting EXCEPT_HANDLER"]
            end
        | TExc :: _ :: _ :: r => [unwind U RExc r bs]
        | _ => [Bad "END_FINALLY: bad value on the stack"]
        end
    | WITH_CLEANUP =>
        match st with
        | TNone :: _ :: r => [go (TNone :: r); unwind U RExc (TNone :: r) bs]
        | TWhy WRet :: rv :: _ :: r => [go (TWhy WRet :: rv :: r); unwind U RExc (TWhy WRet :: rv :: r) bs]
        | TWhy WCont :: rv :: _ :: r => [go (TWhy WCont :: rv :: r); unwind U RExc (TWhy WCont :: rv :: r) bs]
        | TWhy w :: _ :: r => [go (TWhy w :: r); unwind U RExc (TWhy w :: r) bs]
        | TExc :: v :: t :: x4 :: x5 :: x6 :: _ :: r =>
            match bs with
            | b :: bs' => match b_kind b with
                          | BHandler =>
                              let bs2 := {| b_kind := BHandler; b_handler := b_handler b; b_level := pred (b_level b) |} :: bs' in
                              let st2 := TExc :: v :: t :: TAny :: x4 :: x5 :: x6 :: r in
                              [Next {| a_pc := nx; a_stack := st2; a_blocks := bs2 |};
                               Next {| a_pc := nx; a_stack := TWhy WSil :: st2; a_blocks := bs2 |};
                               unwind U RExc st2 bs2]
                          | _ => [Bad "WITH_CLEANUP expecting TryBlockExceptHandler"] end
            | [] => [Bad "WITH_CLEANUP expecting TryBlockExceptHandler"]
            end
        | _ => [Bad "WITH_CLEANUP: bad value on the stack"]
        end
    end
  end.

(* ---------------------------------------------------------------- the verifier *)
Definition mem (s : astate) (l : list astate) : bool := existsb (astate_eqb s) l.

Fixpoint first_bad (l : list outcome) : option string :=
  match l with [] => None | Bad m :: _ => Some m | _ :: r => first_bad r end.
Fixpoint nexts (l : list outcome) : list astate :=
  match l with [] => [] | Next s :: r => s :: nexts r | _ :: r => nexts r end.

Definition state_ok (ci : codeinfo) (s : astate) : bool :=
  Nat.leb (length (a_stack s)) (c_stacksize ci) &&
  match find_instr (c_instrs ci) (a_pc s) with Some _ => true | None => false end.

(* worklist exploration; returns the closed set of abstract states or an error *)
Fixpoint explore (fuel : nat) (ci : codeinfo) (ct : list N) (work seen : list astate) : list astate + string :=
  match fuel with
  | 0 => inr "verifier: out of fuel"%string
  | S f =>
    match work with
    | [] => inl seen
    | s :: w =>
      if mem s seen then explore f ci ct w seen else
      if negb (state_ok ci s) then inr "stack deeper than co_stacksize, or jump to a non-instruction"%string else
      let outs := astep ci ct s in
      match first_bad outs with
      | Some m => inr m
      | None => explore f ci ct (nexts outs ++ w) (s :: seen)
      end
    end
  end.

Definition cont_targets_of (l : list instr) : list N :=
  fold_right (fun i acc => match i_op i with CONTINUE_LOOP => i_arg i :: acc | _ => acc end) [] l.

Definition init_state : astate := {| a_pc := 0%N; a_stack := []; a_blocks := [] |}.

Definition verify (fuel : nat) (ci : codeinfo) : list astate + string :=
  explore fuel ci (cont_targets_of (c_instrs ci)) [init_state] [].

(* closure check of a computed set (the certificate is re-validated, not trusted) *)
Definition closed (ci : codeinfo) (ct : list N) (S : list astate) : bool :=
  mem init_state S &&
  forallb (fun s => state_ok ci s &&
                    match first_bad (astep ci ct s) with Some _ => false | None => true end &&
                    forallb (fun s' => mem s' S) (nexts (astep ci ct s))) S.

(* line table: pairs (addr increment, line increment); 3.4 has no negative line increments *)
Fixpoint lnotab_ok (l : list nat) (addr codelen : nat) : bool :=
  match l with
  | [] => true
  | da :: dl :: r => Nat.leb (addr + da) codelen && lnotab_ok r (addr + da) codelen
  | _ => false
  end.

(* the run-time observation (pc, stack depth, block depth) is predicted by the set *)
Definition predicted (S : list astate) (pc : N) (d bd : nat) : bool :=
  existsb (fun s => N.eqb (a_pc s) pc && Nat.eqb (length (a_stack s)) d && Nat.eqb (length (a_blocks s)) bd) S.

(* ---------------------------------------------------------------- per-object validation *)
Definition check_code (code : list nat) (nconsts : nat) (nones : list bool) (nnames nvars ncells stacksize : nat)
                      (lnotab : list nat) (obs : list (N * nat * nat)) : string :=
  match decode (S (length code)) code 0%N None with
  | None => "decode: not a sequence of instructions"%string
  | Some instrs =>
    let ci := {| c_instrs := instrs; c_nconsts := nconsts; c_const_none := nones; c_nnames := nnames;
                 c_nvars := nvars; c_ncells := ncells; c_stacksize := stacksize |} in
    let ct := cont_targets_of instrs in
    match verify (200 + 40 * length code) ci with
    | inr m => m
    | inl cert =>
      if negb (closed ci ct cert) then "certificate is not closed"%string
      else if negb (lnotab_ok lnotab 0 (length code)) then "line table leaves the code"%string
      else match find (fun o => let '(pc, d, bd) := o in negb (predicted cert pc d bd)) obs with
           | Some _ => "run-time stack/block depth was not predicted"%string
           | None => ""%string
           end
    end
  end.
