(* Interpreter contexts: what is per context and what is process-wide.
   The heap of mutable containers is process-wide (one Go heap, one allocator); every context has
   its own module store (py.ModuleStore) mapping (module, name) slots to values.  Module
   implementations (py.ModuleImpl) are process-wide templates: ModuleStore.NewModule gives the new
   module instance its own copy of every list/dict global (copyGlobals) -- modelled by allocating a
   fresh container per template container.  Built-in type dictionaries are process-wide and cannot
   be written from Python (SetAttrString refuses): there is no operation for it. *)
From Coq Require Import List Bool Arith.
Import ListNotations.

Definition addr := nat.
Definition ctxid := nat.
Definition slot := (nat * nat)%type.          (* (module, global name) *)
Inductive value := Atom (n : nat) | Ref (a : addr).
Inductive tval := TAtom (n : nat) | TList (l : list nat).

Record state := mkst {
  heap : addr -> option (list nat);
  next : addr;                                  (* allocator: every address below is taken *)
  stores : ctxid -> slot -> option value;
  loaded : ctxid -> nat -> bool
}.

Definition slot_eqb (a b : slot) : bool := Nat.eqb (fst a) (fst b) && Nat.eqb (snd a) (snd b).

Definition bind (c : ctxid) (s : slot) (v : option value) (st : state) : state :=
  mkst (heap st) (next st)
       (fun d x => if Nat.eqb d c && slot_eqb x s then v else stores st d x)
       (loaded st).

Definition alloc (l : list nat) (st : state) : state * addr :=
  (mkst (fun a => if Nat.eqb a (next st) then Some l else heap st a) (S (next st)) (stores st) (loaded st), next st).

Definition set_loaded (c : ctxid) (m : nat) (st : state) : state :=
  mkst (heap st) (next st) (stores st) (fun d x => if Nat.eqb d c && Nat.eqb x m then true else loaded st d x).

Inductive op :=
| Import (m : nat)
| SetAtom (s : slot) (n : nat)                 (* m.k = 5; a module that is not imported cannot be named: no effect *)
| NewList (s : slot) (l : list nat)            (* m.k = [..] *)
| Append (s : slot) (n : nat)                  (* m.k.append(n): in place *)
| Alias (dst src : slot)                       (* m.k = m2.k2: the same object under a second name *)
| Del (s : slot).

Definition new_list c s l st := let '(st1, a) := alloc l st in bind c s (Some (Ref a)) st1.

Section WithImpls.
  Variable impls : nat -> list (nat * tval).    (* registered module implementations: read-only *)

  Definition instantiate (c : ctxid) (m : nat) (st : state) : state :=
    fold_left (fun st kt =>
      match snd kt with
      | TAtom n => bind c (m, fst kt) (Some (Atom n)) st
      | TList l => new_list c (m, fst kt) l st
      end) (impls m) st.

  Definition step (c : ctxid) (o : op) (st : state) : state :=
    match o with
    | Import m => if loaded st c m then st else instantiate c m (set_loaded c m st)
    | SetAtom s n => if loaded st c (fst s) then bind c s (Some (Atom n)) st else st
    | NewList s l => if loaded st c (fst s) then new_list c s l st else st
    | Append s n =>
        match stores st c s with
        | Some (Ref a) =>
            match heap st a with
            | Some l => mkst (fun x => if Nat.eqb x a then Some (l ++ [n]) else heap st x) (next st) (stores st) (loaded st)
            | None => st
            end
        | _ => st
        end
    | Alias dst src => if loaded st c (fst dst) then match stores st c src with Some v => bind c dst (Some v) st | None => st end else st
    | Del s => bind c s None st
    end.

  Definition run (h : list (ctxid * op)) (st : state) : state := fold_left (fun st co => step (fst co) (snd co) st) h st.

  (* what a context can see of a slot: the atom, or the current contents of the container *)
  Definition observe (st : state) (c : ctxid) (s : slot) : option (nat + list nat) :=
    match stores st c s with
    | Some (Atom n) => Some (inl n)
    | Some (Ref a) => match heap st a with Some l => Some (inr l) | None => None end
    | None => None
    end.
End WithImpls.

Definition init : state := mkst (fun _ => None) 0 (fun _ _ => None) (fun _ _ => false).
