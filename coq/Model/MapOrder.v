(* Every loop of the compile pipeline that ranges over a Go map, as a fold over the list of keys
   in the order the runtime happens to deliver them.  Maps are functions from a key (names are
   numbered) to a value; Go delivers each key once, so an iteration order is a duplicate-free
   list and two orders of the same map are permutations of each other. *)
From Coq Require Import List Bool Arith NArith.
Import ListNotations.
From GP Require Import Model.Symtable.

Definition upd {V} (m : nat -> V) (k : nat) (v : V) : nat -> V := fun x => if Nat.eqb x k then v else m x.

(* symtable.StringSet.Update: for elem := range other -> s[elem] = struct{}{} *)
Definition set_step (s : nat -> bool) (k : nat) : nat -> bool := upd s k true.
Definition set_update (s : nat -> bool) (other : list nat) := fold_left set_step other s.

(* symtable.AnalyzeCells: for name, scope := range scopes
     if scope != ScopeLocal -> continue; if !free.Contains(name) -> continue;
     scopes[name] = ScopeCell; free.Discard(name) *)
Definition cells_step (st : (nat -> nat) * (nat -> bool)) (k : nat) :=
  let '(sc, fr) := st in
  if Nat.eqb (sc k) ScopeLocal && fr k then (upd sc k ScopeCell, upd fr k false) else st.
Definition analyze_cells st keys := fold_left cells_step keys st.

(* symtable.Symbols.Update, first loop: for name, symbol := range symbols
     symbol.Scope = scopes[name]; symbols[name] = symbol *)
Definition sym := (nat * N)%type.   (* (Scope, Flags) *)
Definition upd1_step (scopes : nat -> nat) (sy : nat -> option sym) (k : nat) :=
  match sy k with Some (_, fl) => upd sy k (Some (scopes k, fl)) | None => sy end.
Definition update1 scopes sy keys := fold_left (upd1_step scopes) keys sy.

(* second loop: for name := range free
     if symbol, ok := symbols[name]; ok
        if classflag && symbol.Flags&(DefBound|DefGlobal) != 0 -> symbol.Flags |= DefFreeClass; store
        continue
     if !bound.Contains(name) -> continue
     symbols[name] = Symbol(Scope: ScopeFree) *)
Definition upd2_step (classflag : bool) (bound : nat -> bool) (sy : nat -> option sym) (k : nat) :=
  match sy k with
  | Some (sc, fl) => if classflag && has fl (N.lor DefBound DefGlobal) then upd sy k (Some (sc, N.lor fl DefFreeClass)) else sy
  | None => if bound k then upd sy k (Some (ScopeFree, 0%N)) else sy
  end.
Definition update2 classflag bound sy keys := fold_left (upd2_step classflag bound) keys sy.

(* symtable.SymTable.Find: for name, v := range st.Symbols
     if v.Scope == scopeType || v.Flags&flag != 0 -> out = append(out, name)
   followed by sort.Strings(out) *)
Fixpoint insert (x : nat) (l : list nat) : list nat :=
  match l with [] => [x] | y :: r => if Nat.leb x y then x :: l else y :: insert x r end.
Definition isort (l : list nat) : list nat := fold_right insert [] l.
Definition find_names (sy : nat -> option sym) (scope_type : nat) (flag : N) (keys : list nat) : list nat :=
  isort (filter (fun k => match sy k with Some (sc, fl) => Nat.eqb sc scope_type || has fl flag | None => false end) keys).

(* symtable.AnalyzeBlock: for name := range st.Symbols { names = append(names, name) }; sort.Strings(names):
   the keys of the map, sorted, are what the following (slice) loop visits *)
Definition sorted_keys (keys : list nat) : list nat := isort keys.

(* parser.init: for k, v := range operators -> tokenToString[v] = k   (and the same for tokens):
   inverting a map; entries are (string id, token id) *)
Definition invert_step (m : nat -> option nat) (kv : nat * nat) := upd m (snd kv) (Some (fst kv)).
Definition invert (m : nat -> option nat) (entries : list (nat * nat)) := fold_left invert_step entries m.
