(* Consumers of iterables (py.Iterate, FOR_ITER, unpack_iterable, str.join, ...) over an
   abstract producer, with the three ways the Go code has been seen to test for the end of
   the iteration. *)
From Coq Require Import List Bool.
Import ListNotations.

(* how a producer's __next__ answers *)
Inductive answer := Item (v : nat) | StopClass | StopInstance | Raise (e : nat).
(* a producer is the list of its successive answers; after the list it raises StopClass *)
Definition producer := list answer.

Inductive style := ByIsException    (* py.IsException(py.StopIteration, err): class or instance *)
                 | ByIdentity       (* err == py.StopIteration: the bare class only *)
                 | AnyError         (* err != nil: everything ends the iteration *)
                 | Propagate.       (* the site returns err to its caller, which decides *)

Inductive result := Done (items : list nat) | Failed (items : list nat) (e : answer).

Fixpoint consume (st : style) (p : producer) (acc : list nat) : result :=
  match p with
  | [] => Done (rev acc)
  | Item v :: r => consume st r (v :: acc)
  | StopClass :: _ => Done (rev acc)
  | StopInstance :: _ => match st with ByIdentity => Failed (rev acc) StopInstance | _ => Done (rev acc) end
  | Raise e :: _ => match st with AnyError => Done (rev acc) | _ => Failed (rev acc) (Raise e) end
  end.

(* Python: the elements up to the first StopIteration (class or instance); any other
   exception propagates unchanged *)
Fixpoint consumer_spec (p : producer) (acc : list nat) : result :=
  match p with
  | [] => Done (rev acc)
  | Item v :: r => consumer_spec r (v :: acc)
  | StopClass :: _ | StopInstance :: _ => Done (rev acc)
  | Raise e :: _ => Failed (rev acc) (Raise e)
  end.

Definition sound_style (st : style) : bool := match st with ByIsException | Propagate => true | _ => false end.
