(* Model of the per-context import machinery (py/import.go ImportModuleLevelObject, stdlib
   ModuleInit / ModuleStore.NewModule): a module is registered in the store BEFORE its body
   runs; the body is a sequence of imports (of any statement form) of other modules. *)
From Coq Require Import List Bool Arith.
Import ListNotations.

Definition graph := nat -> list nat.     (* the modules each module's top-level code imports, in order *)

Definition mem (m : nat) (l : list nat) : bool := existsb (Nat.eqb m) l.

(* state: the context's module store and the log of executed module bodies *)
Fixpoint import_mod (fuel : nat) (g : graph) (st : list nat * list nat) (m : nat) : list nat * list nat :=
  if mem m (fst st) then st
  else match fuel with
       | 0 => st
       | S f => fold_left (import_mod f g) (g m) (m :: fst st, m :: snd st)   (* log: newest first *)
       end.

(* a program: a sequence of import requests issued from anywhere, in any order *)
Definition run_imports (fuel : nat) (g : graph) (reqs : list nat) : list nat * list nat :=
  fold_left (import_mod fuel g) reqs ([], []).
