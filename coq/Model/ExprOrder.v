(* Expression evaluation: the code compile.go emits for an expression and what the VM does with
   it, against Python's rule "operands once, left to right, then the operator".
   Leaves are calls that log themselves (as the programs of the correspondence check do); every
   other operation (binary/unary operator, subscript, attribute, call, display) is a primitive
   applied to its operand values, uninterpreted: the theorem is about order and multiplicity, so
   it holds whatever the operators compute. *)
From Coq Require Import List ZArith Bool Arith.
Import ListNotations.

Inductive expr :=
| Leaf (i : nat)                                  (* t(i) *)
| Prim1 (tag : nat) (a : expr)                    (* -a, not a, a.name *)
| Prim2 (tag : nat) (a b : expr)                  (* a + b, a[b], a(b), (a, b), [a, b] *)
| Prim3 (tag : nat) (a b c : expr)                (* a(b, c), a[b:c], (a, b, c) *)
| And (a b : expr)
| Or (a b : expr)
| IfE (c a b : expr)                              (* a if c else b *)
| Cmp (a : expr) (c : chain)                      (* a op b op2 c ...: the chain holds (op, operand) pairs *)
with chain := CEnd | CMore (op : nat) (e : expr) (rest : chain).

Inductive event := ELeaf (i : nat) | EPrim (tag : nat) (args : list Z)
| ELoadName (n : nat) | EStoreName (n : nat) (v : Z) | EStoreSub (obj idx v : Z) | EStoreAttr (n : nat) (obj v : Z).

Inductive instr :=
| ILeaf (i : nat)                (* LOAD_NAME t; LOAD_CONST i; CALL_FUNCTION 1 *)
| IPrim (tag : nat) (n : nat)    (* BINARY_x, UNARY_x, COMPARE_OP, BINARY_SUBSCR, LOAD_ATTR, CALL_FUNCTION n-1, BUILD_TUPLE n ... *)
| IJumpIfFalseOrPop (skip : nat)
| IJumpIfTrueOrPop (skip : nat)
| IPopJumpIfFalse (skip : nat)
| IJumpForward (skip : nat)
| IDupTop | IRotTwo | IRotThree | IPopTop
| IDupTopTwo
| ILoadName (n : nat) | IStoreName (n : nat) | IStoreSubscr | IStoreAttr (n : nat)
| IConst (k : Z).                (* LOAD_CONST of a value that is not a logged leaf (a keyword name): no event *)

Section Sem.
  Variable leafval : nat -> Z.
  Variable prim : nat -> list Z -> Z.
  Variable nameval : nat -> Z.
  Definition truthy (v : Z) : bool := negb (Z.eqb v 0).

  (* ---- Python's rule *)
  Fixpoint eval (e : expr) : Z * list event :=
    match e with
    | Leaf i => (leafval i, [ELeaf i])
    | Prim1 t a => let '(va, ea) := eval a in (prim t [va], ea ++ [EPrim t [va]])
    | Prim2 t a b => let '(va, ea) := eval a in let '(vb, eb) := eval b in (prim t [va; vb], ea ++ eb ++ [EPrim t [va; vb]])
    | Prim3 t a b c => let '(va, ea) := eval a in let '(vb, eb) := eval b in let '(vc, ec) := eval c in
                       (prim t [va; vb; vc], ea ++ eb ++ ec ++ [EPrim t [va; vb; vc]])
    | And a b => let '(va, ea) := eval a in if truthy va then let '(vb, eb) := eval b in (vb, ea ++ eb) else (va, ea)
    | Or a b => let '(va, ea) := eval a in if truthy va then (va, ea) else let '(vb, eb) := eval b in (vb, ea ++ eb)
    | IfE c a b => let '(vc, ec) := eval c in
                   if truthy vc then let '(va, ea) := eval a in (va, ec ++ ea) else let '(vb, eb) := eval b in (vb, ec ++ eb)
    | Cmp a c => let '(va, ea) := eval a in
                 match c with
                 | CEnd => (va, ea)
                 | CMore _ _ _ => let '(r, er) := eval_chain va c in (r, ea ++ er)
                 end
    end
  (* left op b, then -- only if that is true -- b op2 c ..., each operand evaluated once *)
  with eval_chain (left : Z) (c : chain) {struct c} : Z * list event :=
    match c with
    | CEnd => (left, [])
    | CMore op b rest =>
        let '(vb, eb) := eval b in
        let r := prim op [left; vb] in
        match rest with
        | CEnd => (r, eb ++ [EPrim op [left; vb]])
        | CMore _ _ _ =>
            if truthy r then let '(r2, e2) := eval_chain vb rest in (r2, eb ++ [EPrim op [left; vb]] ++ e2)
            else (r, eb ++ [EPrim op [left; vb]])
        end
    end.

  (* ---- compile.go: Expr *)
  Fixpoint compile (e : expr) : list instr :=
    match e with
    | Leaf i => [ILeaf i]
    | Prim1 t a => compile a ++ [IPrim t 1]
    | Prim2 t a b => compile a ++ compile b ++ [IPrim t 2]
    | Prim3 t a b c => compile a ++ compile b ++ compile c ++ [IPrim t 3]
    | And a b => let cb := compile b in compile a ++ IJumpIfFalseOrPop (length cb) :: cb
    | Or a b => let cb := compile b in compile a ++ IJumpIfTrueOrPop (length cb) :: cb
    | IfE c a b => let ca := compile a in let cb := compile b in
                   compile c ++ IPopJumpIfFalse (length ca + 1) :: ca ++ IJumpForward (length cb) :: cb
    | Cmp a c =>
        match c with
        | CEnd => compile a
        | CMore op b CEnd => compile a ++ compile b ++ [IPrim op 2]
        | CMore _ _ (CMore _ _ _) => compile a ++ cmp_tail c ++ [IJumpForward 2; IRotTwo; IPopTop]
        end
    end
  with cmp_tail (c : chain) {struct c} : list instr :=
    match c with
    | CEnd => []
    | CMore op b rest =>
        match rest with
        | CEnd => compile b ++ [IPrim op 2]
        | CMore _ _ _ =>
            let t := cmp_tail rest in
            compile b ++ [IDupTop; IRotThree; IPrim op 2; IJumpIfFalseOrPop (length t + 1)] ++ t
        end
    end.

  (* ---- vm/eval.go on that code.  [fuel] counts instructions passed over (executed or jumped) *)
  Definition pop_args (n : nat) (stk : list Z) : option (list Z * list Z) :=
    if Nat.leb n (length stk) then Some (rev (firstn n stk), skipn n stk) else None.

  Fixpoint exec (fuel : nat) (code : list instr) (stk : list Z) (log : list event) : option (list Z * list event) :=
    match code with
    | [] => Some (stk, log)
    | i :: rest =>
      match fuel with
      | O => None
      | S f =>
        match i with
        | ILeaf k => exec f rest (leafval k :: stk) (log ++ [ELeaf k])
        | IPrim t n => match pop_args n stk with
                       | Some (args, stk') => exec f rest (prim t args :: stk') (log ++ [EPrim t args])
                       | None => None
                       end
        | IJumpIfFalseOrPop k => match stk with
                                 | v :: stk' => if truthy v then exec f rest stk' log else exec (f - k) (skipn k rest) stk log
                                 | [] => None
                                 end
        | IJumpIfTrueOrPop k => match stk with
                                | v :: stk' => if truthy v then exec (f - k) (skipn k rest) stk log else exec f rest stk' log
                                | [] => None
                                end
        | IPopJumpIfFalse k => match stk with
                               | v :: stk' => if truthy v then exec f rest stk' log else exec (f - k) (skipn k rest) stk' log
                               | [] => None
                               end
        | IJumpForward k => exec (f - k) (skipn k rest) stk log
        | IDupTop => match stk with v :: _ => exec f rest (v :: stk) log | [] => None end
        | IRotTwo => match stk with a :: b :: s => exec f rest (b :: a :: s) log | _ => None end
        | IRotThree => match stk with a :: b :: c :: s => exec f rest (b :: c :: a :: s) log | _ => None end
        | IPopTop => match stk with _ :: s => exec f rest s log | [] => None end
        | IDupTopTwo => match stk with a :: b :: s => exec f rest (a :: b :: a :: b :: s) log | _ => None end
        | ILoadName n => exec f rest (nameval n :: stk) (log ++ [ELoadName n])
        | IStoreName n => match stk with v :: s => exec f rest s (log ++ [EStoreName n v]) | [] => None end
        | IStoreSubscr => match stk with i :: a :: v :: s => exec f rest s (log ++ [EStoreSub a i v]) | _ => None end
        | IStoreAttr n => match stk with a :: v :: s => exec f rest s (log ++ [EStoreAttr n a v]) | _ => None end
        | IConst k => exec f rest (k :: stk) log
        end
      end
    end.

  (* ---- assignment statements *)
  Inductive target := TName (n : nat) | TSub (a i : expr) | TAttr (a : expr) (n : nat).
  Inductive stmt :=
  | Assign (ts : list target) (last : target) (v : expr)      (* t1 = t2 = ... = last = v *)
  | AugName (n : nat) (op : nat) (v : expr)                   (* n op= v *)
  | AugSub (a i : expr) (op : nat) (v : expr)                 (* a[i] op= v; 25 is BINARY_SUBSCR *)
  | AugAttr (a : expr) (n : nat) (op : nat) (v : expr).       (* a.n op= v *)

  Definition store_events (t : target) (v : Z) : list event :=
    match t with
    | TName n => [EStoreName n v]
    | TSub a i => let '(va, ea) := eval a in let '(vi, ei) := eval i in ea ++ ei ++ [EStoreSub va vi v]
    | TAttr a n => let '(va, ea) := eval a in ea ++ [EStoreAttr n va v]
    end.

  (* Python: the right-hand side first, then the targets left to right, each target's own
     sub-expressions left to right; for an augmented assignment the target's sub-expressions once,
     then the old value, the right-hand side, the operator, the store *)
  Definition run_stmt (s : stmt) : list event :=
    match s with
    | Assign ts last v => let '(vv, ev) := eval v in ev ++ flat_map (fun t => store_events t vv) ts ++ store_events last vv
    | AugName n op v =>
        let '(vv, ev) := eval v in
        [ELoadName n] ++ ev ++ [EPrim op [nameval n; vv]; EStoreName n (prim op [nameval n; vv])]
    | AugSub a i op v =>
        let '(va, ea) := eval a in let '(vi, ei) := eval i in let '(vv, ev) := eval v in
        let old := prim 25 [va; vi] in
        ea ++ ei ++ [EPrim 25 [va; vi]] ++ ev ++ [EPrim op [old; vv]; EStoreSub va vi (prim op [old; vv])]
    | AugAttr a n op v =>
        let '(va, ea) := eval a in let '(vv, ev) := eval v in
        let old := prim n [va] in
        ea ++ [EPrim n [va]] ++ ev ++ [EPrim op [old; vv]; EStoreAttr n va (prim op [old; vv])]
    end.

  (* compile.go: Stmt(Assign), Stmt(AugAssign) *)
  Definition store_code (t : target) : list instr :=
    match t with
    | TName n => [IStoreName n]
    | TSub a i => compile a ++ compile i ++ [IStoreSubscr]
    | TAttr a n => compile a ++ [IStoreAttr n]
    end.
  Definition compile_stmt (s : stmt) : list instr :=
    match s with
    | Assign ts last v => compile v ++ flat_map (fun t => IDupTop :: store_code t) ts ++ store_code last
    | AugName n op v => ILoadName n :: compile v ++ [IPrim op 2; IStoreName n]
    | AugSub a i op v => compile a ++ compile i ++ [IDupTopTwo; IPrim 25 2] ++ compile v ++ [IPrim op 2; IRotThree; IStoreSubscr]
    | AugAttr a n op v => compile a ++ [IDupTop; IPrim n 1] ++ compile v ++ [IPrim op 2; IRotTwo; IStoreAttr n]
    end.
  (* ---- n-ary forms: a call with any number of positional and keyword arguments, a tuple/list/set display of
     any length, a dict display, a slice object ...: one primitive applied to operands given in the order the
     compiler EMITS them (for a 3.4 dict display: value before key, pair by pair).  An operand is a
     sub-expression or a constant the compiler loads itself (a keyword name): no event *)
  Inductive operand := OExpr (e : expr) | OConst (k : Z).
  Definition eval_operand (o : operand) : Z * list event :=
    match o with OExpr e => eval e | OConst k => (k, []) end.
  Fixpoint eval_operands (os : list operand) : list Z * list event :=
    match os with
    | [] => ([], [])
    | o :: r => let '(v, e) := eval_operand o in let '(vs, es) := eval_operands r in (v :: vs, e ++ es)
    end.
  Definition eval_nary (tag : nat) (os : list operand) : Z * list event :=
    let '(vs, es) := eval_operands os in (prim tag vs, es ++ [EPrim tag vs]).
  Definition compile_operand (o : operand) : list instr :=
    match o with OExpr e => compile e | OConst k => [IConst k] end.
  Definition compile_nary (tag : nat) (os : list operand) : list instr :=
    flat_map compile_operand os ++ [IPrim tag (length os)].

End Sem.
