(* compile/instructions.go: the assembler that turns an instruction stream with labels into
   bytecode.  Instructions are cells of an array that the passes update in place; a pass walks the
   array once, gives every instruction its position, and (from the second pass on) re-resolves the
   jumps against the label positions it can see: those before the jump already have this pass's
   position, those after it still have the previous pass's.
   Positions are uint32 in the code and unbounded N here (streams below 2^32/6 instructions). *)
From Coq Require Import List Bool Arith NArith Lia.
Import ListNotations.
Open Scope N_scope.

Inductive kind :=
| KOp (op : N)                 (* Op: 1 byte *)
| KArg (op : N)                (* OpArg: 3 bytes, 6 with EXTENDED_ARG *)
| KLabel                       (* Label: 0 bytes *)
| KJabs (op : N) (dest : nat)  (* JumpAbs: Arg := position of the label *)
| KJrel (op : N) (dest : nat). (* JumpRel: Arg := position of the label - end of this instruction *)

Record cell := mk { knd : kind; pos : N; arg : N; ext : bool }.

Definition wide (c : cell) : bool := negb (arg c <=? 65535) || ext c.
Definition size (c : cell) : N :=
  match knd c with
  | KOp _ => 1
  | KLabel => 0
  | _ => if wide c then 6 else 3
  end.

Definition set_pos (c : cell) (p : N) : cell := mk (knd c) p (arg c) (ext c).
Definition set_arg (c : cell) (a : N) : cell := mk (knd c) (pos c) a (ext c).
Definition set_ext (c : cell) : cell := mk (knd c) (pos c) (arg c) true.

(* position of instruction number d as the pass sees it when it stands at instruction i: the
   instructions before i are in [rdone] (most recent first) with this pass's positions, the
   others still have the previous pass's *)
Definition dest_pos (i : nat) (rdone : list cell) (cur : cell) (rest : list cell) (d : nat) : N :=
  if Nat.ltb d i then pos (nth (i - 1 - d) rdone cur) else pos (nth (d - i) (cur :: rest) cur).

(* JumpRel.Resolve: at most two rounds, the second after setting the sticky extension *)
Definition rel_round (c : cell) (dp : N) : cell :=
  let e := pos c + size c in set_arg c (if e <? dp then dp - e else 0).
Definition resolve_rel (c : cell) (dp : N) : cell :=
  let c1 := rel_round c dp in
  if (arg c1 <=? 65535) || ext c1 then c1 else rel_round (set_ext c1) dp.

(* JumpAbs.Resolve *)
Definition resolve_abs (c : cell) (dp : N) : cell :=
  let c1 := set_arg c dp in if arg c1 <=? 65535 then c1 else set_ext c1.

(* None: panic("JUMP_FORWARD can't jump backwards") *)
Definition resolve (i : nat) (rdone : list cell) (c : cell) (rest : list cell) : option cell :=
  match knd c with
  | KJabs _ d => Some (resolve_abs c (dest_pos i rdone c rest d))
  | KJrel _ d => if Nat.ltb d i then None else Some (resolve_rel c (dest_pos i rdone c rest d))
  | _ => Some c
  end.

(* Instructions.Pass: returns the new array and whether any position changed *)
Fixpoint pass_go (res : bool) (i : nat) (rdone todo : list cell) (addr : N) (ch : bool) : option (list cell * bool) :=
  match todo with
  | [] => Some (rev_append rdone [], ch)       (* = rev rdone, in linear time *)
  | c :: rest =>
      let c1 := set_pos c addr in
      let ch' := ch || negb (pos c =? addr) in
      match (if res then resolve i rdone c1 rest else Some c1) with
      | None => None
      | Some c2 => pass_go res (S i) (c2 :: rdone) rest (addr + size c2) ch'
      end
  end.
Definition pass (res : bool) (st : list cell) := pass_go res 0 [] st 0 false.

(* Instructions.Assemble: passes 0, 1, 2, ... until one changes no position; [fuel] passes at most
   (the code allows len+3).  None: a panic. *)
Fixpoint assemble_go (fuel : nat) (first : bool) (st : list cell) : option (list cell) :=
  match fuel with
  | O => None
  | S f => match pass (negb first) st with
           | None => None
           | Some (st', ch) => if ch then assemble_go f false st' else Some st'
           end
  end.
Definition assemble (st : list cell) : option (list cell) := assemble_go (length st + 3) true st.

(* output bytes *)
Definition byte (n : N) : N := n mod 256.
Definition out_cell (c : cell) : list N :=
  let plain op := [byte op; byte (arg c); byte (arg c / 256)] in
  let full op := if wide c then [144; byte (arg c / 65536); byte (arg c / 16777216)] ++ plain op else plain op in
  match knd c with
  | KOp op => [byte op]
  | KLabel => []
  | KArg op => full op
  | KJabs op _ => full op
  | KJrel op _ => full op
  end.
Definition output (st : list cell) : list N := flat_map out_cell st.

(* a fresh instruction as compile.go creates it: position 0; jumps have Arg 0 *)
Definition fresh (k : kind) (a : N) : cell :=
  mk k 0 (match k with KArg _ => a | _ => 0 end) false.

Definition assemble_bytes (prog : list (kind * N)) : option (list N) :=
  match assemble (map (fun ka => fresh (fst ka) (snd ka)) prog) with
  | Some st => Some (output st)
  | None => None
  end.
