(* py/string.go StringEscape (repr of a str: ascii = false) and the part of parser/lexer.go readString
   that finds the end of a single-quoted, non-raw literal; both over code points.  strconv.IsPrint is a
   parameter ([printable]): the theorems hold for every such predicate, the correspondence measures it.
   Tied to the implementation by the harness (`impl c14repr`): repr text, and the value obtained by
   compiling and evaluating that text. *)
From Coq Require Import List NArith Bool Arith.
Import ListNotations.
From GP Require Import Model.Escape.
Open Scope N_scope.

Section Repr.
Variable printable : N -> bool.

(* quote := '\''; if s contains ' and no " then quote = '"' *)
Definition quote_of (s : list N) : N :=
  if existsb (N.eqb 39) s && negb (existsb (N.eqb 34) s) then 34 else 39.

Definition repr_spelling (q c : N) : spelling :=
  if c <? 32 then (if (c =? 9) || (c =? 10) || (c =? 13) then SNamed else SHex2)
  else if c <? 127 then (if (c =? 92) || (c =? q) then SNamed else SLit)
  else if c <? 256 then (if printable c then SLit else SHex2)
  else if c <? 65536 then (if printable c then SLit else SU4)
  else (if printable c then SLit else SU8).

Definition repr_body (s : list N) : list N :=
  flat_map (fun c => render c (repr_spelling (quote_of s) c)) s.
Definition repr_str (s : list N) : list N := quote_of s :: repr_body s ++ [quote_of s].
End Repr.

(* readString, single-quoted non-raw form, after the opening quote: returns the literal's body (escapes
   undecoded) and the rest of the line; None = "EOL while scanning string literal" or a backslash-newline
   continuation (outside this model) *)
Fixpoint scan (q : N) (esc : bool) (l acc : list N) : option (list N * list N) :=
  match l with
  | [] => None
  | c :: r =>
      if esc then (if c =? 10 then None else scan q false r (acc ++ [c]))
      else if c =? q then Some (acc, r)
      else if c =? 10 then None
      else scan q (c =? 92) r (acc ++ [c])
  end.

(* the value of the literal token: find the end, then decode the escapes *)
Definition eval_literal (l : list N) : option (list N * list N) :=
  match l with
  | q :: r =>
      if (q =? 39) || (q =? 34) then
        match r with
        | q1 :: q2 :: _ => if (q1 =? q) && (q2 =? q) then None (* triple-quoted form: outside this model *) else
            match scan q false r [] with
            | Some (body, rest) => match decode false body with Some v => Some (v, rest) | None => None end
            | None => None
            end
        | _ => match scan q false r [] with
               | Some (body, rest) => match decode false body with Some v => Some (v, rest) | None => None end
               | None => None
               end
        end
      else None
  | [] => None
  end.
