(* py/args.go: parseFormat, checkNumberOfArgs, ParseTupleAndKeywords, UnpackTuple -- the helpers
   every builtin uses to take its arguments apart before any Go-level indexing.  The model keeps
   what decides which element of [results] is written: the format string (as character codes),
   the number of positional arguments, the names present in kwargs, kwlist and the number of
   result pointers the caller passed.  Type tests of individual format units are abstracted by an
   oracle [typeok] (they can only stop the loop earlier). *)
From Coq Require Import List Bool Arith.
Import ListNotations.

Definition STAR := 42. Definition HASH := 35. Definition COLON := 58. Definition SEMI := 59. Definition DOLLAR := 36. Definition PIPE := 124.

Record fmt := mkfmt { nops : nat; fmin : option nat; kwonly : option nat }.   (* kwonly None: the code's sentinel 0xFFFF, more units than any format has *)

(* for i := 0; i < N; ... : one unit per round, with its optional modifier *)
Fixpoint parse_go (fuel : nat) (l : list nat) (f : fmt) : fmt :=
  match fuel with
  | O => f
  | S fu =>
    match l with
    | [] => f
    | c :: r =>
      let r' := match r with m :: r2 => if Nat.eqb m STAR || Nat.eqb m HASH then r2 else r | [] => r end in
      if Nat.eqb c COLON || Nat.eqb c SEMI then f
      else if Nat.eqb c DOLLAR then parse_go fu r' (mkfmt (nops f) (fmin f) (Some (nops f)))
      else if Nat.eqb c PIPE then parse_go fu r' (mkfmt (nops f) (Some (nops f)) (kwonly f))
      else parse_go fu r' (mkfmt (S (nops f)) (fmin f) (kwonly f))
    end
  end.
Definition parse_format (l : list nat) : nat * option nat * nat :=   (* (min, kwOnly_i, len(ops)) *)
  let f := parse_go (length l) l (mkfmt 0 None None) in
  (match fmin f with Some m => m | None => nops f end, kwonly f, nops f).

(* checkNumberOfArgs: true = returns an error *)
Definition check_number (nargs nresults min max : nat) : bool :=
  (if Nat.eqb min max then negb (Nat.eqb nargs max) else Nat.ltb max nargs || Nat.ltb nargs min) || Nat.ltb nresults nargs.

Definition mem (x : nat) (l : list nat) : bool := existsb (Nat.eqb x) l.

(* the loop over ops; returns the indices of [results] it accesses, in order, each with whether it
   was written, and whether the loop ended with an error *)
Fixpoint ptak_loop (typeok : nat -> bool) (nargs : nat) (kwargs : list nat) (kwlist : list nat) (kwonly_i : option nat)
                   (i : nat) (todo : nat) : list (nat * bool) * bool :=
  match todo with
  | O => ([], false)
  | S t =>
    let from_kw := match nth_error kwlist i with Some name => mem name kwargs | None => false end in
    if Nat.ltb i nargs then
      if match kwonly_i with Some k => Nat.leb k i | None => false end then ([], true)                 (* keyword only argument given positionally *)
      else if from_kw then ([], true)                       (* multiple values *)
      else if typeok i then let '(w, e) := ptak_loop typeok nargs kwargs kwlist kwonly_i (S i) t in ((i, true) :: w, e)
           else ([(i, false)], true)                        (* results[i] is read before the type test, not written *)
    else if from_kw then
      if typeok i then let '(w, e) := ptak_loop typeok nargs kwargs kwlist kwonly_i (S i) t in ((i, true) :: w, e)
      else ([(i, false)], true)
    else ptak_loop typeok nargs kwargs kwlist kwonly_i (S i) t      (* argument not given: keeps its default *)
  end.

(* ParseTupleAndKeywords *)
Definition ptak (typeok : nat -> bool) (format : list nat) (nargs : nat) (kwargs : list nat) (kwlist : option (list nat)) (nresults : nat) : list (nat * bool) * bool :=
  if match kwlist with Some l => negb (Nat.eqb nresults (length l)) | None => false end then ([], true)
  else
    let '(mn, kwo, n) := parse_format format in
    if check_number (nargs + length kwargs) nresults mn n then ([], true)
    else if negb (forallb (fun k => mem k (match kwlist with Some l => l | None => [] end)) kwargs) then ([], true)
    else ptak_loop typeok nargs kwargs (match kwlist with Some l => l | None => [] end) kwo 0 n.

(* UnpackTuple: writes results[0 .. len(args)-1] unless it returns an error first *)
Definition unpack_tuple (nargs nkwargs min max nresults : nat) : list (nat * bool) * bool :=
  if negb (Nat.eqb nkwargs 0) then ([], true)
  else if check_number nargs nresults min max then ([], true)
  else (map (fun i => (i, true)) (seq 0 nargs), false).
