(* Model of py/type.go: pmerge / mro_implementation (C3 merge over class ids) and of the
   attribute lookup of py/internal.go GetAttrString for instances and classes. *)
From Coq Require Import List Bool Arith Lia.
Import ListNotations.

Definition cid := nat.

Definition in_tail (c : cid) (l : list cid) : bool :=
  match l with [] => false | _ :: t => existsb (Nat.eqb c) t end.

(* pmerge's scan: the first list (in order) whose next element is in no list's tail *)
Fixpoint find_cand (ss all : list (list cid)) : option cid :=
  match ss with
  | [] => None
  | [] :: r => find_cand r all
  | (c :: _) :: r => if existsb (in_tail c) all then find_cand r all else Some c
  end.

Definition drop_head (c : cid) (l : list cid) : list cid :=
  match l with h :: t => if Nat.eqb h c then t else l | [] => [] end.

Definition all_nil (ss : list (list cid)) : bool := forallb (fun l => match l with [] => true | _ => false end) ss.

(* None = "TypeError: mro is wonky" *)
Fixpoint pmerge (fuel : nat) (acc : list cid) (ss : list (list cid)) : option (list cid) :=
  if all_nil ss then Some acc else
  match fuel with
  | 0 => None
  | S f => match find_cand ss ss with
           | None => None
           | Some c => pmerge f (acc ++ [c]) (map (drop_head c) ss)
           end
  end.

Definition total_len (ss : list (list cid)) : nat := fold_right (fun l n => length l + n) 0 ss.

Fixpoint has_dup (l : list cid) : bool :=
  match l with [] => false | x :: r => existsb (Nat.eqb x) r || has_dup r end.

(* mro_implementation for class c with direct bases [bs], given the MROs of the bases *)
Definition mro_of (c : cid) (bs : list cid) (base_mros : list (list cid)) : option (list cid) :=
  if has_dup bs then None
  else let ss := base_mros ++ [bs] in pmerge (S (total_len ss)) [c] ss.

(* a class table: for each class id (in definition order) its direct bases; classes are
   defined in order, so bases have smaller ids.  Returns the MRO of every class or the id of
   the first rejected class. *)
Fixpoint build_mros (defs : list (list cid)) (n : nat) (done : list (list cid)) : list (list cid) + nat :=
  match defs with
  | [] => inl done
  | bs :: r =>
      let bms := map (fun b => nth b done []) bs in
      let bs' := if match bs with [] => true | _ => false end then [] else bs in
      match mro_of n bs' bms with
      | None => inr n
      | Some m => build_mros r (S n) (done ++ [m])
      end
  end.

(* attribute lookup: dicts are association lists name -> defining marker *)
Definition dict := list (nat * nat).
Fixpoint dget (d : dict) (k : nat) : option nat :=
  match d with [] => None | (k', v) :: r => if Nat.eqb k k' then Some v else dget r k end.

Fixpoint lookup_mro (cls_dicts : list dict) (mro : list cid) (k : nat) : option nat :=
  match mro with
  | [] => None
  | c :: r => match dget (nth c cls_dicts []) k with Some v => Some v | None => lookup_mro cls_dicts r k end
  end.

Definition getattr_instance (inst_dict : dict) (cls_dicts : list dict) (mro : list cid) (k : nat) : option nat :=
  match dget inst_dict k with Some v => Some v | None => lookup_mro cls_dicts mro k end.
