(* C08 -- interpreter contexts are isolated.

   (a) Model/Contexts.v: one process-wide heap of mutable containers and allocator, one module
       store per context, module implementations as read-only templates whose list/dict globals
       are copied into each new module instance (py/module.go: copyGlobals), no operation that
       writes a built-in type's dictionary (py/internal.go refuses it).  Theorems: in every state
       reachable by ANY interleaving of the operations of ANY number of contexts, no container is
       reachable from two contexts; and whatever sequence of operations the other contexts perform,
       in whatever order, every observation of a context (a global, or the contents of a container
       it can reach) is unchanged; and after any interleaved history a context's whole view
       (values, container contents, sharing between its slots, loaded modules) equals its view
       after its own operations alone (addresses may differ between the two runs, the view not).  Tied to the code by replaying generated interleaved operation
       histories on real contexts through the Go API (vm_compute comparison of every slot).
   (b) The regenerated, type-checked inventory of writes to package-level variables outside init
       in py/, vm/, stdlib/... and repl/: every one is audited; package-level variables with
       interior mutability and method calls on package-level variables likewise.
   Not a theorem: absence of data races in the Go code that runs inside one context (per-frame VM
   state) -- covered by running generated programs in many contexts on 16 goroutines under the
   Go race detector, which samples schedules. *)
From Coq Require Import List Bool Arith String.
Import ListNotations.
From GP Require Import Gen.Inventories Model.Contexts Proofs.Contexts Proofs.ContextsSolo.

Theorem C08_no_container_shared_between_contexts : forall impls h, Inv (run impls h init).
Proof. intros. apply run_inv. apply inv_init. Qed.

Theorem C08_others_cannot_interfere : forall impls c h, Forall (fun co => fst co <> c) h ->
  forall st, Inv st -> same_for c st (run impls h st).
Proof. exact others_cannot_interfere. Qed.

Theorem C08_no_leak : forall impls c s before others, Forall (fun co => fst co <> c) others ->
  observe (run impls others (run impls before init)) c s = observe (run impls before init) c s.
Proof. exact no_leak. Qed.

(* the full statement of the property on the model: after ANY interleaved history of ANY number of
   contexts, what context c observes -- every global, the contents of every container it can
   reach, which of its slots share a container, which modules it has loaded -- is exactly what
   it observes after its own operations alone *)
Theorem C08_observes_what_it_observes_alone : forall impls c h,
  view_eq c (run impls h init) (run impls (own c h) init).
Proof. exact observes_what_it_observes_alone. Qed.

(* non-vacuity: two contexts import the same module and append to "the same" list global *)
Example C08_nonvacuous :
  let impls := fun m => match m with 0 => [(0, TAtom 7); (1, TList [1; 2; 3])] | _ => [] end in
  let st := run impls [(0, Import 0); (1, Import 0); (0, Append (0, 1) 9); (1, Alias (0, 5) (0, 1)); (1, Append (0, 5) 11)] init in
  observe st 0 (0, 1) = Some (inr [1; 2; 3; 9]) /\ observe st 1 (0, 1) = Some (inr [1; 2; 3; 11]) /\ observe st 1 (0, 5) = Some (inr [1; 2; 3; 11]) /\ observe st 1 (0, 0) = Some (inl 7).
Proof. vm_compute. repeat split. Qed.

Open Scope string_scope.
(* ---- (b) process-wide state *)
Definition write_audited (w : string * string * string) : bool :=
  let '(pkg, v, fn) := w in
  (String.eqb pkg "parser" && String.eqb v "yyDebug" && String.eqb fn "SetDebug")            (* debug level API, not used by py.Compile or the VM *)
  || (String.eqb pkg "py" && String.eqb v "delayedReady" && (String.eqb fn "TypeDelayReady" || String.eqb fn "TypeMakeReady")) (* type registration during package initialisation *)
  || (String.eqb pkg "stdlib/os" && String.eqb fn "initGlobals").                            (* called from init only *)
Definition stateful_audited (v : string * string * string) : bool :=
  let '(pkg, name, ty) := v in
  (String.eqb pkg "vm" && String.eqb name "printExprFor" && String.eqb ty "sync.Map")        (* keyed by context, safe for concurrent use *)
  || (String.eqb pkg "stdlib" && String.eqb name "moduleCodeMu" && String.eqb ty "sync.Mutex"). (* guards the one-time compilation of a registered module's code; holds no data *)
Definition call_audited (c : string * string * string) : bool :=
  let '(pkg, v, m) := c in
  (String.eqb pkg "py" && (String.eqb v "gRuntime" || String.eqb v "gRuntime.mu"))           (* module registry under its RWMutex *)
  || (String.eqb pkg "vm" && String.eqb v "printExprFor")
  || (String.eqb pkg "stdlib" && String.eqb v "moduleCodeMu").
Theorem C08_process_wide_state_is_audited :
  forallb write_audited pkg_writes = true /\ forallb stateful_audited exec_stateful_vars = true /\
  forallb call_audited exec_pkg_var_method_calls = true.
Proof. vm_compute. repeat split. Qed.

Print Assumptions C08_no_container_shared_between_contexts.
Print Assumptions C08_others_cannot_interfere.
Print Assumptions C08_no_leak.
Print Assumptions C08_observes_what_it_observes_alone.
Print Assumptions C08_process_wide_state_is_audited.
