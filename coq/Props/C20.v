(* C20 -- line-at-a-time interactive input is equivalent to running the statements one by one.
   Model/Repl.v is the state machine of repl.REPL.Run; the compiler's verdict on the text
   accumulated so far is a parameter, constrained only by what the REPL needs from it. *)
From Coq Require Import List Bool Arith.
Import ListNotations.
From GP Require Import Model.Repl Proofs.Repl.

(* for every compiler verdict function and every program whose statements it classifies as
   the REPL expects: each statement is executed exactly once, in order, with exactly its own
   text, and the session ends at the idle prompt *)
Theorem C20_equiv : forall classify prog, Forall (stmt_ok classify) prog ->
  exists es, feed classify idle (flat_map typed prog) = (idle, es) /\ execs es = map text_of prog.
Proof. exact feed_program. Qed.

(* a statement is executed at the Run call that receives its last line (one-line statement)
   or its terminating blank line, never later: the Exec event is the last event of that call *)
Theorem C20_timely : forall classify s, stmt_ok classify s ->
  exists es, feed classify idle (typed s) = (idle, es) /\ execs es = [text_of s] /\
             last es (Prompt true) = Exec (text_of s).
Proof. exact feed_stmt. Qed.

(* the prompt shown after a Run call is the continuation prompt iff a statement is pending *)
Theorem C20_prompt : forall classify st l st' es, run_line classify st l = (st', es) ->
  forall c, In (Prompt c) es -> c = continuation st'.
Proof. exact run_line_prompt. Qed.

(* a compile error is reported, executes nothing and leaves the REPL idle: the session stays
   usable *)
Theorem C20_error_recovers : forall classify prev l,
  classify (prev ++ [l]) = CompileError -> (prev <> [] \/ ignorable l = false) ->
  (prev = [] \/ is_blank l = true) ->
  run_line classify {| continuation := negb (match prev with [] => true | _ => false end); previous := prev |} l
  = (idle, [Prompt false; Report (prev ++ [l])]).
Proof.
  intros classify prev l H Hne Hb. unfold run_line. simpl.
  destruct prev as [|p r]; simpl in *.
  - destruct Hne as [Hne|Hne]; [congruence|]. rewrite Hne. rewrite H. reflexivity.
  - destruct Hb as [Hb|Hb]; [discriminate|]. rewrite Hb. simpl. rewrite H. reflexivity.
Qed.

Example C20_nonvacuous :
  let classify := fun t => match t with [2] => Complete | [3] => Incomplete | [3; 1; 4; 0] => Complete | _ => CompileError end in
  feed classify idle (flat_map typed [[2]; [3; 1; 4]; [2]] ++ [white; blank]) =
  (idle, [Prompt false; Exec [2]; Prompt true; Prompt false; Exec [3; 1; 4; 0]; Prompt false; Exec [2]]).
Proof. vm_compute. reflexivity. Qed.

Print Assumptions C20_equiv.
Print Assumptions C20_timely.
Print Assumptions C20_prompt.
Print Assumptions C20_error_recovers.
