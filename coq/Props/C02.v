(* C02 -- Control flow and exceptions take exactly Python's paths; none lost.
   Theorems about the model of RunFrame's unwinding loop and of exception matching
   (Model/Verify.v, hand-written from vm/eval.go; tied to the real VM by C12's run-time
   conformance and by the path-trace correspondence of this property). *)
From Coq Require Import List Bool Arith NArith String.
Import ListNotations.
From GP Require Import Gen.Opcodes Model.Verify Proofs.Unwind.

(* an exception is never swallowed or diverted: it enters the innermost enclosing
   except/finally handler, or leaves the frame when there is none *)
Theorem C02_exception_not_swallowed : forall fuel st bs o,
  unwind fuel RExc st bs = o ->
  match o with
  | Exit => forallb (fun b => negb (is_try b)) bs = true
  | Next s => exists pre b post, bs = pre ++ b :: post /\
                forallb (fun b => negb (is_try b)) pre = true /\ is_try b = true /\
                a_pc s = b_handler b /\
                exists lvl, a_blocks s = {| b_kind := BHandler; b_handler := 0%N; b_level := lvl |} :: post
  | Bad _ => True
  end.
Proof. exact unwind_exception. Qed.

(* return runs the innermost enclosing finally body next; none is skipped *)
Theorem C02_return_runs_finally : forall fuel st bs o,
  unwind fuel RRet st bs = o ->
  match o with
  | Exit => forallb (fun b => negb (is_finally b)) bs = true
  | Next s => exists pre b post, bs = pre ++ b :: post /\
                forallb (fun b => negb (is_finally b)) pre = true /\ is_finally b = true /\
                a_pc s = b_handler b /\ a_blocks s = post /\
                exists r, a_stack s = TWhy WRet :: TAny :: r
  | Bad _ => True
  end.
Proof. exact unwind_return. Qed.

(* break leaves the innermost loop, through any finally body in between *)
Theorem C02_break_path : forall fuel st bs o,
  unwind fuel RBrk st bs = o ->
  match o with
  | Exit => forallb (fun b => negb (is_finally b) && negb (is_loop b)) bs = true
  | Next s => exists pre b post, bs = pre ++ b :: post /\
                forallb (fun b => negb (is_finally b) && negb (is_loop b)) pre = true /\
                a_pc s = b_handler b /\ a_blocks s = post /\
                ((is_loop b = true) \/ (is_finally b = true /\ exists r, a_stack s = TWhy WBrk :: r))
  | Bad _ => True
  end.
Proof. exact unwind_break. Qed.

(* the handler taken is the first whose class is in the MRO of the raised class, and no
   earlier clause matches *)
Theorem C02_handler_selection : forall mro hs k, select_handler mro hs = Some k ->
  (exists h, nth_error hs k = Some h /\ exists c, In c h /\ In c mro) /\
  (forall j h, j < k -> nth_error hs j = Some h -> forall c, In c h -> ~ In c mro).
Proof. exact select_handler_first. Qed.

Example C02_nonvacuous :
  unwind 8 RExc [TAny; TAny]
    [ {| b_kind := BLoop; b_handler := 50%N; b_level := 1 |};
      {| b_kind := BFinally; b_handler := 70%N; b_level := 0 |};
      {| b_kind := BExcept; b_handler := 90%N; b_level := 0 |} ]
  = Next {| a_pc := 70%N; a_stack := [TExc; TAny; TAny; TAny; TAny; TAny];
            a_blocks := [ {| b_kind := BHandler; b_handler := 0%N; b_level := 0 |};
                          {| b_kind := BExcept; b_handler := 90%N; b_level := 0 |} ] |}.
Proof. vm_compute. reflexivity. Qed.

Print Assumptions C02_exception_not_swallowed.
Print Assumptions C02_return_runs_finally.
Print Assumptions C02_break_path.
Print Assumptions C02_handler_selection.
