(* C17 -- containers over histories with aliases: the Go-level storage of lists (slice headers
   over backing arrays, in-place append/delete/store, reallocation when the capacity is
   exhausted) never lets two distinct list objects share storage, so a mutation is visible
   exactly through the object mutated (all of its aliases) and never through a copy. *)
From Coq Require Import List Arith.
Import ListNotations.
From GP Require Import Model.ListHeap Proofs.ListHeap.

Theorem C17_append_fresh_or_private : forall w i v, separated w ->
  separated (append1 w i v) /\ forall j, j <> i -> contents (append1 w i v) j = contents w j.
Proof. exact append_sep. Qed.

Theorem C17_ops_preserve_separation : forall w i k v, separated w ->
  (separated (setitem w i k v) /\ forall j, j <> i -> contents (setitem w i k v) j = contents w j) /\
  (separated (delitem w i k) /\ forall j, j <> i -> contents (delitem w i k) j = contents w j) /\
  (i < length (lists w) ->
     separated (copy_of w i) /\ contents (copy_of w i) (length (lists w)) = contents w i /\
     forall j, j < length (lists w) -> contents (copy_of w i) j = contents w j).
Proof.
  intros w i k v S. split; [apply setitem_sep; auto|]. split; [apply delitem_sep; auto|]. intros Hi. apply copy_sep; auto.
Qed.

(* non-vacuity: copy, then append to the original until it reallocates, then delete from the
   copy: each side keeps its own contents *)
Example C17_nonvacuous :
  let w0 := {| lists := [{| arr := 0; len := 2; cap := 2 |}]; mem := fun _ => [7; 8]; next := 1 |} in
  let w := delitem (append1 (append1 (copy_of w0 0) 0 9) 0 10) 1 0 in
  contents w 0 = [7; 8; 9; 10] /\ contents w 1 = [8].
Proof. vm_compute. auto. Qed.

Print Assumptions C17_append_fresh_or_private.
Print Assumptions C17_ops_preserve_separation.
