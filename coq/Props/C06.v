(* C06 -- parsing yields the tree the grammar assigns; literals denote the values Python defines.

   Model/Escape.v: parser/stringescape.go DecodeEscape over code points, and the digit loop of
   integer literals.  Theorems:
     - for EVERY string (any length, any code points) and EVERY spelling of it -- each character
       written literally, as a named escape, as three octal digits, as \xhh, \uhhhh or \Uhhhhhhhh,
       in any mixture that is available for that character in a str (resp. bytes) literal --
       decoding the spelled text gives exactly the string;
     - the digits of v in base 2..16 denote v (0b/0o/0x/decimal integer literals).
   The tie is the comparison of DecodeEscape with the model on generated escape sequences, valid
   and malformed.  The grammar itself (lexer state machine, LALR tables, actions) is compared with
   CPython's parser -- through a dumper validated on the repository's CPython-3.4-generated corpus
   -- on base programs, re-spellings and token mutants (tools/props/c06.py); that part is testing. *)
From Coq Require Import List NArith.
Import ListNotations.
From GP Require Import Model.Escape Proofs.Escape.
Open Scope N_scope.

Theorem C06_decode_of_any_spelling : forall bmode (l : list (N * spelling)),
  Forall (fun cs => valid bmode (fst cs) (snd cs) = true) l ->
  decode bmode (flat_map (fun cs => render (fst cs) (snd cs)) l) = Some (map fst l).
Proof. exact decode_render. Qed.

Theorem C06_int_literal_denotes_its_value : forall base v f, 2 <= base -> base <= 16 -> v < base ^ N.of_nat f ->
  parse_digits base (digits_of f base v) 0 = Some v.
Proof. exact int_literal_value. Qed.

(* non-vacuity: "A\n<e-acute><emoji>\\" spelled with one spelling of each kind; malformed escapes are rejected *)
Example C06_examples :
  decode false (flat_map (fun cs => render (fst cs) (snd cs)) [(65, SHex2); (10, SNamed); (233, SOct3); (128512, SU8); (92, SNamed); (66, SLit); (8364, SU4)])
    = Some [65; 10; 233; 128512; 92; 66; 8364] /\
  render 233 SOct3 = [92; 51; 53; 49] /\
  decode false [92; 120; 45; 49] = None /\ decode false [92; 85; 48; 48; 49; 49; 48; 48; 48; 48] = None /\ decode false [65; 92] = None /\
  decode true [92; 117; 48; 48; 52; 49] = Some [92; 117; 48; 48; 52; 49] /\
  parse_digits 16 (digits_of 4 16 48879) 0 = Some 48879.
Proof. vm_compute. repeat split. Qed.

Print Assumptions C06_decode_of_any_spelling.
Print Assumptions C06_int_literal_denotes_its_value.
