(* C15 -- float and mixed int/float arithmetic.

   Model/Float.v is gpython's own float algorithms over Flocq's binary64 (BinarySingleNaN): int ->
   float, float -> int, comparison of a float with an int of any size, round(x), the rational
   round-half-even used by round(x, n) and round(int, -k), and floatDivMod with an exact remainder.
   It is tied to py/float.go, py/int.go, py/bigint.go by bit-pattern correspondence on a lattice of
   special doubles and boundary ints plus random bit patterns (tools/props/c15.py), and the
   operators, conversions and fold builtins are compared with CPython on the same lattice.
   Theorems (about the model, for ALL doubles / ALL ints):
     - comparison float vs int is exact: the model's verdict is Rcompare of the real values;
     - int -> float is the nearest double, ties to even, or OverflowError exactly when that
       rounding reaches 2^1024;
     - float -> int is truncation of the real value; round(x) is the nearest integer, ties to even;
     - the rational rounding n = rne_q num den is within half a unit and on a tie n is even;
       round(int, -k) is a multiple of 10^k within half of it, the even one on a tie.
   Not proved: sign/identity laws of floatDivMod under rounding (compared with CPython and with the
   model bit for bit); pow (libm); shortest repr (strconv.FormatFloat, tested by round trip). *)
From Coq Require Import ZArith Reals.
From Flocq Require Import Core.Zaux Core.Raux Core.Defs Core.Generic_fmt Core.FIX Core.Round_NE IEEE754.BinarySingleNaN.
From GP Require Import Model.Float Proofs.Float.
Open Scope Z_scope.

Theorem C15_cmp_exact : forall x n c, cmp_float_int x n = Some c -> BinarySingleNaN.is_finite x = true ->
  c = Rcompare (BinarySingleNaN.B2R x) (IZR n).
Proof. exact cmp_float_int_exact. Qed.

Theorem C15_int_to_float_nearest_even : forall n,
  match int_to_float n with
  | Ok z => BinarySingleNaN.B2R z = round radix2 (SpecFloat.fexp prec emax) ZnearestE (IZR n) /\ BinarySingleNaN.is_finite z = true
  | OverflowErr => (bpow radix2 emax <= Rabs (round radix2 (SpecFloat.fexp prec emax) ZnearestE (IZR n)))%R
  | _ => False
  end.
Proof. exact int_to_float_correct. Qed.

Theorem C15_float_to_int_truncates : forall x z, float_to_int x = Ok z ->
  IZR z = round radix2 (FIX_exp 0) Ztrunc (BinarySingleNaN.B2R x).
Proof. exact float_to_int_trunc. Qed.

Theorem C15_round_half_even : forall x z, round_float x = Ok z ->
  IZR z = round radix2 (FIX_exp 0) ZnearestE (BinarySingleNaN.B2R x).
Proof. exact round_float_half_even. Qed.

Theorem C15_rational_round_half_even : forall num den, 0 < den ->
  let n := rne_q num den in
  2 * Z.abs (num - n * den) <= den /\ (2 * Z.abs (num - n * den) = den -> Z.even n = true).
Proof. exact rne_q_nearest. Qed.

Theorem C15_int_round_half_even : forall a k, 0 < k ->
  let s := 10 ^ k in let r := round_int a k in
  (exists m, r = m * s /\ (2 * Z.abs (a - r) = s -> Z.even m = true)) /\ 2 * Z.abs (a - r) <= s.
Proof. exact round_int_nearest. Qed.

(* non-vacuity: 2^53+1 against 2.0^53; float(2^64+2^11+1); round(2.5); round(25, -1) *)
Example C15_examples :
  cmp_float_int (of_bits 4845873199050653696) 9007199254740993 = Some Lt /\
  match int_to_float 18446744073709553665 with Ok z => bits_of z | _ => 0 end = 4895412794951729153 /\
  round_float (of_bits 4612811918334230528) = Ok 2 /\ round_int 25 1 = 20 /\ round_int 35 1 = 40 /\ rne_q 5 2 = 2 /\ rne_q 7 2 = 4.
Proof. vm_compute. repeat split. Qed.

Print Assumptions C15_cmp_exact.
Print Assumptions C15_int_to_float_nearest_even.
Print Assumptions C15_float_to_int_truncates.
Print Assumptions C15_round_half_even.
Print Assumptions C15_rational_round_half_even.
Print Assumptions C15_int_round_half_even.
