(* C10 -- no Python-level action can panic or abort the embedding process.

   Theorems:
   (a) Model/Args.v (py/args.go: parseFormat, checkNumberOfArgs, ParseTupleAndKeywords, UnpackTuple;
       tied by outcome-and-written-slots correspondence on generated calls): for EVERY format
       string, argument count, keyword set, kwlist and number of result pointers the helpers never
       access results (or args, kwlist) out of bounds -- they return an error first;
   (b) the checked conversions before Go-level indexing: Slice.GetIndices and the range helpers
       are covered by C13's theorems over the go2v translation (indices always inside the sequence);
   (c) the regenerated, type-checked inventory of unchecked type assertions, index and slice
       expressions and explicit panics in
       py/, vm/ and stdlib/builtin: every function's counts are within the audited table (a new
       unchecked assertion or panic anywhere fails this theorem).
   Not proved: that each audited unchecked assertion is preceded by a sufficient check -- searched
   by enumerating every callable reachable from builtins and from every builtin type's attribute
   table, every operator/subscript/statement form, over all argument tuples of arity 0-2 and a
   stride of arity 3 from a universe of 61 values, with recover() around each call and the worker
   process's exit status as second observation (tools/props/c10.py). *)
From Coq Require Import List Bool Arith String.
Import ListNotations.
From GP Require Import Gen.Inventories Model.Args Proofs.Args.

Theorem C10_parse_tuple_and_keywords_in_bounds : forall typeok format nargs kwargs kwlist nresults,
  Forall (fun j => fst j < nresults) (fst (ptak typeok format nargs kwargs kwlist nresults)).
Proof. exact ptak_never_out_of_bounds. Qed.

Theorem C10_unpack_tuple_in_bounds : forall nargs nkwargs mn mx nresults,
  Forall (fun j => fst j < nresults) (fst (unpack_tuple nargs nkwargs mn mx nresults)).
Proof. exact unpack_tuple_never_out_of_bounds. Qed.

(* non-vacuity: "Oi|O$O:name" with two positional arguments and keyword d: slots 0, 1 and 3 *)
Example C10_args_example :
  ptak (fun _ => true) [79; 105; 124; 79; 36; 79; 58; 110] 2 [3] (Some [0; 1; 2; 3]) 4 = ([(0, true); (1, true); (3, true)], false) /\
  ptak (fun _ => true) [79; 79; 79] 3 [] None 2 = ([], true).
Proof. vm_compute. split; reflexivity. Qed.

Open Scope string_scope.
(* (package, function, unchecked type assertions, index expressions on slices/arrays/strings,
   slice expressions, explicit panics): the audited state of the code *)
Definition audited_risky : list (string * string * nat * nat * nat * nat) := [
  ("py", "ParseTupleAndKeywords", 0%nat, 3%nat, 1%nat, 0%nat);
  ("py", "parseFormat", 0%nat, 2%nat, 2%nat, 0%nat);
  ("py", "UnpackTuple", 0%nat, 2%nat, 0%nat, 0%nat);
  ("py", "BoundMethod.M__call__", 0%nat, 1%nat, 1%nat, 0%nat);
  ("py", "BytesNew", 1%nat, 0%nat, 0%nat, 0%nat);
  ("py", "Bytes.M__add__", 0%nat, 0%nat, 2%nat, 0%nat);
  ("py", "Bytes.Replace", 3%nat, 0%nat, 0%nat, 0%nat);
  ("py", "init@bytes.go", 1%nat, 0%nat, 0%nat, 0%nat);
  ("py", "init@classmethod.go", 1%nat, 0%nat, 0%nat, 0%nat);
  ("py", "intern_strings", 1%nat, 1%nat, 0%nat, 0%nat);
  ("py", "NewCode", 13%nat, 10%nat, 0%nat, 1%nat);
  ("py", "Code.InitCell2arg", 0%nat, 3%nat, 0%nat, 0%nat);
  ("py", "Code.Addr2Line", 0%nat, 2%nat, 0%nat, 0%nat);
  ("py", "ComplexNew", 2%nat, 0%nat, 0%nat, 0%nat);
  ("py", "Complex.M__str__", 1%nat, 0%nat, 0%nat, 0%nat);
  ("py", "init@complex.go", 3%nat, 0%nat, 0%nat, 0%nat);
  ("py", "init@dict.go", 4%nat, 3%nat, 0%nat, 0%nat);
  ("py", "DictNew", 0%nat, 3%nat, 0%nat, 0%nat);
  ("py", "EnumerateIterator.M__next__", 0%nat, 2%nat, 0%nat, 0%nat);
  ("py", "ExceptionGivenMatches", 2%nat, 1%nat, 0%nat, 0%nat);
  ("py", "Exception.M__str__", 0%nat, 1%nat, 0%nat, 0%nat);
  ("py", "Exception.M__repr__", 2%nat, 0%nat, 0%nat, 0%nat);
  ("py", "init@file.go", 5%nat, 0%nat, 0%nat, 0%nat);
  ("py", "File.Write", 1%nat, 0%nat, 0%nat, 0%nat);
  ("py", "File.ReadLine", 0%nat, 2%nat, 0%nat, 0%nat);
  ("py", "Float.M__str__", 0%nat, 0%nat, 1%nat, 0%nat);
  ("py", "FloatFromString", 0%nat, 1%nat, 0%nat, 0%nat);
  ("py", "NewFrame", 0%nat, 0%nat, 2%nat, 0%nat);
  ("py", "Frame.PushBlock", 0%nat, 1%nat, 0%nat, 0%nat);
  ("py", "Frame.PopBlock", 0%nat, 1%nat, 1%nat, 0%nat);
  ("py", "map_to_dict", 0%nat, 2%nat, 0%nat, 1%nat);
  ("py", "dict_to_map", 0%nat, 4%nat, 0%nat, 1%nat);
  ("py", "Frame.FastToLocals", 0%nat, 0%nat, 2%nat, 0%nat);
  ("py", "Frame.LocalsToFast", 0%nat, 0%nat, 2%nat, 0%nat);
  ("py", "NewFunction", 0%nat, 1%nat, 0%nat, 0%nat);
  ("py", "init@function.go", 17%nat, 0%nat, 0%nat, 0%nat);
  ("py", "init@generator.go", 3%nat, 0%nat, 0%nat, 0%nat);
  ("py", "XImportModuleLevelObject", 4%nat, 0%nat, 5%nat, 0%nat);
  ("py", "BuiltinImport", 1%nat, 0%nat, 0%nat, 0%nat);
  ("py", "IntFromString", 0%nat, 10%nat, 2%nat, 0%nat);
  ("py", "Iterator.M__next__", 0%nat, 1%nat, 0%nat, 0%nat);
  ("py", "init@list.go", 2%nat, 3%nat, 0%nat, 0%nat);
  ("py", "NewListFromStrings", 0%nat, 1%nat, 0%nat, 0%nat);
  ("py", "List.Resize", 0%nat, 0%nat, 1%nat, 0%nat);
  ("py", "List.M__getitem__", 0%nat, 3%nat, 0%nat, 0%nat);
  ("py", "List.M__setitem__", 0%nat, 3%nat, 2%nat, 0%nat);
  ("py", "List.DelItem", 0%nat, 0%nat, 2%nat, 0%nat);
  ("py", "List.M__delitem__", 0%nat, 0%nat, 2%nat, 0%nat);
  ("py", "List.M__add__", 0%nat, 0%nat, 1%nat, 0%nat);
  ("py", "List.M__mul__", 0%nat, 0%nat, 1%nat, 0%nat);
  ("py", "List.M__eq__", 0%nat, 2%nat, 0%nat, 0%nat);
  ("py", "List.M__ne__", 0%nat, 2%nat, 0%nat, 0%nat);
  ("py", "MapTypeNew", 0%nat, 3%nat, 0%nat, 0%nat);
  ("py", "Map.M__next__", 0%nat, 2%nat, 0%nat, 0%nat);
  ("py", "MustNewMethod", 0%nat, 0%nat, 0%nat, 1%nat);
  ("py", "Method.Call", 0%nat, 1%nat, 0%nat, 1%nat);
  ("py", "Method.CallWithKeywords", 0%nat, 0%nat, 0%nat, 1%nat);
  ("py", "Method.M__call__", 0%nat, 3%nat, 1%nat, 0%nat);
  ("py", "ModuleStore.MustGetModule", 0%nat, 0%nat, 0%nat, 1%nat);
  ("py", "init@set.go", 1%nat, 1%nat, 0%nat, 0%nat);
  ("py", "init@slice.go", 3%nat, 0%nat, 0%nat, 0%nat);
  ("py", "init@staticmethod.go", 1%nat, 0%nat, 0%nat, 0%nat);
  ("py", "init@string.go", 12%nat, 6%nat, 2%nat, 0%nat);
  ("py", "String.M__mod__", 0%nat, 2%nat, 0%nat, 0%nat);
  ("py", "String.slice", 0%nat, 0%nat, 3%nat, 0%nat);
  ("py", "String.M__getitem__", 0%nat, 4%nat, 3%nat, 0%nat);
  ("py", "String.window", 0%nat, 5%nat, 0%nat, 0%nat);
  ("py", "String.Count", 3%nat, 0%nat, 0%nat, 0%nat);
  ("py", "String.find", 3%nat, 0%nat, 1%nat, 0%nat);
  ("py", "String.Split", 1%nat, 0%nat, 0%nat, 0%nat);
  ("py", "String.Replace", 3%nat, 0%nat, 0%nat, 0%nat);
  ("py", "String.Join", 0%nat, 1%nat, 0%nat, 0%nat);
  ("py", "init@traceback.go", 4%nat, 0%nat, 0%nat, 0%nat);
  ("py", "Tuple.Reverse", 0%nat, 4%nat, 0%nat, 0%nat);
  ("py", "Tuple.M__getitem__", 0%nat, 3%nat, 1%nat, 0%nat);
  ("py", "Tuple.M__add__", 0%nat, 0%nat, 1%nat, 0%nat);
  ("py", "Tuple.M__mul__", 0%nat, 0%nat, 1%nat, 0%nat);
  ("py", "Tuple.M__eq__", 0%nat, 2%nat, 0%nat, 0%nat);
  ("py", "Tuple.M__ne__", 0%nat, 2%nat, 0%nat, 0%nat);
  ("py", "Type.IsSubtype", 1%nat, 0%nat, 0%nat, 0%nat);
  ("py", "Type.Lookup", 1%nat, 0%nat, 0%nat, 0%nat);
  ("py", "tail_contains", 0%nat, 1%nat, 0%nat, 0%nat);
  ("py", "check_duplicates", 0%nat, 2%nat, 0%nat, 0%nat);
  ("py", "pmerge", 3%nat, 11%nat, 0%nat, 0%nat);
  ("py", "Type.mro_implementation", 1%nat, 3%nat, 0%nat, 0%nat);
  ("py", "Type.mro_internal", 0%nat, 1%nat, 0%nat, 0%nat);
  ("py", "Type.Ready", 0%nat, 1%nat, 0%nat, 2%nat);
  ("py", "best_base", 0%nat, 1%nat, 0%nat, 1%nat);
  ("py", "TypeNew", 1%nat, 1%nat, 0%nat, 0%nat);
  ("py", "ObjectInit", 0%nat, 1%nat, 1%nat, 0%nat);
  ("py", "LoadTuple", 0%nat, 2%nat, 1%nat, 0%nat);
  ("py", "LoadIntsFromList", 0%nat, 1%nat, 0%nat, 0%nat);
  ("py", "Println", 1%nat, 0%nat, 0%nat, 0%nat);
  ("py", "ZipTypeNew", 0%nat, 2%nat, 0%nat, 0%nat);
  ("py", "Zip.M__next__", 0%nat, 2%nat, 0%nat, 0%nat);
  ("vm", "Vm.TOP", 0%nat, 1%nat, 0%nat, 0%nat);
  ("vm", "Vm.SECOND", 0%nat, 1%nat, 0%nat, 0%nat);
  ("vm", "Vm.THIRD", 0%nat, 1%nat, 0%nat, 0%nat);
  ("vm", "Vm.FOURTH", 0%nat, 1%nat, 0%nat, 0%nat);
  ("vm", "Vm.PEEK", 0%nat, 1%nat, 0%nat, 0%nat);
  ("vm", "Vm.SET_TOP", 0%nat, 1%nat, 0%nat, 0%nat);
  ("vm", "Vm.SET_SECOND", 0%nat, 1%nat, 0%nat, 0%nat);
  ("vm", "Vm.SET_THIRD", 0%nat, 1%nat, 0%nat, 0%nat);
  ("vm", "Vm.SET_FOURTH", 0%nat, 1%nat, 0%nat, 0%nat);
  ("vm", "Vm.SET_VALUE", 0%nat, 1%nat, 0%nat, 0%nat);
  ("vm", "Vm.DROP", 0%nat, 0%nat, 1%nat, 0%nat);
  ("vm", "Vm.DROPN", 0%nat, 0%nat, 1%nat, 0%nat);
  ("vm", "Vm.POP", 0%nat, 1%nat, 1%nat, 0%nat);
  ("vm", "Vm.EXTEND_REVERSED", 0%nat, 0%nat, 1%nat, 0%nat);
  ("vm", "do_PRINT_EXPR", 1%nat, 0%nat, 0%nat, 0%nat);
  ("vm", "unpack_iterable", 0%nat, 3%nat, 0%nat, 0%nat);
  ("vm", "do_SET_ADD", 1%nat, 0%nat, 0%nat, 0%nat);
  ("vm", "do_LIST_APPEND", 1%nat, 0%nat, 0%nat, 0%nat);
  ("vm", "do_YIELD_FROM", 0%nat, 1%nat, 0%nat, 0%nat);
  ("vm", "do_IMPORT_STAR", 1%nat, 0%nat, 0%nat, 0%nat);
  ("vm", "do_END_FINALLY", 0%nat, 0%nat, 0%nat, 3%nat);
  ("vm", "do_WITH_CLEANUP", 0%nat, 0%nat, 0%nat, 1%nat);
  ("vm", "do_STORE_NAME", 0%nat, 2%nat, 0%nat, 0%nat);
  ("vm", "do_DELETE_NAME", 0%nat, 1%nat, 0%nat, 0%nat);
  ("vm", "do_STORE_ATTR", 0%nat, 1%nat, 0%nat, 0%nat);
  ("vm", "do_DELETE_ATTR", 0%nat, 1%nat, 0%nat, 0%nat);
  ("vm", "do_STORE_GLOBAL", 0%nat, 1%nat, 0%nat, 0%nat);
  ("vm", "do_DELETE_GLOBAL", 0%nat, 1%nat, 0%nat, 0%nat);
  ("vm", "do_LOAD_CONST", 0%nat, 1%nat, 0%nat, 0%nat);
  ("vm", "do_LOAD_NAME", 0%nat, 1%nat, 0%nat, 0%nat);
  ("vm", "do_BUILD_TUPLE", 0%nat, 0%nat, 1%nat, 0%nat);
  ("vm", "do_BUILD_SET", 0%nat, 0%nat, 1%nat, 0%nat);
  ("vm", "do_BUILD_LIST", 0%nat, 0%nat, 1%nat, 0%nat);
  ("vm", "do_LOAD_ATTR", 0%nat, 1%nat, 0%nat, 0%nat);
  ("vm", "do_COMPARE_OP", 0%nat, 0%nat, 0%nat, 1%nat);
  ("vm", "do_IMPORT_NAME", 0%nat, 1%nat, 0%nat, 0%nat);
  ("vm", "do_IMPORT_FROM", 0%nat, 1%nat, 0%nat, 0%nat);
  ("vm", "do_POP_JUMP_IF_TRUE", 1%nat, 0%nat, 0%nat, 0%nat);
  ("vm", "do_POP_JUMP_IF_FALSE", 1%nat, 0%nat, 0%nat, 0%nat);
  ("vm", "do_JUMP_IF_TRUE_OR_POP", 1%nat, 0%nat, 0%nat, 0%nat);
  ("vm", "do_JUMP_IF_FALSE_OR_POP", 1%nat, 0%nat, 0%nat, 0%nat);
  ("vm", "do_LOAD_GLOBAL", 0%nat, 1%nat, 0%nat, 0%nat);
  ("vm", "do_LOAD_FAST", 0%nat, 2%nat, 0%nat, 0%nat);
  ("vm", "do_STORE_FAST", 0%nat, 1%nat, 0%nat, 0%nat);
  ("vm", "do_DELETE_FAST", 0%nat, 3%nat, 0%nat, 0%nat);
  ("vm", "_var_name", 0%nat, 2%nat, 0%nat, 0%nat);
  ("vm", "do_LOAD_CLOSURE", 0%nat, 1%nat, 0%nat, 0%nat);
  ("vm", "do_LOAD_DEREF", 1%nat, 1%nat, 0%nat, 0%nat);
  ("vm", "do_LOAD_CLASSDEREF", 1%nat, 1%nat, 0%nat, 0%nat);
  ("vm", "do_STORE_DEREF", 1%nat, 1%nat, 0%nat, 0%nat);
  ("vm", "do_DELETE_DEREF", 1%nat, 1%nat, 0%nat, 0%nat);
  ("vm", "do_RAISE_VARARGS", 0%nat, 0%nat, 0%nat, 1%nat);
  ("vm", "_make_function", 6%nat, 2%nat, 0%nat, 1%nat);
  ("vm", "do_BUILD_SLICE", 0%nat, 0%nat, 0%nat, 1%nat);
  ("vm", "callInternal", 0%nat, 1%nat, 0%nat, 0%nat);
  ("vm", "Vm.Call", 0%nat, 3%nat, 3%nat, 1%nat);
  ("vm", "Vm.UnwindBlock", 0%nat, 0%nat, 1%nat, 0%nat);
  ("vm", "Vm.UnwindExceptHandler", 0%nat, 0%nat, 1%nat, 1%nat);
  ("vm", "RunFrame", 1%nat, 4%nat, 0%nat, 2%nat);
  ("vm", "formatMissing", 0%nat, 5%nat, 1%nat, 1%nat);
  ("vm", "missingArguments", 0%nat, 2%nat, 0%nat, 0%nat);
  ("vm", "tooManyPositional", 0%nat, 1%nat, 0%nat, 0%nat);
  ("vm", "EvalCode", 0%nat, 24%nat, 0%nat, 0%nat);
  ("vm", "init@jumptable.go", 0%nat, 102%nat, 0%nat, 0%nat);
  ("vm", "vmStatus.String", 0%nat, 2%nat, 1%nat, 0%nat);
  ("stdlib/builtin", "builtin_print", 3%nat, 0%nat, 0%nat, 0%nat);
  ("stdlib/builtin", "builtin_ascii", 1%nat, 0%nat, 0%nat, 0%nat);
  ("stdlib/builtin", "builtin___build_class__", 1%nat, 3%nat, 1%nat, 0%nat);
  ("stdlib/builtin", "builtin_open", 4%nat, 0%nat, 0%nat, 0%nat);
  ("stdlib/builtin", "builtin_oct", 0%nat, 0%nat, 2%nat, 0%nat);
  ("stdlib/builtin", "builtin_ord", 0%nat, 1%nat, 0%nat, 0%nat);
  ("stdlib/builtin", "builtin_compile", 5%nat, 0%nat, 0%nat, 0%nat);
  ("stdlib/builtin", "builtin_hex", 0%nat, 0%nat, 2%nat, 0%nat);
  ("stdlib/builtin", "isinstance", 0%nat, 1%nat, 0%nat, 0%nat);
  ("stdlib/builtin", "builtin_iter", 0%nat, 2%nat, 0%nat, 0%nat);
  ("stdlib/builtin", "builtin_chr", 1%nat, 0%nat, 1%nat, 0%nat);
  ("stdlib/builtin", "builtin_input", 1%nat, 0%nat, 0%nat, 0%nat);
  ("stdlib/builtin", "builtinExit", 1%nat, 0%nat, 0%nat, 0%nat)
].
Definition within_audit (r : string * string * nat * nat * nat * nat) : bool :=
  let '(pkg, fn, na, ni, ns, np) := r in
  existsb (fun a => let '(ap, af, ana, ani, ans, anp) := a in
    String.eqb ap pkg && String.eqb af fn && Nat.leb na ana && Nat.leb ni ani && Nat.leb ns ans && Nat.leb np anp) audited_risky.
Theorem C10_every_risky_site_is_audited : forallb within_audit risky_counts = true.
Proof. vm_compute. reflexivity. Qed.

Print Assumptions C10_parse_tuple_and_keywords_in_bounds.
Print Assumptions C10_unpack_tuple_in_bounds.
Print Assumptions C10_every_risky_site_is_audited.
